//! Direct oracles: each property evaluated on the real crate's observable behaviour, written
//! without reference to the Lean model.  These produce the replays.
use crate::cases::*;
use crate::exec::*;
use crate::proto::*;
use crate::{with_any, with_type};
use shapefile::*;
use std::io::Cursor;
use std::panic::{catch_unwind, AssertUnwindSafe};

pub struct Verdict {
    pub ok: bool,
    /// stable identifier of *what* failed (matched against known_findings.json)
    pub signature: String,
    pub message: String,
}
impl Verdict {
    pub fn pass() -> Self {
        Verdict { ok: true, signature: String::new(), message: String::new() }
    }
    pub fn fail(sig: &str, msg: String) -> Self {
        Verdict { ok: false, signature: sig.to_string(), message: msg }
    }
}

fn le(a: u64, b: u64) -> bool {
    f(a) <= f(b)
}

// ------------------------------------------------------------------ normalisation (C01)
pub fn norm_m(b: u64) -> u64 {
    let v = f(b);
    if v.is_nan() || v <= shapefile::NO_DATA {
        NO_DATA_BITS
    } else {
        b
    }
}
fn norm_pts(ps: &[P]) -> Vec<P> {
    ps.iter().map(|p| P { m: norm_m(p.m), ..*p }).collect()
}

/// exact signed shoelace sum when every coordinate is an integer of magnitude <= 2^20
pub fn exact_area2(ps: &[P]) -> Option<i128> {
    // coordinates that are integer multiples of 2^-40 below 2^20 in magnitude: the doubled area is
    // an exact integer multiple of 2^-80 (only its sign and zero-ness are used)
    let mut xs = vec![];
    let scale = (1u64 << 40) as f64;
    for p in ps {
        let (x, y) = (f(p.x), f(p.y));
        if !(x.is_finite() && y.is_finite()) || x.abs() > 1048576.0 || y.abs() > 1048576.0 {
            return None;
        }
        let (sx, sy) = (x * scale, y * scale);
        if sx.fract() != 0.0 || sy.fract() != 0.0 {
            return None;
        }
        xs.push((sx as i128, sy as i128));
    }
    let mut s = 0i128;
    for w in xs.windows(2) {
        s += (w[1].0 - w[0].0) * (w[1].1 + w[0].1);
    }
    Some(s)
}

/// what reading back a written shape must yield (C01): M of multi-vertex shapes normalised,
/// ring roles kept only when the exact area is known and non-zero (otherwise not compared:
/// both sides are mapped to Outer)
pub fn expected_readback(v: &SV) -> SV {
    match v {
        SV::Null | SV::Point(..) => v.clone(),
        SV::Multipoint(d, b, ps) => SV::Multipoint(*d, *b, if d.has_m() { norm_pts(ps) } else { ps.clone() }),
        SV::Polyline(d, b, pp) => SV::Polyline(*d, *b, pp.iter().map(|ps| if d.has_m() { norm_pts(ps) } else { ps.clone() }).collect()),
        SV::Polygon(d, b, rr) => SV::Polygon(
            *d,
            *b,
            rr.iter()
                .map(|(r, ps)| {
                    let keep = matches!(exact_area2(ps), Some(a) if a != 0);
                    (if keep { *r } else { Role::Outer }, if d.has_m() { norm_pts(ps) } else { ps.clone() })
                })
                .collect(),
        ),
        SV::Multipatch(b, pp) => SV::Multipatch(*b, pp.iter().map(|(k, ps)| (*k, norm_pts(ps))).collect()),
    }
}
/// the same role-blinding applied to what was read (roles of rings whose exact area is unknown
/// or zero are not compared)
pub fn blind_roles(v: &SV) -> SV {
    match v {
        SV::Polygon(d, b, rr) => SV::Polygon(
            *d,
            *b,
            rr.iter()
                .map(|(r, ps)| {
                    let keep = matches!(exact_area2(ps), Some(a) if a != 0);
                    (if keep { *r } else { Role::Outer }, ps.clone())
                })
                .collect(),
        ),
        _ => v.clone(),
    }
}

pub fn scratch_dir() -> std::path::PathBuf {
    let base = std::env::var("VERIF_WORK").unwrap_or_else(|_| "/verif/work".into());
    let p = std::path::PathBuf::from(base).join(format!("h{}", std::process::id()));
    std::fs::create_dir_all(&p).unwrap();
    p
}
pub fn cleanup_scratch() {
    let base = std::env::var("VERIF_WORK").unwrap_or_else(|_| "/verif/work".into());
    let p = std::path::PathBuf::from(base).join(format!("h{}", std::process::id()));
    let _ = std::fs::remove_dir_all(p);
}

fn collect_as<S: shapefile::record::ReadableShape + ToSV, T: std::io::Read + std::io::Seek>(mut r: ShapeReader<T>) -> Result<Vec<SV>, String> {
    let mut out = vec![];
    let mut n = 0;
    for item in r.iter_shapes_as::<S>() {
        n += 1;
        if n > 100000 {
            return Err("runaway".into());
        }
        match item {
            Ok(s) => out.push(s.to_sv()),
            Err(e) => return Err(format!("err {}", show_err(&e))),
        }
    }
    Ok(out)
}
fn nth_as<S: shapefile::record::ReadableShape + ToSV, T: std::io::Read + std::io::Seek>(mut r: ShapeReader<T>, n: usize) -> Result<Vec<SV>, String> {
    let mut out = vec![];
    // random access in a scrambled order, every index once, plus one past the end
    let mut order: Vec<usize> = (0..n).collect();
    order.reverse();
    let mut got: Vec<Option<SV>> = vec![None; n];
    for i in order {
        match r.read_nth_shape_as::<S>(i) {
            Some(Ok(s)) => got[i] = Some(s.to_sv()),
            Some(Err(e)) => return Err(format!("nth({}) err {}", i, show_err(&e))),
            None => return Err(format!("nth({}) none", i)),
        }
    }
    if r.read_nth_shape_as::<S>(n).is_some() {
        return Err(format!("nth({}) past the end returned something", n));
    }
    for g in got {
        out.push(g.unwrap());
    }
    Ok(out)
}

/// C01: write, then read back by every route
pub fn oracle_c01(ctors: &[Ctor]) -> Verdict {
    let mut shapes = vec![];
    for c in ctors {
        match build(c) {
            Ok(a) => shapes.push(a),
            Err(_) => return Verdict::pass(), // not a constructible sequence: out of scope
        }
    }
    if shapes.is_empty() {
        return Verdict::pass();
    }
    let tname = ctors[0].type_name();
    let expected: Vec<SV> = shapes.iter().map(|a| expected_readback(&sv_of_any(a))).collect();
    let r = catch_unwind(AssertUnwindSafe(|| -> Result<(), (String, String)> {
        let (shp, shx) = write_files(true, &shapes);
        let n = shapes.len();
        let tn: &str = &tname;
        let mut routes: Vec<(String, Result<Vec<SV>, String>)> = vec![];
        let open = |with: bool| -> ShapeReader<Cursor<Vec<u8>>> {
            if with {
                ShapeReader::with_shx(Cursor::new(shp.clone()), Cursor::new(shx.clone())).unwrap()
            } else {
                ShapeReader::new(Cursor::new(shp.clone())).unwrap()
            }
        };
        for with in [true, false] {
            routes.push((format!("cursor/generic/seq/shx={}", with), collect_as::<Shape, _>(open(with))));
            routes.push((
                format!("cursor/typed/seq/shx={}", with),
                with_type!(tn, T => collect_as::<T, _>(open(with)), else Err("bad type".into())),
            ));
        }
        // the bulk calls, and a source that hands out three bytes per read call
        for with in [true, false] {
            routes.push((format!("cursor/generic/bulk/shx={}", with), open(with).read().map(|v| v.iter().map(|s| s.to_sv()).collect()).map_err(|e| show_err(&e))));
            routes.push((
                format!("cursor/typed/bulk/shx={}", with),
                with_type!(tn, T => open(with).read_as::<T>().map(|v| v.iter().map(|s| s.to_sv()).collect()).map_err(|e| show_err(&e)), else Err("bad type".into())),
            ));
            let chunked = |d: &Vec<u8>| crate::round4::ChunkSrc { data: d.clone(), pos: 0, chunk: 3 };
            let r = if with { ShapeReader::with_shx(chunked(&shp), chunked(&shx)) } else { ShapeReader::new(chunked(&shp)) };
            routes.push((format!("chunk3/generic/seq/shx={}", with), r.map_err(|e| show_err(&e)).and_then(|r| collect_as::<Shape, _>(r))));
        }
        // random access first, then a sequential read on the same reader
        routes.push(("cursor/generic/nth-then-seq".into(), {
            let mut r = open(true);
            for i in [n - 1, n / 2] {
                let _ = r.read_nth_shape(i);
            }
            collect_as::<Shape, _>(r)
        }));
        routes.push(("cursor/generic/nth".into(), nth_as::<Shape, _>(open(true), n)));
        routes.push(("cursor/typed/nth".into(), with_type!(tn, T => nth_as::<T, _>(open(true), n), else Err("bad type".into()))));
        // on disk, by path
        let dir = scratch_dir();
        let path = dir.join("c01.shp");
        {
            let mut w = ShapeWriter::from_path(&path).map_err(|e| ("path-writer".to_string(), format!("{}", e)))?;
            for a in &shapes {
                with_any!(a, s => w.write_shape(s).map_err(|e| ("path-writer".to_string(), format!("{}", e)))?);
            }
        }
        let disk_shp = std::fs::read(&path).unwrap();
        let disk_shx = std::fs::read(path.with_extension("shx")).unwrap();
        if disk_shp != shp || disk_shx != shx {
            return Err(("path-bytes-differ".into(), "files written by path differ from in-memory output".into()));
        }
        routes.push(("path/generic/seq/shx=true".into(), shapefile::read_shapes(&path).map(|v| v.iter().map(|s| s.to_sv()).collect()).map_err(|e| show_err(&e))));
        routes.push((
            "path/typed/seq/shx=true".into(),
            with_type!(tn, T => shapefile::read_shapes_as::<_, T>(&path).map(|v| v.iter().map(|s| s.to_sv()).collect()).map_err(|e| show_err(&e)), else Err("bad type".into())),
        ));
        routes.push(("path/generic/nth".into(), nth_as::<Shape, _>(ShapeReader::from_path(&path).unwrap(), n)));
        routes.push(("path/typed/nth".into(), with_type!(tn, T => nth_as::<T, _>(ShapeReader::from_path(&path).unwrap(), n), else Err("bad type".into()))));
        std::fs::remove_file(path.with_extension("shx")).unwrap();
        routes.push(("path/generic/seq/shx=false".into(), shapefile::read_shapes(&path).map(|v| v.iter().map(|s| s.to_sv()).collect()).map_err(|e| show_err(&e))));
        routes.push((
            "path/typed/seq/shx=false".into(),
            with_type!(tn, T => shapefile::read_shapes_as::<_, T>(&path).map(|v| v.iter().map(|s| s.to_sv()).collect()).map_err(|e| show_err(&e)), else Err("bad type".into())),
        ));
        let _ = std::fs::remove_file(&path);
        for (name, got) in routes {
            match got {
                Err(e) => return Err(("route-error".into(), format!("route {} failed: {}", name, e))),
                Ok(v) => {
                    if v.len() != expected.len() {
                        return Err(("count".into(), format!("route {}: {} shapes read, {} written", name, v.len(), expected.len())));
                    }
                    for (i, (g, e)) in v.iter().zip(expected.iter()).enumerate() {
                        let g = blind_roles(g);
                        if &g != e {
                            let sig = if std::mem::discriminant(&g) != std::mem::discriminant(e) { "variant" } else { "value" };
                            return Err((sig.into(), format!("route {} shape {}: read {} expected {}", name, i, show_sv(&g), show_sv(e))));
                        }
                    }
                }
            }
        }
        Ok(())
    }));
    match r {
        Ok(Ok(())) => Verdict::pass(),
        Ok(Err((sig, msg))) => Verdict::fail(&format!("roundtrip-{}", sig), msg),
        Err(e) => Verdict::fail("roundtrip-panic", panic_msg(&e)),
    }
}

// ------------------------------------------------------------------ flat geometry (C02)
/// what was handed to the writer, in the form the independent Lean decoder prints
pub fn flat_expected(shapes: &[Any]) -> String {
    if shapes.is_empty() {
        return "ok 0 0".into();
    }
    let code = |a: &Any| -> i32 { with_any!(a, _s => type_code_of(a)) };
    let mut s = format!("ok {} {}", code(&shapes[0]), shapes.len());
    for (i, a) in shapes.iter().enumerate() {
        s += &format!(" ; {} {}", i + 1, flat_sv(&sv_of_any(a)));
    }
    s
}
fn type_code_of(a: &Any) -> i32 {
    match a {
        Any::Point(_) => 1,
        Any::Polyline(_) => 3,
        Any::Polygon(_) => 5,
        Any::Multipoint(_) => 8,
        Any::PointZ(_) => 11,
        Any::PolylineZ(_) => 13,
        Any::PolygonZ(_) => 15,
        Any::MultipointZ(_) => 18,
        Any::PointM(_) => 21,
        Any::PolylineM(_) => 23,
        Any::PolygonM(_) => 25,
        Any::MultipointM(_) => 28,
        Any::Multipatch(_) => 31,
    }
}
/// geometry without derived information (no ring roles): box, parts, patch kinds, coordinates
pub fn flat_sv(v: &SV) -> String {
    let d = v.dim();
    let mut s = String::new();
    match v {
        SV::Null => s += "null",
        SV::Point(_, p) => {
            s += "pt ";
            show_pts(d, std::slice::from_ref(p), &mut s);
        }
        _ => {
            let b = v.bbox().unwrap();
            s += &format!("box {} {} {} {}", hx(b[0].x), hx(b[0].y), hx(b[1].x), hx(b[1].y));
            if d.has_z() {
                s += &format!(" {} {}", hx(b[0].z), hx(b[1].z));
            }
            if d.has_m() {
                s += &format!(" {} {}", hx(b[0].m), hx(b[1].m));
            }
            let parts = v.parts();
            let kinds: Vec<String> = match v {
                SV::Multipatch(_, pp) => pp.iter().map(|(k, _)| k.name().to_string()).collect(),
                _ => parts.iter().map(|_| "-".to_string()).collect(),
            };
            s += &format!(" parts {}", parts.len());
            for (k, ps) in kinds.iter().zip(parts.iter()) {
                s += &format!(" {} ", k);
                show_pts(d, ps, &mut s);
            }
        }
    }
    s
}

// ------------------------------------------------------------------ C04
pub fn be32(b: &[u8], at: usize) -> i32 {
    i32::from_be_bytes([b[at], b[at + 1], b[at + 2], b[at + 3]])
}
/// walk a well-formed .shp: (offset in words, content length in words) of every record
pub fn walk_records(shp: &[u8]) -> Result<Vec<(i32, i32)>, String> {
    let mut out = vec![];
    let mut pos = 100usize;
    while pos < shp.len() {
        if pos + 8 > shp.len() {
            return Err(format!("dangling record header at {}", pos));
        }
        let len = be32(shp, pos + 4);
        if len < 2 {
            return Err(format!("record at {} has content length {}", pos, len));
        }
        out.push(((pos / 2) as i32, len));
        pos += 8 + 2 * len as usize;
    }
    if pos != shp.len() {
        return Err("last record overruns the file".into());
    }
    Ok(out)
}

pub fn oracle_c04(ctors: &[Ctor]) -> Verdict {
    let mut shapes = vec![];
    for c in ctors {
        match build(c) {
            Ok(a) => shapes.push(a),
            Err(_) => return Verdict::pass(),
        }
    }
    let r = catch_unwind(AssertUnwindSafe(|| -> Result<(), (String, String)> {
        let (shp, shx) = write_files(true, &shapes);
        let n = shapes.len();
        let recs = walk_records(&shp).map_err(|e| ("shp-walk".to_string(), e))?;
        if recs.len() != n {
            return Err(("shp-count".into(), format!("{} records in .shp for {} shapes", recs.len(), n)));
        }
        if shx.len() != 100 + 8 * n {
            return Err(("shx-length".into(), format!(".shx has {} bytes for {} shapes", shx.len(), n)));
        }
        if be32(&shx, 24) != 50 + 4 * n as i32 {
            return Err(("shx-header-length".into(), format!(".shx header length {} for {} shapes", be32(&shx, 24), n)));
        }
        if shx[..24] != shp[..24] || shx[28..100] != shp[28..100] {
            return Err(("shx-header".into(), ".shx header differs from .shp header outside the length field".into()));
        }
        for (i, (off, len)) in recs.iter().enumerate() {
            let (xo, xl) = (be32(&shx, 100 + 8 * i), be32(&shx, 104 + 8 * i));
            if xo != *off || xl != *len {
                return Err(("shx-entry".into(), format!("entry {}: index says ({}, {}), record is at ({}, {})", i, xo, xl, off, len)));
            }
        }
        // reader consequences
        let open = |with: bool| -> ShapeReader<Cursor<Vec<u8>>> {
            if with {
                ShapeReader::with_shx(Cursor::new(shp.clone()), Cursor::new(shx.clone())).unwrap()
            } else {
                ShapeReader::new(Cursor::new(shp.clone())).unwrap()
            }
        };
        let seq_with = collect_as::<Shape, _>(open(true)).map_err(|e| ("reader".to_string(), e))?;
        let seq_without = collect_as::<Shape, _>(open(false)).map_err(|e| ("reader".to_string(), e))?;
        if seq_with != seq_without {
            return Err(("iter-with-vs-without".into(), "iteration with the index differs from iteration without".into()));
        }
        let cnt = open(true).shape_count().map_err(|e| ("reader".to_string(), show_err(&e)))?;
        if cnt != n {
            return Err(("shape-count".into(), format!("shape_count {} for {} shapes", cnt, n)));
        }
        let by_nth = nth_as::<Shape, _>(open(true), n).map_err(|e| ("nth".to_string(), e))?;
        if by_nth != seq_with {
            return Err(("nth-vs-iter".into(), "random access differs from iteration".into()));
        }
        let mut rdr = open(true);
        let mut it = rdr.iter_shapes();
        for j in 0..=n {
            let h = it.size_hint();
            if h != (n - j, Some(n - j)) {
                return Err(("size-hint".into(), format!("after {} of {} items size_hint is {:?}", j, n, h)));
            }
            if j < n {
                it.next();
            }
        }
        Ok(())
    }));
    match r {
        Ok(Ok(())) => Verdict::pass(),
        Ok(Err((sig, msg))) => Verdict::fail(&format!("index-{}", sig), msg),
        Err(e) => Verdict::fail("index-panic", panic_msg(&e)),
    }
}

// ------------------------------------------------------------------ C05
fn exact_extreme(values: &[u64], got: u64, is_min: bool) -> bool {
    if values.iter().any(|v| f(*v).is_nan()) {
        return true; // no claim
    }
    values.iter().any(|v| *v == got) && values.iter().all(|v| if is_min { le(got, *v) } else { le(*v, got) })
}

pub fn oracle_c05(ctors: &[Ctor]) -> Verdict {
    let mut shapes = vec![];
    for c in ctors {
        match build(c) {
            Ok(a) => shapes.push(a),
            Err(_) => return Verdict::pass(),
        }
    }
    let r = catch_unwind(AssertUnwindSafe(|| -> Result<(), (String, String)> {
        // per-shape boxes
        for (i, a) in shapes.iter().enumerate() {
            let v = sv_of_any(a);
            if let Some(b) = v.bbox() {
                let d = v.dim();
                let pts: Vec<P> = v.parts().concat();
                let dims: Vec<(&str, fn(&P) -> u64, bool)> = vec![("x", |p| p.x, true), ("y", |p| p.y, true), ("z", |p| p.z, d.has_z()), ("m", |p| p.m, d.has_m())];
                for (name, get, has) in dims {
                    if !has {
                        continue;
                    }
                    let vals: Vec<u64> = pts.iter().map(get).collect();
                    if !exact_extreme(&vals, get(&b[0]), true) {
                        return Err((format!("shape-box-min-{}", name), format!("shape {}: box min.{} = {} is not the minimum of its vertices", i, name, hx(get(&b[0])))));
                    }
                    if !exact_extreme(&vals, get(&b[1]), false) {
                        return Err((format!("shape-box-max-{}", name), format!("shape {}: box max.{} = {} is not the maximum of its vertices", i, name, hx(get(&b[1])))));
                    }
                }
            }
        }
        // header box
        let (shp, _) = write_files(false, &shapes);
        let hd = |k: usize| u64::from_le_bytes(shp[36 + 8 * k..44 + 8 * k].try_into().unwrap());
        let (minx, miny, maxx, maxy, minz, maxz, minm, maxm) = (hd(0), hd(1), hd(2), hd(3), hd(4), hd(5), hd(6), hd(7));
        if shapes.is_empty() {
            for k in 0..8 {
                if hd(k) != 0 {
                    return Err(("header-empty-nonzero".into(), format!("empty file: header box field {} is {}", k, hx(hd(k)))));
                }
            }
            return Ok(());
        }
        let svs: Vec<SV> = shapes.iter().map(sv_of_any).collect();
        let d = svs[0].dim();
        let is_patch = matches!(svs[0], SV::Multipatch(..));
        let all: Vec<P> = svs.iter().flat_map(|v| v.parts().concat()).collect();
        let xs: Vec<u64> = all.iter().map(|p| p.x).collect();
        let ys: Vec<u64> = all.iter().map(|p| p.y).collect();
        let chk = |vals: &Vec<u64>, got: u64, is_min: bool, name: &str| -> Result<(), (String, String)> {
            if exact_extreme(vals, got, is_min) {
                Ok(())
            } else {
                Err((format!("header-{}", name), format!("header {} = {} is not the extreme of the {} written values", name, hx(got), vals.len())))
            }
        };
        chk(&xs, minx, true, "min-x")?;
        chk(&xs, maxx, false, "max-x")?;
        chk(&ys, miny, true, "min-y")?;
        chk(&ys, maxy, false, "max-y")?;
        if d.has_z() {
            let zs: Vec<u64> = all.iter().map(|p| p.z).collect();
            chk(&zs, minz, true, "min-z")?;
            chk(&zs, maxz, false, "max-z")?;
        } else if minz != 0 || maxz != 0 {
            return Err(("header-z-nonzero".into(), format!("type without Z: header Z range is {} {}", hx(minz), hx(maxz))));
        }
        if d.has_m() && !is_patch {
            let ms: Vec<u64> = all.iter().map(|p| p.m).collect();
            let all_real = ms.iter().all(|m| !f(*m).is_nan() && f(*m) > shapefile::NO_DATA);
            if all_real {
                chk(&ms, minm, true, "min-m")?;
                chk(&ms, maxm, false, "max-m")?;
            }
        } else if !d.has_m() && (minm != 0 || maxm != 0) {
            return Err(("header-m-nonzero".into(), format!("type without M: header M range is {} {}", hx(minm), hx(maxm))));
        }
        Ok(())
    }));
    match r {
        Ok(Ok(())) => Verdict::pass(),
        Ok(Err((sig, msg))) => Verdict::fail(&format!("bbox-{}", sig), msg),
        Err(e) => Verdict::fail("bbox-panic", panic_msg(&e)),
    }
}

// ------------------------------------------------------------------ C06
fn conv_as<S>(shapes: Vec<Shape>) -> Result<Vec<SV>, String>
where
    S: TryFrom<Shape> + ToSV,
    Error: From<<S as TryFrom<Shape>>::Error>,
{
    convert_shapes_to_vec_of::<S>(shapes).map(|v| v.iter().map(|s| s.to_sv()).collect()).map_err(|e| show_err(&e))
}

/// typed read vs generic read + conversion, on a file of records
pub fn oracle_c06(requested: &str, shp: &[u8]) -> Verdict {
    let r = catch_unwind(AssertUnwindSafe(|| -> Result<(), (String, String)> {
        let generic = ShapeReader::new(Cursor::new(shp.to_vec())).and_then(|r| r.read());
        let generic = match generic {
            Ok(v) => v,
            Err(_) => return Ok(()), // not a readable file: nothing to compare
        };
        let actual_types: Vec<String> = generic.iter().map(|s| format!("{}", s.shapetype())).collect();
        let svs: Vec<SV> = generic.iter().map(|s| s.to_sv()).collect();
        // type identity of every generic value
        for (s, sv) in generic.iter().zip(svs.iter()) {
            if format!("{}", s.shapetype()) != sv.type_name() {
                return Err(("shapetype-of-variant".into(), format!("Shape::{} reports type {}", sv.type_name(), s.shapetype())));
            }
        }
        let typed: Result<Vec<SV>, String> = with_type!(requested, T => ShapeReader::new(Cursor::new(shp.to_vec())).and_then(|r| r.read_as::<T>()).map(|v| v.iter().map(|s| s.to_sv()).collect()).map_err(|e| show_err(&e)), else Err("bad type".into()));
        let conv: Result<Vec<SV>, String> = with_type!(requested, T => conv_as::<T>(generic), else Err("bad type".into()));
        if typed != conv {
            return Err(("typed-vs-converted".into(), format!("read_as::<{}> gives {:?}, generic read + conversion gives {:?}", requested, typed.as_ref().map(|v| v.len()), conv.as_ref().map(|v| v.len()))));
        }
        match (&typed, actual_types.iter().position(|t| t != requested)) {
            (Ok(v), None) => {
                if v.iter().any(|sv| sv.type_name() != requested) {
                    return Err(("wrong-type-value".into(), "typed read yielded a value of another type".into()));
                }
            }
            (Ok(_), Some(i)) => return Err(("mismatch-accepted".into(), format!("record {} has type {} but read_as::<{}> succeeded", i, actual_types[i], requested))),
            (Err(e), Some(i)) => {
                let want = format!("mismatch {} {}", requested, actual_types[i]);
                if e != &want {
                    return Err(("mismatch-fields".into(), format!("error is `{}`, expected `{}`", e, want)));
                }
            }
            (Err(e), None) => return Err(("spurious-error".into(), format!("all records are {} but typed read failed: {}", requested, e))),
        }
        Ok(())
    }));
    match r {
        Ok(Ok(())) => Verdict::pass(),
        Ok(Err((sig, msg))) => Verdict::fail(&format!("typed-{}", sig), msg),
        Err(e) => Verdict::fail("typed-panic", panic_msg(&e)),
    }
}

/// type identity and conversions for one concrete value
pub fn oracle_c06_value(c: &Ctor) -> Verdict {
    let a = match build(c) {
        Ok(a) => a,
        Err(_) => return Verdict::pass(),
    };
    let r = catch_unwind(AssertUnwindSafe(|| -> Result<(), (String, String)> {
        let sv = sv_of_any(&a);
        let tn = sv.type_name();
        let generic = any_to_shape(&a);
        if format!("{}", generic.shapetype()) != tn {
            return Err(("shapetype-of-variant".into(), format!("Shape::from({}) reports type {}", tn, generic.shapetype())));
        }
        let concrete_type = with_any!(&a, s => fn_shapetype(s));
        if format!("{}", concrete_type) != tn {
            return Err(("hasshapetype".into(), format!("{}::shapetype() is {}", tn, concrete_type)));
        }
        // record type code written for it
        let (shp, _) = write_files(false, std::slice::from_ref(&a));
        let code = i32::from_le_bytes(shp[108..112].try_into().unwrap());
        if ShapeType::from(code).map(|t| format!("{}", t)) != Some(tn.clone()) {
            return Err(("record-code".into(), format!("{} is written with record type code {}", tn, code)));
        }
        // into the enum and back is the identity; into any other type fails naming both
        for other in TYPE_NAMES {
            let back: Result<SV, String> = with_type!(other, T => T::try_from(any_to_shape(&a)).map(|s| s.to_sv()).map_err(|e| show_err(&e)), else Err("bad".into()));
            if other == tn {
                if back != Ok(sv.clone()) {
                    return Err(("roundtrip-enum".into(), format!("{} -> Shape -> {} is not the identity", tn, tn)));
                }
            } else {
                let want = format!("mismatch {} {}", other, tn);
                if back != Err(want.clone()) {
                    return Err(("conversion-error-fields".into(), format!("{} -> Shape -> {}: got {:?}, expected `{}`", tn, other, back.map(|_| "a value"), want)));
                }
            }
        }
        Ok(())
    }));
    match r {
        Ok(Ok(())) => Verdict::pass(),
        Ok(Err((sig, msg))) => Verdict::fail(&format!("typeid-{}", sig), msg),
        Err(e) => Verdict::fail("typeid-panic", panic_msg(&e)),
    }
}
pub fn fn_shapetype<S: HasShapeType>(_s: &S) -> ShapeType {
    S::shapetype()
}

// ------------------------------------------------------------------ C07
pub fn oracle_c07(result: &str) -> Verdict {
    if result.contains("panic") {
        Verdict::fail("panic", format!("reader panicked: {}", &result[..result.len().min(200)]))
    } else if result.contains("runaway") {
        Verdict::fail("runaway", "iteration did not end within the bound derived from the input size".into())
    } else {
        Verdict::pass()
    }
}

// ------------------------------------------------------------------ C09 / C10
pub struct Snap {
    pub shp: Vec<u8>,
    pub shx: Vec<u8>,
    pub nshp: usize,
    pub nshx: usize,
}
/// run a history on healthy destinations, recording the destinations after every call
pub fn run_with_snaps(with_shx: bool, ending: &str, ops: &[WOp]) -> Result<(Vec<String>, Vec<Snap>, LogDst, LogDst), String> {
    let shp = LogDst::new();
    let shx = LogDst::new();
    let mut built = vec![];
    for op in ops {
        match op {
            WOp::Write(c) => built.push(Some(build(c)?)),
            WOp::Finalize => built.push(None),
        }
    }
    let (s2, x2) = (shp.clone(), shx.clone());
    let r = catch_unwind(AssertUnwindSafe(move || {
        let mut results = vec![];
        let mut snaps = vec![];
        let mut w = if with_shx { ShapeWriter::with_shx(s2.clone(), x2.clone()) } else { ShapeWriter::new(s2.clone()) };
        for b in &built {
            let r = match b {
                Some(a) => with_any!(a, s => w.write_shape(s)),
                None => w.finalize(),
            };
            results.push(match r {
                Ok(()) => "ok".to_string(),
                Err(e) => format!("err {}", show_err(&e)),
            });
            snaps.push(Snap { shp: s2.data(), shx: x2.data(), nshp: s2.ops().len(), nshx: x2.ops().len() });
        }
        if ending == "fdrop" {
            let _ = w.finalize();
        }
        drop(w);
        (results, snaps)
    }));
    match r {
        Ok((results, snaps)) => Ok((results, snaps, shp, shx)),
        Err(e) => Err(format!("panic {}", panic_msg(&e))),
    }
}

pub fn oracle_c09(with_shx: bool, ending: &str, ops: &[WOp]) -> Verdict {
    let (results, snaps, shp, shx) = match run_with_snaps(with_shx, ending, ops) {
        Ok(x) => x,
        Err(e) => return if e.starts_with("panic") { Verdict::fail("writer-panic", e) } else { Verdict::pass() },
    };
    // the writes that succeeded, in order
    let mut written: Vec<Any> = vec![];
    let mut prev = Snap { shp: vec![], shx: vec![], nshp: 0, nshx: 0 };
    let mut dirty = true; // a fresh writer has something to commit (the empty file)
    for ((op, res), snap) in ops.iter().zip(results.iter()).zip(snaps.into_iter()) {
        match op {
            WOp::Write(c) => {
                if res == "ok" {
                    written.push(build(c).unwrap());
                    dirty = true;
                }
            }
            WOp::Finalize => {
                if res != "ok" {
                    return Verdict::fail("finalize-error", format!("finalize on healthy destinations returned {}", res));
                }
                let (eshp, eshx) = write_files(with_shx, &written);
                if snap.shp != eshp || (with_shx && snap.shx != eshx) {
                    return Verdict::fail(
                        if written.is_empty() { "finalize-before-first-write" } else { "finalize-incomplete" },
                        format!("after finalize #{} the destinations do not hold a complete file of the {} shapes written so far ({} vs {} bytes)", results.len(), written.len(), snap.shp.len(), eshp.len()),
                    );
                }
                if !dirty && (snap.nshp != prev.nshp || snap.nshx != prev.nshx) {
                    return Verdict::fail("finalize-io-when-clean", "finalize with nothing new to commit performed I/O".into());
                }
                if dirty {
                    let last_shp = shp.ops().get(snap.nshp - 1).cloned();
                    if last_shp != Some(Op::Flush) {
                        return Verdict::fail("finalize-no-flush", "finalize did not end by flushing the .shp".into());
                    }
                    if with_shx && shx.ops().get(snap.nshx - 1).cloned() != Some(Op::Flush) {
                        return Verdict::fail("finalize-no-flush", "finalize did not end by flushing the .shx".into());
                    }
                }
                dirty = false;
            }
        }
        prev = snap;
    }
    let (eshp, eshx) = write_files(with_shx, &written);
    if shp.data() != eshp {
        let first_fin = ops.iter().position(|o| matches!(o, WOp::Finalize));
        let first_w = ops.iter().position(|o| matches!(o, WOp::Write(_)));
        let sig = match (first_fin, first_w) {
            (Some(f), Some(w)) if f < w => "finalize-before-first-write",
            _ => "final-shp-differs",
        };
        return Verdict::fail(sig, format!(".shp after the history has {} bytes, plain write+drop gives {}", shp.data().len(), eshp.len()));
    }
    if with_shx && shx.data() != eshx {
        return Verdict::fail("final-shx-differs", format!(".shx after the history has {} bytes, plain write+drop gives {}", shx.data().len(), eshx.len()));
    }
    Verdict::pass()
}

pub fn oracle_c10(with_shx: bool, ending: &str, ops: &[WOp]) -> Verdict {
    let (results, snaps, shp, shx) = match run_with_snaps(with_shx, ending, ops) {
        Ok(x) => x,
        Err(e) => return if e.starts_with("panic") { Verdict::fail("writer-panic", e) } else { Verdict::pass() },
    };
    let mut file_type: Option<String> = None;
    let mut kept: Vec<WOp> = vec![];
    let mut prev = Snap { shp: vec![], shx: vec![], nshp: 0, nshx: 0 };
    for ((op, res), snap) in ops.iter().zip(results.iter()).zip(snaps.into_iter()) {
        match op {
            WOp::Write(c) => {
                let t = c.type_name();
                match &file_type {
                    None => {
                        file_type = Some(t);
                        kept.push(op.clone());
                        if res != "ok" {
                            return Verdict::fail("first-write-rejected", format!("first write returned {}", res));
                        }
                    }
                    Some(ft) if *ft == t => {
                        kept.push(op.clone());
                        if res != "ok" {
                            return Verdict::fail("same-type-rejected", format!("write of the file's type returned {}", res));
                        }
                    }
                    Some(ft) => {
                        let want = format!("err mismatch {} {}", ft, t);
                        if *res != want {
                            return Verdict::fail("mismatch-result", format!("write of {} into a {} file returned `{}`, expected `{}`", t, ft, res, want));
                        }
                        if snap.shp != prev.shp || snap.shx != prev.shx || snap.nshp != prev.nshp || snap.nshx != prev.nshx {
                            return Verdict::fail("rejected-write-did-io", "a rejected write changed a destination or issued I/O".into());
                        }
                    }
                }
            }
            WOp::Finalize => kept.push(op.clone()),
        }
        prev = snap;
    }
    match run_with_snaps(with_shx, ending, &kept) {
        Ok((_, _, shp2, shx2)) => {
            if shp.data() != shp2.data() || shx.data() != shx2.data() {
                return Verdict::fail("rejected-write-left-trace", "final files differ from those of the history without the rejected calls".into());
            }
            if shp.ops() != shp2.ops() || shx.ops() != shx2.ops() {
                return Verdict::fail("rejected-write-left-trace", "I/O differs from that of the history without the rejected calls".into());
            }
        }
        Err(e) => return Verdict::fail("writer-panic", e),
    }
    Verdict::pass()
}

// ------------------------------------------------------------------ C16
pub fn peq(d: Dim, a: &P, b: &P) -> bool {
    f(a.x) == f(b.x) && f(a.y) == f(b.y) && (!d.has_z() || f(a.z) == f(b.z)) && (!d.has_m() || f(a.m) == f(b.m))
}
fn closed_input(d: Dim, ps: &[P]) -> Vec<P> {
    let mut v = ps.to_vec();
    if let (Some(a), Some(b)) = (ps.first(), ps.last()) {
        if !peq(d, a, b) {
            v.push(*a);
        }
    }
    v
}

/// rings of a constructed polygon / multipatch against the caller's input
pub fn oracle_c16(c: &Ctor) -> Verdict {
    let a = match build(c) {
        Ok(a) => a,
        Err(_) => return Verdict::pass(),
    };
    let sv = sv_of_any(&a);
    let d = sv.dim();
    let inputs = c.parts();
    let check_ring = |i: usize, role: Option<Role>, out: &[P], input: &[P]| -> Result<(), (String, String)> {
        let has_nan = input.iter().any(|p| f(p.x).is_nan() || f(p.y).is_nan() || (d.has_z() && f(p.z).is_nan()) || (d.has_m() && f(p.m).is_nan()));
        if has_nan {
            return Ok(()); // closure is not claimed for NaN coordinates
        }
        if input.is_empty() {
            // outside the property's quantifier (vertex counts >= 1): only "no vertex is invented"
            return if out.is_empty() { Ok(()) } else { Err(("vertices-changed".into(), format!("ring {} was given no vertex and holds {}", i, out.len()))) };
        }
        if out.is_empty() || !peq(d, &out[0], &out[out.len() - 1]) {
            return Err(("not-closed".into(), format!("ring {} is not closed", i)));
        }
        let want = closed_input(d, input);
        let mut rev = want.clone();
        rev.reverse();
        if out != &want[..] && out != &rev[..] {
            return Err(("vertices-changed".into(), format!("ring {}: vertices are neither the caller's (closed) sequence nor its reverse", i)));
        }
        if let (Some(role), Some(area)) = (role, exact_area2(out)) {
            // the code's convention: computed sum < 0 <=> inner (counter-clockwise)
            if area != 0 && ((area < 0) != (role == Role::Inner)) {
                return Err(("orientation".into(), format!("ring {} declared {} has exact doubled area {}", i, role.name(), area)));
            }
        }
        Ok(())
    };
    let r: Result<(), (String, String)> = (|| {
        match &sv {
            SV::Polygon(_, _, rings) => {
                let roles: Vec<Role> = match c {
                    Ctor::Polygon(_, r, _) => vec![*r],
                    Ctor::PolygonRings(_, rr) => rr.iter().map(|x| x.0).collect(),
                    _ => vec![],
                };
                if rings.len() != inputs.len() {
                    return Err(("ring-count".into(), "number of rings changed".into()));
                }
                for (i, ((role, out), input)) in rings.iter().zip(inputs.iter()).enumerate() {
                    if *role != roles[i] {
                        return Err(("role-changed".into(), format!("ring {} changed its declared role", i)));
                    }
                    check_ring(i, Some(*role), out, input)?;
                }
                // rebuilding from own rings changes nothing (non-zero exact areas only)
                if rings.iter().all(|(_, ps)| matches!(exact_area2(ps), Some(a) if a != 0)) {
                    let again = build(&Ctor::PolygonRings(d, rings.clone())).map_err(|e| ("rebuild-panic".to_string(), e))?;
                    if sv_of_any(&again) != sv {
                        return Err(("rebuild-not-identity".into(), "rebuilding the polygon from its own rings changed it".into()));
                    }
                }
            }
            SV::Multipatch(_, patches) => {
                if patches.len() != inputs.len() {
                    return Err(("patch-count".into(), "number of patches changed".into()));
                }
                for (i, ((k, out), input)) in patches.iter().zip(inputs.iter()).enumerate() {
                    if k.is_ring() {
                        let has_nan = input.iter().any(|p| [p.x, p.y, p.z, p.m].iter().any(|v| f(*v).is_nan()));
                        if has_nan {
                            continue;
                        }
                        if input.is_empty() {
                            if out.is_empty() {
                                continue;
                            }
                            return Err(("patch-vertices-changed".into(), format!("ring patch {} was given no vertex and holds {}", i, out.len())));
                        }
                        if out.is_empty() || !peq(d, &out[0], &out[out.len() - 1]) {
                            return Err(("patch-not-closed".into(), format!("ring patch {} is not closed", i)));
                        }
                        if out != &closed_input(d, input)[..] {
                            return Err(("patch-vertices-changed".into(), format!("ring patch {}: vertices are not the caller's closed sequence", i)));
                        }
                    } else if out != input {
                        return Err(("strip-fan-touched".into(), format!("patch {} (strip/fan) was modified", i)));
                    }
                }
            }
            _ => {}
        }
        // the box covers the final vertices (C05 checks exactness; here only that it was computed after closing)
        Ok(())
    })();
    match r {
        Ok(()) => Verdict::pass(),
        Err((sig, msg)) => Verdict::fail(&format!("ring-{}", sig), msg),
    }
}

// ------------------------------------------------------------------ C18 / C19
pub fn oracle_c18(c: &Ctor) -> Verdict {
    let a = match build(c) {
        Ok(a) => a,
        Err(_) => return Verdict::pass(),
    };
    let announced = size_in_bytes(&a);
    let emitted = content_bytes(&a).len();
    if announced != emitted {
        return Verdict::fail("size-announced-vs-emitted", format!("{}: announces {} bytes, emits {}", c.type_name(), announced, emitted));
    }
    let (shp, _) = write_files(false, std::slice::from_ref(&a));
    let words = be32(&shp, 104);
    if (announced + 4) % 2 != 0 || words as usize != (announced + 4) / 2 {
        return Verdict::fail("size-header-words", format!("{}: record header says {} words for {} content bytes + type code", c.type_name(), words, announced));
    }
    if shp.len() != 100 + 8 + 4 + emitted {
        return Verdict::fail("size-file", "file length is not header + record header + type code + content".into());
    }
    Verdict::pass()
}

pub const ESRI_TABLE: [(i32, &str, bool, bool, bool); 14] = [
    (0, "NullShape", false, false, true),
    (1, "Point", false, false, false),
    (3, "Polyline", false, false, true),
    (5, "Polygon", false, false, true),
    (8, "Multipoint", false, false, false),
    (11, "PointZ", true, true, false),
    (13, "PolylineZ", true, true, true),
    (15, "PolygonZ", true, true, true),
    (18, "MultipointZ", true, true, false),
    (21, "PointM", false, true, false),
    (23, "PolylineM", false, true, true),
    (25, "PolygonM", false, true, true),
    (28, "MultipointM", false, true, false),
    (31, "Multipatch", true, false, true),
];

pub fn oracle_c19(code: i32) -> Verdict {
    let row = ESRI_TABLE.iter().find(|r| r.0 == code);
    match (ShapeType::from(code), row) {
        (None, None) => Verdict::pass(),
        (Some(t), None) => Verdict::fail("code-accepted", format!("code {} decodes to {} but is not an ESRI code", code, t)),
        (None, Some(r)) => Verdict::fail("code-rejected", format!("ESRI code {} ({}) is rejected", code, r.1)),
        (Some(t), Some(r)) => {
            if t as i32 != code {
                return Verdict::fail("code-reencode", format!("code {} decodes to {} which re-encodes as {}", code, t, t as i32));
            }
            if format!("{}", t) != r.1 {
                return Verdict::fail("code-name", format!("code {} displays as {} (ESRI: {})", code, t, r.1));
            }
            if t.has_z() != r.2 || t.has_m() != r.3 {
                return Verdict::fail("code-predicates", format!("{}: has_z={} has_m={} (ESRI: {} {})", t, t.has_z(), t.has_m(), r.2, r.3));
            }
            // multipart is only claimed for the 13 geometry types
            if code != 0 && t.is_multipart() != r.4 {
                return Verdict::fail("code-predicates", format!("{}: is_multipart={} (ESRI: {})", t, t.is_multipart(), r.4));
            }
            Verdict::pass()
        }
    }
}
/// invalid type code in a file header / record surfaces as InvalidShapeType(code)
pub fn oracle_c19_file(code: i32) -> Verdict {
    let mut hdr = vec![0u8; 100];
    hdr[0..4].copy_from_slice(&9994i32.to_be_bytes());
    hdr[24..28].copy_from_slice(&50i32.to_be_bytes());
    hdr[28..32].copy_from_slice(&1000i32.to_le_bytes());
    hdr[32..36].copy_from_slice(&code.to_le_bytes());
    let r = ShapeReader::new(Cursor::new(hdr));
    let valid = ESRI_TABLE.iter().any(|r| r.0 == code);
    match r {
        Ok(_) if valid => Verdict::pass(),
        Ok(_) => Verdict::fail("header-code-accepted", format!("header with type code {} was accepted", code)),
        Err(Error::InvalidShapeType(c)) if !valid && c == code => Verdict::pass(),
        Err(e) => Verdict::fail("header-code-error", format!("header with type code {}: error {}", code, show_err(&e))),
    }
}

//! Scenarios added after the eighth (small) round of seeded changes.
use crate::exec::*;
use crate::oracles::*;
use crate::proto::*;
use shapefile::*;
use std::io::Cursor;
use std::panic::{catch_unwind, AssertUnwindSafe};

fn wrap(tag: &str, r: std::thread::Result<Result<(), String>>) -> Verdict {
    match r {
        Ok(Ok(())) => Verdict::pass(),
        Ok(Err(e)) => Verdict::fail(tag, e),
        Err(e) => Verdict::fail(&format!("{}-panic", tag), panic_msg(&e)),
    }
}

/// C17: opening BY PATH a dataset whose .shx declares an enormous content length for an entry
pub fn oracle_path_hostile_index(words: i32) -> Verdict {
    let dir = scratch_dir();
    let path = dir.join("hostile.shp");
    let shapes: Vec<Any> = vec![Any::Point(Point::new(1.0, 2.0))];
    let (shp, mut shx) = write_files(true, &shapes);
    shx[104..108].copy_from_slice(&words.to_be_bytes());
    let input = shp.len() + shx.len();
    let bound = 64 * input + 128 * 1024;
    std::fs::write(&path, &shp).unwrap();
    std::fs::write(path.with_extension("shx"), &shx).unwrap();
    let p2 = path.clone();
    crate::alloc::reset();
    let r = catch_unwind(AssertUnwindSafe(move || {
        if let Ok(mut rdr) = ShapeReader::from_path(&p2) {
            let _ = rdr.shape_count();
            for item in rdr.iter_shapes().take(4) {
                drop(item);
            }
            drop(rdr.read_nth_shape(0));
        }
    }));
    let (peak, largest) = crate::alloc::measure();
    let _ = std::fs::remove_file(&path);
    let _ = std::fs::remove_file(path.with_extension("shx"));
    match r {
        Err(e) => Verdict::fail("alloc-panic", panic_msg(&e)),
        Ok(()) if peak > bound => Verdict::fail("alloc-disproportionate", format!("{} input bytes opened by path, the .shx entry declares {} words: peak request {} bytes (largest single {}), bound {}", input, words, peak, largest, bound)),
        Ok(()) => Verdict::pass(),
    }
}

/// C04 / C15: after a random access that FAILED, every random access still returns its record
pub fn oracle_nth_after_failed_nth() -> Verdict {
    wrap("nth-after-failed-nth", catch_unwind(AssertUnwindSafe(|| -> Result<(), String> {
        let lines: Vec<Any> = (0..4).map(|k| Any::Polyline(Polyline::new((0..k + 2).map(|j| Point::new((k * 10 + j) as f64, j as f64)).collect::<Vec<_>>()))).collect();
        let (shp, shx) = write_files(true, &lines);
        let first_x = |s: &Shape| match s {
            Shape::Polyline(p) => p.parts()[0][0].x,
            _ => -1.0,
        };
        for failing in 0..4usize {
            for then in 0..4usize {
                let mut rdr = ShapeReader::with_shx(Cursor::new(shp.clone()), Cursor::new(shx.clone())).map_err(|e| show_err(&e))?;
                // position the reader somewhere first
                let _ = rdr.iter_shapes().take(failing).count();
                match rdr.read_nth_shape_as::<Polygon>(failing) {
                    Some(Err(Error::MismatchShapeType { .. })) => {}
                    other => return Err(format!("read_nth_shape_as::<Polygon>({}) on a polyline file gave {:?}", failing, other.map(|r| r.map(|_| "a polygon").map_err(|e| show_err(&e))))),
                }
                match rdr.read_nth_shape(then) {
                    Some(Ok(s)) if first_x(&s) == (then * 10) as f64 => {}
                    other => return Err(format!("after {} iterated items and a failed typed access at {}, read_nth_shape({}) gave {:?}", failing, failing, then, other.map(|r| r.map(|s| first_x(&s)).map_err(|e| show_err(&e))))),
                }
            }
        }
        Ok(())
    })))
}

/// C13: a file of records WITHOUT vertices (multipoints with their Z and M ranges, polylines with
/// empty parts), cut at every length: whole records, then the I/O error
pub fn oracle_truncated_empty_shapes(code: i32, nparts: usize) -> Verdict {
    wrap("truncate-shapes", catch_unwind(AssertUnwindSafe(|| -> Result<(), String> {
        let f = crate::round5::empty_shape_file(code, nparts, 0.0, true);
        let reclen = (f.len() - 100) / 3;
        let full: Vec<String> = match ShapeReader::new(Cursor::new(f.clone())) {
            Ok(mut r) => r.iter_shapes().take(9).map(|i| i.map(|s| format!("{}", s.shapetype())).unwrap_or_else(|e| format!("err {}", show_err(&e)))).collect(),
            Err(e) => return Err(format!("open: {}", show_err(&e))),
        };
        if full.len() != 3 || full.iter().any(|s| s.starts_with("err")) {
            return Err(format!("type {} with {} empty part(s): the complete file reads as {:?}", code, nparts, full));
        }
        for t in 100..f.len() {
            let whole = (t - 100) / reclen;
            let got: Vec<String> = match ShapeReader::new(Cursor::new(f[..t].to_vec())) {
                Ok(mut r) => r.iter_shapes().take(9).map(|i| i.map(|s| format!("{}", s.shapetype())).unwrap_or_else(|e| format!("err {}", show_err(&e)))).collect(),
                Err(e) => vec![format!("open err {}", show_err(&e))],
            };
            let mut want: Vec<String> = full[..whole].to_vec();
            want.push("err io".into());
            if got != want {
                return Err(format!("three records of type {} without vertices ({} bytes each), file cut at byte {}: {:?}; expected {:?}", code, reclen, t, got, want));
            }
        }
        Ok(())
    })))
}

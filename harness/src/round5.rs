//! Scenarios added after the fifth round of seeded changes (oracle-only, replayable as
//! `scenario <name> <args>`).
use crate::exec::*;
use crate::oracles::*;
use crate::proto::*;
use crate::round4::ChunkSrc;
use shapefile::*;
use std::io::Cursor;
use std::panic::{catch_unwind, AssertUnwindSafe};

fn wrap(tag: &str, r: std::thread::Result<Result<(), String>>) -> Verdict {
    match r {
        Ok(Ok(())) => Verdict::pass(),
        Ok(Err(e)) => Verdict::fail(tag, e),
        Err(e) => Verdict::fail(&format!("{}-panic", tag), panic_msg(&e)),
    }
}

fn pts(n: usize) -> Vec<Any> {
    (0..n).map(|q| Any::Point(Point::new(q as f64, (q % 7) as f64))).collect()
}

/// C04 / C14 / C15: the iterator with an index is the same iterator as the one without: `nth`,
/// `skip`, `step_by`, `last`, `count` and `size_hint`, on a fresh reader, after some `next` calls,
/// after `seek(k)`, after an earlier iteration — and what a FURTHER iteration on the same reader
/// yields afterwards (the records not yet consumed, or all of them)
pub fn oracle_iter_adaptors(n: usize) -> Verdict {
    wrap("iterator-adaptors", catch_unwind(AssertUnwindSafe(|| -> Result<(), String> {
        let (shp, shx) = write_files(true, &pts(n));
        let xs: Vec<f64> = (0..n).map(|q| q as f64).collect();
        let x_of = |r: Option<Result<Point, Error>>| -> Result<Option<f64>, String> {
            match r {
                None => Ok(None),
                Some(Ok(p)) => Ok(Some(p.x)),
                Some(Err(e)) => Err(show_err(&e)),
            }
        };
        // how the reader is brought into its state before the adaptor runs: (label, start position)
        let mut states: Vec<(String, usize)> = (0..=n.min(5)).map(|p| (format!("next x{}", p), p)).collect();
        for k in [0usize, 2, n.saturating_sub(1), n] {
            states.push((format!("seek {}", k), k.min(n)));
        }
        states.push(("drained".to_string(), n));
        states.push(("iterated 2".to_string(), 2.min(n)));
        for with in [true, false] {
            for (label, start) in &states {
                if label.starts_with("seek") && !with {
                    continue;
                }
                for which in 0..9usize {
                    let mut rdr = if with { ShapeReader::with_shx(Cursor::new(shp.clone()), Cursor::new(shx.clone())) } else { ShapeReader::new(Cursor::new(shp.clone())) }.map_err(|e| show_err(&e))?;
                    if let Some(k) = label.strip_prefix("seek ") {
                        rdr.seek(k.parse().unwrap()).map_err(|e| show_err(&e))?;
                    } else if label == "drained" {
                        let _ = rdr.iter_shapes_as::<Point>().count();
                    } else if label == "iterated 2" {
                        let _ = rdr.iter_shapes_as::<Point>().take(2).count();
                    }
                    let rest: Vec<f64> = xs[*start..].to_vec();
                    let consumed: usize;
                    let (name, got, want): (String, Vec<f64>, Vec<f64>) = {
                        let mut it = rdr.iter_shapes_as::<Point>();
                        if let Some(p) = label.strip_prefix("next x") {
                            for _ in 0..p.parse::<usize>().unwrap() {
                                let _ = it.next();
                            }
                        }
                        match which {
                            0 | 1 | 2 | 3 => {
                                let k = [0usize, 1, 2, 7][which];
                                consumed = (k + 1).min(rest.len());
                                (format!("nth({})", k), x_of(it.nth(k))?.into_iter().collect(), rest.get(k).cloned().into_iter().collect())
                            }
                            4 => {
                                consumed = 3.min(rest.len());
                                ("skip(2).next()".into(), x_of(it.skip(2).next())?.into_iter().collect(), rest.get(2).cloned().into_iter().collect())
                            }
                            5 => {
                                consumed = rest.len();
                                let v: Vec<f64> = it.step_by(2).take(4 * n + 8).map(|r| r.map(|p| p.x).unwrap_or(-1.0)).collect();
                                ("step_by(2)".into(), v, rest.iter().cloned().step_by(2).collect())
                            }
                            6 => {
                                consumed = rest.len();
                                ("last()".into(), x_of(it.last())?.into_iter().collect(), rest.last().cloned().into_iter().collect())
                            }
                            7 => {
                                consumed = rest.len();
                                ("count()".into(), vec![it.take(4 * n + 8).count() as f64], vec![rest.len() as f64])
                            }
                            _ => {
                                consumed = 2.min(rest.len());
                                let _ = it.nth(1);
                                let left = rest.len().saturating_sub(2);
                                let h = it.size_hint();
                                let ok = if with { h == (left, Some(left)) } else { h.0 <= left && h.1.map(|u| u >= left).unwrap_or(true) };
                                ("nth(1) then size_hint()".into(), vec![if ok { 1.0 } else { h.0 as f64 + 1000.0 }], vec![1.0])
                            }
                        }
                    };
                    let who = format!("{} points, reader {} index, state `{}`", n, if with { "with" } else { "without" }, label);
                    if got != want {
                        return Err(format!("{}: {} gives {:?}, the remaining items are {:?} so it should give {:?}", who, name, got, rest, want));
                    }
                    // a further iteration: the records not yet consumed, or all of them
                    let after: Vec<f64> = rdr.iter_shapes_as::<Point>().take(4 * n + 8).map(|r| r.map(|p| p.x).unwrap_or(-1.0)).collect();
                    let not_yet: Vec<f64> = rest[consumed..].to_vec();
                    if after != not_yet && after != xs {
                        return Err(format!("{}: after {} a further iteration yields {:?}; the records not yet consumed are {:?}", who, name, after, not_yet));
                    }
                }
            }
        }
        Ok(())
    })))
}

/// C04 / C08 / C14: a big dataset read through a source that returns 13 bytes per call, and by path
/// (a `BufReader<File>`: 8 KiB refills that do not fall on entry boundaries)
pub fn oracle_big_index_routes(n: usize) -> Verdict {
    let dir = scratch_dir();
    let path = dir.join("big.shp");
    let r = catch_unwind(AssertUnwindSafe(|| -> Result<(), String> {
        let (shp, shx) = write_files(true, &pts(n));
        let probe = [0usize, 1, 1010, 1011, 1012, 1013, n / 2, n - 2, n - 1];
        let check = |route: &str, count: Result<usize, Error>, nths: Vec<Option<Result<Point, Error>>>, iterated: Vec<Result<Point, Error>>, past: bool| -> Result<(), String> {
            let c = count.map_err(|e| format!("{}: shape_count: {}", route, show_err(&e)))?;
            if c != n {
                return Err(format!("{}: shape_count() = {}, {} records were written", route, c, n));
            }
            for (i, r) in probe.iter().zip(nths.into_iter()) {
                if *i >= n {
                    continue;
                }
                match r {
                    Some(Ok(p)) if p.x == *i as f64 => {}
                    other => return Err(format!("{}: read_nth_shape({}) of {} gave {:?}", route, i, n, other.map(|r| r.map(|p| p.x).map_err(|e| show_err(&e))))),
                }
            }
            if past {
                return Err(format!("{}: read_nth_shape({}) is not None", route, n));
            }
            if iterated.len() != n {
                return Err(format!("{}: iteration yielded {} items of {}", route, iterated.len(), n));
            }
            for (i, r) in iterated.into_iter().enumerate() {
                match r {
                    Ok(p) if p.x == i as f64 => {}
                    other => return Err(format!("{}: item {} of the iteration is {:?}", route, i, other.map(|p| p.x).map_err(|e| show_err(&e)))),
                }
            }
            Ok(())
        };
        {
            let mk = |d: &Vec<u8>| ChunkSrc { data: d.clone(), pos: 0, chunk: 13 };
            let mut rdr = ShapeReader::with_shx(mk(&shp), mk(&shx)).map_err(|e| show_err(&e))?;
            let count = rdr.shape_count();
            let nths = probe.iter().map(|i| if *i < n { rdr.read_nth_shape_as::<Point>(*i) } else { None }).collect();
            let past = rdr.read_nth_shape_as::<Point>(n).is_some();
            let it = rdr.iter_shapes_as::<Point>().take(n + 5).collect();
            check("source returning 13 bytes per read", count, nths, it, past)?;
        }
        {
            let mut w = ShapeWriter::from_path(&path).map_err(|e| show_err(&e))?;
            for q in 0..n {
                w.write_shape(&Point::new(q as f64, (q % 7) as f64)).map_err(|e| show_err(&e))?;
            }
        }
        let mut rdr = ShapeReader::from_path(&path).map_err(|e| show_err(&e))?;
        let count = rdr.shape_count();
        let nths = probe.iter().map(|i| if *i < n { rdr.read_nth_shape_as::<Point>(*i) } else { None }).collect();
        let past = rdr.read_nth_shape_as::<Point>(n).is_some();
        let it = rdr.iter_shapes_as::<Point>().take(n + 5).collect();
        check("by path", count, nths, it, past)?;
        std::fs::remove_file(path.with_extension("shx")).map_err(|e| e.to_string())?;
        let mut plain = ShapeReader::from_path(&path).map_err(|e| show_err(&e))?;
        let k = plain.iter_shapes_as::<Point>().take(n + 5).enumerate().filter(|(i, r)| matches!(r, Ok(p) if p.x == *i as f64)).count();
        if k != n {
            return Err(format!("by path without the index: {} of {} shapes come back", k, n));
        }
        Ok(())
    }));
    let _ = std::fs::remove_file(&path);
    let _ = std::fs::remove_file(path.with_extension("shx"));
    wrap("big-index-routes", r)
}

/// a single-record file with the last `k` bytes of the record removed (lengths adjusted): the
/// optional M block left out
pub fn strip_record_tail(shp: &[u8], k: usize) -> Vec<u8> {
    let mut f = shp[..shp.len() - k].to_vec();
    let total = (f.len() / 2) as i32;
    f[24..28].copy_from_slice(&total.to_be_bytes());
    let words = ((f.len() - 108) / 2) as i32;
    f[104..108].copy_from_slice(&words.to_be_bytes());
    f
}

/// C13: records separated by small fillers, the source failing at its k-th call, for every k: some
/// call reports that failure
pub fn oracle_gap_faults() -> Verdict {
    wrap("source-fault-swallowed", catch_unwind(AssertUnwindSafe(|| -> Result<(), String> {
        let n = 5usize;
        let (shp, _) = write_files(true, &pts(n));
        let recs = walk_records(&shp)?;
        let gaps = [0usize, 2, 40, 510, 514];
        let mut f = shp[..100].to_vec();
        let mut x = shp[..100].to_vec();
        x[24..28].copy_from_slice(&((100 + 8 * n) as i32 / 2).to_be_bytes());
        for (i, (off, len)) in recs.iter().enumerate() {
            f.extend(std::iter::repeat(0x2au8).take(gaps[i]));
            x.extend_from_slice(&((f.len() / 2) as i32).to_be_bytes());
            x.extend_from_slice(&len.to_be_bytes());
            let a = *off as usize * 2;
            f.extend_from_slice(&shp[a..a + 8 + *len as usize * 2]);
        }
        let total = (f.len() / 2) as i32;
        f[24..28].copy_from_slice(&total.to_be_bytes());
        let run = |fail_at: Option<usize>| -> (Vec<String>, usize) {
            let mut s = Src::new(f.clone());
            s.fail_at = fail_at;
            let shared = std::rc::Rc::new(std::cell::RefCell::new(s));
            struct Shared(std::rc::Rc<std::cell::RefCell<Src>>);
            impl std::io::Read for Shared {
                fn read(&mut self, b: &mut [u8]) -> std::io::Result<usize> {
                    self.0.borrow_mut().read(b)
                }
            }
            impl std::io::Seek for Shared {
                fn seek(&mut self, p: std::io::SeekFrom) -> std::io::Result<u64> {
                    self.0.borrow_mut().seek(p)
                }
            }
            let items: Vec<String> = match ShapeReader::with_shx(Shared(shared.clone()), Cursor::new(x.clone())) {
                Err(e) => vec![format!("open err {}", show_err(&e))],
                Ok(mut r) => r.iter_shapes_as::<Point>().take(n + 5).map(|i| i.map(|p| format!("{}", p.x)).unwrap_or_else(|e| format!("err {}", show_err(&e)))).collect(),
            };
            let calls = shared.borrow().calls;
            (items, calls)
        };
        let (healthy, total_calls) = run(None);
        let want: Vec<String> = (0..n).map(|q| format!("{}", q)).collect();
        if healthy != want {
            return Err(format!("healthy source: iteration yields {:?}", healthy));
        }
        for k in 0..total_calls {
            let (items, _) = run(Some(k));
            if !items.iter().any(|i| i.ends_with("err io")) {
                return Err(format!("records separated by fillers of {:?} bytes, source failing at its call {} of {}: no call reported the failure; the iteration yields {:?}", gaps, k, total_calls, items));
            }
            for (i, it) in items.iter().enumerate() {
                if !it.contains("err") && *it != format!("{}", i) {
                    return Err(format!("source failing at its call {}: item {} is the shape {}", k, i, it));
                }
            }
        }
        Ok(())
    })))
}

/// C14 / C15: a typed iteration that meets a record of another type (a null record in the middle),
/// with the index, on a file with fillers and in reverse physical order: the iteration goes on with
/// the records the index names
pub fn null_in_the_middle() -> (Vec<u8>, Vec<u8>) {
    let (shp, _) = write_files(true, &pts(5));
    let recs = walk_records(&shp).unwrap();
    let mut pieces: Vec<Vec<u8>> = recs.iter().map(|(o, l)| shp[*o as usize * 2..*o as usize * 2 + 8 + *l as usize * 2].to_vec()).collect();
    pieces[1] = vec![0, 0, 0, 2, 0, 0, 0, 2, 0, 0, 0, 0];
    let mut f = shp[..100].to_vec();
    let mut offs = vec![0usize; 5];
    for i in (0..5).rev() {
        f.extend(std::iter::repeat(0x2au8).take(2 * (i + 1)));
        offs[i] = f.len();
        f.extend_from_slice(&pieces[i]);
    }
    let total = (f.len() / 2) as i32;
    f[24..28].copy_from_slice(&total.to_be_bytes());
    let mut x = shp[..100].to_vec();
    x[24..28].copy_from_slice(&((100 + 8 * 5) / 2i32).to_be_bytes());
    for i in 0..5 {
        x.extend_from_slice(&((offs[i] / 2) as i32).to_be_bytes());
        x.extend_from_slice(&(((pieces[i].len() - 8) / 2) as i32).to_be_bytes());
    }
    (f, x)
}

/// C19: a VALID code in a header is accepted whatever the ranges hold (the provisional header of
/// a writer has infinite Z and M ranges)
pub fn oracle_header_code_ranges(code: i32, which: usize) -> Verdict {
    let mut hdr = vec![0u8; 100];
    hdr[0..4].copy_from_slice(&9994i32.to_be_bytes());
    hdr[24..28].copy_from_slice(&50i32.to_be_bytes());
    hdr[28..32].copy_from_slice(&1000i32.to_le_bytes());
    hdr[32..36].copy_from_slice(&code.to_le_bytes());
    let vals: [f64; 8] = match which {
        0 => [1.0, 2.0, 3.0, 4.0, 0.0, 12.5, 0.0, 0.0],
        1 => [f64::INFINITY, f64::INFINITY, f64::NEG_INFINITY, f64::NEG_INFINITY, f64::INFINITY, f64::NEG_INFINITY, f64::INFINITY, f64::NEG_INFINITY],
        2 => [0.0, 0.0, 0.0, 0.0, -5.0, 5.0, -1e39, 7.0],
        3 => [f64::NAN, f64::NAN, f64::NAN, f64::NAN, f64::NAN, f64::NAN, f64::NAN, f64::NAN],
        _ => [10.0, 10.0, -10.0, -10.0, 3.0, -3.0, 2.0, -2.0],
    };
    for (i, v) in vals.iter().enumerate() {
        hdr[36 + 8 * i..44 + 8 * i].copy_from_slice(&v.to_le_bytes());
    }
    let valid = ESRI_TABLE.iter().any(|r| r.0 == code);
    match catch_unwind(AssertUnwindSafe(|| ShapeReader::new(Cursor::new(hdr)).map(|r| r.header().shape_type))) {
        Err(e) => Verdict::fail("header-code-panic", panic_msg(&e)),
        Ok(Ok(t)) if valid && t as i32 == code => Verdict::pass(),
        Ok(Ok(t)) => Verdict::fail("header-code-accepted", format!("header with type code {} and ranges #{} was read as {}", code, which, t)),
        Ok(Err(Error::InvalidShapeType(c))) if !valid && c == code => Verdict::pass(),
        Ok(Err(e)) => Verdict::fail("header-code-error", format!("header with the {} type code {} and ranges {:?}: error {}", if valid { "VALID" } else { "invalid" }, code, vals, show_err(&e))),
    }
}

/// C07: a record of a multi-vertex type that holds NO vertex (and `nparts` empty parts), with a
/// stored box of the given value in all four places
pub fn empty_shape_file(code: i32, nparts: usize, boxv: f64, with_m: bool) -> Vec<u8> {
    let multipoint = code == 8 || code == 18 || code == 28;
    let has_z = [13, 15, 18, 31].contains(&code);
    let has_m = has_z || [23, 25, 28].contains(&code);
    let mut c: Vec<u8> = vec![];
    c.extend_from_slice(&code.to_le_bytes());
    for _ in 0..4 {
        c.extend_from_slice(&boxv.to_le_bytes());
    }
    if !multipoint {
        c.extend_from_slice(&(nparts as i32).to_le_bytes());
    }
    c.extend_from_slice(&0i32.to_le_bytes());
    if !multipoint {
        for _ in 0..nparts {
            c.extend_from_slice(&0i32.to_le_bytes());
        }
        if code == 31 {
            for i in 0..nparts {
                c.extend_from_slice(&((i % 6) as i32).to_le_bytes());
            }
        }
    }
    if has_z {
        c.extend_from_slice(&boxv.to_le_bytes());
        c.extend_from_slice(&boxv.to_le_bytes());
    }
    if has_m && with_m {
        c.extend_from_slice(&boxv.to_le_bytes());
        c.extend_from_slice(&boxv.to_le_bytes());
    }
    let mut f = vec![0u8; 100];
    f[0..4].copy_from_slice(&9994i32.to_be_bytes());
    f[24..28].copy_from_slice(&(((100 + 3 * (8 + c.len())) / 2) as i32).to_be_bytes());
    f[28..32].copy_from_slice(&1000i32.to_le_bytes());
    f[32..36].copy_from_slice(&code.to_le_bytes());
    for k in 0..3i32 {
        f.extend_from_slice(&(k + 1).to_be_bytes());
        f.extend_from_slice(&((c.len() / 2) as i32).to_be_bytes());
        f.extend_from_slice(&c);
    }
    f
}

/// C16: the outline of a w x h rectangle with a vertex every unit, at an offset typical of projected
/// coordinates (so that every shoelace term dwarfs the area), closed, clockwise or not
pub fn long_ring(w: usize, h: usize, ox: f64, oy: f64, clockwise: bool) -> Vec<P> {
    let mut v: Vec<(f64, f64)> = vec![];
    for i in 0..w {
        v.push((i as f64, 0.0));
    }
    for j in 0..h {
        v.push((w as f64, j as f64));
    }
    for i in 0..w {
        v.push(((w - i) as f64, h as f64));
    }
    for j in 0..h {
        v.push((0.0, (h - j) as f64));
    }
    v.push((0.0, 0.0));
    // as built the outline is counter-clockwise
    if clockwise {
        v.reverse();
    }
    v.into_iter().map(|(x, y)| P { x: (ox + x).to_bits(), y: (oy + y).to_bits(), z: 0, m: NO_DATA_BITS }).collect()
}

//! Scenarios added after the third round of seeded changes (oracle-only, replayable as
//! `scenario <name> <args>`).
use crate::exec::*;
use crate::oracles::*;
use crate::proto::*;
use shapefile::record::{EsriShape, WritableShape};
use shapefile::*;
use std::io::{Cursor, Read, Seek, SeekFrom, Write};
use std::panic::{catch_unwind, AssertUnwindSafe};

fn pt_file(n: usize) -> (Vec<u8>, Vec<u8>) {
    let shapes: Vec<Any> = (0..n).map(|q| Any::Point(Point::new(q as f64, (q % 7) as f64))).collect();
    write_files(true, &shapes)
}

/// a dataset with many records: count, random access at both ends, iteration with and without index
pub fn oracle_big_index(n: usize) -> Verdict {
    let r = catch_unwind(AssertUnwindSafe(|| -> Result<(), String> {
        let (shp, shx) = pt_file(n);
        let mut rdr = ShapeReader::with_shx(Cursor::new(shp.clone()), Cursor::new(shx)).map_err(|e| show_err(&e))?;
        let c = rdr.shape_count().map_err(|e| show_err(&e))?;
        if c != n {
            return Err(format!("shape_count() = {}, {} records were written", c, n));
        }
        for i in [0usize, n / 2, n - 1] {
            match rdr.read_nth_shape_as::<Point>(i) {
                Some(Ok(p)) if p.x == i as f64 => {}
                other => return Err(format!("read_nth_shape({}) of {} gave {:?}", i, n, other.map(|r| r.map(|p| p.x).map_err(|e| show_err(&e))))),
            }
        }
        if rdr.read_nth_shape_as::<Point>(n).is_some() {
            return Err(format!("read_nth_shape({}) of {} is not None", n, n));
        }
        let k = rdr.iter_shapes_as::<Point>().filter(|r| r.is_ok()).count();
        if k != n {
            return Err(format!("iteration with the index yielded {} shapes of {}", k, n));
        }
        let mut plain = ShapeReader::new(Cursor::new(shp)).map_err(|e| show_err(&e))?;
        let k2 = plain.iter_shapes_as::<Point>().filter(|r| r.is_ok()).count();
        if k2 != n {
            return Err(format!("iteration without the index yielded {} shapes of {}", k2, n));
        }
        Ok(())
    }));
    match r {
        Ok(Ok(())) => Verdict::pass(),
        Ok(Err(e)) => Verdict::fail("big-index", e),
        Err(e) => Verdict::fail("big-index-panic", panic_msg(&e)),
    }
}

/// a source of `len` bytes that is zero except for a few segments (no memory for the zeros)
pub struct SparseSrc {
    pub segs: Vec<(u64, Vec<u8>)>,
    pub len: u64,
    pub pos: u64,
}
impl Read for SparseSrc {
    fn read(&mut self, buf: &mut [u8]) -> std::io::Result<usize> {
        if self.pos >= self.len {
            return Ok(0);
        }
        let n = buf.len().min((self.len - self.pos) as usize).min(4096);
        for (i, b) in buf[..n].iter_mut().enumerate() {
            let p = self.pos + i as u64;
            *b = 0;
            for (s, d) in &self.segs {
                if p >= *s && p < *s + d.len() as u64 {
                    *b = d[(p - *s) as usize];
                }
            }
        }
        self.pos += n as u64;
        Ok(n)
    }
}
impl Seek for SparseSrc {
    fn seek(&mut self, to: SeekFrom) -> std::io::Result<u64> {
        self.pos = match to {
            SeekFrom::Start(p) => p,
            SeekFrom::End(d) => (self.len as i64 + d).max(0) as u64,
            SeekFrom::Current(d) => (self.pos as i64 + d).max(0) as u64,
        };
        Ok(self.pos)
    }
}

/// records beyond byte 2^31 (the format's word offsets reach 4 GiB): located through the index
pub fn oracle_far_records() -> Verdict {
    let r = catch_unwind(AssertUnwindSafe(|| -> Result<(), String> {
        let (shp, _) = pt_file(4);
        // records are 28 bytes each; keep two at the start, move two beyond 2 GiB
        let far: u64 = (1u64 << 31) + 4096;
        let rec = |i: usize| shp[100 + 28 * i..100 + 28 * (i + 1)].to_vec();
        let total = far + 56;
        let mut hdr = shp[..100].to_vec();
        hdr[24..28].copy_from_slice(&((total / 2) as i32).to_be_bytes());
        let src = SparseSrc { segs: vec![(0, hdr.clone()), (100, rec(0)), (128, rec(1)), (far, rec(2)), (far + 28, rec(3))], len: total, pos: 0 };
        let mut x = hdr.clone();
        x[24..28].copy_from_slice(&((100 + 8 * 4) / 2i32).to_be_bytes());
        for off in [100u64, 128, far, far + 28] {
            x.extend_from_slice(&((off / 2) as i32).to_be_bytes());
            x.extend_from_slice(&10i32.to_be_bytes());
        }
        let mut rdr = ShapeReader::with_shx(src, Cursor::new(x)).map_err(|e| show_err(&e))?;
        let got: Vec<String> = rdr.iter_shapes_as::<Point>().map(|r| r.map(|p| format!("{}", p.x)).unwrap_or_else(|e| format!("err {}", show_err(&e)))).collect();
        if got != ["0", "1", "2", "3"] {
            return Err(format!("iteration over records at byte offsets 100, 128, 2^31+4096, +28 yielded {:?}", got));
        }
        match rdr.read_nth_shape_as::<Point>(2) {
            Some(Ok(p)) if p.x == 2.0 => Ok(()),
            other => Err(format!("read_nth_shape(2) at a byte offset beyond 2^31 gave {:?}", other.map(|r| r.map(|p| p.x).map_err(|e| show_err(&e))))),
        }
    }));
    match r {
        Ok(Ok(())) => Verdict::pass(),
        Ok(Err(e)) => Verdict::fail("far-records", e),
        Err(e) => Verdict::fail("far-records-panic", panic_msg(&e)),
    }
}

/// C06: a typed random access that fails (record 0 is a null shape) leaves the reader where a fresh
/// one is: the iteration that follows equals a fresh iteration, typed and generic
pub fn oracle_typed_nth_failure() -> Verdict {
    let r = catch_unwind(AssertUnwindSafe(|| -> Result<(), String> {
        let (shp, _) = pt_file(2);
        let mut f = shp[..100].to_vec();
        f.extend_from_slice(&[0, 0, 0, 1, 0, 0, 0, 2, 0, 0, 0, 0]); // a null record first
        f.extend_from_slice(&shp[100..]);
        let total = (f.len() / 2) as i32;
        f[24..28].copy_from_slice(&total.to_be_bytes());
        let mut x = shp[..100].to_vec();
        x[24..28].copy_from_slice(&((100 + 8 * 3) / 2i32).to_be_bytes());
        for (off, len) in [(50i32, 2i32), (56, 10), (70, 10)] {
            x.extend_from_slice(&off.to_be_bytes());
            x.extend_from_slice(&len.to_be_bytes());
        }
        let show = |r: Result<Point, Error>| r.map(|p| format!("ok {}", p.x)).unwrap_or_else(|e| format!("err {}", show_err(&e)));
        let showg = |r: Result<Shape, Error>| r.map(|s| format!("ok {}", s.shapetype())).unwrap_or_else(|e| format!("err {}", show_err(&e)));
        let fresh_t: Vec<String> = ShapeReader::with_shx(Cursor::new(f.clone()), Cursor::new(x.clone())).map_err(|e| show_err(&e))?.iter_shapes_as::<Point>().map(show).collect();
        let fresh_g: Vec<String> = ShapeReader::with_shx(Cursor::new(f.clone()), Cursor::new(x.clone())).map_err(|e| show_err(&e))?.iter_shapes().map(showg).collect();
        for generic_after in [false, true] {
            let mut rdr = ShapeReader::with_shx(Cursor::new(f.clone()), Cursor::new(x.clone())).map_err(|e| show_err(&e))?;
            match rdr.read_nth_shape_as::<Point>(0) {
                Some(Err(Error::MismatchShapeType { .. })) => {}
                other => return Err(format!("typed random access at the null record gave {:?}", other.map(show))),
            }
            if generic_after {
                let got: Vec<String> = rdr.iter_shapes().map(showg).collect();
                if got != fresh_g {
                    return Err(format!("generic iteration after the failed typed access yields {:?}, a fresh reader {:?}", got, fresh_g));
                }
            } else {
                let got: Vec<String> = rdr.iter_shapes_as::<Point>().map(show).collect();
                if got != fresh_t {
                    return Err(format!("typed iteration after the failed typed access yields {:?}, a fresh reader {:?}", got, fresh_t));
                }
            }
        }
        Ok(())
    }));
    match r {
        Ok(Ok(())) => Verdict::pass(),
        Ok(Err(e)) => Verdict::fail("typed-after-failed-nth", e),
        Err(e) => Verdict::fail("typed-panic", panic_msg(&e)),
    }
}

/// a user-defined shape type (the traits are public): a type code and an announced size of its own
pub struct Custom {
    pub t: ShapeType,
    pub size: usize,
}
impl HasShapeType for Custom {
    fn shapetype() -> ShapeType {
        CUSTOM_TYPE.with(|c| c.get())
    }
}
thread_local! { static CUSTOM_TYPE: std::cell::Cell<ShapeType> = std::cell::Cell::new(ShapeType::Polygon); }
impl WritableShape for Custom {
    fn size_in_bytes(&self) -> usize {
        self.size
    }
    fn write_to<T: Write>(&self, _dest: &mut T) -> Result<(), Error> {
        Ok(())
    }
}
impl EsriShape for Custom {
    fn x_range(&self) -> [f64; 2] {
        [0.0, 0.0]
    }
    fn y_range(&self) -> [f64; 2] {
        [0.0, 0.0]
    }
}

/// C10 with offered types only a user-defined shape can have: NullShape, and an enormous size
pub fn oracle_custom_rejected(kind: &str) -> Verdict {
    let (t, size) = match kind {
        "null" => (ShapeType::NullShape, 0usize),
        _ => (ShapeType::Polygon, 5usize << 30),
    };
    if size > (isize::MAX as usize) / 2 {
        return Verdict::pass();
    }
    CUSTOM_TYPE.with(|c| c.set(t));
    let r = catch_unwind(AssertUnwindSafe(|| -> Result<(), String> {
        let (shp, shx) = (LogDst::new(), LogDst::new());
        let mut w = ShapeWriter::with_shx(shp.clone(), shx.clone());
        w.write_shape(&Point::new(1.0, 2.0)).map_err(|e| show_err(&e))?;
        let before = (shp.data(), shx.data(), shp.ops().len(), shx.ops().len());
        match w.write_shape(&Custom { t, size }) {
            Err(Error::MismatchShapeType { requested, actual }) if requested == ShapeType::Point && actual == t => {}
            other => return Err(format!("offering a {}-typed shape ({} bytes announced) to a Point file returned {:?}", t, size, other.map_err(|e| show_err(&e)))),
        }
        if (shp.data(), shx.data(), shp.ops().len(), shx.ops().len()) != before {
            return Err("the rejected call touched a destination".into());
        }
        w.write_shape(&Point::new(3.0, 4.0)).map_err(|e| show_err(&e))?;
        drop(w);
        let (eshp, eshx) = write_files(true, &[Any::Point(Point::new(1.0, 2.0)), Any::Point(Point::new(3.0, 4.0))]);
        if shp.data() != eshp || shx.data() != eshx {
            return Err("the files differ from those of the history without the rejected call".into());
        }
        Ok(())
    }));
    match r {
        Ok(Ok(())) => Verdict::pass(),
        Ok(Err(e)) => Verdict::fail("rejected-write-left-trace", e),
        Err(e) => Verdict::fail("rejected-write-panic", panic_msg(&e)),
    }
}

/// C18 on files of several shapes: every record header announces the length of ITS record
pub fn oracle_record_lengths(ctors: &[Ctor]) -> Verdict {
    let mut shapes = vec![];
    for c in ctors {
        match build(c) {
            Ok(a) => shapes.push(a),
            Err(_) => return Verdict::pass(),
        }
    }
    let (shp, shx) = write_files(true, &shapes);
    let mut pos = 100usize;
    for (i, a) in shapes.iter().enumerate() {
        let emitted = content_bytes(a).len() + 4;
        if pos + 8 > shp.len() {
            return Verdict::fail("size-file", format!("record {} is missing from the file", i));
        }
        let words = be32(&shp, pos + 4);
        if words as usize * 2 != emitted {
            return Verdict::fail("size-header-words", format!("record {} of {}: header says {} words, the record's content is {} bytes", i, shapes.len(), words, emitted));
        }
        let xw = be32(&shx, 100 + 8 * i + 4);
        let xo = be32(&shx, 100 + 8 * i);
        if xw != words || xo as usize * 2 != pos {
            return Verdict::fail("size-index-entry", format!("index entry {}: offset {} words / length {} words, the record is at byte {} with {} words", i, xo, xw, pos, words));
        }
        pos += 8 + emitted;
    }
    if pos != shp.len() || be32(&shp, 24) as usize * 2 != shp.len() {
        return Verdict::fail("size-file", format!("file is {} bytes, records end at {}, header says {} words", shp.len(), pos, be32(&shp, 24)));
    }
    Verdict::pass()
}

/// C19: an invalid shape type code in a header is refused whatever the other header fields hold
pub fn oracle_header_code_any_version(code: i32, version_bytes: [u8; 4]) -> Verdict {
    let mut hdr = vec![0u8; 100];
    hdr[0..4].copy_from_slice(&9994i32.to_be_bytes());
    hdr[24..28].copy_from_slice(&50i32.to_be_bytes());
    hdr[28..32].copy_from_slice(&version_bytes);
    hdr[32..36].copy_from_slice(&code.to_le_bytes());
    let valid = ESRI_TABLE.iter().any(|r| r.0 == code);
    match catch_unwind(AssertUnwindSafe(|| ShapeReader::new(Cursor::new(hdr)).map(|r| r.header().shape_type))) {
        Err(e) => Verdict::fail("header-code-panic", panic_msg(&e)),
        Ok(Ok(t)) if valid && t as i32 == code => Verdict::pass(),
        Ok(Ok(t)) => Verdict::fail("header-code-accepted", format!("header with type code {} and version bytes {:02x?} was read as {}", code, version_bytes, t)),
        Ok(Err(Error::InvalidShapeType(c))) if !valid && c == code => Verdict::pass(),
        Ok(Err(e)) => Verdict::fail("header-code-error", format!("header with type code {} and version bytes {:02x?}: error {}", code, version_bytes, show_err(&e))),
    }
}

/// C17: many parts, each announcing at least 1024 points, the parts array really there, no point data
pub fn oracle_many_unbacked_parts(nparts: usize) -> (Vec<u8>, usize) {
    let npts = nparts * 1024;
    let size = 44 + 4 * nparts + 16 * npts;
    let mut m = vec![0u8; 100];
    m[0..4].copy_from_slice(&9994i32.to_be_bytes());
    m[24..28].copy_from_slice(&i32::MAX.to_be_bytes());
    m[28..32].copy_from_slice(&1000i32.to_le_bytes());
    m[32..36].copy_from_slice(&3i32.to_le_bytes());
    let mut rec = vec![0u8; 12 + 32 + 8];
    rec[0..4].copy_from_slice(&1i32.to_be_bytes());
    rec[4..8].copy_from_slice(&((size / 2) as i32).to_be_bytes());
    rec[8..12].copy_from_slice(&3i32.to_le_bytes());
    rec[44..48].copy_from_slice(&(nparts as i32).to_le_bytes());
    rec[48..52].copy_from_slice(&(npts as i32).to_le_bytes());
    m.extend_from_slice(&rec);
    for i in 0..nparts {
        m.extend_from_slice(&((i * 1024) as i32).to_le_bytes());
    }
    (m, size)
}

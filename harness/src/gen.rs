//! Case generators.  Every random choice comes from one SplitMix64 state (seeded by VERIF_SEED),
//! so a run replays exactly.
use crate::proto::*;
use std::collections::BTreeMap;

pub struct Rng(pub u64);
impl Rng {
    pub fn next(&mut self) -> u64 {
        self.0 = self.0.wrapping_add(0x9E37_79B9_7F4A_7C15);
        let mut z = self.0;
        z = (z ^ (z >> 30)).wrapping_mul(0xBF58_476D_1CE4_E5B9);
        z = (z ^ (z >> 27)).wrapping_mul(0x94D0_49BB_1331_11EB);
        z ^ (z >> 31)
    }
    pub fn below(&mut self, n: usize) -> usize {
        if n == 0 {
            0
        } else {
            (self.next() % n as u64) as usize
        }
    }
    pub fn range(&mut self, lo: usize, hi: usize) -> usize {
        lo + self.below(hi - lo + 1)
    }
    pub fn chance(&mut self, num: usize, den: usize) -> bool {
        self.below(den) < num
    }
    pub fn pick<'a, T>(&mut self, v: &'a [T]) -> &'a T {
        &v[self.below(v.len())]
    }
}

pub fn bits(v: f64) -> u64 {
    v.to_bits()
}
pub fn next_up(b: u64) -> u64 {
    // next representable double towards +inf (finite, non-NaN input)
    let v = f64::from_bits(b);
    if v == 0.0 {
        1
    } else if v > 0.0 {
        b + 1
    } else {
        b - 1
    }
}
pub fn next_down(b: u64) -> u64 {
    let v = f64::from_bits(b);
    if v == 0.0 {
        0x8000_0000_0000_0001
    } else if v > 0.0 {
        b - 1
    } else {
        b + 1
    }
}
pub fn is_nan(b: u64) -> bool {
    f64::from_bits(b).is_nan()
}

/// counters describing what the generators produced (goes into the evidence)
#[derive(Default)]
pub struct Stats(pub BTreeMap<String, u64>);
impl Stats {
    pub fn hit(&mut self, k: &str) {
        *self.0.entry(k.to_string()).or_insert(0) += 1;
    }
    pub fn add(&mut self, k: &str, n: u64) {
        *self.0.entry(k.to_string()).or_insert(0) += n;
    }
}

#[derive(Clone, Copy, PartialEq, Eq)]
pub enum Flavor {
    /// small exact integers (dyadic; shoelace exact)
    Exact,
    /// the special-value pool mixed with small integers
    Special,
    /// arbitrary non-NaN bit patterns
    Wild,
}

pub struct Gen<'a> {
    pub rng: &'a mut Rng,
    pub stats: &'a mut Stats,
    pub max_parts: usize,
    pub max_points: usize,
}

impl<'a> Gen<'a> {
    fn special(&mut self) -> u64 {
        let nd = NO_DATA_BITS;
        let pool: [(u64, &str); 22] = [
            (bits(0.0), "f.zero"),
            (bits(-0.0), "f.negzero"),
            (1, "f.subnormal"),
            (0x8000_0000_0000_0001, "f.subnormal"),
            (bits(1.0), "f.one"),
            (bits(-1.0), "f.one"),
            (bits(f64::INFINITY), "f.inf"),
            (bits(f64::NEG_INFINITY), "f.inf"),
            (bits(f64::MAX), "f.max"),
            (bits(f64::MIN), "f.max"),
            (next_down(bits(f64::MAX)), "f.maxnbr"),
            (next_up(bits(f64::MIN)), "f.maxnbr"),
            (nd, "f.nodata"),
            (next_up(nd), "f.nodata_up"),
            (next_down(nd), "f.nodata_down"),
            (bits(-1e38), "f.near_nodata"),
            (bits(-5e38), "f.between_nodata_and_1e38"),
            (bits(-2e38), "f.between_nodata_and_1e38"),
            (bits(-2e39), "f.below_nodata"),
            (bits(-1.5e300), "f.below_nodata"),
            (bits(f64::MIN_POSITIVE), "f.minpos"),
            (bits(1e300), "f.huge"),
        ];
        let (b, name) = pool[self.rng.below(pool.len())];
        self.stats.hit(name);
        b
    }
    fn small_int(&mut self) -> u64 {
        bits(self.rng.below(17) as f64 - 8.0)
    }
    fn wild(&mut self) -> u64 {
        loop {
            let b = self.rng.next();
            if !is_nan(b) {
                self.stats.hit("f.wild");
                return b;
            }
        }
    }
    /// a non-NaN coordinate
    pub fn coord(&mut self, fl: Flavor) -> u64 {
        match fl {
            Flavor::Exact => self.small_int(),
            Flavor::Special => {
                if self.rng.chance(1, 3) {
                    self.special()
                } else if self.rng.chance(1, 8) {
                    self.wild()
                } else {
                    self.small_int()
                }
            }
            Flavor::Wild => self.wild(),
        }
    }
    /// a Z or M value: may be NaN when `allow_nan`
    pub fn zm(&mut self, fl: Flavor, allow_nan: bool) -> u64 {
        if allow_nan && fl != Flavor::Exact && self.rng.chance(1, 12) {
            self.stats.hit("f.nan");
            return *self.rng.pick(&[0x7ff8_0000_0000_0000u64, 0xfff8_0000_0000_0001, 0x7ff0_0000_0000_0001]);
        }
        self.coord(fl)
    }
    pub fn pt(&mut self, d: Dim, fl: Flavor, allow_nan: bool) -> P {
        let x = self.coord(fl);
        let y = self.coord(fl);
        let z = if d.has_z() { self.zm(fl, allow_nan) } else { 0 };
        let m = if d.has_m() {
            if fl != Flavor::Exact && self.rng.chance(1, 6) {
                self.stats.hit("f.m_nodata");
                NO_DATA_BITS
            } else {
                self.zm(fl, allow_nan)
            }
        } else {
            NO_DATA_BITS
        };
        P { x, y, z, m }
    }
    pub fn pts(&mut self, d: Dim, n: usize, fl: Flavor, allow_nan: bool) -> Vec<P> {
        (0..n).map(|_| self.pt(d, fl, allow_nan)).collect()
    }
    /// a ring: open or closed, either orientation, sometimes degenerate
    pub fn ring(&mut self, d: Dim, fl: Flavor, allow_nan: bool) -> Vec<P> {
        let n = self.rng.range(1, self.max_points.max(3));
        let mut ps = self.pts(d, n, fl, allow_nan);
        if self.rng.chance(1, 2) && !ps.is_empty() {
            let first = ps[0];
            ps.push(first);
            self.stats.hit("ring.closed");
        } else if d != Dim::Xy && self.rng.chance(1, 3) && !ps.is_empty() {
            // back at the first vertex in X and Y only: Z or M differ, so the ring is NOT closed
            let mut last = ps[0];
            if d == Dim::Xyzm && self.rng.chance(1, 2) {
                last.z = bits(f(last.z) + 1.0);
            } else {
                last.m = bits(f(last.m) + 16.0);
            }
            if last != ps[0] {
                ps.push(last);
                self.stats.hit("ring.closed-in-xy-only");
            }
        } else if self.rng.chance(1, 10) && !ps.is_empty() {
            // back at the first vertex up to the sign of a zero coordinate: closed (IEEE ==)
            ps[0].x = 0;
            let mut last = ps[0];
            last.x = 0x8000_0000_0000_0000;
            ps.push(last);
            self.stats.hit("ring.closed-signed-zero");
        } else if self.rng.chance(1, 8) && !ps.is_empty() {
            // back to within one unit in the last place of the first vertex: NOT closed
            let mut last = ps[0];
            last.x = next_up(last.x);
            if !is_nan(last.x) && last != ps[0] {
                ps.push(last);
                self.stats.hit("ring.almost-closed");
            }
        } else {
            self.stats.hit("ring.open");
        }
        if self.rng.chance(1, 10) {
            // degenerate: all vertices equal
            let p0 = ps[0];
            for p in ps.iter_mut() {
                *p = p0;
            }
            self.stats.hit("ring.degenerate");
        }
        ps
    }
    pub fn role(&mut self) -> Role {
        if self.rng.chance(1, 2) {
            Role::Outer
        } else {
            Role::Inner
        }
    }
    pub fn kind(&mut self) -> Kind {
        *self.rng.pick(&Kind::ALL)
    }

    /// a constructor call of the given family/dimension that does not panic
    pub fn ctor(&mut self, family: &str, d: Dim, fl: Flavor, allow_nan: bool) -> Ctor {
        let c = match family {
            "point" => Ctor::Point(d, self.pt(d, fl, allow_nan)),
            "multipoint" => {
                let n = self.rng.range(1, self.max_points);
                Ctor::Multipoint(d, self.pts(d, n, fl, allow_nan))
            }
            "polyline" => {
                if self.rng.chance(1, 3) {
                    let n = self.rng.range(2, self.max_points.max(2));
                    Ctor::Polyline(d, self.pts(d, n, fl, allow_nan))
                } else {
                    let np = self.rng.range(1, self.max_parts);
                    Ctor::PolylineParts(
                        d,
                        (0..np)
                            .map(|_| {
                                let n = self.rng.range(2, self.max_points.max(2));
                                self.pts(d, n, fl, allow_nan)
                            })
                            .collect(),
                    )
                }
            }
            "polygon" => {
                if self.rng.chance(1, 3) {
                    let r = self.role();
                    Ctor::Polygon(d, r, self.ring(d, fl, allow_nan))
                } else {
                    let np = self.rng.range(1, self.max_parts);
                    Ctor::PolygonRings(
                        d,
                        (0..np)
                            .map(|i| {
                                let r = self.role();
                                // a ring without vertices (accepted by with_rings after the first one)
                                if i > 0 && self.rng.chance(1, 8) {
                                    self.stats.hit("ring.empty");
                                    return (r, vec![]);
                                }
                                (r, self.ring(d, fl, allow_nan))
                            })
                            .collect(),
                    )
                }
            }
            _ => {
                if self.rng.chance(1, 4) {
                    let k = self.kind();
                    Ctor::Multipatch(k, self.ring(Dim::Xyzm, fl, allow_nan))
                } else {
                    let np = self.rng.range(1, self.max_parts);
                    Ctor::MultipatchParts(
                        (0..np)
                            .map(|i| {
                                let k = self.kind();
                                if i > 0 && self.rng.chance(1, 8) {
                                    self.stats.hit("patch.empty");
                                    return (k, vec![]);
                                }
                                (k, self.ring(Dim::Xyzm, fl, allow_nan))
                            })
                            .collect(),
                    )
                }
            }
        };
        let c = if c.dim().has_m() && fl != Flavor::Exact && self.rng.chance(1, 10) {
            self.stats.hit("m.all-nodata");
            map_points(c, &|mut p| {
                p.m = NO_DATA_BITS;
                p
            })
        } else {
            c
        };
        self.stats.hit(&format!("type.{}", c.type_name()));
        self.stats.add("parts", c.parts().len() as u64);
        self.stats.add("points", c.parts().iter().map(|p| p.len() as u64).sum());
        c
    }

    pub fn flavor(&mut self) -> Flavor {
        match self.rng.below(4) {
            0 => Flavor::Exact,
            1 => Flavor::Wild,
            _ => Flavor::Special,
        }
    }

    /// (family, dim) of one of the 13 concrete types
    pub fn type13(&mut self) -> (&'static str, Dim) {
        *self.rng.pick(&ALL13)
    }

    /// a file's worth of shapes of one type
    pub fn shapes(&mut self, family: &str, d: Dim, n: usize, allow_nan: bool) -> Vec<Ctor> {
        (0..n)
            .map(|_| {
                let fl = self.flavor();
                self.ctor(family, d, fl, allow_nan)
            })
            .collect()
    }
}

/// the same constructor call with every vertex mapped
pub fn map_points(c: Ctor, f: &dyn Fn(P) -> P) -> Ctor {
    let mp = |v: Vec<P>| -> Vec<P> { v.into_iter().map(f).collect() };
    match c {
        Ctor::Point(d, p) => Ctor::Point(d, f(p)),
        Ctor::Multipoint(d, v) => Ctor::Multipoint(d, mp(v)),
        Ctor::Polyline(d, v) => Ctor::Polyline(d, mp(v)),
        Ctor::PolylineParts(d, pp) => Ctor::PolylineParts(d, pp.into_iter().map(mp).collect()),
        Ctor::Polygon(d, r, v) => Ctor::Polygon(d, r, mp(v)),
        Ctor::PolygonRings(d, rr) => Ctor::PolygonRings(d, rr.into_iter().map(|(r, v)| (r, mp(v))).collect()),
        Ctor::Multipatch(k, v) => Ctor::Multipatch(k, mp(v)),
        Ctor::MultipatchParts(pp) => Ctor::MultipatchParts(pp.into_iter().map(|(k, v)| (k, mp(v))).collect()),
    }
}

pub const ALL13: [(&str, Dim); 13] = [
    ("point", Dim::Xy),
    ("point", Dim::Xym),
    ("point", Dim::Xyzm),
    ("multipoint", Dim::Xy),
    ("multipoint", Dim::Xym),
    ("multipoint", Dim::Xyzm),
    ("polyline", Dim::Xy),
    ("polyline", Dim::Xym),
    ("polyline", Dim::Xyzm),
    ("polygon", Dim::Xy),
    ("polygon", Dim::Xym),
    ("polygon", Dim::Xyzm),
    ("multipatch", Dim::Xyzm),
];

pub fn type_name_of(family: &str, d: Dim) -> String {
    let suffix = match d {
        Dim::Xy => "",
        Dim::Xym => "M",
        Dim::Xyzm => "Z",
    };
    match family {
        "point" => format!("Point{}", suffix),
        "multipoint" => format!("Multipoint{}", suffix),
        "polyline" => format!("Polyline{}", suffix),
        "polygon" => format!("Polygon{}", suffix),
        _ => "Multipatch".into(),
    }
}

//! Correspondence + direct-oracle harness for tmontaigu/shapefile-rs (see /verif/DESIGN.md).
//!
//!   harness cases <prop> <tier> <seed>   generate this property's cases, run them on the real
//!                                        crate, evaluate the direct oracles
//!   harness run                          stdin: `<id> <case>` lines -> `IMPL <id> <result>`
//!   harness oracle <prop>                stdin: `<id> <case>` lines -> ORACLE lines (replay)
mod dump;
mod round3;
mod round4;
mod round5;
mod round6;
mod round7;
mod round8;
mod round9;
mod alloc;
mod cases;
mod exec;
mod extra;
mod gen;
mod oracles;
mod proto;

use cases::*;
use exec::*;
use gen::*;
use oracles::*;
use proto::*;
use std::io::{BufRead, Write};

pub struct Out {
    pub prop: String,
    pub n: usize,
    pub lines: Vec<String>,
    pub fails: usize,
    pub samples: usize,
}
impl Out {
    fn new(prop: &str) -> Self {
        Out { prop: prop.to_string(), n: 0, lines: vec![], fails: 0, samples: 0 }
    }
    fn flush(&mut self) {
        let stdout = std::io::stdout();
        let mut h = stdout.lock();
        for l in self.lines.drain(..) {
            let _ = writeln!(h, "{}", l);
        }
    }
    /// a case that also goes to the Lean driver; returns (id, what the implementation did)
    pub fn case(&mut self, c: &Case) -> (String, String) {
        self.n += 1;
        let id = format!("{}-{}", self.prop, self.n);
        let text = show_case(c);
        let res = run_case(c);
        self.lines.push(format!("CASE {} {}", id, text));
        self.lines.push(format!("IMPL {} {}", id, res));
        if self.samples < 3 && text.len() < 600 {
            self.samples += 1;
            self.lines.push(format!("SAMPLE {} => {}", text, &res[..res.len().min(300)]));
        }
        if self.lines.len() > 2000 {
            self.flush();
        }
        (id, res)
    }
    /// a case evaluated by an oracle only (not sent to the driver)
    pub fn oracle_only_id(&mut self) -> String {
        self.n += 1;
        format!("{}-{}", self.prop, self.n)
    }
    pub fn verdict(&mut self, id: &str, replay: &str, v: Verdict) {
        if v.ok {
            self.lines.push(format!("ORACLE {} {} PASS", self.prop, id));
        } else {
            self.fails += 1;
            self.lines.push(format!("ORACLE {} {} FAIL {} :: {} :: {}", self.prop, id, v.signature, v.message.replace('\n', " "), replay));
        }
    }
    pub fn stat(&mut self, k: &str, v: u64) {
        self.lines.push(format!("STAT {} {}", k, v));
    }
}

/// the oracles that apply to a case of property `prop` (used by generation and by replay)
pub fn oracles_for(prop: &str, c: &Case, impl_result: &str) -> Vec<Verdict> {
    let mut v = vec![];
    match (prop, c) {
        ("C01", Case::Write { ctors, .. }) => v.push(oracle_c01(ctors)),
        ("C04", Case::Write { ctors, .. }) => v.push(oracle_c04(ctors)),
        ("C05", Case::Write { ctors, .. }) => v.push(oracle_c05(ctors)),
        ("C01", Case::WriteH { route, ctors, .. }) => v.push(with_route(*route, || oracle_c01(ctors))),
        ("C04", Case::WriteH { route, ctors, .. }) => v.push(with_route(*route, || oracle_c04(ctors))),
        ("C05", Case::WriteH { route, ctors, .. }) => v.push(with_route(*route, || oracle_c05(ctors))),
        ("C05", Case::Construct(c)) => v.push(oracle_c05(std::slice::from_ref(c))),
        ("C06", Case::Read { target, shp, .. }) if target != "generic" => v.push(oracle_c06(target, shp)),
        ("C06", Case::Construct(c)) => v.push(oracle_c06_value(c)),
        ("C07", _) | ("C17", Case::Read { .. }) | ("C17", Case::Rhist { .. }) => {
            v.push(oracle_c07(impl_result));
            if prop == "C17" {
                v.push(extra::oracle_c17(c));
            }
            if prop == "C07" {
                match c {
                    Case::Read { shp, shx, .. } | Case::Rhist { shp, shx, .. } => v.push(round4::oracle_hint_no_panic(shp, shx.as_deref())),
                    _ => {}
                }
            }
        }
        ("C09", Case::Whist { shx, ending, ops }) => v.push(oracle_c09(*shx, ending, ops)),
        ("C09", Case::Wfault { shx, dest, fault, persistent, ops }) => {
            // only the part of the fault oracle that concerns C09: "each successful finalize leaves
            // ... a complete shapefile" also when an earlier finalize failed
            let x = extra::oracle_c12(*shx, dest, *fault, *persistent, ops);
            v.push(if x.ok || x.signature != "finalize-retry-differs" { Verdict::pass() } else { x });
        }
        ("C10", Case::Whist { shx, ending, ops }) => v.push(oracle_c10(*shx, ending, ops)),
        ("C11", Case::Whist { shx, ops, .. }) => v.push(extra::oracle_c11(*shx, ops, None)),
        ("C12", Case::Wfault { shx, dest, fault, persistent, ops }) => v.push(extra::oracle_c12(*shx, dest, *fault, *persistent, ops)),
        ("C12", Case::Whist { shx, ops, .. }) => v.push(extra::oracle_c12_chunks(*shx, ops)),
        ("C13", Case::Write { shx: _, ctors }) => v.push(extra::oracle_c13(ctors)),
        ("C15", Case::Rhist { target, shp, shx, ops }) | ("C14", Case::Rhist { target, shp, shx, ops }) => v.push(extra::oracle_c15(target, shp, shx.as_deref(), ops)),
        ("C03", Case::Read { .. }) | ("C03", Case::ReadFlat { .. }) | ("C14", Case::ReadFlat { .. }) => v.push(oracle_c07(impl_result)),
        ("C20", Case::Geo(extra::GeoCase::S2G(c))) => v.push(extra::oracle_c20_shape(c)),
        ("C20", Case::Geo(extra::GeoCase::G2S(g))) => v.push(extra::oracle_c20_geo(g)),
        ("C20", Case::Geo(extra::GeoCase::Dims(d, p))) => v.push(extra::oracle_c20_dims(*d, p)),
        ("C08", Case::DbfHist { base, ops }) => v.push(extra::oracle_c08(base, ops)),
        (_, Case::Scenario(a)) => {
            if let Some(x) = extra::oracle_scenario(prop, a) {
                v.push(x);
            }
        }
        ("C16", Case::Construct(c)) => v.push(oracle_c16(c)),
        ("C16", Case::Ring(d, r, ps)) => v.push(oracle_c16(&Ctor::PolygonRings(*d, vec![(*r, ps.clone())]))),
        ("C18", Case::Size(c)) => v.push(oracle_c18(c)),
        ("C18", Case::Write { ctors, .. }) => v.push(round3::oracle_record_lengths(ctors)),
        ("C18", Case::Read { shp, .. }) => {
            v.push(round6::oracle_size_of_read_shapes(shp));
            v.push(round7::oracle_rewrite_read_shapes(shp));
        }
        ("C19", Case::Read { target, shp, .. }) if (target == "generic" || target == "Point") && shp.len() >= 140 => {
            // the second record's type field holds an invalid code: that code is reported
            let code = i32::from_le_bytes([shp[136], shp[137], shp[138], shp[139]]);
            let items: Vec<&str> = impl_result.split(" ; ").collect();
            let want = format!("err shapetype {}", code);
            v.push(if ESRI_TABLE.iter().any(|r| r.0 == code) || items.get(2) == Some(&want.as_str()) {
                Verdict::pass()
            } else {
                Verdict::fail("record-code-error", format!("a record whose type field holds {} read as {}: {:?}, expected `{}`", code, target, items.get(2), want))
            });
        }
        ("C19", Case::Code(c)) => {
            v.push(oracle_c19(*c));
            v.push(oracle_c19_file(*c));
        }
        _ => {}
    }
    v
}

/// the ESRI type code of a (family, dimension) pair
fn ctors_code(fam: &str, d: Dim) -> i32 {
    let base = match fam {
        "point" => 1,
        "polyline" => 3,
        "polygon" => 5,
        "multipoint" => 8,
        _ => return 31,
    };
    base + match d {
        Dim::Xy => 0,
        Dim::Xym => 20,
        Dim::Xyzm => 10,
    }
}

fn run_and_judge(out: &mut Out, c: &Case) {
    let (id, res) = out.case(c);
    let prop = out.prop.clone();
    for v in oracles_for(&prop, c, &res) {
        out.verdict(&id, &show_case(c), v);
    }
}

struct Budget {
    files: usize,
    max_shapes: usize,
    max_parts: usize,
    max_points: usize,
    big_every: usize,
}
fn budget(tier: &str, quick: usize, thorough: usize) -> Budget {
    if tier == "thorough" {
        Budget { files: thorough, max_shapes: 12, max_parts: 6, max_points: 12, big_every: 0 }
    } else {
        Budget { files: quick, max_shapes: 5, max_parts: 4, max_points: 6, big_every: 0 }
    }
}

/// files of shapes of one type, cycling through the 13 types
fn for_each_file<F: FnMut(&mut Out, &str, Dim, Vec<Ctor>, &mut Rng)>(out: &mut Out, rng: &mut Rng, stats: &mut Stats, b: &Budget, allow_nan: bool, min_shapes: usize, mut f: F) {
    for i in 0..b.files {
        let (family, d) = ALL13[i % 13];
        let mut n = min_shapes + rng.below(b.max_shapes + 1 - min_shapes);
        if b.big_every > 0 && i % b.big_every == b.big_every - 1 {
            // now and then a file with many (small) shapes
            n = 8 + rng.below(40);
        }
        let ctors = {
            let mut g = Gen { rng, stats, max_parts: b.max_parts, max_points: b.max_points };
            g.shapes(family, d, n, allow_nan)
        };
        stats.hit(&format!("file.shapes.{}", n.min(6)));
        f(out, family, d, ctors, rng);
    }
}

fn cases_for(prop: &str, tier: &str, seed: u64, out: &mut Out) {
    let mut rng = Rng(seed ^ 0x5eed_0000 ^ (prop.bytes().fold(0u64, |a, b| a * 131 + b as u64)));
    let mut stats = Stats::default();
    match prop {
        "C01" | "C02" | "C04" | "C05" | "C13" => {
            let mut b = budget(tier, if prop == "C13" { 60 } else { 260 }, if prop == "C13" { 400 } else { 6000 });
            if prop != "C13" {
                b.big_every = 10;
            }
            let allow_nan = prop != "C05";
            for_each_file(out, &mut rng, &mut stats, &b, allow_nan, if prop == "C02" || prop == "C04" || prop == "C05" { 0 } else { 1 }, |out, _fam, _d, ctors, rng| {
                let c = Case::Write { shx: true, ctors: ctors.clone() };
                run_and_judge(out, &c);
                if matches!(out.prop.as_str(), "C01" | "C04" | "C05") && !ctors.is_empty() {
                    let route = rng.next() | 1;
                    run_and_judge(out, &Case::WriteH { route, shx: true, ctors: ctors.clone() });
                }
                let mut shapes = vec![];
                for c in &ctors {
                    shapes.push(build(c).unwrap());
                }
                let (shp, shx) = write_files(true, &shapes);
                match out.prop.as_str() {
                    "C01" => {
                        // the reading side of the correspondence: generic and typed, with and without index
                        let tn = ctors.first().map(|c| c.type_name()).unwrap_or("Point".into());
                        let with = rng.chance(1, 2);
                        out.case(&Case::Read { target: "generic".into(), shp: shp.clone(), shx: if with { Some(shx.clone()) } else { None } });
                        out.case(&Case::Read { target: tn, shp: shp.clone(), shx: if with { None } else { Some(shx.clone()) } });
                    }
                    "C02" => {
                        let c2 = Case::SpecDecode { shp: shp.clone(), expected: flat_expected(&shapes) };
                        out.case(&c2);
                        // without index destination the .shp must be the same
                        let (shp2, _) = write_files(false, &shapes);
                        let id = out.oracle_only_id();
                        out.verdict(&id, &show_case(&c), if shp2 == shp { Verdict::pass() } else { Verdict::fail("wellformed-shx-dependence", ".shp bytes depend on whether an index is written".into()) });
                        // "after finalize or drop": the same shapes with finalize calls interleaved at
                        // random places must leave a file the independent decoder reads identically
                        let mut ops: Vec<WOp> = vec![];
                        for (i, ct) in ctors.iter().enumerate() {
                            if rng.chance(1, 3) {
                                ops.push(WOp::Finalize);
                            }
                            if i > 0 && rng.chance(1, 3) {
                                // a write of another shape type: rejected, must leave no trace
                                let other = if ct.family() == "point" {
                                    Ctor::Polyline(Dim::Xy, vec![P { x: 0, y: 0, z: 0, m: NO_DATA_BITS }, P { x: 1.0f64.to_bits(), y: 0, z: 0, m: NO_DATA_BITS }])
                                } else {
                                    Ctor::Point(Dim::Xy, P { x: 0, y: 0, z: 0, m: NO_DATA_BITS })
                                };
                                ops.push(WOp::Write(other));
                            }
                            ops.push(WOp::Write(ct.clone()));
                        }
                        if rng.chance(1, 2) {
                            ops.push(WOp::Finalize);
                        }
                        let ending = if rng.chance(1, 2) { "drop" } else { "fdrop" };
                        let h = run_whist(true, ending, &ops, LogDst::new(), LogDst::new());
                        if h.panicked.is_none() {
                            out.case(&Case::SpecDecode { shp: h.shp.data(), expected: flat_expected(&shapes) });
                        }
                    }
                    "C04" => {
                        let n = shapes.len();
                        let mut ops = vec![ROp::Count, ROp::Hint];
                        for i in 0..=n {
                            ops.push(ROp::Nth(i));
                        }
                        ops.push(ROp::It(1));
                        ops.push(ROp::Hint);
                        ops.push(ROp::It(99));
                        out.case(&Case::Rhist { target: "generic".into(), shp: shp.clone(), shx: Some(shx.clone()), ops });
                    }
                    "C13" => {
                        // the reading side of the correspondence on truncated files: boundaries and random cuts
                        let mut cuts: Vec<usize> = vec![0, 3, 99, 100, 108, shp.len().saturating_sub(1), shp.len()];
                        if let Ok(recs) = walk_records(&shp) {
                            for (off, len) in recs {
                                cuts.push(off as usize * 2);
                                cuts.push(off as usize * 2 + 8 + len as usize);
                            }
                        }
                        for _ in 0..6 {
                            cuts.push(rng.below(shp.len() + 1));
                        }
                        if let Ok(recs) = walk_records(&shp) {
                            for (off, _) in recs.iter().take(2) {
                                for dlt in 0..64usize {
                                    cuts.push(*off as usize * 2 + dlt);
                                }
                            }
                        }
                        for t in cuts {
                            let t = t.min(shp.len());
                            out.case(&Case::Read { target: "generic".into(), shp: shp[..t].to_vec(), shx: if rng.chance(1, 3) { Some(shx.clone()) } else { None } });
                        }
                        let tx = rng.below(shx.len() + 1);
                        out.case(&Case::Read { target: "generic".into(), shp: shp.clone(), shx: Some(shx[..tx].to_vec()) });
                    }
                    "C05" => {
                        for ct in ctors.iter().take(2) {
                            run_and_judge(out, &Case::Construct(ct.clone()));
                        }
                    }
                    _ => {}
                }
            });
            if prop == "C04" {
                for n in [70000usize, 1500] {
                    let id = out.oracle_only_id();
                    out.verdict(&id, &format!("scenario big-index {}", n), round3::oracle_big_index(n));
                }
                let id = out.oracle_only_id();
                out.verdict(&id, "scenario far-records", round3::oracle_far_records());
                for n in [9usize, 3] {
                    let id = out.oracle_only_id();
                    out.verdict(&id, &format!("scenario iter-adaptors {}", n), round5::oracle_iter_adaptors(n));
                }
                let id = out.oracle_only_id();
                out.verdict(&id, "scenario big-index-routes 1500", round5::oracle_big_index_routes(1500));
                let id = out.oracle_only_id();
                out.verdict(&id, "scenario path-uppercase", round6::oracle_path_uppercase());
                let id = out.oracle_only_id();
                out.verdict(&id, "scenario nth-after-failed-nth", round8::oracle_nth_after_failed_nth());
                for (which, room, offered) in [("shx", 3usize, 5usize), ("shp", 2, 4), ("shx", 1, 2), ("shp", 4, 4)] {
                    let id = out.oracle_only_id();
                    out.verdict(&id, &format!("scenario failed-write-then-finalize {} {} {}", which, room, offered), round7::oracle_failed_write_then_finalize(which, room, offered));
                }
                for (n_old, n_new) in [(6usize, 2usize), (3, 3), (2, 5), (9, 1)] {
                    let id = out.oracle_only_id();
                    out.verdict(&id, &format!("scenario reused-destinations {} {}", n_old, n_new), round4::oracle_reused_destinations(n_old, n_new));
                }
            }
            if prop == "C01" {
                for (n_old, n_new) in [(5usize, 2usize), (3, 3)] {
                    let id = out.oracle_only_id();
                    out.verdict(&id, &format!("scenario reused-destinations {} {}", n_old, n_new), round4::oracle_reused_destinations(n_old, n_new));
                }
            }
            if prop == "C01" {
                // parts longer than any block a writer could reasonably buffer
                for (fam, d) in ALL13.iter().filter(|(f, _)| *f != "point") {
                    for n in [257usize, 513, 1025] {
                        let mut g = Gen { rng: &mut rng, stats: &mut stats, max_parts: 1, max_points: n };
                        let ps = g.pts(*d, n, Flavor::Exact, false);
                        let c = match *fam {
                            "multipoint" => Ctor::Multipoint(*d, ps),
                            "polyline" => Ctor::PolylineParts(*d, vec![ps.clone(), ps[..3].to_vec()]),
                            "polygon" => Ctor::PolygonRings(*d, vec![(Role::Outer, ps)]),
                            _ => Ctor::MultipatchParts(vec![(Kind::Strip, ps.clone()), (Kind::Ring, ps[..4].to_vec())]),
                        };
                        stats.hit("shape.long-part");
                        run_and_judge(out, &Case::Write { shx: true, ctors: vec![c] });
                    }
                }
            }
            if prop == "C01" {
                // a polygon with a tiny hole (exact, non-zero area down to 2^-60): roles survive the round trip
                for k in [20i32, 27, 30] {
                    let s = (2.0f64).powi(-k);
                    let q = |x: f64, y: f64| P { x: (1000.0 + x * s).to_bits(), y: (2010.0 + y * s).to_bits(), z: 0, m: NO_DATA_BITS };
                    let big = |x: f64, y: f64| P { x: (1000.0 + x).to_bits(), y: (2010.0 + y).to_bits(), z: 0, m: NO_DATA_BITS };
                    let c = Ctor::PolygonRings(Dim::Xy, vec![
                        (Role::Outer, vec![big(-4.0, -4.0), big(-4.0, 4.0), big(4.0, 4.0), big(4.0, -4.0), big(-4.0, -4.0)]),
                        (Role::Inner, vec![q(0.0, 0.0), q(1.0, 0.0), q(1.0, 1.0), q(0.0, 1.0), q(0.0, 0.0)]),
                    ]);
                    stats.hit("polygon.tiny-hole");
                    run_and_judge(out, &Case::Write { shx: true, ctors: vec![c] });
                }
            }
            if prop == "C05" {
                // parts longer than any block a fold could be cut into, the extreme in the last vertices
                for (fam, d) in ALL13.iter().filter(|(f, _)| *f != "point") {
                    for n in [1025usize, 1027, 1030, 2051] {
                        let mut ps: Vec<P> = (0..n).map(|i| P { x: ((i % 100) as f64).to_bits(), y: ((i % 50) as f64).to_bits(), z: ((i % 7) as f64).to_bits(), m: ((i % 9) as f64 + 1.0).to_bits() }).collect();
                        ps[n - 1] = P { x: 500.0f64.to_bits(), y: 600.0f64.to_bits(), z: 700.0f64.to_bits(), m: 800.0f64.to_bits() };
                        ps[n - 2] = P { x: (-500.0f64).to_bits(), y: (-600.0f64).to_bits(), z: (-700.0f64).to_bits(), m: 0.5f64.to_bits() };
                        let c = match *fam {
                            "multipoint" => Ctor::Multipoint(*d, ps),
                            "polyline" => Ctor::PolylineParts(*d, vec![ps.clone(), ps[..3].to_vec()]),
                            "polygon" => Ctor::PolygonRings(*d, vec![(Role::Outer, ps)]),
                            _ => Ctor::MultipatchParts(vec![(Kind::Strip, ps.clone()), (Kind::Ring, ps[..4].to_vec())]),
                        };
                        stats.hit("shape.long-part-extreme-last");
                        run_and_judge(out, &Case::Construct(c.clone()));
                        run_and_judge(out, &Case::Write { shx: true, ctors: vec![c] });
                    }
                }
            }
            if prop == "C05" {
                // the header box after a write that FAILED, and after a finalize that failed and was retried
                for (which, room, offered) in [("shp", 2usize, 4usize), ("shx", 3, 5), ("shp", 1, 3)] {
                    let id = out.oracle_only_id();
                    out.verdict(&id, &format!("scenario failed-write-then-finalize {} {} {}", which, room, offered), round7::oracle_failed_write_then_finalize(which, room, offered));
                }
                let a = Ctor::Polyline(Dim::Xym, vec![P { x: 9.0f64.to_bits(), y: 48.5f64.to_bits(), z: 0, m: 90.0f64.to_bits() }, P { x: 15.0f64.to_bits(), y: 54.0f64.to_bits(), z: 0, m: 230.0f64.to_bits() }]);
                let ops = vec![WOp::Write(a.clone()), WOp::Write(a), WOp::Finalize];
                for n in (0..360usize).step_by(4) {
                    for dest in ["shp", "shx"] {
                        let c = Case::Wfault { shx: true, dest: dest.to_string(), fault: Fault::WriteAfter(n), persistent: false, ops: ops.clone() };
                        let id = out.oracle_only_id();
                        let v = extra::oracle_c12(true, dest, Fault::WriteAfter(n), false, &ops);
                        out.verdict(&id, &show_case(&c), v);
                    }
                }
            }
            if prop == "C13" {
                let id = out.oracle_only_id();
                out.verdict(&id, "scenario reverse-truncated", round7::oracle_reverse_truncated());
                for (code, nparts) in [(8i32, 0usize), (18, 0), (28, 0), (13, 0), (15, 2), (31, 1), (23, 1)] {
                    let id = out.oracle_only_id();
                    out.verdict(&id, &format!("scenario truncated-empty-shapes {} {}", code, nparts), round8::oracle_truncated_empty_shapes(code, nparts));
                }
                let id = out.oracle_only_id();
                out.verdict(&id, "scenario gap-faults", round5::oracle_gap_faults());
                let id = out.oracle_only_id();
                out.verdict(&id, "scenario path-truncated", round6::oracle_path_truncated());
            }
            if prop == "C02" {
                for chunk in [1usize, 3, 7, 4096] {
                    let id = out.oracle_only_id();
                    out.verdict(&id, &format!("scenario chunked-destination {}", chunk), round6::oracle_chunked_destination(chunk));
                }
            }
            if prop == "C02" {
                for n in [1usize, 3, 20] {
                    let id = out.oracle_only_id();
                    out.verdict(&id, &format!("scenario panic-drop {}", n), round4::oracle_panic_drop(n));
                }
                for (n_old, n_new) in [(40usize, 3usize), (7, 7), (12, 0)] {
                    let id = out.oracle_only_id();
                    out.verdict(&id, &format!("scenario path-overwrite {} {}", n_old, n_new), extra::oracle_path_overwrite(n_old, n_new));
                }
            }
        }
        "C14" => {
            for n in [1500usize, 1025] {
                let id = out.oracle_only_id();
                out.verdict(&id, &format!("scenario big-index {}", n), round3::oracle_big_index(n));
            }
            let id = out.oracle_only_id();
            out.verdict(&id, "scenario far-records", round3::oracle_far_records());
            for chunk in [1usize, 5, 13, 4096] {
                let id = out.oracle_only_id();
                out.verdict(&id, &format!("scenario gap-chunked {}", chunk), round4::oracle_gap_chunked(chunk));
            }
            let id = out.oracle_only_id();
            out.verdict(&id, "scenario empty-index", round4::oracle_empty_index());
            let id = out.oracle_only_id();
            out.verdict(&id, "scenario big-index-routes 1500", round5::oracle_big_index_routes(1500));
            let id = out.oracle_only_id();
            out.verdict(&id, "scenario path-foreign-layout", round6::oracle_path_foreign_layout());
            for n in [6usize, 3] {
                let id = out.oracle_only_id();
                out.verdict(&id, &format!("scenario iter-adaptors {}", n), round5::oracle_iter_adaptors(n));
            }
            let id = out.oracle_only_id();
            out.verdict(&id, "scenario typed-nth-failure", round3::oracle_typed_nth_failure());

            // a typed iteration over a file with a null record in the middle (fillers, reverse order)
            {
                let (nf, nx) = round5::null_in_the_middle();
                for tg in ["Point", "generic", "PointZ"] {
                    run_and_judge(out, &Case::Read { target: tg.into(), shp: nf.clone(), shx: Some(nx.clone()) });
                    run_and_judge(out, &Case::Rhist { target: tg.into(), shp: nf.clone(), shx: Some(nx.clone()), ops: vec![ROp::Nth(1), ROp::It(2), ROp::Nth(1), ROp::It(99), ROp::Hint] });
                }
            }
            // the same records in reverse physical order, driven by operation histories
            let (pf, px) = round4::permuted_polylines(4);
            for ops in [vec![ROp::It(99)], vec![ROp::Nth(3), ROp::It(99)], vec![ROp::Seek(2), ROp::It(1), ROp::It(99)], vec![ROp::It(2), ROp::Nth(0), ROp::It(99), ROp::Count]] {
                run_and_judge(out, &Case::Rhist { target: "generic".into(), shp: pf.clone(), shx: Some(px.clone()), ops });
            }
        }
        "C06" => {
            {
                let id = out.oracle_only_id();
                out.verdict(&id, "scenario typed-nth-failure", round3::oracle_typed_nth_failure());
                let id = out.oracle_only_id();
                out.verdict(&id, "scenario read-vs-readas", round4::oracle_read_vs_readas());
                let id = out.oracle_only_id();
                out.verdict(&id, "scenario path-foreign-layout", round6::oracle_path_foreign_layout());
            }
            // records without their optional M block: typed and generic reads must still agree
            for (fam, d) in ALL13.iter().filter(|(f, d)| *d != Dim::Xy && *f != "point") {
                let c = {
                    let mut g = Gen { rng: &mut rng, stats: &mut stats, max_parts: 2, max_points: 4 };
                    g.ctor(fam, *d, Flavor::Exact, false)
                };
                let a = build(&c).unwrap();
                let npts = sv_of_any(&a).parts().iter().map(|p| p.len()).sum::<usize>();
                let (shp, _) = write_files(false, std::slice::from_ref(&a));
                let f = round5::strip_record_tail(&shp, 16 + 8 * npts);
                stats.hit("typed.m-less-record");
                for req in TYPE_NAMES {
                    run_and_judge(out, &Case::Read { target: req.to_string(), shp: f.clone(), shx: None });
                }
                run_and_judge(out, &Case::Read { target: "generic".into(), shp: f, shx: None });
            }
            {
                let a = build(&Ctor::Point(Dim::Xyzm, P { x: 1.0f64.to_bits(), y: 2.0f64.to_bits(), z: 3.0f64.to_bits(), m: 4.0f64.to_bits() })).unwrap();
                let (shp, _) = write_files(false, std::slice::from_ref(&a));
                let f = round5::strip_record_tail(&shp, 8);
                for req in TYPE_NAMES {
                    run_and_judge(out, &Case::Read { target: req.to_string(), shp: f.clone(), shx: None });
                }
            }
            // single points whose measure is a no-data marker other than the constant itself
            for d in [Dim::Xym, Dim::Xyzm] {
                for m in [f64::MIN.to_bits(), (-2e39f64).to_bits(), next_down(NO_DATA_BITS), NO_DATA_BITS, next_up(NO_DATA_BITS), 0x7ff8_0000_0000_0000u64, f64::NEG_INFINITY.to_bits()] {
                    let c = Ctor::Point(d, P { x: 1.0f64.to_bits(), y: 2.0f64.to_bits(), z: 3.0f64.to_bits(), m });
                    stats.hit("typed.point-special-measure");
                    run_and_judge(out, &Case::Construct(c.clone()));
                    let (shp, _) = write_files(false, &[build(&c).unwrap()]);
                    for req in TYPE_NAMES {
                        run_and_judge(out, &Case::Read { target: req.to_string(), shp: shp.clone(), shx: None });
                    }
                }
            }
            // records that hold no vertex at all: typed and generic reads agree on what they are
            for code in [8i32, 18, 28, 3, 5, 13, 15, 23, 25, 31] {
                for nparts in [0usize, 2] {
                    if [8, 18, 28].contains(&code) && nparts > 0 {
                        continue;
                    }
                    let f = round5::empty_shape_file(code, nparts, 0.0, true);
                    stats.hit("typed.empty-shape");
                    for req in TYPE_NAMES {
                        run_and_judge(out, &Case::Read { target: req.to_string(), shp: f.clone(), shx: None });
                    }
                    run_and_judge(out, &Case::Read { target: "generic".into(), shp: f.clone(), shx: None });
                    // with the index as well (typed iteration that goes on after a refused record)
                    let x = round7::index_of(&f);
                    run_and_judge(out, &Case::Read { target: "Point".into(), shp: f.clone(), shx: Some(x.clone()) });
                    run_and_judge(out, &Case::Read { target: "generic".into(), shp: f, shx: Some(x) });
                }
            }
            // polylines all of whose parts are closed (they look like rings): still polylines
            for d in Dim::ALL {
                let ring = |o: f64| -> Vec<P> {
                    [(0.0, 0.0), (0.0, 3.0), (3.0, 3.0), (3.0, 0.0), (0.0, 0.0)].iter().map(|(x, y)| P { x: (o + x).to_bits(), y: (*y as f64).to_bits(), z: 1.0f64.to_bits(), m: 2.0f64.to_bits() }).collect()
                };
                let c = Ctor::PolylineParts(d, vec![ring(0.0), ring(10.0)]);
                stats.hit("typed.closed-polyline");
                run_and_judge(out, &Case::Construct(c.clone()));
                let (shp, _) = write_files(false, &[build(&c).unwrap()]);
                for req in TYPE_NAMES {
                    run_and_judge(out, &Case::Read { target: req.to_string(), shp: shp.clone(), shx: None });
                }
            }
            // files whose header does not tell what the first record is: no record at all, a null
            // record first, a header of another type than the records
            for (fam, d) in ALL13.iter() {
                let ctors = {
                    let mut g = Gen { rng: &mut rng, stats: &mut stats, max_parts: 2, max_points: 3 };
                    g.shapes(fam, *d, 2, false)
                };
                let shapes: Vec<Any> = ctors.iter().map(|c| build(c).unwrap()).collect();
                let (shp, _) = write_files(false, &shapes);
                let mut empty = shp[..100].to_vec();
                empty[24..28].copy_from_slice(&50i32.to_be_bytes());
                let mut lead = shp[..100].to_vec();
                lead.extend_from_slice(&[0, 0, 0, 1, 0, 0, 0, 2, 0, 0, 0, 0]);
                lead.extend_from_slice(&shp[100..]);
                let total = (lead.len() / 2) as i32;
                lead[24..28].copy_from_slice(&total.to_be_bytes());
                let mut other = shp.clone();
                let oc: i32 = if *fam == "point" { 3 } else { 1 };
                other[32..36].copy_from_slice(&oc.to_le_bytes());
                stats.hit("typed.header-silent-files");
                for f in [empty, lead, other] {
                    for req in TYPE_NAMES {
                        run_and_judge(out, &Case::Read { target: req.to_string(), shp: f.clone(), shx: None });
                    }
                    run_and_judge(out, &Case::Read { target: "generic".into(), shp: f, shx: None });
                }
            }
            let reps = if tier == "thorough" { 12 } else { 1 };
            for rep in 0..reps {
                // 13 x 14 matrix of (requested, actual); "actual" includes null-shape records
                for (fam, d) in ALL13.iter() {
                    let ctors = {
                        let mut g = Gen { rng: &mut rng, stats: &mut stats, max_parts: 3, max_points: 4 };
                        g.shapes(fam, *d, 2 + rep % 2, true)
                    };
                    let shapes: Vec<Any> = ctors.iter().map(|c| build(c).unwrap()).collect();
                    let (shp, _) = write_files(false, &shapes);
                    for req in TYPE_NAMES {
                        run_and_judge(out, &Case::Read { target: req.to_string(), shp: shp.clone(), shx: None });
                    }
                    run_and_judge(out, &Case::Construct(ctors[0].clone()));
                    // a file of this type whose second record is a null shape
                    let mut mixed = shp.clone();
                    mixed.extend_from_slice(&[0, 0, 0, 9, 0, 0, 0, 2, 0, 0, 0, 0]);
                    let total = (mixed.len() / 2) as i32;
                    mixed[24..28].copy_from_slice(&total.to_be_bytes());
                    for req in TYPE_NAMES {
                        run_and_judge(out, &Case::Read { target: req.to_string(), shp: mixed.clone(), shx: None });
                    }
                    run_and_judge(out, &Case::Read { target: "generic".into(), shp: mixed, shx: None });
                }
            }
        }
        "C07" | "C17" => {
            extra::cases_malformed(prop, tier, &mut rng, &mut stats, out);
            let id = out.oracle_only_id();
            out.verdict(&id, "scenario far-records", round3::oracle_far_records());
            // a null-shape record announcing an absurd content length; many parts without their points
            for words in [-1i32, -2, i32::MIN, -(1 << 30), -(1 << 30) + 1, 1 << 26, (1 << 30) - 1, 1 << 20] {
                let mut f = vec![0u8; 100];
                f[0..4].copy_from_slice(&9994i32.to_be_bytes());
                f[24..28].copy_from_slice(&i32::MAX.to_be_bytes());
                f[28..32].copy_from_slice(&1000i32.to_le_bytes());
                f[32..36].copy_from_slice(&5i32.to_le_bytes());
                f.extend_from_slice(&1i32.to_be_bytes());
                f.extend_from_slice(&words.to_be_bytes());
                f.extend_from_slice(&0i32.to_le_bytes());
                f.extend_from_slice(&[0u8; 24]);
                stats.hit("mut.null-record-length");
                run_and_judge(out, &Case::Read { target: "generic".into(), shp: f.clone(), shx: None });
                let mut x = f[..100].to_vec();
                x[24..28].copy_from_slice(&54i32.to_be_bytes());
                x.extend_from_slice(&50i32.to_be_bytes());
                x.extend_from_slice(&words.to_be_bytes());
                run_and_judge(out, &Case::Rhist { target: "generic".into(), shp: f, shx: Some(x), ops: vec![ROp::Nth(0), ROp::It(3)] });
            }
            for nparts in [5000usize, 1200] {
                let (m, _) = round3::oracle_many_unbacked_parts(nparts);
                stats.hit("mut.many-unbacked-parts");
                run_and_judge(out, &Case::Read { target: "generic".into(), shp: m, shx: None });
            }
            // many parts that ARE there and hold no points: 4 input bytes per part
            for (code, nparts) in [(3i32, 6000usize), (15, 6000), (5, 3000), (23, 3000)] {
                stats.hit("mut.many-empty-parts");
                run_and_judge(out, &Case::Read { target: "generic".into(), shp: round4::many_empty_parts(code, nparts), shx: None });
            }
            // a header length that ends inside a record / declares far more than there is
            {
                let shapes: Vec<Any> = (0..4).map(|q| Any::Point(shapefile::Point::new(q as f64, 1.0))).collect();
                let (shp, shx) = write_files(true, &shapes);
                for words in [51i32, 57, 60, 63, 64, 65, 77, 91, 1 << 22, i32::MAX] {
                    let mut f = shp.clone();
                    f[24..28].copy_from_slice(&words.to_be_bytes());
                    stats.hit("mut.header-length-inside-record");
                    run_and_judge(out, &Case::Read { target: "generic".into(), shp: f.clone(), shx: None });
                    run_and_judge(out, &Case::Rhist { target: "generic".into(), shp: f, shx: Some(shx.clone()), ops: vec![ROp::It(2), ROp::Hint, ROp::It(99), ROp::Hint] });
                }
            }
            // a negative NumPoints with a NumParts that makes the declared length agree with the formula
            for code in [3i32, 5, 13, 15, 23, 25, 31] {
                for npoints in [-1i32, -2, -5, i32::MIN / 64] {
                    stats.hit("mut.negative-points-consistent");
                    run_and_judge(out, &Case::Read { target: "generic".into(), shp: round7::negative_points_file(code, npoints), shx: None });
                }
            }
            // records that hold no vertex at all, with a stored box of any value
            for code in [8i32, 18, 28, 3, 5, 13, 15, 23, 25, 31] {
                for nparts in [0usize, 1, 2] {
                    if [8, 18, 28].contains(&code) && nparts > 0 {
                        continue;
                    }
                    for boxv in [0.0f64, f64::NAN, f64::INFINITY, -1e39] {
                        for with_m in [true, false] {
                            stats.hit("mut.empty-shape");
                            run_and_judge(out, &Case::Read { target: "generic".into(), shp: round5::empty_shape_file(code, nparts, boxv, with_m), shx: None });
                        }
                    }
                }
            }
            if prop == "C17" {
                for words in [1i32 << 22, i32::MAX, 1 << 28] {
                    let id = out.oracle_only_id();
                    out.verdict(&id, &format!("scenario collect-peak {}", words), round4::oracle_collect_peak(words));
                }
                {
                    for words in [600_000_000i32, i32::MAX, 1 << 24] {
                        let id = out.oracle_only_id();
                        out.verdict(&id, &format!("scenario path-hostile-index {}", words), round8::oracle_path_hostile_index(words));
                    }
                    let id = out.oracle_only_id();
                    out.verdict(&id, "scenario sparse-record-numbers", round7::oracle_sparse_record_numbers());
                    let id = out.oracle_only_id();
                    out.verdict(&id, "scenario after-large-dataset", round7::oracle_after_large_dataset());
                }
                for announced in [1_000_000u32, u32::MAX / 64] {
                    let id = out.oracle_only_id();
                    out.verdict(&id, &format!("scenario dbf-count-peak {}", announced), extra::oracle_scenario("C17", &["dbf-count-peak".to_string(), announced.to_string()]).unwrap());
                }
            }
        }
        "C09" | "C10" => {
            extra::cases_whist(prop, tier, &mut rng, &mut stats, out);
            if prop == "C09" {
                for n in [0usize, 2, 5] {
                    let id = out.oracle_only_id();
                    out.verdict(&id, &format!("scenario panic-drop {}", n), round4::oracle_panic_drop(n));
                }
                extra::cases_fault("quick", &mut rng, &mut stats, out);
                for (n_old, n_new) in [(40usize, 3usize), (7, 7), (12, 1)] {
                    let id = out.oracle_only_id();
                    out.verdict(&id, &format!("scenario path-overwrite {} {}", n_old, n_new), extra::oracle_path_overwrite(n_old, n_new));
                }
            }
            if prop == "C10" {
                for kind in ["null", "huge"] {
                    let id = out.oracle_only_id();
                    out.verdict(&id, &format!("scenario custom-rejected {}", kind), round3::oracle_custom_rejected(kind));
                }
                extra::cases_dbf_c10(tier, &mut stats, out);
                for base in ["Point", "Polyline"] {
                    for (n_good, n_batch) in [(1usize, 1usize), (2, 3)] {
                        let id = out.oracle_only_id();
                        out.verdict(&id, &format!("scenario batch-rejected {} {} {}", base, n_good, n_batch), extra::oracle_batch_rejected(base, n_good, n_batch));
                    }
                }
                for n in [0usize, 1, 2, 5] {
                    let id = out.oracle_only_id();
                    out.verdict(&id, &format!("scenario write-shapes-rejected {}", n), round4::oracle_write_shapes_rejected(n));
                }
            }
        }
        "C11" => extra::cases_crash(tier, &mut rng, &mut stats, out),
        "C12" => {
            extra::cases_fault(tier, &mut rng, &mut stats, out);
            let id = out.oracle_only_id();
            out.verdict(&id, "scenario bulk-write-faults", round7::oracle_bulk_write_faults());
            for (which, room, offered) in [("shx", 3usize, 5usize), ("shp", 2, 4)] {
                let id = out.oracle_only_id();
                out.verdict(&id, &format!("scenario failed-write-then-finalize {} {} {}", which, room, offered), round7::oracle_failed_write_then_finalize(which, room, offered));
            }
        }
        "C15" => {
            extra::cases_rhist(tier, &mut rng, &mut stats, out);
            extra::cases_pairs_c15(tier, &mut stats, out);
            {
                let id = out.oracle_only_id();
                out.verdict(&id, "scenario nth-after-failed-nth", round8::oracle_nth_after_failed_nth());
            }
            for n in [6usize, 2] {
                let id = out.oracle_only_id();
                out.verdict(&id, &format!("scenario iter-adaptors {}", n), round5::oracle_iter_adaptors(n));
            }
            let id = out.oracle_only_id();
            out.verdict(&id, "scenario typed-nth-failure", round3::oracle_typed_nth_failure());
            {
                let (nf, nx) = round5::null_in_the_middle();
                for tg in ["Point", "generic"] {
                    for ops in [vec![ROp::It(99), ROp::It(99)], vec![ROp::Nth(1), ROp::It(2), ROp::Nth(1), ROp::It(99)], vec![ROp::Seek(1), ROp::It(99)], vec![ROp::It(3), ROp::Nth(4), ROp::It(99)]] {
                        run_and_judge(out, &Case::Rhist { target: tg.into(), shp: nf.clone(), shx: Some(nx.clone()), ops });
                    }
                }
            }
        }
        "C08" => extra::cases_dbf(tier, &mut rng, &mut stats, out),
        "C20" => extra::cases_geo(tier, &mut rng, &mut stats, out),
        "C16" => {
            let n = if tier == "thorough" { 20000 } else { 700 };
            for i in 0..n {
                let mut g = Gen { rng: &mut rng, stats: &mut stats, max_parts: 4, max_points: if tier == "thorough" { 24 } else { 7 } };
                let fl = if i % 2 == 0 { Flavor::Exact } else { g.flavor() };
                let d = Dim::ALL[i % 3];
                if i % 4 == 3 {
                    let c = g.ctor("multipatch", Dim::Xyzm, fl, false);
                    run_and_judge(out, &Case::Construct(c));
                } else if i % 4 == 2 {
                    let r = g.role();
                    let ps = g.ring(d, fl, false);
                    run_and_judge(out, &Case::Ring(d, r, ps));
                } else {
                    let c = g.ctor("polygon", d, fl, false);
                    run_and_judge(out, &Case::Construct(c));
                }
                // small rings far from the origin: integer vertices scaled by 2^-k and translated, so
                // that the (exactly representable) doubled area is tiny (down to 2^-60) but not zero
                if i % 2 == 0 {
                    let r = g.role();
                    let ps = g.ring(d, Flavor::Exact, false);
                    let k = *g.rng.pick(&[8i32, 16, 20, 30]);
                    let (ox, oy) = (*g.rng.pick(&[0.0f64, 1000.0, -72.5, 4096.0]), *g.rng.pick(&[0.0f64, 2010.0, 41.25, -512.0]));
                    let s = (2.0f64).powi(-k);
                    let scaled: Vec<P> = ps.iter().map(|p| P { x: (ox + f(p.x) * s).to_bits(), y: (oy + f(p.y) * s).to_bits(), z: p.z, m: p.m }).collect();
                    g.stats.hit("ring.scaled");
                    run_and_judge(out, &Case::Ring(d, r, scaled));
                }
            }
            // rings with more vertices than any block a summation could be cut into
            for (w, h) in [(40usize, 25usize), (64, 1), (100, 30), (200, 57)] {
                for cw in [true, false] {
                    for role in [Role::Outer, Role::Inner] {
                        let ps = round5::long_ring(w, h, 500000.0, 1000000.0, cw);
                        stats.hit("ring.long");
                        run_and_judge(out, &Case::Ring(Dim::Xy, role, ps.clone()));
                        let mut open = ps.clone();
                        open.pop();
                        run_and_judge(out, &Case::Ring(Dim::Xy, role, open));
                    }
                }
            }
            extra::macro_cases(out);
        }
        "C18" => {
            // dense grid parts 1..6 x points 1..8 per type, then random larger shapes
            for (fam, d) in ALL13.iter() {
                for parts in 1..=6usize {
                    for pts in 1..=8usize {
                        let mut g = Gen { rng: &mut rng, stats: &mut stats, max_parts: parts, max_points: pts };
                        let mk = |g: &mut Gen, n: usize| g.pts(*d, n, Flavor::Special, true);
                        let c = match *fam {
                            "point" => {
                                if parts > 1 || pts > 1 {
                                    continue;
                                }
                                Ctor::Point(*d, g.pt(*d, Flavor::Special, true))
                            }
                            "multipoint" => {
                                if parts > 1 {
                                    continue;
                                }
                                Ctor::Multipoint(*d, mk(&mut g, pts))
                            }
                            "polyline" => Ctor::PolylineParts(*d, (0..parts).map(|_| mk(&mut g, pts + 1)).collect()),
                            "polygon" => Ctor::PolygonRings(*d, (0..parts).map(|i| (if i % 2 == 0 { Role::Outer } else { Role::Inner }, mk(&mut g, pts))).collect()),
                            _ => Ctor::MultipatchParts((0..parts).map(|i| (Kind::ALL[i % 6], mk(&mut g, pts))).collect()),
                        };
                        stats.hit(&format!("grid.{}", c.type_name()));
                        run_and_judge(out, &Case::Size(c.clone()));
                        // the same shape with one part (not the first) left without vertices
                        if parts >= 2 {
                            let hole = 1 + (pts % (parts - 1).max(1)).min(parts - 2);
                            let c2 = match c {
                                Ctor::PolygonRings(d, mut rr) => {
                                    rr[hole].1.clear();
                                    Some(Ctor::PolygonRings(d, rr))
                                }
                                Ctor::MultipatchParts(mut pp) => {
                                    pp[hole].1.clear();
                                    Some(Ctor::MultipatchParts(pp))
                                }
                                _ => None,
                            };
                            if let Some(c2) = c2 {
                                stats.hit("grid.empty-part");
                                run_and_judge(out, &Case::Size(c2));
                            }
                        }
                    }
                }
            }
            let n = if tier == "thorough" { 3000 } else { 120 };
            for i in 0..n {
                let (fam, d) = ALL13[i % 13];
                let mut g = Gen { rng: &mut rng, stats: &mut stats, max_parts: if tier == "thorough" { 40 } else { 9 }, max_points: if tier == "thorough" { 64 } else { 20 } };
                let c = g.ctor(fam, d, Flavor::Special, true);
                run_and_judge(out, &Case::Size(c));
            }
            // parts longer than any block a writer could reasonably buffer
            for (fam, d) in ALL13.iter().filter(|(f, _)| *f != "point") {
                for n in [257usize, 513, 1025] {
                    let mut g = Gen { rng: &mut rng, stats: &mut stats, max_parts: 1, max_points: n };
                    let ps = g.pts(*d, n, Flavor::Exact, false);
                    let c = match *fam {
                        "multipoint" => Ctor::Multipoint(*d, ps),
                        "polyline" => Ctor::PolylineParts(*d, vec![ps.clone(), ps[..3].to_vec()]),
                        "polygon" => Ctor::PolygonRings(*d, vec![(Role::Outer, ps)]),
                        _ => Ctor::MultipatchParts(vec![(Kind::Strip, ps.clone()), (Kind::Ring, ps[..4].to_vec())]),
                    };
                    stats.hit("shape.long-part");
                    run_and_judge(out, &Case::Size(c));
                }
            }
            {
                let id = out.oracle_only_id();
                out.verdict(&id, "scenario size-after-failed-write", round4::oracle_size_after_failed_write());
            }
            // shapes that were READ, from records with and without their optional M block
            for (fam, d) in ALL13.iter().filter(|(f, _)| *f != "point") {
                let c = {
                    let mut g = Gen { rng: &mut rng, stats: &mut stats, max_parts: 3, max_points: 5 };
                    g.ctor(fam, *d, Flavor::Exact, false)
                };
                let a = build(&c).unwrap();
                let npts = sv_of_any(&a).parts().iter().map(|p| p.len()).sum::<usize>();
                let (shp, _) = write_files(false, std::slice::from_ref(&a));
                let mut files = vec![shp.clone()];
                if *d != Dim::Xy {
                    files.push(round5::strip_record_tail(&shp, 16 + 8 * npts));
                }
                if *fam != "multipoint" || true {
                    for nparts in [0usize, 1] {
                        let code = ctors_code(fam, *d);
                        if *fam == "multipoint" && nparts > 0 {
                            continue;
                        }
                        files.push(round5::empty_shape_file(code, nparts, 0.0, true));
                    }
                }
                for f in files {
                    {
                        let id = out.oracle_only_id();
                        let line = show_case(&Case::Read { target: "generic".into(), shp: f.clone(), shx: None });
                        out.verdict(&id, &line, round7::oracle_rewrite_read_shapes(&f));
                    }
                    stats.hit("size.read-shape");
                    let id = out.oracle_only_id();
                    let line = show_case(&Case::Read { target: "generic".into(), shp: f.clone(), shx: None });
                    out.verdict(&id, &line, round6::oracle_size_of_read_shapes(&f));
                }
            }
            // files of several shapes of different sizes: every record header and index entry
            // announces the length of its own record
            for i in 0..(if tier == "thorough" { 400 } else { 39 }) {
                let (fam, d) = ALL13[i % 13];
                let mut g = Gen { rng: &mut rng, stats: &mut stats, max_parts: 4, max_points: 9 };
                let ctors = g.shapes(fam, d, 2 + i % 3, true);
                let id = out.oracle_only_id();
                let line = show_case(&Case::Write { shx: true, ctors: ctors.clone() });
                out.verdict(&id, &line, round3::oracle_record_lengths(&ctors));
            }
        }
        "C19" => {
            let mut codes: Vec<i32> = vec![i32::MIN, i32::MIN + 1, i32::MAX, i32::MAX - 1, 256, 65536, 1 << 24, -256];
            for r in ESRI_TABLE.iter() {
                for dlt in -2..=2 {
                    codes.push(r.0 + dlt);
                }
                codes.push(r.0 + 256);
                codes.push(r.0 << 8);
                codes.push(r.0 << 24);
                codes.push(-r.0);
            }
            for c in 32..64 {
                codes.push(c);
            }
            {
                let mut bare: Vec<i32> = vec![0, 2, 4, 10, 20, 32, 60, 255, 256, -1, i32::MIN, i32::MAX];
                bare.extend(ESRI_TABLE.iter().map(|r| r.0));
                for c in bare {
                    let id = out.oracle_only_id();
                    out.verdict(&id, &format!("scenario bare-record-code {}", c), round9::oracle_bare_record_code(c));
                }
            }
            for _ in 0..(if tier == "thorough" { 20000 } else { 1000 }) {
                codes.push(rng.next() as i32);
            }
            for c in codes.iter().cloned() {
                run_and_judge(out, &Case::Code(c));
            }
            for vb in [1000u32.to_le_bytes(), 1000u32.to_be_bytes(), [0, 0, 0, 0], [0xff, 0xff, 0xff, 0xff], [1, 2, 3, 4]] {
                for c in codes.iter().cloned().filter(|c| c.wrapping_shr(24) != 0 || (*c >= -40 && *c <= 70)).take(400) {
                    let id = out.oracle_only_id();
                    let v = u32::from_be_bytes(vb);
                    out.verdict(&id, &format!("scenario header-code-version {} {:08x}", c, v), round3::oracle_header_code_any_version(c, vb));
                }
            }
            // every code of the table, and its neighbours, with header ranges of every kind
            for r in ESRI_TABLE.iter() {
                for c in [r.0, r.0 + 1, r.0 - 1] {
                    for which in 0..5usize {
                        let id = out.oracle_only_id();
                        out.verdict(&id, &format!("scenario header-code-ranges {} {}", c, which), round5::oracle_header_code_ranges(c, which));
                    }
                }
            }
            // the same through a source that returns 1, 2 or 3 bytes per read call
            for c in codes.iter().cloned().filter(|c| c.wrapping_shr(8) != 0 || (*c >= -3 && *c <= 40)).take(300) {
                for chunk in [1usize, 2, 3] {
                    let id = out.oracle_only_id();
                    out.verdict(&id, &format!("scenario header-code-chunked {} {}", c, chunk), round4::oracle_header_code_chunked(c, chunk));
                }
            }
            // an invalid code in a RECORD, read generically and as each of the 13 concrete types
            for c in [77i32, 2, -1, 257, i32::MIN, 32, 6, 1 << 24, 29] {
                let f = round4::bad_record_code_file(c);
                stats.hit("code.bad-record-code");
                run_and_judge(out, &Case::Read { target: "generic".into(), shp: f.clone(), shx: None });
                for req in TYPE_NAMES {
                    run_and_judge(out, &Case::Read { target: req.to_string(), shp: f.clone(), shx: None });
                }
            }
            if tier == "thorough" {
                // every 32-bit value, oracle only (the correspondence samples above validate the translator)
                let mut accepted = 0u64;
                let mut bad: Option<i32> = None;
                for c in i32::MIN..=i32::MAX {
                    let is_row = ESRI_TABLE.iter().any(|r| r.0 == c);
                    let got = shapefile::ShapeType::from(c);
                    if got.is_some() {
                        accepted += 1;
                    }
                    if got.is_some() != is_row || got.map(|t| t as i32 != c).unwrap_or(false) {
                        bad = Some(c);
                        break;
                    }
                }
                let id = out.oracle_only_id();
                match bad {
                    None if accepted == 14 => out.verdict(&id, "code sweep", Verdict::pass()),
                    None => out.verdict(&id, "code sweep", Verdict::fail("code-sweep-count", format!("{} codes accepted", accepted))),
                    Some(c) => out.verdict(&id, &format!("code {}", c), Verdict::fail("code-sweep", format!("code {} decoded wrongly", c))),
                }
                out.stat("exhaustive_codes", 1u64 << 32);
            }
        }
        "C03" => {
            {
                let id = out.oracle_only_id();
                out.verdict(&id, "scenario path-trailing", round6::oracle_path_trailing());
                let id = out.oracle_only_id();
                out.verdict(&id, "scenario bulk-read-nulls", round9::oracle_bulk_read_with_nulls());
            }
            // one part longer than any block a reader could reasonably buffer (independent encoding)
            for code in [3i32, 13, 23, 8, 18, 28] {
                for n in [1025usize, 1500, 2049, 3000] {
                    let id = out.oracle_only_id();
                    out.verdict(&id, &format!("scenario long-part {} {}", code, n), round4::oracle_long_part(code, n));
                }
            }
        }
        _ => {
            out.lines.push(format!("ERROR unknown property {}", prop));
        }
    }
    for (k, v) in stats.0.iter() {
        out.stat(k, *v);
    }
    out.stat("cases", out.n as u64);
    out.stat("oracle_failures", out.fails as u64);
}

fn main() {
    assert_eq!(shapefile::NO_DATA.to_bits(), NO_DATA_BITS, "NO_DATA bit pattern");
    // panics are outcomes, not noise
    std::panic::set_hook(Box::new(|_| {}));
    let args: Vec<String> = std::env::args().collect();
    let cmd = args.get(1).map(|s| s.as_str()).unwrap_or("");
    match cmd {
        "cases" => {
            let prop = &args[2];
            let tier = args.get(3).map(|s| s.as_str()).unwrap_or("quick");
            let seed: u64 = args.get(4).and_then(|s| s.parse().ok()).unwrap_or(1);
            let mut out = Out::new(prop);
            cases_for(prop, tier, seed, &mut out);
            out.flush();
            oracles::cleanup_scratch();
        }
        "dump" => {
            let full = args.get(2).map(|s| s == "full").unwrap_or(false);
            match std::panic::catch_unwind(|| dump::dump(full)) {
                Ok(Ok(t)) => print!("{}", t),
                Ok(Err(e)) => {
                    eprintln!("DUMP-ERROR: {}", e);
                    std::process::exit(3);
                }
                Err(_) => {
                    eprintln!("DUMP-ERROR: panic");
                    std::process::exit(3);
                }
            }
        }
        "run" | "oracle" => {
            let prop = args.get(2).cloned().unwrap_or_default();
            let mut out = Out::new(&prop);
            let stdin = std::io::stdin();
            for line in stdin.lock().lines() {
                let line = line.unwrap();
                let line = line.trim();
                if line.is_empty() {
                    continue;
                }
                let (id, rest) = match line.split_once(' ') {
                    Some(x) => x,
                    None => continue,
                };
                match parse_case(rest) {
                    None => out.lines.push(format!("IMPL {} bad-case", id)),
                    Some(c) => {
                        let res = run_case(&c);
                        out.lines.push(format!("IMPL {} {}", id, res));
                        if cmd == "oracle" {
                            for v in oracles_for(&prop, &c, &res) {
                                out.verdict(id, rest, v);
                            }
                        }
                    }
                }
                if out.lines.len() > 500 {
                    out.flush();
                }
            }
            out.flush();
            oracles::cleanup_scratch();
        }
        _ => {
            eprintln!("usage: harness cases <prop> <tier> <seed> | run | oracle <prop>");
            std::process::exit(2);
        }
    }
}

//! Line protocol shared with the Lean driver (DESIGN Appendix B) and the bridge between
//! protocol values (bit patterns) and the real `shapefile` types.
use shapefile::record::polygon::GenericPolygon;
use shapefile::record::polyline::GenericPolyline;
use shapefile::record::multipoint::GenericMultipoint;
use shapefile::*;
use std::panic::{catch_unwind, AssertUnwindSafe};

#[derive(Clone, Copy, PartialEq, Eq, Debug, Hash)]
pub enum Dim {
    Xy,
    Xym,
    Xyzm,
}
impl Dim {
    pub fn has_z(self) -> bool {
        self == Dim::Xyzm
    }
    pub fn has_m(self) -> bool {
        self != Dim::Xy
    }
    pub fn name(self) -> &'static str {
        match self {
            Dim::Xy => "xy",
            Dim::Xym => "xym",
            Dim::Xyzm => "xyzm",
        }
    }
    pub const ALL: [Dim; 3] = [Dim::Xy, Dim::Xym, Dim::Xyzm];
}

pub const NO_DATA_BITS: u64 = 0xC807_8287_F49C_4A1D; // checked against shapefile::NO_DATA at start-up

/// a point as four bit patterns; coordinates the dimension lacks hold 0.0 / NO_DATA
#[derive(Clone, Copy, PartialEq, Eq, Debug, Hash)]
pub struct P {
    pub x: u64,
    pub y: u64,
    pub z: u64,
    pub m: u64,
}
impl P {
    pub fn new(d: Dim, x: u64, y: u64, z: u64, m: u64) -> P {
        P { x, y, z: if d.has_z() { z } else { 0 }, m: if d.has_m() { m } else { NO_DATA_BITS } }
    }
}

#[derive(Clone, Copy, PartialEq, Eq, Debug, Hash)]
pub enum Role {
    Outer,
    Inner,
}
impl Role {
    pub fn name(self) -> &'static str {
        match self {
            Role::Outer => "outer",
            Role::Inner => "inner",
        }
    }
}

#[derive(Clone, Copy, PartialEq, Eq, Debug, Hash)]
pub enum Kind {
    Strip,
    Fan,
    Outer,
    Inner,
    First,
    Ring,
}
impl Kind {
    pub const ALL: [Kind; 6] = [Kind::Strip, Kind::Fan, Kind::Outer, Kind::Inner, Kind::First, Kind::Ring];
    pub fn name(self) -> &'static str {
        match self {
            Kind::Strip => "strip",
            Kind::Fan => "fan",
            Kind::Outer => "outer",
            Kind::Inner => "inner",
            Kind::First => "first",
            Kind::Ring => "ring",
        }
    }
    pub fn is_ring(self) -> bool {
        !matches!(self, Kind::Strip | Kind::Fan)
    }
}

/// a call of a public constructor
#[derive(Clone, PartialEq, Eq, Debug, Hash)]
pub enum Ctor {
    Point(Dim, P),
    Multipoint(Dim, Vec<P>),
    Polyline(Dim, Vec<P>),
    PolylineParts(Dim, Vec<Vec<P>>),
    Polygon(Dim, Role, Vec<P>),
    PolygonRings(Dim, Vec<(Role, Vec<P>)>),
    Multipatch(Kind, Vec<P>),
    MultipatchParts(Vec<(Kind, Vec<P>)>),
}

impl Ctor {
    pub fn dim(&self) -> Dim {
        match self {
            Ctor::Point(d, _) | Ctor::Multipoint(d, _) | Ctor::Polyline(d, _) | Ctor::PolylineParts(d, _) => *d,
            Ctor::Polygon(d, _, _) | Ctor::PolygonRings(d, _) => *d,
            Ctor::Multipatch(..) | Ctor::MultipatchParts(..) => Dim::Xyzm,
        }
    }
    /// the caller's vertex lists
    pub fn parts(&self) -> Vec<Vec<P>> {
        match self {
            Ctor::Point(_, p) => vec![vec![*p]],
            Ctor::Multipoint(_, ps) | Ctor::Polyline(_, ps) | Ctor::Polygon(_, _, ps) | Ctor::Multipatch(_, ps) => vec![ps.clone()],
            Ctor::PolylineParts(_, pp) => pp.clone(),
            Ctor::PolygonRings(_, rr) => rr.iter().map(|r| r.1.clone()).collect(),
            Ctor::MultipatchParts(pp) => pp.iter().map(|r| r.1.clone()).collect(),
        }
    }
    pub fn family(&self) -> &'static str {
        match self {
            Ctor::Point(..) => "point",
            Ctor::Multipoint(..) => "multipoint",
            Ctor::Polyline(..) | Ctor::PolylineParts(..) => "polyline",
            Ctor::Polygon(..) | Ctor::PolygonRings(..) => "polygon",
            Ctor::Multipatch(..) | Ctor::MultipatchParts(..) => "multipatch",
        }
    }
    pub fn type_name(&self) -> String {
        let suffix = match self.dim() {
            Dim::Xy => "",
            Dim::Xym => "M",
            Dim::Xyzm => "Z",
        };
        match self.family() {
            "point" => format!("Point{}", suffix),
            "multipoint" => format!("Multipoint{}", suffix),
            "polyline" => format!("Polyline{}", suffix),
            "polygon" => format!("Polygon{}", suffix),
            _ => "Multipatch".to_string(),
        }
    }
}

pub fn hx(v: u64) -> String {
    format!("{:016x}", v)
}
fn show_pt(d: Dim, p: &P, out: &mut String) {
    out.push_str(&hx(p.x));
    out.push(' ');
    out.push_str(&hx(p.y));
    if d.has_z() {
        out.push(' ');
        out.push_str(&hx(p.z));
    }
    if d.has_m() {
        out.push(' ');
        out.push_str(&hx(p.m));
    }
}
pub fn show_pts(d: Dim, ps: &[P], out: &mut String) {
    out.push_str(&ps.len().to_string());
    for p in ps {
        out.push(' ');
        show_pt(d, p, out);
    }
}

pub fn show_ctor(c: &Ctor) -> String {
    let mut s = String::new();
    match c {
        Ctor::Point(d, p) => {
            s += &format!("point {} ", d.name());
            show_pt(*d, p, &mut s);
        }
        Ctor::Multipoint(d, ps) => {
            s += &format!("multipoint {} ", d.name());
            show_pts(*d, ps, &mut s);
        }
        Ctor::Polyline(d, ps) => {
            s += &format!("polyline {} ", d.name());
            show_pts(*d, ps, &mut s);
        }
        Ctor::PolylineParts(d, pp) => {
            s += &format!("polylineparts {} {}", d.name(), pp.len());
            for ps in pp {
                s.push(' ');
                show_pts(*d, ps, &mut s);
            }
        }
        Ctor::Polygon(d, r, ps) => {
            s += &format!("polygon {} {} ", d.name(), r.name());
            show_pts(*d, ps, &mut s);
        }
        Ctor::PolygonRings(d, rr) => {
            s += &format!("polygonrings {} {}", d.name(), rr.len());
            for (r, ps) in rr {
                s += &format!(" {} ", r.name());
                show_pts(*d, ps, &mut s);
            }
        }
        Ctor::Multipatch(k, ps) => {
            s += &format!("multipatch {} ", k.name());
            show_pts(Dim::Xyzm, ps, &mut s);
        }
        Ctor::MultipatchParts(pp) => {
            s += &format!("multipatchparts {}", pp.len());
            for (k, ps) in pp {
                s += &format!(" {} ", k.name());
                show_pts(Dim::Xyzm, ps, &mut s);
            }
        }
    }
    s
}

// ---------------------------------------------------------------- canonical shape values
/// A shape value as both sides print it: structure + bit patterns.
#[derive(Clone, PartialEq, Eq, Debug, Hash)]
pub enum SV {
    Null,
    Point(Dim, P),
    Multipoint(Dim, [P; 2], Vec<P>),
    Polyline(Dim, [P; 2], Vec<Vec<P>>),
    Polygon(Dim, [P; 2], Vec<(Role, Vec<P>)>),
    Multipatch([P; 2], Vec<(Kind, Vec<P>)>),
}

impl SV {
    pub fn dim(&self) -> Dim {
        match self {
            SV::Null => Dim::Xy,
            SV::Point(d, _) | SV::Multipoint(d, _, _) | SV::Polyline(d, _, _) | SV::Polygon(d, _, _) => *d,
            SV::Multipatch(..) => Dim::Xyzm,
        }
    }
    pub fn parts(&self) -> Vec<Vec<P>> {
        match self {
            SV::Null => vec![],
            SV::Point(_, p) => vec![vec![*p]],
            SV::Multipoint(_, _, ps) => vec![ps.clone()],
            SV::Polyline(_, _, pp) => pp.clone(),
            SV::Polygon(_, _, rr) => rr.iter().map(|r| r.1.clone()).collect(),
            SV::Multipatch(_, pp) => pp.iter().map(|r| r.1.clone()).collect(),
        }
    }
    pub fn bbox(&self) -> Option<[P; 2]> {
        match self {
            SV::Multipoint(_, b, _) | SV::Polyline(_, b, _) | SV::Polygon(_, b, _) | SV::Multipatch(b, _) => Some(*b),
            _ => None,
        }
    }
    pub fn type_name(&self) -> String {
        let suffix = match self.dim() {
            Dim::Xy => "",
            Dim::Xym => "M",
            Dim::Xyzm => "Z",
        };
        match self {
            SV::Null => "NullShape".into(),
            SV::Point(..) => format!("Point{}", suffix),
            SV::Multipoint(..) => format!("Multipoint{}", suffix),
            SV::Polyline(..) => format!("Polyline{}", suffix),
            SV::Polygon(..) => format!("Polygon{}", suffix),
            SV::Multipatch(..) => "Multipatch".into(),
        }
    }
}

fn show_bbox(d: Dim, b: &[P; 2], s: &mut String) {
    s.push_str(&format!("{} {} {} {}", hx(b[0].x), hx(b[0].y), hx(b[1].x), hx(b[1].y)));
    if d.has_z() {
        s.push_str(&format!(" {} {}", hx(b[0].z), hx(b[1].z)));
    }
    if d.has_m() {
        s.push_str(&format!(" {} {}", hx(b[0].m), hx(b[1].m)));
    }
}

pub fn show_sv(v: &SV) -> String {
    let mut s = String::new();
    match v {
        SV::Null => s += "null",
        SV::Point(d, p) => {
            s += &format!("point {} ", d.name());
            show_pt(*d, p, &mut s);
        }
        SV::Multipoint(d, b, ps) => {
            s += &format!("multipoint {} ", d.name());
            show_bbox(*d, b, &mut s);
            s.push(' ');
            show_pts(*d, ps, &mut s);
        }
        SV::Polyline(d, b, pp) => {
            s += &format!("polyline {} ", d.name());
            show_bbox(*d, b, &mut s);
            s += &format!(" {}", pp.len());
            for ps in pp {
                s.push(' ');
                show_pts(*d, ps, &mut s);
            }
        }
        SV::Polygon(d, b, rr) => {
            s += &format!("polygon {} ", d.name());
            show_bbox(*d, b, &mut s);
            s += &format!(" {}", rr.len());
            for (r, ps) in rr {
                s += &format!(" {} ", r.name());
                show_pts(*d, ps, &mut s);
            }
        }
        SV::Multipatch(b, pp) => {
            s += "multipatch ";
            show_bbox(Dim::Xyzm, b, &mut s);
            s += &format!(" {}", pp.len());
            for (k, ps) in pp {
                s += &format!(" {} ", k.name());
                show_pts(Dim::Xyzm, ps, &mut s);
            }
        }
    }
    s
}

// ---------------------------------------------------------------- real values
pub fn f(b: u64) -> f64 {
    f64::from_bits(b)
}
pub fn mk_p(p: &P) -> Point {
    Point::new(f(p.x), f(p.y))
}
pub fn mk_pm(p: &P) -> PointM {
    PointM::new(f(p.x), f(p.y), f(p.m))
}
pub fn mk_pz(p: &P) -> PointZ {
    PointZ::new(f(p.x), f(p.y), f(p.z), f(p.m))
}
pub fn of_p(p: &Point) -> P {
    P { x: p.x.to_bits(), y: p.y.to_bits(), z: 0, m: NO_DATA_BITS }
}
pub fn of_pm(p: &PointM) -> P {
    P { x: p.x.to_bits(), y: p.y.to_bits(), z: 0, m: p.m.to_bits() }
}
pub fn of_pz(p: &PointZ) -> P {
    P { x: p.x.to_bits(), y: p.y.to_bits(), z: p.z.to_bits(), m: p.m.to_bits() }
}

/// the 13 concrete shape types of the crate
#[derive(Clone, Debug, PartialEq)]
pub enum Any {
    Point(Point),
    PointM(PointM),
    PointZ(PointZ),
    Multipoint(Multipoint),
    MultipointM(MultipointM),
    MultipointZ(MultipointZ),
    Polyline(Polyline),
    PolylineM(PolylineM),
    PolylineZ(PolylineZ),
    Polygon(Polygon),
    PolygonM(PolygonM),
    PolygonZ(PolygonZ),
    Multipatch(Multipatch),
}

/// run `$body` with `$s` bound to the concrete shape inside an `Any`
#[macro_export]
macro_rules! with_any {
    ($any:expr, $s:ident => $body:expr) => {
        match $any {
            $crate::proto::Any::Point($s) => $body,
            $crate::proto::Any::PointM($s) => $body,
            $crate::proto::Any::PointZ($s) => $body,
            $crate::proto::Any::Multipoint($s) => $body,
            $crate::proto::Any::MultipointM($s) => $body,
            $crate::proto::Any::MultipointZ($s) => $body,
            $crate::proto::Any::Polyline($s) => $body,
            $crate::proto::Any::PolylineM($s) => $body,
            $crate::proto::Any::PolylineZ($s) => $body,
            $crate::proto::Any::Polygon($s) => $body,
            $crate::proto::Any::PolygonM($s) => $body,
            $crate::proto::Any::PolygonZ($s) => $body,
            $crate::proto::Any::Multipatch($s) => $body,
        }
    };
}

/// run `$body` with the type alias `$T` bound to the concrete type named `$name`
#[macro_export]
macro_rules! with_type {
    ($name:expr, $T:ident => $body:expr, else $other:expr) => {
        match $name {
            "Point" => { type $T = shapefile::Point; $body }
            "PointM" => { type $T = shapefile::PointM; $body }
            "PointZ" => { type $T = shapefile::PointZ; $body }
            "Multipoint" => { type $T = shapefile::Multipoint; $body }
            "MultipointM" => { type $T = shapefile::MultipointM; $body }
            "MultipointZ" => { type $T = shapefile::MultipointZ; $body }
            "Polyline" => { type $T = shapefile::Polyline; $body }
            "PolylineM" => { type $T = shapefile::PolylineM; $body }
            "PolylineZ" => { type $T = shapefile::PolylineZ; $body }
            "Polygon" => { type $T = shapefile::Polygon; $body }
            "PolygonM" => { type $T = shapefile::PolygonM; $body }
            "PolygonZ" => { type $T = shapefile::PolygonZ; $body }
            "Multipatch" => { type $T = shapefile::Multipatch; $body }
            _ => $other,
        }
    };
}

pub const TYPE_NAMES: [&str; 13] = [
    "Point", "PointM", "PointZ", "Multipoint", "MultipointM", "MultipointZ", "Polyline", "PolylineM", "PolylineZ",
    "Polygon", "PolygonM", "PolygonZ", "Multipatch",
];

fn ring_of<T>(r: Role, pts: Vec<T>) -> PolygonRing<T> {
    match r {
        Role::Outer => PolygonRing::Outer(pts),
        Role::Inner => PolygonRing::Inner(pts),
    }
}
fn patch_of(k: Kind, pts: Vec<PointZ>) -> Patch {
    match k {
        Kind::Strip => Patch::TriangleStrip(pts),
        Kind::Fan => Patch::TriangleFan(pts),
        Kind::Outer => Patch::OuterRing(pts),
        Kind::Inner => Patch::InnerRing(pts),
        Kind::First => Patch::FirstRing(pts),
        Kind::Ring => Patch::Ring(pts),
    }
}

/// call the real public constructor; `Err` = it panicked
pub fn build(c: &Ctor) -> Result<Any, String> {
    let c = c.clone();
    catch_unwind(AssertUnwindSafe(move || build_unchecked(&c))).map_err(|e| panic_msg(&e))
}

pub fn panic_msg(e: &Box<dyn std::any::Any + Send>) -> String {
    if let Some(s) = e.downcast_ref::<&str>() {
        s.to_string()
    } else if let Some(s) = e.downcast_ref::<String>() {
        s.clone()
    } else {
        "panic".to_string()
    }
}

fn build_unchecked(c: &Ctor) -> Any {
    macro_rules! by_dim {
        ($d:expr, $ps:expr, |$v:ident| $two:expr, $three:expr, $four:expr) => {
            match $d {
                Dim::Xy => {
                    let $v: Vec<Point> = $ps.iter().map(mk_p).collect();
                    $two
                }
                Dim::Xym => {
                    let $v: Vec<PointM> = $ps.iter().map(mk_pm).collect();
                    $three
                }
                Dim::Xyzm => {
                    let $v: Vec<PointZ> = $ps.iter().map(mk_pz).collect();
                    $four
                }
            }
        };
    }
    match c {
        Ctor::Point(d, p) => match d {
            Dim::Xy => Any::Point(mk_p(p)),
            Dim::Xym => Any::PointM(mk_pm(p)),
            Dim::Xyzm => Any::PointZ(mk_pz(p)),
        },
        Ctor::Multipoint(d, ps) => by_dim!(d, ps, |v| Any::Multipoint(Multipoint::new(v)), Any::MultipointM(MultipointM::new(v)), Any::MultipointZ(MultipointZ::new(v))),
        Ctor::Polyline(d, ps) => by_dim!(d, ps, |v| Any::Polyline(Polyline::new(v)), Any::PolylineM(PolylineM::new(v)), Any::PolylineZ(PolylineZ::new(v))),
        Ctor::PolylineParts(d, pp) => match d {
            Dim::Xy => Any::Polyline(Polyline::with_parts(pp.iter().map(|ps| ps.iter().map(mk_p).collect()).collect())),
            Dim::Xym => Any::PolylineM(PolylineM::with_parts(pp.iter().map(|ps| ps.iter().map(mk_pm).collect()).collect())),
            Dim::Xyzm => Any::PolylineZ(PolylineZ::with_parts(pp.iter().map(|ps| ps.iter().map(mk_pz).collect()).collect())),
        },
        Ctor::Polygon(d, r, ps) => by_dim!(d, ps, |v| Any::Polygon(Polygon::new(ring_of(*r, v))), Any::PolygonM(PolygonM::new(ring_of(*r, v))), Any::PolygonZ(PolygonZ::new(ring_of(*r, v)))),
        Ctor::PolygonRings(d, rr) => match d {
            Dim::Xy => Any::Polygon(Polygon::with_rings(rr.iter().map(|(r, ps)| ring_of(*r, ps.iter().map(mk_p).collect())).collect())),
            Dim::Xym => Any::PolygonM(PolygonM::with_rings(rr.iter().map(|(r, ps)| ring_of(*r, ps.iter().map(mk_pm).collect())).collect())),
            Dim::Xyzm => Any::PolygonZ(PolygonZ::with_rings(rr.iter().map(|(r, ps)| ring_of(*r, ps.iter().map(mk_pz).collect())).collect())),
        },
        Ctor::Multipatch(k, ps) => Any::Multipatch(Multipatch::new(patch_of(*k, ps.iter().map(mk_pz).collect()))),
        Ctor::MultipatchParts(pp) => Any::Multipatch(Multipatch::with_parts(pp.iter().map(|(k, ps)| patch_of(*k, ps.iter().map(mk_pz).collect())).collect())),
    }
}

fn bb<T>(b: &shapefile::record::GenericBBox<T>, of: fn(&T) -> P) -> [P; 2] {
    [of(&b.min), of(&b.max)]
}
fn sv_mp<T>(d: Dim, s: &GenericMultipoint<T>, of: fn(&T) -> P) -> SV {
    SV::Multipoint(d, bb(s.bbox(), of), s.points().iter().map(of).collect())
}
fn sv_pl<T>(d: Dim, s: &GenericPolyline<T>, of: fn(&T) -> P) -> SV {
    SV::Polyline(d, bb(s.bbox(), of), s.parts().iter().map(|p| p.iter().map(of).collect()).collect())
}
fn sv_pg<T>(d: Dim, s: &GenericPolygon<T>, of: fn(&T) -> P) -> SV {
    SV::Polygon(
        d,
        bb(s.bbox(), of),
        s.rings()
            .iter()
            .map(|r| match r {
                PolygonRing::Outer(ps) => (Role::Outer, ps.iter().map(of).collect()),
                PolygonRing::Inner(ps) => (Role::Inner, ps.iter().map(of).collect()),
            })
            .collect(),
    )
}
fn sv_patch(s: &Multipatch) -> SV {
    SV::Multipatch(
        bb(s.bbox(), of_pz),
        s.patches()
            .iter()
            .map(|p| {
                let k = match p {
                    Patch::TriangleStrip(_) => Kind::Strip,
                    Patch::TriangleFan(_) => Kind::Fan,
                    Patch::OuterRing(_) => Kind::Outer,
                    Patch::InnerRing(_) => Kind::Inner,
                    Patch::FirstRing(_) => Kind::First,
                    Patch::Ring(_) => Kind::Ring,
                };
                (k, p.points().iter().map(of_pz).collect())
            })
            .collect(),
    )
}

pub fn sv_of_any(a: &Any) -> SV {
    match a {
        Any::Point(p) => SV::Point(Dim::Xy, of_p(p)),
        Any::PointM(p) => SV::Point(Dim::Xym, of_pm(p)),
        Any::PointZ(p) => SV::Point(Dim::Xyzm, of_pz(p)),
        Any::Multipoint(s) => sv_mp(Dim::Xy, s, of_p),
        Any::MultipointM(s) => sv_mp(Dim::Xym, s, of_pm),
        Any::MultipointZ(s) => sv_mp(Dim::Xyzm, s, of_pz),
        Any::Polyline(s) => sv_pl(Dim::Xy, s, of_p),
        Any::PolylineM(s) => sv_pl(Dim::Xym, s, of_pm),
        Any::PolylineZ(s) => sv_pl(Dim::Xyzm, s, of_pz),
        Any::Polygon(s) => sv_pg(Dim::Xy, s, of_p),
        Any::PolygonM(s) => sv_pg(Dim::Xym, s, of_pm),
        Any::PolygonZ(s) => sv_pg(Dim::Xyzm, s, of_pz),
        Any::Multipatch(s) => sv_patch(s),
    }
}

pub fn sv_of_shape(s: &Shape) -> SV {
    match s {
        Shape::NullShape => SV::Null,
        Shape::Point(p) => SV::Point(Dim::Xy, of_p(p)),
        Shape::PointM(p) => SV::Point(Dim::Xym, of_pm(p)),
        Shape::PointZ(p) => SV::Point(Dim::Xyzm, of_pz(p)),
        Shape::Multipoint(s) => sv_mp(Dim::Xy, s, of_p),
        Shape::MultipointM(s) => sv_mp(Dim::Xym, s, of_pm),
        Shape::MultipointZ(s) => sv_mp(Dim::Xyzm, s, of_pz),
        Shape::Polyline(s) => sv_pl(Dim::Xy, s, of_p),
        Shape::PolylineM(s) => sv_pl(Dim::Xym, s, of_pm),
        Shape::PolylineZ(s) => sv_pl(Dim::Xyzm, s, of_pz),
        Shape::Polygon(s) => sv_pg(Dim::Xy, s, of_p),
        Shape::PolygonM(s) => sv_pg(Dim::Xym, s, of_pm),
        Shape::PolygonZ(s) => sv_pg(Dim::Xyzm, s, of_pz),
        Shape::Multipatch(s) => sv_patch(s),
    }
}

/// anything we can turn into the canonical value (the generic enum and the 13 concrete types)
pub trait ToSV {
    fn to_sv(&self) -> SV;
}
impl ToSV for Shape {
    fn to_sv(&self) -> SV {
        sv_of_shape(self)
    }
}
macro_rules! impl_tosv {
    ($($T:ident),*) => { $( impl ToSV for $T { fn to_sv(&self) -> SV { sv_of_any(&Any::$T(self.clone())) } } )* };
}
impl_tosv!(Point, PointM, PointZ, Multipoint, MultipointM, MultipointZ, Polyline, PolylineM, PolylineZ, Polygon, PolygonM, PolygonZ, Multipatch);

pub fn any_to_shape(a: &Any) -> Shape {
    with_any!(a.clone(), s => Shape::from(s))
}

pub fn show_err(e: &shapefile::Error) -> String {
    match e {
        Error::IoError(_) => "io".into(),
        Error::InvalidFileCode(c) => format!("filecode {}", c),
        Error::InvalidShapeType(c) => format!("shapetype {}", c),
        Error::InvalidPatchType(c) => format!("patchtype {}", c),
        Error::MismatchShapeType { requested, actual } => format!("mismatch {} {}", requested, actual),
        Error::InvalidShapeRecordSize => "recsize".into(),
        Error::DbaseError(_) => "dbase".into(),
        Error::MissingDbf => "missingdbf".into(),
        Error::MissingIndexFile => "noindex".into(),
    }
}

pub fn hex(bs: &[u8]) -> String {
    if bs.is_empty() {
        return "-".into();
    }
    let mut s = String::with_capacity(bs.len() * 2);
    for b in bs {
        s.push_str(&format!("{:02x}", b));
    }
    s
}
pub fn unhex(s: &str) -> Option<Vec<u8>> {
    if s == "-" {
        return Some(vec![]);
    }
    if s.len() % 2 != 0 {
        return None;
    }
    (0..s.len()).step_by(2).map(|i| u8::from_str_radix(&s[i..i + 2], 16).ok()).collect()
}

// ---------------------------------------------------------------- parsing case lines back (replay)
pub struct Toks<'a> {
    pub t: Vec<&'a str>,
    pub i: usize,
}
impl<'a> Toks<'a> {
    pub fn new(s: &'a str) -> Self {
        Toks { t: s.split_whitespace().collect(), i: 0 }
    }
    pub fn next(&mut self) -> Option<&'a str> {
        let r = self.t.get(self.i).copied();
        self.i += 1;
        r
    }
    pub fn nat(&mut self) -> Option<usize> {
        self.next()?.parse().ok()
    }
    pub fn int(&mut self) -> Option<i64> {
        self.next()?.parse().ok()
    }
    pub fn f64bits(&mut self) -> Option<u64> {
        let t = self.next()?;
        if t.len() != 16 {
            return None;
        }
        u64::from_str_radix(t, 16).ok()
    }
    pub fn dim(&mut self) -> Option<Dim> {
        match self.next()? {
            "xy" => Some(Dim::Xy),
            "xym" => Some(Dim::Xym),
            "xyzm" => Some(Dim::Xyzm),
            _ => None,
        }
    }
    pub fn pt(&mut self, d: Dim) -> Option<P> {
        let x = self.f64bits()?;
        let y = self.f64bits()?;
        let z = if d.has_z() { self.f64bits()? } else { 0 };
        let m = if d.has_m() { self.f64bits()? } else { NO_DATA_BITS };
        Some(P { x, y, z, m })
    }
    pub fn pts(&mut self, d: Dim) -> Option<Vec<P>> {
        let n = self.nat()?;
        (0..n).map(|_| self.pt(d)).collect()
    }
    pub fn role(&mut self) -> Option<Role> {
        match self.next()? {
            "outer" => Some(Role::Outer),
            "inner" => Some(Role::Inner),
            _ => None,
        }
    }
    pub fn kind(&mut self) -> Option<Kind> {
        Kind::ALL.iter().copied().find(|k| Some(k.name()) == self.t.get(self.i).copied()).map(|k| {
            self.i += 1;
            k
        })
    }
    pub fn ctor(&mut self) -> Option<Ctor> {
        match self.next()? {
            "point" => {
                let d = self.dim()?;
                Some(Ctor::Point(d, self.pt(d)?))
            }
            "multipoint" => {
                let d = self.dim()?;
                Some(Ctor::Multipoint(d, self.pts(d)?))
            }
            "polyline" => {
                let d = self.dim()?;
                Some(Ctor::Polyline(d, self.pts(d)?))
            }
            "polylineparts" => {
                let d = self.dim()?;
                let n = self.nat()?;
                Some(Ctor::PolylineParts(d, (0..n).map(|_| self.pts(d)).collect::<Option<_>>()?))
            }
            "polygon" => {
                let d = self.dim()?;
                let r = self.role()?;
                Some(Ctor::Polygon(d, r, self.pts(d)?))
            }
            "polygonrings" => {
                let d = self.dim()?;
                let n = self.nat()?;
                let mut v = vec![];
                for _ in 0..n {
                    let r = self.role()?;
                    v.push((r, self.pts(d)?));
                }
                Some(Ctor::PolygonRings(d, v))
            }
            "multipatch" => {
                let k = self.kind()?;
                Some(Ctor::Multipatch(k, self.pts(Dim::Xyzm)?))
            }
            "multipatchparts" => {
                let n = self.nat()?;
                let mut v = vec![];
                for _ in 0..n {
                    let k = self.kind()?;
                    v.push((k, self.pts(Dim::Xyzm)?));
                }
                Some(Ctor::MultipatchParts(v))
            }
            _ => None,
        }
    }
}

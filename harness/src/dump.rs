//! `harness dump [full]`: the table-like behaviour of the crate, obtained by EXECUTING it, printed as
//! one Python literal for tools/translate.py (which turns it into lean/Shp/Gen/Tables.lean).
//! Whatever the source looks like, these are the tables the code implements.
use crate::exec::*;
use crate::proto::*;
use shapefile::*;
use std::io::Cursor;

fn q(s: &str) -> String {
    format!("'{}'", s)
}

fn variant_name(s: &Shape) -> &'static str {
    match s {
        Shape::NullShape => "NullShape",
        Shape::Point(_) => "Point",
        Shape::PointM(_) => "PointM",
        Shape::PointZ(_) => "PointZ",
        Shape::Polyline(_) => "Polyline",
        Shape::PolylineM(_) => "PolylineM",
        Shape::PolylineZ(_) => "PolylineZ",
        Shape::Polygon(_) => "Polygon",
        Shape::PolygonM(_) => "PolygonM",
        Shape::PolygonZ(_) => "PolygonZ",
        Shape::Multipoint(_) => "Multipoint",
        Shape::MultipointM(_) => "MultipointM",
        Shape::MultipointZ(_) => "MultipointZ",
        Shape::Multipatch(_) => "Multipatch",
    }
}

fn p(x: f64, y: f64) -> P {
    P { x: x.to_bits(), y: y.to_bits(), z: 1.0f64.to_bits(), m: 2.0f64.to_bits() }
}

/// a shape of the given family/dimension with `parts` parts of `pts` vertices each (closed rings)
fn sample(fam: &str, d: Dim, parts: usize, pts: usize) -> Option<Any> {
    let ring = |k: usize| -> Vec<P> {
        let mut v: Vec<P> = (0..pts.saturating_sub(1)).map(|i| p((k * 100 + i) as f64, ((i * i) % 7) as f64)).collect();
        if let Some(f) = v.first().cloned() {
            v.push(f);
        }
        v
    };
    let line = |k: usize| -> Vec<P> { (0..pts).map(|i| p((k * 100 + i) as f64, i as f64)).collect() };
    let c = match fam {
        "point" => Ctor::Point(d, p(1.0, 2.0)),
        "multipoint" => Ctor::Multipoint(d, line(0)),
        "polyline" => Ctor::PolylineParts(d, (0..parts).map(line).collect()),
        "polygon" => Ctor::PolygonRings(d, (0..parts).map(|k| (Role::Outer, ring(k))).collect()),
        _ => Ctor::MultipatchParts((0..parts).map(|k| (Kind::Strip, line(k))).collect()),
    };
    build(&c).ok()
}

fn counts(a: &Any) -> (i64, i64) {
    let sv = sv_of_any(a);
    let parts = sv.parts();
    (parts.len() as i64, parts.iter().map(|x| x.len() as i64).sum())
}

/// fit size_in_bytes = c0 + cParts * parts + cPoints * points on samples and check it on others
fn fit_size(fam: &str, d: Dim) -> Result<(i64, i64, i64), String> {
    let s = |parts: usize, pts: usize| -> Result<(i64, i64, i64), String> {
        let a = sample(fam, d, parts, pts).ok_or("sample shape could not be built")?;
        let (np, nq) = counts(&a);
        Ok((np, nq, size_in_bytes(&a) as i64))
    };
    if fam == "point" {
        let (_, _, sz) = s(1, 1)?;
        return Ok((sz, 0, 0));
    }
    if fam == "multipoint" {
        let (_, q1, s1) = s(1, 2)?;
        let (_, q2, s2) = s(1, 5)?;
        let cq = (s2 - s1) / (q2 - q1);
        let c0 = s1 - cq * q1;
        let (_, q3, s3) = s(1, 9)?;
        if c0 + cq * q3 != s3 || (s2 - s1) % (q2 - q1) != 0 {
            return Err("size_in_bytes is not affine in the number of points".into());
        }
        return Ok((c0, 0, cq));
    }
    let (p1, q1, s1) = s(1, 4)?;
    let (p2, q2, s2) = s(1, 7)?;
    let (p3, q3, s3) = s(3, 4)?;
    if p1 != p2 || q1 == q2 || p3 == p1 {
        return Err("sample shapes do not separate parts from points".into());
    }
    if (s2 - s1) % (q2 - q1) != 0 {
        return Err("size_in_bytes is not affine in the number of points".into());
    }
    let cq = (s2 - s1) / (q2 - q1);
    let rest = s3 - s1 - cq * (q3 - q1);
    if rest % (p3 - p1) != 0 {
        return Err("size_in_bytes is not affine in the number of parts".into());
    }
    let cp = rest / (p3 - p1);
    let c0 = s1 - cp * p1 - cq * q1;
    for (a, b) in [(2usize, 5usize), (4, 9), (6, 4), (1, 12)] {
        let (pp, qq, ss) = s(a, b)?;
        if c0 + cp * pp + cq * qq != ss {
            return Err(format!("size_in_bytes is not the affine function {} + {}*parts + {}*points at ({}, {})", c0, cp, cq, pp, qq));
        }
    }
    Ok((c0, cp, cq))
}

pub fn dump(full: bool) -> Result<String, String> {
    let mut out = String::from("{\n");
    // ---------------- ShapeType: codes, table of `from`, predicates, Display
    let mut codes: Vec<i32> = (-70000..=70000).collect();
    for k in 0..31 {
        for dlt in -2i64..=2 {
            for sgn in [1i64, -1] {
                let v = sgn * (1i64 << k) + dlt;
                if v >= i32::MIN as i64 && v <= i32::MAX as i64 {
                    codes.push(v as i32);
                }
            }
        }
    }
    for dlt in 0..64 {
        codes.push(i32::MIN + dlt);
        codes.push(i32::MAX - dlt);
    }
    for base in 0..64i32 {
        for sh in [8, 16, 24] {
            codes.push(base.wrapping_shl(sh));
            codes.push(base.wrapping_shl(sh).wrapping_add(base));
        }
        for j in 1..300i32 {
            codes.push(base.wrapping_add(j.wrapping_mul(256)));
            codes.push(base.wrapping_sub(j.wrapping_mul(256)));
            codes.push(base.wrapping_add(j.wrapping_mul(65536)));
        }
    }
    let mut found: Vec<(i32, ShapeType)> = vec![];
    let mut consider = |c: i32, found: &mut Vec<(i32, ShapeType)>| {
        if let Some(t) = ShapeType::from(c) {
            if found.len() < 4096 && !found.iter().any(|(x, _)| *x == c) {
                found.push((c, t));
            }
        }
    };
    for c in codes {
        consider(c, &mut found);
    }
    if full {
        let mut c = i32::MIN;
        loop {
            consider(c, &mut found);
            if c == i32::MAX {
                break;
            }
            c += 1;
        }
    }
    found.sort_by_key(|(c, _)| *c);
    // the types, ordered by their own discriminant
    let mut types: Vec<ShapeType> = vec![];
    for (_, t) in &found {
        if !types.contains(t) {
            types.push(*t);
        }
    }
    types.sort_by_key(|t| *t as i32);
    let name = |t: &ShapeType| format!("{:?}", t);
    // keep the table small: every arm whose code is the type's own discriminant, and at most 40 others
    let mut arms: Vec<(i32, ShapeType)> = found.iter().cloned().filter(|(c, t)| *c == *t as i32).collect();
    for (c, t) in found.iter().cloned().filter(|(c, t)| *c != *t as i32).take(40) {
        arms.push((c, t));
    }
    arms.sort_by_key(|(c, _)| *c);
    out += &format!(
        " 'shapetype': ([{}], [{}], [{}], {{'has_z': (False, [{}]), 'has_m': (False, [{}]), 'is_multipart': (False, [{}])}}, [{}]),\n",
        types.iter().map(|t| q(&name(t))).collect::<Vec<_>>().join(", "),
        types.iter().map(|t| format!("({}, '{}')", q(&name(t)), *t as i32)).collect::<Vec<_>>().join(", "),
        arms.iter().map(|(c, t)| format!("('{}', {})", c, q(&name(t)))).collect::<Vec<_>>().join(", "),
        types.iter().filter(|t| t.has_z()).map(|t| q(&name(t))).collect::<Vec<_>>().join(", "),
        types.iter().filter(|t| t.has_m()).map(|t| q(&name(t))).collect::<Vec<_>>().join(", "),
        types.iter().filter(|t| t.is_multipart()).map(|t| q(&name(t))).collect::<Vec<_>>().join(", "),
        types.iter().map(|t| format!("({}, {})", q(&name(t)), q(&format!("{}", t)))).collect::<Vec<_>>().join(", "),
    );
    // ---------------- enum Shape, HasShapeType, conversions, dispatch of the generic read
    let mut svariants = vec![("NullShape".to_string(), String::new())];
    let mut st_arms = vec![];
    let mut disp = vec![];
    let mut conv = vec![];
    let mut hst = vec![];
    let mut sizes = vec![];
    let mut size_err: Option<String> = None;
    // (declaration order of `enum Shape`)
    let order: [(&str, Dim); 13] = [
        ("point", Dim::Xy), ("point", Dim::Xym), ("point", Dim::Xyzm),
        ("polyline", Dim::Xy), ("polyline", Dim::Xym), ("polyline", Dim::Xyzm),
        ("polygon", Dim::Xy), ("polygon", Dim::Xym), ("polygon", Dim::Xyzm),
        ("multipoint", Dim::Xy), ("multipoint", Dim::Xym), ("multipoint", Dim::Xyzm),
        ("multipatch", Dim::Xyzm),
    ];
    for (fam, d) in order.iter() {
        let alias = crate::gen::type_name_of(fam, *d);
        let a = sample(fam, *d, 2, 4).ok_or(format!("no sample value of {}", alias))?;
        let shape = any_to_shape(&a);
        let v = variant_name(&shape);
        svariants.push((v.to_string(), alias.clone()));
        st_arms.push((v.to_string(), name(&shape.shapetype())));
        conv.push((v.to_string(), alias.clone()));
        let ht = crate::with_any!(&a, s => crate::oracles::fn_shapetype(s));
        hst.push((alias.clone(), name(&ht)));
        // generic read of a file holding this one shape
        let (shp, _) = write_files(false, std::slice::from_ref(&a));
        let read = ShapeReader::new(Cursor::new(shp)).and_then(|r| r.read()).map_err(|e| format!("generic read of a {} file: {}", alias, show_err(&e)))?;
        let rv = read.first().map(variant_name).ok_or("generic read yielded nothing")?;
        disp.push((name(&ht), rv.to_string(), Some(rv.to_string())));
        match fit_size(fam, *d) {
            Ok((c0, cp, cq)) => sizes.push((alias.clone(), c0, cp, cq)),
            Err(e) => size_err = Some(format!("{}: {}", alias, e)),
        }
    }
    st_arms.push(("NullShape".to_string(), name(&Shape::NullShape.shapetype())));
    {
        // a file with one null record
        let mut f = vec![0u8; 100];
        f[0..4].copy_from_slice(&9994i32.to_be_bytes());
        f[24..28].copy_from_slice(&56i32.to_be_bytes());
        f[28..32].copy_from_slice(&1000i32.to_le_bytes());
        f.extend_from_slice(&[0, 0, 0, 1, 0, 0, 0, 2, 0, 0, 0, 0]);
        let read = ShapeReader::new(Cursor::new(f)).and_then(|r| r.read()).map_err(|e| format!("generic read of a null record: {}", show_err(&e)))?;
        let rv = read.first().map(variant_name).ok_or("generic read of a null record yielded nothing")?;
        disp.push((name(&ShapeType::NullShape), rv.to_string(), None));
    }
    out += &format!(
        " 'shape_tables': ([{}], [{}], [{}], [{}]),\n",
        svariants.iter().map(|(v, t)| format!("({}, {})", q(v), q(t))).collect::<Vec<_>>().join(", "),
        st_arms.iter().map(|(v, t)| format!("({}, {})", q(v), q(t))).collect::<Vec<_>>().join(", "),
        disp.iter().map(|(t, v, r)| format!("({}, {}, {})", q(t), q(v), r.as_ref().map(|x| q(x)).unwrap_or("None".into()))).collect::<Vec<_>>().join(", "),
        conv.iter().map(|(v, t)| format!("({}, {})", q(v), q(t))).collect::<Vec<_>>().join(", "),
    );
    out += &format!(" 'has_shapetype': {{{}}},\n", hst.iter().map(|(a, t)| format!("{}: {}", q(a), q(t))).collect::<Vec<_>>().join(", "));
    match &size_err {
        None => out += &format!(" 'size_in_bytes': {{{}}},\n", sizes.iter().map(|(a, c0, cp, cq)| format!("{}: Aff({}, {}, {})", q(a), c0, cp, cq)).collect::<Vec<_>>().join(", ")),
        // left out: the translator falls back to the source text for this section
        Some(e) => out += &format!(" 'size_in_bytes_error': {},\n", q(&e.replace('\'', " "))),
    }
    // ---------------- patch kinds: code written, kind read for a code, closing by with_parts
    let kind_of = |pch: &Patch| -> &'static str {
        match pch {
            Patch::TriangleStrip(_) => "TriangleStrip",
            Patch::TriangleFan(_) => "TriangleFan",
            Patch::OuterRing(_) => "OuterRing",
            Patch::InnerRing(_) => "InnerRing",
            Patch::FirstRing(_) => "FirstRing",
            Patch::Ring(_) => "Ring",
        }
    };
    let mk = |k: Kind, pts: Vec<PointZ>| -> Patch {
        match k {
            Kind::Strip => Patch::TriangleStrip(pts),
            Kind::Fan => Patch::TriangleFan(pts),
            Kind::Outer => Patch::OuterRing(pts),
            Kind::Inner => Patch::InnerRing(pts),
            Kind::First => Patch::FirstRing(pts),
            Kind::Ring => Patch::Ring(pts),
        }
    };
    let open3 = || vec![PointZ::new(0.0, 0.0, 1.0, 2.0), PointZ::new(0.0, 4.0, 1.0, 2.0), PointZ::new(3.0, 0.0, 1.0, 2.0)];
    let mut pwr = vec![];
    let mut pclose = vec![];
    let mut one_file: Vec<u8> = vec![];
    for k in Kind::ALL {
        let mp = Multipatch::new(mk(k, open3()));
        let built = &mp.patches()[0];
        let kn = kind_of(built);
        let n = match built {
            Patch::TriangleStrip(v) | Patch::TriangleFan(v) | Patch::OuterRing(v) | Patch::InnerRing(v) | Patch::FirstRing(v) | Patch::Ring(v) => v.len(),
        };
        pclose.push((kn, n == 4));
        let (shp, _) = write_files(false, &[Any::Multipatch(mp)]);
        let code = i32::from_le_bytes([shp[156], shp[157], shp[158], shp[159]]);
        pwr.push((kn, code));
        one_file = shp;
    }
    let mut parms = vec![];
    for c in -2i32..=9 {
        let mut f = one_file.clone();
        f[156..160].copy_from_slice(&c.to_le_bytes());
        if let Ok(v) = ShapeReader::new(Cursor::new(f)).and_then(|r| r.read_as::<Multipatch>()) {
            if let Some(mp) = v.first() {
                parms.push((c, kind_of(&mp.patches()[0])));
            }
        }
    }
    out += &format!(
        " 'patch': ([{}], [{}], [{}], [{}]),\n",
        parms.iter().map(|(c, k)| format!("('{}', {})", c, q(k))).collect::<Vec<_>>().join(", "),
        pwr.iter().map(|(k, c)| format!("({}, '{}')", q(k), c)).collect::<Vec<_>>().join(", "),
        parms.iter().map(|(_, k)| format!("({}, {})", q(k), q(k))).collect::<Vec<_>>().join(", "),
        pclose.iter().map(|(k, c)| format!("({}, {}, {})", q(k), q(if *c { "points" } else { "_" }), q(if *c { "close_points_if_not_already(points)" } else { "{}" }))).collect::<Vec<_>>().join(", "),
    );
    // ---------------- constants that show in the bytes
    {
        let (empty, _) = write_files(true, &[]);
        let (one, onex) = write_files(true, &[Any::Point(Point::new(1.0, 2.0))]);
        if empty.len() < 36 || one.len() < empty.len() + 12 {
            return Err("written files are too short to read the constants from".into());
        }
        let file_code = i32::from_be_bytes([empty[0], empty[1], empty[2], empty[3]]);
        let version = i32::from_le_bytes([empty[28], empty[29], empty[30], empty[31]]);
        let header_size = empty.len();
        let index_record_size = onex.len().saturating_sub(header_size);
        // a Point record: record header, 4-byte type code, 16 bytes of coordinates
        let record_header_size = one.len().saturating_sub(header_size + 4 + 16);
        out += &format!(
            " 'consts_exec': {{'fileCode': {}, 'version': {}, 'headerSize': {}, 'indexRecordSize': {}, 'recordHeaderSize': {}, 'noDataBits': {}}},\n",
            file_code, version, header_size, index_record_size, record_header_size, NO_DATA.to_bits()
        );
    }
    out += &format!(" 'full_sweep': {},\n", if full { "True" } else { "False" });
    out += "}\n";
    Ok(out)
}

//! Scenarios added after the seventh round of seeded changes: what is left behind by a write that
//! FAILED, state that outlives an input, the record number as data, layouts in reverse under
//! truncation, the bulk write under faults.
use crate::exec::*;
use crate::oracles::*;
use crate::proto::*;
use shapefile::*;
use std::cell::RefCell;
use std::io::{Cursor, Seek, SeekFrom, Write};
use std::panic::{catch_unwind, AssertUnwindSafe};
use std::rc::Rc;

fn wrap(tag: &str, r: std::thread::Result<Result<(), String>>) -> Verdict {
    match r {
        Ok(Ok(())) => Verdict::pass(),
        Ok(Err(e)) => Verdict::fail(tag, e),
        Err(e) => Verdict::fail(&format!("{}-panic", tag), panic_msg(&e)),
    }
}

/// a destination of fixed capacity (a pre-sized buffer, a quota): writing beyond it fails, writing
/// inside it — rewriting a header — succeeds
#[derive(Clone)]
pub struct CapDst(pub Rc<RefCell<(Vec<u8>, usize, usize)>>);
impl CapDst {
    pub fn new(cap: usize) -> Self {
        CapDst(Rc::new(RefCell::new((vec![], 0, cap))))
    }
    pub fn data(&self) -> Vec<u8> {
        self.0.borrow().0.clone()
    }
}
impl Write for CapDst {
    fn write(&mut self, b: &[u8]) -> std::io::Result<usize> {
        let mut s = self.0.borrow_mut();
        let (pos, cap) = (s.1, s.2);
        if pos + b.len() > cap {
            return Err(std::io::Error::new(std::io::ErrorKind::WriteZero, "destination full"));
        }
        if s.0.len() < pos + b.len() {
            s.0.resize(pos + b.len(), 0);
        }
        s.0[pos..pos + b.len()].copy_from_slice(b);
        s.1 = pos + b.len();
        Ok(b.len())
    }
    fn flush(&mut self) -> std::io::Result<()> {
        Ok(())
    }
}
impl Seek for CapDst {
    fn seek(&mut self, to: SeekFrom) -> std::io::Result<u64> {
        let mut s = self.0.borrow_mut();
        s.1 = match to {
            SeekFrom::Start(p) => p as usize,
            SeekFrom::End(d) => (s.0.len() as i64 + d).max(0) as usize,
            SeekFrom::Current(d) => (s.1 as i64 + d).max(0) as usize,
        };
        Ok(s.1 as u64)
    }
}

fn pz(q: usize) -> PointZ {
    // the later the shape, the more extreme its coordinates
    let v = (q + 1) as f64;
    PointZ::new(v * 10.0, -v * 7.0, v * 100.0, v * 3.0)
}

/// C04 / C05 / C12: a `write_shape` that FAILS (the .shp or the .shx is full) is refused; after the
/// finalize that follows the files describe exactly the shapes that were accepted: header box and
/// length, index entries, nothing of the refused shape inside the declared length
pub fn oracle_failed_write_then_finalize(which: &str, room_for: usize, offered: usize) -> Verdict {
    wrap("failed-write-left-trace", catch_unwind(AssertUnwindSafe(|| -> Result<(), String> {
        // a PointZ record is 8 + 4 + 32 = 44 bytes, an index entry 8
        let shp = CapDst::new(if which == "shp" { 100 + 44 * room_for } else { 1 << 20 });
        let shx = CapDst::new(if which == "shx" { 100 + 8 * room_for } else { 1 << 20 });
        let mut results = vec![];
        {
            let mut w = ShapeWriter::with_shx(shp.clone(), shx.clone());
            for q in 0..offered {
                results.push(w.write_shape(&pz(q)).map_err(|e| show_err(&e)));
            }
            w.finalize().map_err(|e| format!("finalize: {}", show_err(&e)))?;
        }
        let accepted: Vec<usize> = results.iter().enumerate().filter(|(_, r)| r.is_ok()).map(|(i, _)| i).collect();
        if accepted.len() != room_for.min(offered) || results.iter().skip(room_for).any(|r| r.is_ok()) {
            return Err(format!("a .{} with room for {} records: the {} writes returned {:?}", which, room_for, offered, results));
        }
        let shapes: Vec<Any> = accepted.iter().map(|q| Any::PointZ(pz(*q))).collect();
        let (eshp, eshx) = write_files(true, &shapes);
        let (gshp, gshx) = (shp.data(), shx.data());
        let declared = if gshp.len() >= 28 { be32(&gshp, 24) as usize * 2 } else { 0 };
        if declared != eshp.len() || gshp.len() < declared || gshp[..declared] != eshp[..] {
            let diff = gshp.iter().zip(eshp.iter()).position(|(a, b)| a != b);
            return Err(format!(".{} full after {} records, {} offered, then finalize: the .shp declares {} bytes and differs from the file of the {} accepted shapes ({} bytes) at byte {:?} (bytes 36..100 are the header's ranges)", which, room_for, offered, declared, accepted.len(), eshp.len(), diff));
        }
        let xdecl = if gshx.len() >= 28 { be32(&gshx, 24) as usize * 2 } else { 0 };
        if xdecl != eshx.len() || gshx.len() < xdecl || gshx[..xdecl] != eshx[..] {
            return Err(format!(".{} full after {} records, {} offered, then finalize: the .shx declares {} bytes, the index of the {} accepted shapes has {}", which, room_for, offered, xdecl, accepted.len(), eshx.len()));
        }
        // and a reader sees exactly them, with and without the index
        for with in [true, false] {
            let mut r = if with { ShapeReader::with_shx(Cursor::new(gshp.clone()), Cursor::new(gshx.clone())) } else { ShapeReader::new(Cursor::new(gshp.clone())) }.map_err(|e| show_err(&e))?;
            let got: Vec<String> = r.iter_shapes_as::<PointZ>().take(offered + 3).map(|i| i.map(|p| format!("{}", p.x)).unwrap_or_else(|e| format!("err {}", show_err(&e)))).collect();
            let want: Vec<String> = accepted.iter().map(|q| format!("{}", pz(*q).x)).collect();
            if got != want {
                return Err(format!(".{} full after {} records: reading (index: {}) yields x = {:?}, the accepted shapes have {:?}", which, room_for, with, got, want));
            }
        }
        Ok(())
    })))
}

/// C12: the bulk call `write_shapes` under a one-shot fault of the k-th destination operation, for
/// every k: if the fault fired the call returns an error
pub fn oracle_bulk_write_faults() -> Verdict {
    wrap("fault-swallowed-by-bulk-call", catch_unwind(AssertUnwindSafe(|| -> Result<(), String> {
        let shapes: Vec<PointM> = (0..3).map(|q| PointM::new(q as f64, 1.0, 2.0)).collect();
        for dest in ["shp", "shx"] {
            for persistent in [false, true] {
                for kind in 0..3usize {
                    for k in 0..40usize {
                        let fault = match kind {
                            0 => Fault::WriteAfter(k * 4),
                            1 => Fault::SeekAt(k),
                            _ => Fault::FlushAt(k),
                        };
                        let mk = || if dest == "shp" { (LogDst::with_fault(fault, persistent), LogDst::new()) } else { (LogDst::new(), LogDst::with_fault(fault, persistent)) };
                        // the same shapes offered one by one on the same fault plan: the first result
                        // that is an error (a fault that fires only in the drop is nobody's: Drop
                        // cannot report)
                        let single: Result<(), String> = {
                            let (shp, shx) = mk();
                            let mut w = ShapeWriter::with_shx(shp, shx);
                            let mut res = Ok(());
                            for s in &shapes {
                                if let Err(e) = w.write_shape(s) {
                                    res = Err(show_err(&e));
                                    break;
                                }
                            }
                            res
                        };
                        let (shp, shx) = mk();
                        let w = ShapeWriter::with_shx(shp.clone(), shx.clone());
                        let bulk = w.write_shapes(&shapes).map_err(|e| show_err(&e));
                        if bulk != single {
                            return Err(format!("write_shapes of 3 PointM with a {} {:?} on the .{}: the bulk call returned {:?}, the same shapes offered one by one give {:?}", if persistent { "persistent" } else { "one-shot" }, fault, dest, bulk, single));
                        }
                    }
                }
            }
        }
        Ok(())
    })))
}

/// C13: a truncated .shp whose records are stored in REVERSE physical order, read with the index:
/// every record wholly contained in the retained bytes is returned (each at its index position),
/// the others are I/O errors
pub fn oracle_reverse_truncated() -> Verdict {
    wrap("truncate-shapes", catch_unwind(AssertUnwindSafe(|| -> Result<(), String> {
        let n = 5usize;
        let shapes: Vec<Any> = (0..n).map(|q| Any::Point(Point::new(q as f64, 1.0))).collect();
        let (shp, _) = write_files(true, &shapes);
        let order: Vec<usize> = (0..n).rev().collect();
        let (f, x) = crate::round4::relay(&shp, &|_| 0, &order);
        // record i sits at byte 100 + 28 * (n - 1 - i)
        for cut in (100..=f.len()).step_by(1) {
            let mut r = match ShapeReader::with_shx(Cursor::new(f[..cut].to_vec()), Cursor::new(x.clone())) {
                Ok(r) => r,
                Err(e) => return Err(format!("cut at {}: open failed: {}", cut, show_err(&e))),
            };
            let got: Vec<String> = r.iter_shapes_as::<Point>().take(n + 3).map(|i| i.map(|p| format!("{}", p.x)).unwrap_or_else(|e| format!("err {}", show_err(&e)))).collect();
            let want: Vec<String> = (0..n).map(|i| if 100 + 28 * (n - i) <= cut { format!("{}", i) } else { "err io".to_string() }).collect();
            if got != want {
                return Err(format!(".shp of {} records stored in reverse order, cut at byte {} of {}, read with the index: {:?}; the records wholly inside the retained bytes give {:?}", n, cut, f.len(), got, want));
            }
        }
        Ok(())
    })))
}

/// C17: nothing learnt from one input may size the buffers of the next: a hostile little record read
/// AFTER a legitimately large dataset; and the bulk call on record numbers that are far apart
pub fn oracle_after_large_dataset() -> Verdict {
    // a legitimate polyline of 300 000 vertices in 3 parts (4.8 MB), read completely
    let big: Vec<Point> = (0..300_000).map(|i| Point::new(i as f64, (i % 97) as f64)).collect();
    let parts = vec![big[..250_000].to_vec(), big[250_000..].to_vec()];
    let (bshp, bshx) = write_files(true, &[Any::Polyline(Polyline::with_parts(parts)), Any::Polyline(Polyline::new(big.clone()))]);
    let ok = ShapeReader::with_shx(Cursor::new(bshp), Cursor::new(bshx)).and_then(|r| r.read()).map(|v| v.len()).unwrap_or(0);
    if ok != 2 {
        return Verdict::fail("alloc-harness", "the large dataset did not read back".into());
    }
    // now the hostile ones: counts that agree with the declared length, no data behind them
    let mut hostile: Vec<Vec<u8>> = vec![];
    for nparts in [1usize, 2000] {
        hostile.push(crate::round3::oracle_many_unbacked_parts(nparts).0);
    }
    // one part announcing two million points (and a record length that agrees), no point data
    for (code, per_point) in [(3i32, 16usize), (13, 32)] {
        let npts = 2_000_000usize;
        let size = 44 + 4 + per_point * npts + if code == 13 { 32 } else { 0 };
        let mut m = vec![0u8; 100];
        m[0..4].copy_from_slice(&9994i32.to_be_bytes());
        m[24..28].copy_from_slice(&i32::MAX.to_be_bytes());
        m[28..32].copy_from_slice(&1000i32.to_le_bytes());
        m[32..36].copy_from_slice(&code.to_le_bytes());
        let mut rec = vec![0u8; 12 + 32 + 8 + 4];
        rec[0..4].copy_from_slice(&1i32.to_be_bytes());
        rec[4..8].copy_from_slice(&((size / 2) as i32).to_be_bytes());
        rec[8..12].copy_from_slice(&code.to_le_bytes());
        rec[44..48].copy_from_slice(&1i32.to_le_bytes());
        rec[48..52].copy_from_slice(&(npts as i32).to_le_bytes());
        m.extend_from_slice(&rec);
        hostile.push(m);
    }
    for m in hostile {
        let v = crate::extra::oracle_c17(&crate::cases::Case::Read { target: "generic".into(), shp: m, shx: None });
        if !v.ok {
            return Verdict::fail(&v.signature, format!("after a 300 000-vertex dataset was read in the same process: {}", v.message));
        }
    }
    Verdict::pass()
}

/// C17: `read()` on a well-formed file whose record numbers are far apart
pub fn oracle_sparse_record_numbers() -> Verdict {
    let shapes: Vec<Any> = (0..3).map(|q| Any::Point(Point::new(q as f64, 1.0))).collect();
    let (mut shp, shx) = write_files(true, &shapes);
    for (i, num) in [1i32, 2, 750_000].iter().enumerate() {
        shp[100 + 28 * i..104 + 28 * i].copy_from_slice(&num.to_be_bytes());
    }
    let input = shp.len() + shx.len();
    let bound = 64 * input + 128 * 1024;
    for with in [true, false] {
        let (s, x) = (shp.clone(), shx.clone());
        crate::alloc::reset();
        let r = catch_unwind(AssertUnwindSafe(move || {
            let rdr = if with { ShapeReader::with_shx(Cursor::new(s), Cursor::new(x)) } else { ShapeReader::new(Cursor::new(s)) };
            rdr.and_then(|r| r.read()).map(|v| v.len()).unwrap_or(usize::MAX)
        }));
        let (peak, largest) = crate::alloc::measure();
        match r {
            Err(e) => return Verdict::fail("alloc-panic", panic_msg(&e)),
            Ok(k) if k != 3 => return Verdict::fail("alloc-harness", format!("3 records numbered 1, 2, 750000: read() returned {} shapes", k)),
            Ok(_) if peak > bound => return Verdict::fail("alloc-disproportionate", format!("{} input bytes, 3 records numbered 1, 2, 750000, read() (index: {}): peak request {} bytes (largest single {}), bound {}", input, with, peak, largest, bound)),
            Ok(_) => {}
        }
    }
    Verdict::pass()
}

/// C18 through the writer: shapes that were READ (also ones without any vertex) are written with a
/// record header that announces their own size
pub fn oracle_rewrite_read_shapes(shp: &[u8]) -> Verdict {
    wrap("size-header-words", catch_unwind(AssertUnwindSafe(|| -> Result<(), String> {
        let shapes = ShapeReader::new(Cursor::new(shp.to_vec())).and_then(|r| r.read()).map_err(|e| show_err(&e))?;
        if shapes.is_empty() || shapes.iter().any(|s| matches!(s, Shape::NullShape)) {
            return Ok(());
        }
        let dst = LogDst::new();
        {
            let mut w = ShapeWriter::new(dst.clone());
            for s in &shapes {
                macro_rules! go {
                    ($x:expr) => {
                        w.write_shape($x).map_err(|e| show_err(&e))?
                    };
                }
                match s {
                    Shape::NullShape => {}
                    Shape::Point(x) => go!(x),
                    Shape::PointM(x) => go!(x),
                    Shape::PointZ(x) => go!(x),
                    Shape::Polyline(x) => go!(x),
                    Shape::PolylineM(x) => go!(x),
                    Shape::PolylineZ(x) => go!(x),
                    Shape::Polygon(x) => go!(x),
                    Shape::PolygonM(x) => go!(x),
                    Shape::PolygonZ(x) => go!(x),
                    Shape::Multipoint(x) => go!(x),
                    Shape::MultipointM(x) => go!(x),
                    Shape::MultipointZ(x) => go!(x),
                    Shape::Multipatch(x) => go!(x),
                }
            }
        }
        let out = dst.data();
        let mut pos = 100usize;
        for (i, s) in shapes.iter().enumerate() {
            let (announced, _, name) = crate::round6::sizes_of(s)?;
            if pos + 12 > out.len() {
                return Err(format!("record {} ({}) is missing from the rewritten file", i, name));
            }
            let words = be32(&out, pos + 4) as usize;
            let code = i32::from_le_bytes([out[pos + 8], out[pos + 9], out[pos + 10], out[pos + 11]]);
            if words * 2 != announced + 4 || code != s.shapetype() as i32 {
                return Err(format!("a {} that was read (size_in_bytes() = {}) and written again: the record header stores {} words and the type code {}, expected {} words and {}", name, announced, words, code, (announced + 4) / 2, s.shapetype() as i32));
            }
            pos += 8 + words * 2;
        }
        if pos != out.len() {
            return Err(format!("the rewritten file has {} bytes, its records end at {}", out.len(), pos));
        }
        Ok(())
    })))
}

/// C07: a multi-part record whose NumPoints is NEGATIVE while NumParts makes the declared record
/// length agree with the size formula
pub fn negative_points_file(code: i32, npoints: i32) -> Vec<u8> {
    // size = c0 + cparts * nparts + cpoints * npoints (content after the type code)
    let (c0, cparts, cpoints): (i64, i64, i64) = match code {
        3 | 5 => (40, 4, 16),
        23 | 25 => (56, 4, 24),
        13 | 15 => (72, 4, 32),
        _ => (72, 8, 32),
    };
    // the smallest nparts >= 1 for which the formula is at least the bytes of the fixed part
    let fixed = 40i64;
    let mut nparts = 1i64;
    while c0 + cparts * nparts + cpoints * (npoints as i64) < fixed + 4 * nparts {
        nparts += 1;
        if nparts > 4000 {
            break;
        }
    }
    let size = (c0 + cparts * nparts + cpoints * (npoints as i64)).max(0) as usize;
    let mut c: Vec<u8> = vec![];
    c.extend_from_slice(&code.to_le_bytes());
    c.extend_from_slice(&[0u8; 32]);
    c.extend_from_slice(&(nparts as i32).to_le_bytes());
    c.extend_from_slice(&npoints.to_le_bytes());
    while c.len() < 4 + size {
        c.extend_from_slice(&0i32.to_le_bytes());
    }
    c.truncate(4 + size);
    let mut f = vec![0u8; 100];
    f[0..4].copy_from_slice(&9994i32.to_be_bytes());
    f[24..28].copy_from_slice(&(((100 + 8 + c.len() + 64) / 2) as i32).to_be_bytes());
    f[28..32].copy_from_slice(&1000i32.to_le_bytes());
    f[32..36].copy_from_slice(&code.to_le_bytes());
    f.extend_from_slice(&1i32.to_be_bytes());
    f.extend_from_slice(&((c.len() / 2) as i32).to_be_bytes());
    f.extend_from_slice(&c);
    f.extend_from_slice(&[0u8; 64]);
    f
}

/// the index of a .shp (its records in physical order)
pub fn index_of(shp: &[u8]) -> Vec<u8> {
    let recs = walk_records(shp).unwrap_or_default();
    let mut x = shp[..100].to_vec();
    x[24..28].copy_from_slice(&(((100 + 8 * recs.len()) / 2) as i32).to_be_bytes());
    for (o, l) in recs {
        x.extend_from_slice(&o.to_be_bytes());
        x.extend_from_slice(&l.to_be_bytes());
    }
    x
}

//! C08: shapes and attribute rows through the complete Writer / Reader (real dbase crate).
use crate::cases::Case;
use crate::exec::*;
use crate::gen::*;
use crate::oracles::*;
use crate::proto::*;
use crate::Out;
use shapefile::dbase;
use shapefile::*;
use std::convert::TryInto;
use std::io::Cursor;
use std::panic::{catch_unwind, AssertUnwindSafe};

#[derive(Clone, Copy, PartialEq, Eq, Debug)]
pub enum PairOp {
    Good,       // shape of the file's type + complete row
    WrongShape, // shape of another type + complete row
    ShortRow,   // good shape + row missing a field
    WrongRow,   // good shape + row whose value has the wrong field type
}
impl PairOp {
    pub fn tok(self) -> &'static str {
        match self {
            PairOp::Good => "g",
            PairOp::WrongShape => "s",
            PairOp::ShortRow => "r",
            PairOp::WrongRow => "t",
        }
    }
    pub fn parse(t: &str) -> Option<PairOp> {
        Some(match t {
            "g" => PairOp::Good,
            "s" => PairOp::WrongShape,
            "r" => PairOp::ShortRow,
            "t" => PairOp::WrongRow,
            _ => return None,
        })
    }
}

fn shape_for(base: &str, q: usize) -> Any {
    let v = q as f64;
    match base {
        "PointZ" => Any::PointZ(PointZ::new(v, 1.0, 2.0, 3.0)),
        // no measures: every m is NO_DATA
        "MultipointZ" => Any::MultipointZ(MultipointZ::new(vec![PointZ::new(v, 1.0, 2.0, NO_DATA), PointZ::new(v + 0.5, 2.0, 3.0, NO_DATA), PointZ::new(v, 3.0, 4.0, NO_DATA)])),
        // the second pair's shape has a NaN ordinate (a gap in a GPS track): a shape like any other
        "PolylineNaN" => Any::Polyline(Polyline::new(vec![Point::new(v, 0.0), Point::new(v, if q == 1 { f64::NAN } else { 1.0 }), Point::new(v + 1.0, 2.0)])),
        "PolygonM" => Any::PolygonM(PolygonM::new(PolygonRing::Outer(vec![PointM::new(v, 0.0, NO_DATA), PointM::new(v, 1.0, NO_DATA), PointM::new(v + 1.0, 1.0, NO_DATA), PointM::new(v, 0.0, NO_DATA)]))),
        "Polyline" => Any::Polyline(Polyline::new(vec![Point::new(v, 0.0), Point::new(v, 1.0 + v)])),
        _ => Any::Point(Point::new(v, 0.5)),
    }
}
fn other_shape(base: &str, q: usize) -> Any {
    let v = q as f64;
    if base == "Polyline" {
        Any::Point(Point::new(v, 0.0))
    } else {
        Any::Polyline(Polyline::new(vec![Point::new(v, 0.0), Point::new(v, 1.0)]))
    }
}
fn shape_q(s: &Shape) -> Option<usize> {
    match s {
        Shape::Point(p) => Some(p.x as usize),
        Shape::PointZ(p) => Some(p.x as usize),
        Shape::Polyline(p) => p.parts().first().and_then(|pt| pt.first()).map(|p| p.x as usize),
        Shape::MultipointZ(p) => p.points().first().map(|p| p.x as usize),
        Shape::PolygonM(p) => p.rings().first().and_then(|r| r.points().first()).map(|p| p.x as usize),
        _ => None,
    }
}

fn row_for(op: PairOp, q: usize) -> dbase::Record {
    let mut r = dbase::Record::default();
    match op {
        PairOp::ShortRow => {
            r.insert("idx".into(), dbase::FieldValue::Numeric(Some(q as f64)));
        }
        PairOp::WrongRow => {
            r.insert("idx".into(), dbase::FieldValue::Character(Some("x".into())));
            r.insert("name".into(), dbase::FieldValue::Character(Some(format!("r{}", q))));
        }
        _ => {
            r.insert("idx".into(), dbase::FieldValue::Numeric(Some(q as f64)));
            r.insert("name".into(), dbase::FieldValue::Character(Some(format!("r{}", q))));
        }
    }
    r
}

pub struct PairRun {
    pub results: Vec<String>,
    pub shp: Vec<u8>,
    pub shx: Vec<u8>,
    pub dbf: Vec<u8>,
}

pub fn run_pairs(base: &str, ops: &[PairOp]) -> Result<PairRun, String> {
    let qops: Vec<(usize, PairOp)> = ops.iter().cloned().enumerate().collect();
    run_pairs_q(base, &qops)
}

/// the calls carry their own payload number `q` (so that a history with some calls removed writes
/// the same payloads in the calls that remain)
pub fn run_pairs_q(base: &str, ops: &[(usize, PairOp)]) -> Result<PairRun, String> {
    let (shp, shx, dbf) = (LogDst::new(), LogDst::new(), LogDst::new());
    let (s2, x2, d2) = (shp.clone(), shx.clone(), dbf.clone());
    let base = base.to_string();
    let ops = ops.to_vec();
    let r = catch_unwind(AssertUnwindSafe(move || {
        let table = dbase::TableWriterBuilder::new()
            .add_numeric_field("idx".try_into().unwrap(), 10, 0)
            .add_character_field("name".try_into().unwrap(), 10)
            .build_with_dest(d2);
        let mut w = Writer::new(ShapeWriter::with_shx(s2, x2), table);
        let mut results = vec![];
        for (pos, (q, op)) in ops.iter().enumerate() {
            let q = *q;
            let shape = if *op == PairOp::WrongShape && pos > 0 { other_shape(&base, q) } else { shape_for(&base, q) };
            let row = row_for(*op, q);
            let r = crate::with_any!(&shape, s => w.write_shape_and_record(s, &row));
            results.push(match r {
                Ok(()) => "ok".to_string(),
                Err(e) => format!("err {}", show_err(&e)),
            });
        }
        drop(w);
        results
    }));
    match r {
        Ok(results) => Ok(PairRun { results, shp: shp.data(), shx: shx.data(), dbf: dbf.data() }),
        Err(e) => Err(panic_msg(&e)),
    }
}

pub fn counts(run: &PairRun) -> (usize, usize, usize) {
    let nshp = walk_records(&run.shp).map(|v| v.len()).unwrap_or(usize::MAX);
    let nshx = if run.shx.len() >= 100 { (run.shx.len() - 100) / 8 } else { 0 };
    let ndbf = if run.dbf.len() >= 8 { u32::from_le_bytes(run.dbf[4..8].try_into().unwrap()) as usize } else { 0 };
    (nshp, nshx, ndbf)
}

pub fn v_dbfhist(base: &str, ops: &[PairOp]) -> String {
    match run_pairs(base, ops) {
        Err(e) => format!("panic {}", e),
        Ok(run) => {
            let (a, b, c) = counts(&run);
            format!("{} | shp={} shx={} dbf={}", run.results.join(" ; "), a, b, c)
        }
    }
}

/// the property on one history
pub fn oracle_c08(base: &str, ops: &[PairOp]) -> Verdict {
    let run = match run_pairs(base, ops) {
        Ok(r) => r,
        Err(e) => return Verdict::fail("pairs-panic", e),
    };
    let (nshp, nshx, ndbf) = counts(&run);
    // which calls were expected to succeed: the first call fixes the type; a wrong-type shape and bad rows fail
    let mut expected_ok: Vec<usize> = vec![];
    for (q, op) in ops.iter().enumerate() {
        let want_ok = *op == PairOp::Good || (*op == PairOp::WrongShape && q == 0);
        let got_ok = run.results[q] == "ok";
        if want_ok != got_ok {
            return Verdict::fail("pairs-call-result", format!("call {} ({:?}) returned {}", q, op, run.results[q]));
        }
        if got_ok {
            expected_ok.push(q);
        }
    }
    if nshp != nshx || nshp != ndbf {
        // the recorded finding is exactly: one extra shape (in .shp AND .shx) per rejected row, rows
        // never ahead of shapes; any other imbalance is a different violation
        let shapes_ok = ops.iter().enumerate().filter(|(q, o)| **o != PairOp::WrongShape || *q == 0).count();
        let rejected = ops.iter().filter(|o| matches!(o, PairOp::ShortRow | PairOp::WrongRow)).count();
        let sig = if rejected > 0 && nshp == nshx && nshp == shapes_ok && ndbf <= nshp { "row-rejected-after-shape-committed" } else { "pairs-count-mismatch" };
        return Verdict::fail(sig, format!("after the history {:?} the files hold {} shp records, {} shx entries, {} dbf rows", ops.iter().map(|o| o.tok()).collect::<Vec<_>>(), nshp, nshx, ndbf));
    }
    // read back: pairs in order, shape i with row i
    let r = catch_unwind(AssertUnwindSafe(|| -> Result<Vec<(usize, usize)>, String> {
        let sr = ShapeReader::with_shx(Cursor::new(run.shp.clone()), Cursor::new(run.shx.clone())).map_err(|e| show_err(&e))?;
        let dr = dbase::Reader::new(Cursor::new(run.dbf.clone())).map_err(|e| format!("dbase {:?}", e))?;
        let mut rdr = Reader::new(sr, dr);
        let mut out = vec![];
        for item in rdr.iter_shapes_and_records() {
            let (s, row) = item.map_err(|e| show_err(&e))?;
            let q = shape_q(&s).ok_or("unexpected shape")?;
            let idx = match row.get("idx") {
                Some(dbase::FieldValue::Numeric(Some(v))) => *v as usize,
                other => return Err(format!("row without idx: {:?}", other)),
            };
            out.push((q, idx));
        }
        Ok(out)
    }));
    match r {
        Err(e) => Verdict::fail("pairs-read-panic", panic_msg(&e)),
        Ok(Err(e)) => Verdict::fail("pairs-read-error", e),
        Ok(Ok(pairs)) => {
            if pairs.iter().any(|(a, b)| a != b) {
                return Verdict::fail("pairs-shifted", format!("read back pairs (shape, row): {:?}", pairs));
            }
            if pairs.iter().map(|p| p.0).collect::<Vec<_>>() != expected_ok {
                return Verdict::fail("pairs-missing", format!("read back {:?}, written {:?}", pairs, expected_ok));
            }
            Verdict::pass()
        }
    }
}

/// by path: Writer::from_path / Reader::from_path / shapefile::read
pub fn oracle_c08_path(n: usize) -> Verdict {
    let base = std::env::var("VERIF_WORK").unwrap_or_else(|_| "/verif/work".into());
    let dir = std::path::PathBuf::from(base).join(format!("h{}", std::process::id()));
    std::fs::create_dir_all(&dir).unwrap();
    let path = dir.join("c08.shp");
    let r = catch_unwind(AssertUnwindSafe(|| -> Result<(), String> {
        {
            let table = dbase::TableWriterBuilder::new().add_numeric_field("idx".try_into().unwrap(), 10, 0).add_character_field("name".try_into().unwrap(), 10);
            let mut w = Writer::from_path(&path, table).map_err(|e| show_err(&e))?;
            for q in 0..n {
                w.write_shape_and_record(&Point::new(q as f64, 0.5), &row_for(PairOp::Good, q)).map_err(|e| show_err(&e))?;
            }
        }
        let pairs = shapefile::read(&path).map_err(|e| show_err(&e))?;
        if pairs.len() != n {
            return Err(format!("{} pairs read, {} written", pairs.len(), n));
        }
        for (i, (s, row)) in pairs.iter().enumerate() {
            let q = shape_q(s).ok_or("unexpected shape")?;
            match row.get("idx") {
                Some(dbase::FieldValue::Numeric(Some(v))) if *v as usize == i && q == i => {}
                other => return Err(format!("pair {}: shape {} row {:?}", i, q, other)),
            }
        }
        // seek keeps shapes and rows aligned
        let mut rdr = Reader::from_path(&path).map_err(|e| show_err(&e))?;
        if n >= 2 {
            rdr.seek(1).map_err(|e| show_err(&e))?;
            let rest: Vec<_> = rdr.iter_shapes_and_records().collect();
            if rest.len() != n - 1 {
                return Err(format!("after seek(1): {} pairs, expected {}", rest.len(), n - 1));
            }
            for (i, item) in rest.into_iter().enumerate() {
                let (s, row) = item.map_err(|e| show_err(&e))?;
                let q = shape_q(&s).ok_or("unexpected shape")?;
                match row.get("idx") {
                    Some(dbase::FieldValue::Numeric(Some(v))) if *v as usize == i + 1 && q == i + 1 => {}
                    other => return Err(format!("after seek(1) pair {}: shape {} row {:?}", i, q, other)),
                }
            }
        }
        Ok(())
    }));
    for ext in ["shp", "shx", "dbf"] {
        let _ = std::fs::remove_file(path.with_extension(ext));
    }
    match r {
        Ok(Ok(())) => Verdict::pass(),
        Ok(Err(e)) => Verdict::fail("pairs-path", e),
        Err(e) => Verdict::fail("pairs-path-panic", panic_msg(&e)),
    }
}

/// C10 through the complete writer: a call rejected for its shape type leaves no trace in any of the
/// three files — they equal those of the history without the rejected calls
pub fn oracle_c10_pairs(base: &str, ops: &[PairOp]) -> Verdict {
    let full: Vec<(usize, PairOp)> = ops.iter().cloned().enumerate().collect();
    let kept: Vec<(usize, PairOp)> = full.iter().cloned().filter(|(pos, op)| !(*op == PairOp::WrongShape && *pos > 0)).collect();
    let a = match run_pairs_q(base, &full) {
        Ok(r) => r,
        Err(e) => return Verdict::fail("rejected-pair-panic", e),
    };
    let b = match run_pairs_q(base, &kept) {
        Ok(r) => r,
        Err(e) => return Verdict::fail("rejected-pair-panic", e),
    };
    for (pos, op) in ops.iter().enumerate() {
        let rejected = *op == PairOp::WrongShape && pos > 0;
        let r = &a.results[pos];
        if rejected && !(r.starts_with("err mismatch") || r.contains("Mismatch") || r.contains("mismatch")) {
            return Verdict::fail("rejected-pair-result", format!("call {} offered another shape type and returned {}", pos, r));
        }
        if !rejected && r != "ok" {
            return Verdict::fail("rejected-pair-result", format!("call {} returned {}", pos, r));
        }
    }
    let mask = |d: &Vec<u8>| {
        let mut d = d.clone();
        for i in 1..4.min(d.len()) {
            d[i] = 0; // the dbf header's last-update date
        }
        d
    };
    for (name, x, y) in [("shp", &a.shp, &b.shp), ("shx", &a.shx, &b.shx), ("dbf", &mask(&a.dbf), &mask(&b.dbf))] {
        if x != y {
            return Verdict::fail("rejected-pair-left-trace", format!("history {:?}: the .{} differs from the one of the history without the rejected calls ({} vs {} bytes)", ops.iter().map(|o| o.tok()).collect::<Vec<_>>(), name, x.len(), y.len()));
        }
    }
    Verdict::pass()
}

pub fn cases_dbf_c10(tier: &str, stats: &mut Stats, out: &mut Out) {
    let max_len = if tier == "thorough" { 7 } else { 5 };
    for base in ["Point", "PointZ", "Polyline"] {
        for len in 1..=max_len {
            for idx in 0..(1usize << (len - 1)) {
                // the first call is a good pair, the others are good or of another shape type
                let mut ops = vec![PairOp::Good];
                for k in 0..(len - 1) {
                    ops.push(if (idx >> k) & 1 == 1 { PairOp::WrongShape } else { PairOp::Good });
                }
                stats.hit(&format!("pairs10.len.{}", len));
                let c = Case::DbfHist { base: base.to_string(), ops: ops.clone() };
                let (id, _res) = out.case(&c);
                out.verdict(&id, &crate::cases::show_case(&c), oracle_c10_pairs(base, &ops));
            }
        }
    }
}

/// C15 on the complete Reader: seek(k) / iterate j pairs in any order — every pair yielded holds the
/// shape and the row written together, an iteration after seek(k) starts at k, any iteration yields
/// consecutive records (from the position reached, or from the first) and never more than exist
pub fn oracle_c15_pairs(base: &str, n: usize, ops: &[(char, usize)]) -> Verdict {
    let good: Vec<PairOp> = (0..n).map(|_| PairOp::Good).collect();
    let run = match run_pairs(base, &good) {
        Ok(r) => r,
        Err(e) => return Verdict::fail("reader-pairs-panic", e),
    };
    let r = catch_unwind(AssertUnwindSafe(|| -> Result<(), String> {
        let sr = ShapeReader::with_shx(Cursor::new(run.shp.clone()), Cursor::new(run.shx.clone())).map_err(|e| show_err(&e))?;
        let dr = dbase::Reader::new(Cursor::new(run.dbf.clone())).map_err(|e| format!("dbase {:?}", e))?;
        let mut rdr = Reader::new(sr, dr);
        let mut cursor: Option<usize> = Some(0); // where the next iteration is expected to start
        for (step, (op, k)) in ops.iter().enumerate() {
            match op {
                's' => {
                    rdr.seek(*k).map_err(|e| format!("step {}: seek({}) failed: {}", step, k, show_err(&e)))?;
                    cursor = Some((*k).min(n));
                }
                _ => {
                    let mut got: Vec<(usize, usize)> = vec![];
                    for item in rdr.iter_shapes_and_records().take(*k) {
                        let (s, row) = item.map_err(|e| format!("step {}: iteration failed: {}", step, show_err(&e)))?;
                        let q = shape_q(&s).ok_or("unexpected shape")?;
                        let idx = match row.get("idx") {
                            Some(dbase::FieldValue::Numeric(Some(v))) => *v as usize,
                            other => return Err(format!("row without idx: {:?}", other)),
                        };
                        got.push((q, idx));
                    }
                    if let Some((q, idx)) = got.iter().find(|(q, idx)| q != idx) {
                        return Err(format!("step {} of {:?}: shape {} came with row {} (pairs {:?})", step, ops, q, idx, got));
                    }
                    if let Some(first) = got.first() {
                        let starts_ok = Some(first.0) == cursor || first.0 == 0;
                        let after_seek = step > 0 && ops[step - 1].0 == 's';
                        if !starts_ok || (after_seek && Some(first.0) != cursor) {
                            return Err(format!("step {} of {:?}: iteration started at record {}, expected {:?}", step, ops, first.0, cursor));
                        }
                    } else if *k > 0 {
                        // nothing yielded: only right when the position is at the end
                        let after_seek = step > 0 && ops[step - 1].0 == 's';
                        if after_seek && cursor.map(|c| c < n).unwrap_or(false) {
                            return Err(format!("step {} of {:?}: nothing yielded after seek to {:?} of {}", step, ops, cursor, n));
                        }
                    }
                    for w in got.windows(2) {
                        if w[1].0 != w[0].0 + 1 {
                            return Err(format!("step {} of {:?}: records out of order: {:?}", step, ops, got));
                        }
                    }
                    if got.len() > n {
                        return Err(format!("step {}: {} pairs from a file of {}", step, got.len(), n));
                    }
                    if let Some(last) = got.last() {
                        cursor = Some(last.0 + 1);
                    }
                }
            }
        }
        Ok(())
    }));
    match r {
        Ok(Ok(())) => Verdict::pass(),
        Ok(Err(e)) => Verdict::fail("reader-pairs-misaligned", e),
        Err(e) => Verdict::fail("reader-pairs-panic", panic_msg(&e)),
    }
}

pub fn cases_pairs_c15(tier: &str, stats: &mut Stats, out: &mut Out) {
    for n in [10usize, 5] {
        let id = out.oracle_only_id();
        out.verdict(&id, &format!("scenario pairs-adaptors {}", n), oracle_pairs_adaptors(n));
    }
    let n = 4usize;
    let mut alphabet: Vec<(char, usize)> = vec![('i', 0), ('i', 1), ('i', 2), ('i', 99)];
    for k in 0..=n {
        alphabet.push(('s', k));
    }
    for (nn, k) in [(4usize, 1usize), (4, 3), (5, 2), (3, 7)] {
        for base in ["Point", "Polyline"] {
            let id = out.oracle_only_id();
            out.verdict(&id, &format!("scenario reader-pairs-noshx {} {} {}", base, nn, k), oracle_c15_pairs_noshx(base, nn, k));
        }
    }
    let max_len = if tier == "thorough" { 4 } else { 3 };
    let mut files: std::collections::HashMap<&str, (Vec<u8>, Vec<u8>)> = std::collections::HashMap::new();
    for base in ["Point", "Polyline"] {
        let good: Vec<PairOp> = (0..n).map(|_| PairOp::Good).collect();
        if let Ok(run) = run_pairs(base, &good) {
            files.insert(base, (run.shp, run.shx));
        }
    }
    for base in ["Point", "Polyline"] {
        for len in 1..=max_len {
            let total = alphabet.len().pow(len as u32);
            for idx in 0..total {
                let mut x = idx;
                let ops: Vec<(char, usize)> = (0..len)
                    .map(|_| {
                        let o = alphabet[x % alphabet.len()];
                        x /= alphabet.len();
                        o
                    })
                    .collect();
                stats.hit(&format!("pairs15.len.{}", len));
                if let Some((shp, shx)) = files.get(base) {
                    let pops: Vec<(String, usize)> = ops.iter().map(|(c, k)| ((if *c == 's' { "seek" } else { "it" }).to_string(), *k)).collect();
                    out.case(&Case::Prhist { shp: shp.clone(), shx: shx.clone(), rows: n, ops: pops });
                }
                let id = out.oracle_only_id();
                let txt: Vec<String> = ops.iter().map(|(c, k)| format!("{}{}", c, k)).collect();
                out.verdict(&id, &format!("scenario reader-pairs {} {} {}", base, n, txt.join(" ")), oracle_c15_pairs(base, n, &ops));
            }
        }
    }
}

/// a dataset written by path over an existing, longer one: every file holds exactly what an
/// in-memory run produces (nothing of the old content survives behind it)
pub fn oracle_path_overwrite(n_old: usize, n_new: usize) -> Verdict {
    let base = std::env::var("VERIF_WORK").unwrap_or_else(|_| "/verif/work".into());
    let dir = std::path::PathBuf::from(base).join(format!("ho{}", std::process::id()));
    std::fs::create_dir_all(&dir).unwrap();
    let path = dir.join("data.shp");
    let r = catch_unwind(AssertUnwindSafe(|| -> Result<(), String> {
        let write = |n: usize, off: f64| -> Result<(), String> {
            let mut w = ShapeWriter::from_path(&path).map_err(|e| show_err(&e))?;
            for q in 0..n {
                w.write_shape(&Point::new(q as f64 + off, 10.0 * q as f64)).map_err(|e| show_err(&e))?;
            }
            Ok(())
        };
        write(n_old, 1000.0)?;
        write(n_new, 0.0)?;
        let (shp, shx) = (LogDst::new(), LogDst::new());
        {
            let mut w = ShapeWriter::with_shx(shp.clone(), shx.clone());
            for q in 0..n_new {
                w.write_shape(&Point::new(q as f64, 10.0 * q as f64)).map_err(|e| show_err(&e))?;
            }
        }
        for (ext, want) in [("shp", shp.data()), ("shx", shx.data())] {
            let got = std::fs::read(path.with_extension(ext)).map_err(|e| e.to_string())?;
            if got != want {
                return Err(format!("{} points written by path over a dataset of {}: the .{} has {} bytes, an in-memory run gives {} (first difference at byte {:?})", n_new, n_old, ext, got.len(), want.len(), got.iter().zip(want.iter()).position(|(a, b)| a != b)));
            }
        }
        Ok(())
    }));
    let _ = std::fs::remove_dir_all(&dir);
    match r {
        Ok(Ok(())) => Verdict::pass(),
        Ok(Err(e)) => Verdict::fail("path-stale-bytes", e),
        Err(e) => Verdict::fail("path-panic", panic_msg(&e)),
    }
}

/// C15 on the complete Reader WITHOUT an index: seek(k) is refused and must leave shapes and rows where
/// they were: the iteration that follows yields the aligned pairs from the first one
pub fn oracle_c15_pairs_noshx(base: &str, n: usize, k: usize) -> Verdict {
    let good: Vec<PairOp> = (0..n).map(|_| PairOp::Good).collect();
    let run = match run_pairs(base, &good) {
        Ok(r) => r,
        Err(e) => return Verdict::fail("reader-pairs-panic", e),
    };
    let r = catch_unwind(AssertUnwindSafe(|| -> Result<(), String> {
        let sr = ShapeReader::new(Cursor::new(run.shp.clone())).map_err(|e| show_err(&e))?;
        let dr = dbase::Reader::new(Cursor::new(run.dbf.clone())).map_err(|e| format!("dbase {:?}", e))?;
        let mut rdr = Reader::new(sr, dr);
        if rdr.seek(k).is_ok() {
            return Err(format!("seek({}) on a reader without index succeeded", k));
        }
        let mut got = vec![];
        for item in rdr.iter_shapes_and_records() {
            let (s, row) = item.map_err(|e| show_err(&e))?;
            let q = shape_q(&s).ok_or("unexpected shape")?;
            let idx = match row.get("idx") {
                Some(dbase::FieldValue::Numeric(Some(v))) => *v as usize,
                other => return Err(format!("row without idx: {:?}", other)),
            };
            got.push((q, idx));
        }
        let want: Vec<(usize, usize)> = (0..n).map(|i| (i, i)).collect();
        if got != want {
            return Err(format!("after the refused seek({}) the iteration yields (shape, row) = {:?}", k, got));
        }
        Ok(())
    }));
    match r {
        Ok(Ok(())) => Verdict::pass(),
        Ok(Err(e)) => Verdict::fail("reader-pairs-misaligned", e),
        Err(e) => Verdict::fail("reader-pairs-panic", panic_msg(&e)),
    }
}

/// n pairs of a given shape type written through the complete Writer come back as the same pairs,
/// from memory with and without the index
pub fn oracle_c08_roundtrip(base: &str, n: usize) -> Verdict {
    let good: Vec<PairOp> = (0..n).map(|_| PairOp::Good).collect();
    let run = match run_pairs(base, &good) {
        Ok(r) => r,
        Err(e) => return Verdict::fail("pairs-panic", e),
    };
    // a refused pair is tolerated (the property speaks of failing calls); what it may not do is
    // leave the files out of step
    let accepted: Vec<usize> = run.results.iter().enumerate().filter(|(_, r)| *r == "ok").map(|(i, _)| i).collect();
    let n_ok = accepted.len();
    if counts(&run) != (n_ok, n_ok, n_ok) {
        return Verdict::fail("pairs-counts", format!("{} {} pairs offered, results {:?}: (shp records, shx entries, dbf rows) = {:?}", n, base, run.results, counts(&run)));
    }
    let r = catch_unwind(AssertUnwindSafe(|| -> Result<(), String> {
        for with in [true, false] {
            let sr = if with { ShapeReader::with_shx(Cursor::new(run.shp.clone()), Cursor::new(run.shx.clone())) } else { ShapeReader::new(Cursor::new(run.shp.clone())) }.map_err(|e| show_err(&e))?;
            let dr = dbase::Reader::new(Cursor::new(run.dbf.clone())).map_err(|e| format!("dbase {:?}", e))?;
            let mut rdr = Reader::new(sr, dr);
            let mut got = vec![];
            for item in rdr.iter_shapes_and_records() {
                let (s, row) = item.map_err(|e| format!("{} {} pairs written without error, reading them (index: {}) fails with {}", n, base, with, show_err(&e)))?;
                let q = shape_q(&s).ok_or("unexpected shape")?;
                let idx = match row.get("idx") {
                    Some(dbase::FieldValue::Numeric(Some(v))) => *v as usize,
                    other => return Err(format!("row without idx: {:?}", other)),
                };
                got.push((q, idx));
            }
            let want: Vec<(usize, usize)> = accepted.iter().map(|i| (*i, *i)).collect();
            if got != want {
                return Err(format!("{} {} pairs (index: {}), accepted {:?}: the reader returns (shape, row) = {:?}", n, base, with, accepted, got));
            }
        }
        Ok(())
    }));
    match r {
        Ok(Ok(())) => Verdict::pass(),
        Ok(Err(e)) => Verdict::fail("pairs-misaligned", e),
        Err(e) => Verdict::fail("pairs-panic", panic_msg(&e)),
    }
}

fn pair_of(item: Result<(Shape, dbase::Record), Error>) -> Result<(usize, usize), String> {
    let (s, row) = item.map_err(|e| show_err(&e))?;
    let q = shape_q(&s).ok_or("unexpected shape")?;
    match row.get("idx") {
        Some(dbase::FieldValue::Numeric(Some(v))) => Ok((q, *v as usize)),
        other => Err(format!("row without idx: {:?}", other)),
    }
}

/// iterator adaptors and the bulk call on the complete Reader, fresh and used: every pair that comes
/// out is (shape i, row i), and the sequence is what the list of pairs would give
pub fn oracle_pairs_adaptors(n: usize) -> Verdict {
    let good: Vec<PairOp> = (0..n).map(|_| PairOp::Good).collect();
    let run = match run_pairs("Point", &good) {
        Ok(r) => r,
        Err(e) => return Verdict::fail("pairs-panic", e),
    };
    let r = catch_unwind(AssertUnwindSafe(|| -> Result<(), String> {
        let all: Vec<usize> = (0..n).collect();
        for with in [true, false] {
            for state in ["fresh", "seek 2", "iterated 1", "iterated 3"] {
                if state.starts_with("seek") && !with {
                    continue;
                }
                for which in 0..5usize {
                    let sr = if with { ShapeReader::with_shx(Cursor::new(run.shp.clone()), Cursor::new(run.shx.clone())) } else { ShapeReader::new(Cursor::new(run.shp.clone())) }.map_err(|e| show_err(&e))?;
                    let dr = dbase::Reader::new(Cursor::new(run.dbf.clone())).map_err(|e| format!("dbase {:?}", e))?;
                    let mut rdr = Reader::new(sr, dr);
                    let start = match state {
                        "seek 2" => {
                            rdr.seek(2).map_err(|e| show_err(&e))?;
                            2usize
                        }
                        "iterated 1" => {
                            let _ = rdr.iter_shapes_and_records().take(1).count();
                            1
                        }
                        "iterated 3" => {
                            let _ = rdr.iter_shapes_and_records().take(3).count();
                            3
                        }
                        _ => 0,
                    };
                    let rest: Vec<usize> = all[start.min(n)..].to_vec();
                    let (name, got, want): (&str, Vec<Result<(usize, usize), String>>, Vec<usize>) = match which {
                        0 => ("step_by(3)", rdr.iter_shapes_and_records().step_by(3).take(2 * n + 4).map(pair_of).collect(), rest.iter().cloned().step_by(3).collect()),
                        1 => ("skip(2)", rdr.iter_shapes_and_records().skip(2).take(2 * n + 4).map(pair_of).collect(), rest.iter().cloned().skip(2).collect()),
                        2 => {
                            let mut it = rdr.iter_shapes_and_records();
                            let a = it.nth(1).map(pair_of);
                            let b = it.nth(1).map(pair_of);
                            ("nth(1), nth(1)", a.into_iter().chain(b).collect(), rest.get(1).cloned().into_iter().chain(rest.get(3).cloned()).collect())
                        }
                        3 => match rdr.read() {
                            Ok(v) => ("read()", v.into_iter().map(|p| pair_of(Ok(p))).collect(), rest.clone()),
                            Err(e) => return Err(format!("read() failed: {}", show_err(&e))),
                        },
                        _ => ("plain iteration", rdr.iter_shapes_and_records().take(2 * n + 4).map(pair_of).collect(), rest.clone()),
                    };
                    let who = format!("{} pairs, reader {} index, state `{}`, {}", n, if with { "with" } else { "without" }, state, name);
                    let mut qs = vec![];
                    for g in &got {
                        match g {
                            Ok((q, idx)) if q == idx => qs.push(*q),
                            Ok((q, idx)) => return Err(format!("{}: shape {} came back paired with row {} (all pairs: {:?})", who, q, idx, got)),
                            Err(e) => return Err(format!("{}: {}", who, e)),
                        }
                    }
                    // the bulk call may also restart from the first pair
                    if qs != want && !(which == 3 && qs == all) {
                        return Err(format!("{}: yields the pairs {:?}, expected {:?}", who, qs, want));
                    }
                }
            }
        }
        Ok(())
    }));
    match r {
        Ok(Ok(())) => Verdict::pass(),
        Ok(Err(e)) => Verdict::fail("pairs-misaligned", e),
        Err(e) => Verdict::fail("pairs-panic", panic_msg(&e)),
    }
}

/// C17: the bulk call of the complete Reader on a .dbf whose header announces far more rows than it
/// holds
pub fn oracle_dbf_count_peak(announced: u32) -> Verdict {
    let run = match run_pairs("Point", &[PairOp::Good]) {
        Ok(r) => r,
        Err(e) => return Verdict::fail("pairs-panic", e),
    };
    let mut dbf = run.dbf.clone();
    dbf[4..8].copy_from_slice(&announced.to_le_bytes());
    let input = run.shp.len() + run.shx.len() + dbf.len();
    let bound = 64 * input + 128 * 1024;
    for with in [true, false] {
        let (shp, shx, dbf) = (run.shp.clone(), run.shx.clone(), dbf.clone());
        crate::alloc::reset();
        let r = catch_unwind(AssertUnwindSafe(move || {
            let sr = if with { ShapeReader::with_shx(Cursor::new(shp), Cursor::new(shx)) } else { ShapeReader::new(Cursor::new(shp)) };
            let (sr, dr) = match (sr, dbase::Reader::new(Cursor::new(dbf))) {
                (Ok(s), Ok(d)) => (s, d),
                _ => return,
            };
            let mut rdr = Reader::new(sr, dr);
            drop(rdr.read());
        }));
        let (peak, largest) = crate::alloc::measure();
        if r.is_err() {
            return Verdict::fail("alloc-panic", "Reader::read panicked".into());
        }
        if peak > bound {
            return Verdict::fail("alloc-disproportionate", format!("{} input bytes (.shp, .shx, .dbf announcing {} rows, holding 1), Reader::read() (index: {}): peak request {} bytes (largest single {}), bound {}", input, announced, with, peak, largest, bound));
        }
    }
    Verdict::pass()
}

/// replay of the scenarios above
pub fn oracle_scenario_dbf(prop: &str, a: &[String]) -> Option<Verdict> {
    match (prop, a.first().map(|s| s.as_str())) {
        (_, Some("pairs-adaptors")) => Some(oracle_pairs_adaptors(a.get(1)?.parse().ok()?)),
        (_, Some("dbf-count-peak")) => Some(oracle_dbf_count_peak(a.get(1)?.parse().ok()?)),
        ("C08", Some("path-pairs")) => Some(oracle_c08_path(a.get(1)?.parse().ok()?)),
        ("C08", Some("path-names")) => Some(oracle_c08_path_names(a.get(1)?, a.get(2)?)),
        (_, Some("path-overwrite")) => Some(oracle_path_overwrite(a.get(1)?.parse().ok()?, a.get(2)?.parse().ok()?)),
        ("C08", Some("paged")) => Some(oracle_c08_paged(a.get(1)?, a.get(2)?.parse().ok()?, a.get(3)?.parse().ok()?)),
        ("C15", Some("reader-pairs")) => {
            let base = a.get(1)?;
            let n: usize = a.get(2)?.parse().ok()?;
            let mut ops = vec![];
            for t in &a[3..] {
                let c = t.chars().next()?;
                ops.push((c, t[1..].parse().ok()?));
            }
            Some(oracle_c15_pairs(base, n, &ops))
        }
        _ => None,
    }
}

/// reading in pages: k pairs from one iterator, the rest from another one (or from `read()`)
pub fn oracle_c08_paged(base: &str, n: usize, k: usize) -> Verdict {
    let good: Vec<PairOp> = (0..n).map(|_| PairOp::Good).collect();
    let run = match run_pairs(base, &good) {
        Ok(r) => r,
        Err(e) => return Verdict::fail("pairs-panic", e),
    };
    let r = catch_unwind(AssertUnwindSafe(|| -> Result<(), String> {
        for use_read in [false, true] {
            let sr = ShapeReader::with_shx(Cursor::new(run.shp.clone()), Cursor::new(run.shx.clone())).map_err(|e| show_err(&e))?;
            let dr = dbase::Reader::new(Cursor::new(run.dbf.clone())).map_err(|e| format!("dbase {:?}", e))?;
            let mut rdr = Reader::new(sr, dr);
            let mut got: Vec<(usize, usize)> = vec![];
            let pair = |s: &Shape, row: &dbase::Record| -> Result<(usize, usize), String> {
                let q = shape_q(s).ok_or("unexpected shape")?;
                match row.get("idx") {
                    Some(dbase::FieldValue::Numeric(Some(v))) => Ok((q, *v as usize)),
                    other => Err(format!("row without idx: {:?}", other)),
                }
            };
            for item in rdr.iter_shapes_and_records().take(k) {
                let (s, row) = item.map_err(|e| show_err(&e))?;
                got.push(pair(&s, &row)?);
            }
            if use_read {
                for (s, row) in rdr.read().map_err(|e| show_err(&e))? {
                    got.push(pair(&s, &row)?);
                }
            } else {
                for item in rdr.iter_shapes_and_records() {
                    let (s, row) = item.map_err(|e| show_err(&e))?;
                    got.push(pair(&s, &row)?);
                }
            }
            if got.iter().any(|(a, b)| a != b) {
                return Err(format!("{} pairs read as a page of {} then the rest: (shape, row) = {:?}", n, k, &got[..got.len().min(12)]));
            }
            if got.len() != n || got.iter().enumerate().any(|(i, (a, _))| *a != i) {
                return Err(format!("{} pairs were written, {} were read back (as a page of {} then the rest)", n, got.len(), k));
            }
        }
        Ok(())
    }));
    match r {
        Ok(Ok(())) => Verdict::pass(),
        Ok(Err(e)) => Verdict::fail("pairs-shifted", e),
        Err(e) => Verdict::fail("pairs-read-panic", panic_msg(&e)),
    }
}

/// by path, file names: the three files of a dataset share the .shp's stem, whatever it contains
pub fn oracle_c08_path_names(stem_a: &str, stem_b: &str) -> Verdict {
    let base = std::env::var("VERIF_WORK").unwrap_or_else(|_| "/verif/work".into());
    let dir = std::path::PathBuf::from(base).join(format!("hn{}", std::process::id()));
    std::fs::create_dir_all(&dir).unwrap();
    let write = |stem: &str, n: usize| -> Result<(), String> {
        let table = dbase::TableWriterBuilder::new().add_numeric_field("idx".try_into().unwrap(), 10, 0).add_character_field("name".try_into().unwrap(), 10);
        let mut w = Writer::from_path(dir.join(format!("{}.shp", stem)), table).map_err(|e| show_err(&e))?;
        for q in 0..n {
            w.write_shape_and_record(&Point::new(q as f64, 0.5), &row_for(PairOp::Good, q)).map_err(|e| show_err(&e))?;
        }
        Ok(())
    };
    let check = |stem: &str, n: usize| -> Result<(), String> {
        for ext in ["shp", "shx", "dbf"] {
            let f = dir.join(format!("{}.{}", stem, ext));
            if !f.exists() {
                return Err(format!("{}.{} was not produced next to the .shp", stem, ext));
            }
        }
        let pairs = shapefile::read(dir.join(format!("{}.shp", stem))).map_err(|e| format!("{}: {}", stem, show_err(&e)))?;
        if pairs.len() != n {
            return Err(format!("{}.shp: {} pairs read, {} written", stem, pairs.len(), n));
        }
        for (i, (s, row)) in pairs.iter().enumerate() {
            let q = shape_q(s).ok_or("unexpected shape")?;
            match row.get("idx") {
                Some(dbase::FieldValue::Numeric(Some(v))) if *v as usize == i && q == i => {}
                other => return Err(format!("{}: pair {}: shape {} row {:?}", stem, i, q, other)),
            }
        }
        Ok(())
    };
    let r = catch_unwind(AssertUnwindSafe(|| -> Result<(), String> {
        write(stem_a, 2)?;
        write(stem_b, 4)?;
        check(stem_b, 4)?;
        check(stem_a, 2)?;
        Ok(())
    }));
    let _ = std::fs::remove_dir_all(&dir);
    match r {
        Ok(Ok(())) => Verdict::pass(),
        Ok(Err(e)) => Verdict::fail("pairs-path-names", e),
        Err(e) => Verdict::fail("pairs-path-panic", panic_msg(&e)),
    }
}

pub fn cases_dbf(tier: &str, rng: &mut Rng, stats: &mut Stats, out: &mut Out) {
    let max_len = if tier == "thorough" { 6 } else { 4 };
    let alphabet = [PairOp::Good, PairOp::WrongShape, PairOp::ShortRow, PairOp::WrongRow];
    for base in ["Point", "PointZ", "Polyline"] {
        for len in 0..=max_len {
            let total = 4usize.pow(len as u32);
            for idx in 0..total {
                if len > 4 && rng.below(4) != 0 {
                    continue;
                }
                let mut x = idx;
                let ops: Vec<PairOp> = (0..len)
                    .map(|_| {
                        let o = alphabet[x % 4];
                        x /= 4;
                        o
                    })
                    .collect();
                for o in &ops {
                    stats.hit(&format!("pairs.{}", o.tok()));
                }
                stats.hit(&format!("pairs.len.{}", len));
                let c = Case::DbfHist { base: base.to_string(), ops: ops.clone() };
                let (id, _res) = out.case(&c);
                out.verdict(&id, &crate::cases::show_case(&c), oracle_c08(base, &ops));
            }
        }
    }
    for n in [0usize, 1, 2, 5, 1100] {
        let id = out.oracle_only_id();
        out.verdict(&id, &format!("scenario path-pairs {}", n), oracle_c08_path(n));
    }
    {
        let id = out.oracle_only_id();
        out.verdict(&id, "scenario paged Point 1500 700", oracle_c08_paged("Point", 1500, 700));
    }
    for (n, k) in [(5usize, 2usize), (4, 1), (3, 3), (6, 0), (2, 1)] {
        for base in ["Point", "Polyline"] {
            let id = out.oracle_only_id();
            out.verdict(&id, &format!("scenario paged {} {} {}", base, n, k), oracle_c08_paged(base, n, k));
        }
    }
    for base in ["MultipointZ", "PolygonM", "PointZ", "Polyline", "PolylineNaN"] {
        for n in [1usize, 3, 6] {
            let id = out.oracle_only_id();
            out.verdict(&id, &format!("scenario pairs-roundtrip {} {}", base, n), oracle_c08_roundtrip(base, n));
        }
    }
    for (n, k) in [(5usize, 3usize), (4, 1)] {
        let id = out.oracle_only_id();
        out.verdict(&id, &format!("scenario reader-pairs-noshx Point {} {}", n, k), oracle_c15_pairs_noshx("Point", n, k));
    }
    for n in [10usize, 4] {
        let id = out.oracle_only_id();
        out.verdict(&id, &format!("scenario pairs-adaptors {}", n), oracle_pairs_adaptors(n));
    }
    for (a, b) in [("Survey", "survey"), ("parcels", "parcels.v2"), ("a.b.c", "a.b"), ("roads", "roads_2024.final"), ("x", "x.shp")] {
        let id = out.oracle_only_id();
        out.verdict(&id, &format!("scenario path-names {} {}", a, b), oracle_c08_path_names(a, b));
    }
}

/// the complete Reader driven by a history of seek / iterate operations (correspondence with the
/// Lean model `PReader`): the table holds `rows` rows, row `i` carries `idx = i`
pub fn v_prhist(shp: &[u8], shx: &[u8], rows: usize, ops: &[(String, usize)]) -> String {
    let dbf = LogDst::new();
    {
        let d2 = dbf.clone();
        let mut table = dbase::TableWriterBuilder::new()
            .add_numeric_field("idx".try_into().unwrap(), 10, 0)
            .add_character_field("name".try_into().unwrap(), 10)
            .build_with_dest(d2);
        for q in 0..rows {
            if table.write_record(&row_for(PairOp::Good, q)).is_err() {
                return "panic dbf".into();
            }
        }
    }
    let dbf = dbf.data();
    let cap = shp.len() + shx.len() + 8;
    let (shp, shx, ops) = (shp.to_vec(), shx.to_vec(), ops.to_vec());
    let r = catch_unwind(AssertUnwindSafe(move || {
        let sr = match ShapeReader::with_shx(Cursor::new(shp), Cursor::new(shx)) {
            Ok(r) => r,
            Err(e) => return format!("open err {}", show_err(&e)),
        };
        let dr = match dbase::Reader::new(Cursor::new(dbf)) {
            Ok(r) => r,
            Err(_) => return "open err dbase".into(),
        };
        let mut rdr = Reader::new(sr, dr);
        let mut outs: Vec<String> = vec![];
        for (op, k) in &ops {
            match op.as_str() {
                "it" => {
                    let limit = if *k == 99 { cap } else { *k };
                    let mut items = vec![];
                    for item in rdr.iter_shapes_and_records().take(limit) {
                        items.push(match item {
                            Ok((s, row)) => {
                                let idx = match row.get("idx") {
                                    Some(dbase::FieldValue::Numeric(Some(v))) => format!("{}", *v as usize),
                                    _ => "?".into(),
                                };
                                format!("ok {} row {}", crate::proto::show_sv(&s.to_sv()), idx)
                            }
                            Err(e) => format!("err {}", show_err(&e)),
                        });
                    }
                    outs.push(format!("it[{}]", items.join(" ; ")));
                }
                "seek" => outs.push(match rdr.seek(*k) {
                    Ok(()) => "unit".into(),
                    Err(e) => format!("err {}", show_err(&e)),
                }),
                _ => outs.push("bad-op".into()),
            }
        }
        format!("open ok ; {}", outs.join(" ; "))
    }));
    match r {
        Ok(s) => s,
        Err(e) => format!("panic {}", panic_msg(&e)),
    }
}

/// C10 through the BATCH entry point of the complete writer: a writer typed by `n_good` good pairs,
/// then `write_shapes_and_records` with `n_batch` pairs of another shape type — refused with the
/// mismatch, and the three files are those of the good pairs alone (no attribute row of the batch)
pub fn oracle_batch_rejected(base: &str, n_good: usize, n_batch: usize) -> Verdict {
    let good: Vec<PairOp> = (0..n_good).map(|_| PairOp::Good).collect();
    let want = match run_pairs(base, &good) {
        Ok(r) => r,
        Err(e) => return Verdict::fail("batch-rejected-panic", e),
    };
    let (shp, shx, dbf) = (LogDst::new(), LogDst::new(), LogDst::new());
    let (s2, x2, d2) = (shp.clone(), shx.clone(), dbf.clone());
    let b = base.to_string();
    let r = catch_unwind(AssertUnwindSafe(move || -> Result<(), String> {
        let table = dbase::TableWriterBuilder::new()
            .add_numeric_field("idx".try_into().unwrap(), 10, 0)
            .add_character_field("name".try_into().unwrap(), 10)
            .build_with_dest(d2);
        let mut w = Writer::new(ShapeWriter::with_shx(s2, x2), table);
        for q in 0..n_good {
            let shape = shape_for(&b, q);
            let row = row_for(PairOp::Good, q);
            crate::with_any!(&shape, s => w.write_shape_and_record(s, &row)).map_err(|e| format!("good pair {} refused: {}", q, show_err(&e)))?;
        }
        let others: Vec<Any> = (0..n_batch).map(|k| other_shape(&b, n_good + k)).collect();
        let rows: Vec<dbase::Record> = (0..n_batch).map(|k| row_for(PairOp::Good, n_good + k)).collect();
        let res = match &others[0] {
            Any::Point(_) => {
                let v: Vec<Point> = others.iter().map(|a| if let Any::Point(p) = a { p.clone() } else { unreachable!() }).collect();
                w.write_shapes_and_records(v.iter().zip(rows.iter()))
            }
            Any::Polyline(_) => {
                let v: Vec<Polyline> = others.iter().map(|a| if let Any::Polyline(p) = a { p.clone() } else { unreachable!() }).collect();
                w.write_shapes_and_records(v.iter().zip(rows.iter()))
            }
            _ => return Err("unexpected other shape".into()),
        };
        match res {
            Err(Error::MismatchShapeType { .. }) => Ok(()),
            Err(e) => Err(format!("the batch of another type failed with {} instead of the type mismatch", show_err(&e))),
            Ok(()) => Err("the batch of another type was accepted".into()),
        }
    }));
    match r {
        Err(e) => return Verdict::fail("batch-rejected-panic", panic_msg(&e)),
        Ok(Err(e)) => return Verdict::fail("batch-rejected", e),
        Ok(Ok(())) => {}
    }
    let got = PairRun { results: vec![], shp: shp.data(), shx: shx.data(), dbf: dbf.data() };
    if got.shp != want.shp || got.shx != want.shx {
        return Verdict::fail("batch-rejected", format!("{} good pairs then a refused batch of {}: .shp/.shx differ from the good pairs alone", n_good, n_batch));
    }
    if got.dbf != want.dbf {
        return Verdict::fail("batch-rejected", format!("{} good pairs then a refused batch of {}: the .dbf has {} bytes / {} rows, the good pairs alone give {} bytes / {} rows", n_good, n_batch, got.dbf.len(), counts(&got).2, want.dbf.len(), counts(&want).2));
    }
    Verdict::pass()
}

//! C08: shapes and attribute rows through the complete Writer / Reader (real dbase crate).
use crate::gen::*;
use crate::Out;

pub fn cases_dbf(_tier: &str, _rng: &mut Rng, _stats: &mut Stats, _out: &mut Out) {}

//! Executes protocol verbs against the real `shapefile` crate, in-process, every call under
//! `catch_unwind`, and prints results in the same canonical form as the Lean driver.
use crate::proto::*;
use crate::{with_any, with_type};
use shapefile::record::ReadableShape;
use shapefile::*;
use std::cell::RefCell;
use std::io::{self, Cursor, Read, Seek, SeekFrom, Write};
use std::panic::{catch_unwind, AssertUnwindSafe};
use std::rc::Rc;

// ------------------------------------------------------------------ instrumented destination
#[derive(Clone, Copy, Debug, PartialEq, Eq)]
pub enum Fault {
    None,
    WriteAfter(usize),
    SeekAt(usize),
    FlushAt(usize),
}

#[derive(Clone, Debug, PartialEq, Eq)]
pub enum Op {
    Write(Vec<u8>),
    SeekStart(u64),
    SeekEnd,
    SeekOther,
    Flush,
}

pub struct Inner {
    pub data: Vec<u8>,
    pub pos: usize,
    pub ops: Vec<Op>,
    pub fault: Fault,
    pub persistent: bool,
    /// max bytes accepted per `write` call (0 = unlimited)
    pub chunk: usize,
    pub faults_hit: usize,
}

#[derive(Clone)]
pub struct LogDst(pub Rc<RefCell<Inner>>);

impl LogDst {
    pub fn new() -> Self {
        LogDst(Rc::new(RefCell::new(Inner { data: vec![], pos: 0, ops: vec![], fault: Fault::None, persistent: false, chunk: 0, faults_hit: 0 })))
    }
    pub fn with_fault(fault: Fault, persistent: bool) -> Self {
        let d = Self::new();
        d.0.borrow_mut().fault = fault;
        d.0.borrow_mut().persistent = persistent;
        d
    }
    pub fn data(&self) -> Vec<u8> {
        self.0.borrow().data.clone()
    }
    pub fn ops(&self) -> Vec<Op> {
        self.0.borrow().ops.clone()
    }
}

fn injected() -> io::Error {
    io::Error::new(io::ErrorKind::Other, "injected fault")
}

impl Write for LogDst {
    fn write(&mut self, buf: &[u8]) -> io::Result<usize> {
        let mut g = self.0.borrow_mut();
        let mut n = buf.len();
        if g.chunk > 0 {
            n = n.min(g.chunk);
        }
        if let Fault::WriteAfter(left) = g.fault {
            if left == 0 && n > 0 {
                g.faults_hit += 1;
                if !g.persistent {
                    g.fault = Fault::None;
                }
                return Err(injected());
            }
            n = n.min(left);
            g.fault = Fault::WriteAfter(left - n);
        }
        let pos = g.pos;
        if g.data.len() < pos {
            g.data.resize(pos, 0);
        }
        let end = pos + n;
        if g.data.len() < end {
            g.data.resize(end, 0);
        }
        g.data[pos..end].copy_from_slice(&buf[..n]);
        g.pos = end;
        g.ops.push(Op::Write(buf[..n].to_vec()));
        Ok(n)
    }
    fn flush(&mut self) -> io::Result<()> {
        let mut g = self.0.borrow_mut();
        if let Fault::FlushAt(k) = g.fault {
            if k == 0 {
                g.faults_hit += 1;
                if !g.persistent {
                    g.fault = Fault::None;
                }
                return Err(injected());
            }
            g.fault = Fault::FlushAt(k - 1);
        }
        g.ops.push(Op::Flush);
        Ok(())
    }
}

impl Seek for LogDst {
    fn seek(&mut self, p: SeekFrom) -> io::Result<u64> {
        let mut g = self.0.borrow_mut();
        if let Fault::SeekAt(k) = g.fault {
            if k == 0 {
                g.faults_hit += 1;
                if !g.persistent {
                    g.fault = Fault::None;
                }
                return Err(injected());
            }
            g.fault = Fault::SeekAt(k - 1);
        }
        match p {
            SeekFrom::Start(n) => {
                g.pos = n as usize;
                g.ops.push(Op::SeekStart(n));
            }
            SeekFrom::End(0) => {
                g.pos = g.data.len();
                g.ops.push(Op::SeekEnd);
            }
            SeekFrom::End(d) => {
                g.pos = (g.data.len() as i64 + d).max(0) as usize;
                g.ops.push(Op::SeekOther);
            }
            SeekFrom::Current(d) => {
                g.pos = (g.pos as i64 + d).max(0) as usize;
                g.ops.push(Op::SeekOther);
            }
        }
        Ok(g.pos as u64)
    }
}

pub fn show_ops(ops: &[Op]) -> String {
    let mut out: Vec<String> = vec![];
    let mut pending: Option<usize> = None;
    for op in ops {
        match op {
            Op::Write(b) => pending = Some(pending.unwrap_or(0) + b.len()),
            other => {
                if let Some(n) = pending.take() {
                    out.push(format!("W{}", n));
                }
                out.push(match other {
                    Op::SeekStart(n) => format!("S{}", n),
                    Op::SeekEnd => "E".into(),
                    Op::SeekOther => "X".into(),
                    Op::Flush => "F".into(),
                    Op::Write(_) => unreachable!(),
                });
            }
        }
    }
    if let Some(n) = pending {
        out.push(format!("W{}", n));
    }
    if out.is_empty() {
        "-".into()
    } else {
        out.join(",")
    }
}

// ------------------------------------------------------------------ instrumented source
/// a `Read + Seek` source over bytes with optional short reads and a fault at the k-th call
pub struct Src {
    pub data: Vec<u8>,
    pub pos: u64,
    pub chunk: usize,
    /// fail at the k-th read-or-seek call (counted from 0)
    pub fail_at: Option<usize>,
    pub calls: usize,
    pub failed: bool,
    /// the kind of the injected error
    pub fail_kind: io::ErrorKind,
}
impl Src {
    pub fn new(data: Vec<u8>) -> Self {
        Src { data, pos: 0, chunk: 0, fail_at: None, calls: 0, failed: false, fail_kind: io::ErrorKind::Other }
    }
    fn tick(&mut self) -> io::Result<()> {
        let k = self.calls;
        self.calls += 1;
        if self.fail_at == Some(k) {
            self.failed = true;
            return Err(io::Error::new(self.fail_kind, "injected fault"));
        }
        Ok(())
    }
}
impl Read for Src {
    fn read(&mut self, buf: &mut [u8]) -> io::Result<usize> {
        self.tick()?;
        let start = (self.pos as usize).min(self.data.len());
        let mut n = buf.len().min(self.data.len() - start);
        if self.chunk > 0 {
            n = n.min(self.chunk);
        }
        buf[..n].copy_from_slice(&self.data[start..start + n]);
        self.pos += n as u64;
        Ok(n)
    }
}
impl Seek for Src {
    fn seek(&mut self, p: SeekFrom) -> io::Result<u64> {
        self.tick()?;
        let np: i128 = match p {
            SeekFrom::Start(n) => n as i128,
            SeekFrom::End(d) => self.data.len() as i128 + d as i128,
            SeekFrom::Current(d) => self.pos as i128 + d as i128,
        };
        if np < 0 {
            return Err(io::Error::new(io::ErrorKind::InvalidInput, "negative seek"));
        }
        self.pos = np as u64;
        Ok(self.pos)
    }
}

// ------------------------------------------------------------------ verbs
pub fn guarded<F: FnOnce() -> String>(f: F) -> String {
    match catch_unwind(AssertUnwindSafe(f)) {
        Ok(s) => s,
        Err(e) => format!("panic {}", panic_msg(&e).replace('\n', " ")),
    }
}

pub fn v_construct(c: &Ctor) -> String {
    match build(c) {
        Ok(a) => show_sv(&sv_of_any(&a)),
        Err(_) => "panic".into(),
    }
}

pub fn content_bytes(a: &Any) -> Vec<u8> {
    use shapefile::record::WritableShape;
    let mut buf = Cursor::new(Vec::new());
    with_any!(a, s => s.write_to(&mut buf).unwrap());
    buf.into_inner()
}

pub fn size_in_bytes(a: &Any) -> usize {
    use shapefile::record::WritableShape;
    with_any!(a, s => s.size_in_bytes())
}

thread_local! {
    /// 0: plain write..drop.  k != 0: the same shapes through a history derived from k, with finalize
    /// calls and (rejected) writes of another shape type interleaved
    static ROUTE: std::cell::Cell<u64> = std::cell::Cell::new(0);
}

/// run `f` with every `write_files` call inside it routed through history `k`
pub fn with_route<R>(k: u64, f: impl FnOnce() -> R) -> R {
    ROUTE.with(|r| r.set(k));
    let out = f();
    ROUTE.with(|r| r.set(0));
    out
}

fn write_files_routed(with_shx: bool, shapes: &[Any], k: u64) -> (Vec<u8>, Vec<u8>) {
    let shp = LogDst::new();
    let shx = LogDst::new();
    let mut rng = crate::gen::Rng(k);
    {
        let mut w = if with_shx { ShapeWriter::with_shx(shp.clone(), shx.clone()) } else { ShapeWriter::new(shp.clone()) };
        for (i, a) in shapes.iter().enumerate() {
            if rng.chance(1, 3) {
                w.finalize().unwrap();
            }
            if i > 0 && rng.chance(1, 3) {
                // a write of another shape type: must be rejected and leave no trace
                let r = match a {
                    Any::Point(_) => w.write_shape(&Polyline::new(vec![Point::new(1.0, 2.0), Point::new(3.0, 4.0)])),
                    _ => w.write_shape(&Point::new(1.0, 2.0)),
                };
                assert!(r.is_err(), "a write of another shape type was accepted");
                if rng.chance(1, 2) {
                    w.finalize().unwrap();
                }
            }
            with_any!(a, s => w.write_shape(s).unwrap());
        }
        if rng.chance(1, 2) {
            w.finalize().unwrap();
        }
    }
    (shp.data(), shx.data())
}

/// write shapes with the real writer into in-memory destinations and drop it
pub fn write_files(with_shx: bool, shapes: &[Any]) -> (Vec<u8>, Vec<u8>) {
    let k = ROUTE.with(|r| r.get());
    if k != 0 {
        return write_files_routed(with_shx, shapes, k);
    }
    let shp = LogDst::new();
    let shx = LogDst::new();
    {
        let mut w = if with_shx { ShapeWriter::with_shx(shp.clone(), shx.clone()) } else { ShapeWriter::new(shp.clone()) };
        for a in shapes {
            with_any!(a, s => w.write_shape(s).unwrap());
        }
    }
    (shp.data(), shx.data())
}

pub fn v_size(c: &Ctor) -> String {
    match build(c) {
        Err(_) => "panic".into(),
        Ok(a) => {
            let announced = size_in_bytes(&a);
            let emitted = content_bytes(&a).len();
            // the record header's content length as the real writer stores it
            let (shp, _) = write_files(false, std::slice::from_ref(&a));
            let words = i32::from_be_bytes([shp[104], shp[105], shp[106], shp[107]]);
            format!("{} {} {}", announced, emitted, words)
        }
    }
}

pub fn v_write(with_shx: bool, ctors: &[Ctor]) -> String {
    let mut shapes = vec![];
    for c in ctors {
        match build(c) {
            Ok(a) => shapes.push(a),
            Err(_) => return "panic".into(),
        }
    }
    guarded(|| {
        let (shp, shx) = write_files(with_shx, &shapes);
        format!("{} {}", hex(&shp), hex(&shx))
    })
}

#[derive(Clone, Debug)]
pub enum WOp {
    Write(Ctor),
    Finalize,
}

pub fn show_wops(ops: &[WOp]) -> String {
    let mut s = format!("{}", ops.len());
    for op in ops {
        match op {
            WOp::Write(c) => s += &format!(" w {}", show_ctor(c)),
            WOp::Finalize => s += " f",
        }
    }
    s
}

fn show_res(r: Result<(), Error>) -> String {
    match r {
        Ok(()) => "ok".into(),
        Err(e) => format!("err {}", show_err(&e)),
    }
}

pub struct HistOut {
    pub results: Vec<String>,
    pub shp: LogDst,
    pub shx: LogDst,
    pub panicked: Option<String>,
}

/// run a writer history on (possibly faulty) destinations; `ending`: drop | fdrop
pub fn run_whist(with_shx: bool, ending: &str, ops: &[WOp], shp: LogDst, shx: LogDst) -> HistOut {
    let mut built = vec![];
    for op in ops {
        match op {
            WOp::Write(c) => match build(c) {
                Ok(a) => built.push(Some(a)),
                Err(e) => return HistOut { results: vec![], shp, shx, panicked: Some(format!("ctor {}", e)) },
            },
            WOp::Finalize => built.push(None),
        }
    }
    let shp2 = shp.clone();
    let shx2 = shx.clone();
    let r = catch_unwind(AssertUnwindSafe(move || {
        let mut results = vec![];
        let mut w = if with_shx { ShapeWriter::with_shx(shp2, shx2) } else { ShapeWriter::new(shp2) };
        for b in &built {
            let r = match b {
                Some(a) => with_any!(a, s => w.write_shape(s)),
                None => w.finalize(),
            };
            results.push(show_res(r));
        }
        if ending == "fdrop" {
            let _ = w.finalize();
        }
        drop(w);
        results
    }));
    match r {
        Ok(results) => HistOut { results, shp, shx, panicked: None },
        Err(e) => HistOut { results: vec![], shp, shx, panicked: Some(panic_msg(&e)) },
    }
}

pub fn v_whist(with_shx: bool, ending: &str, ops: &[WOp]) -> String {
    let h = run_whist(with_shx, ending, ops, LogDst::new(), LogDst::new());
    if let Some(p) = h.panicked {
        return if p.starts_with("ctor ") { "panic".into() } else { format!("panic {}", p) };
    }
    format!("{} | {} {} | {} {}", h.results.join(" ; "), hex(&h.shp.data()), hex(&h.shx.data()), show_ops(&h.shp.ops()), show_ops(&h.shx.ops()))
}

pub fn v_wfault(with_shx: bool, dest: &str, fault: Fault, persistent: bool, ops: &[WOp]) -> String {
    let shp = if dest == "shp" { LogDst::with_fault(fault, persistent) } else { LogDst::new() };
    let shx = if dest == "shx" { LogDst::with_fault(fault, persistent) } else { LogDst::new() };
    let h = run_whist(with_shx, "drop", ops, shp, shx);
    if let Some(p) = h.panicked {
        return if p.starts_with("ctor ") { "panic".into() } else { format!("panic {}", p) };
    }
    format!("{} | {} {}", h.results.join(" ; "), hex(&h.shp.data()), hex(&h.shx.data()))
}

pub const ITEM_CAP_SLACK: usize = 4;

fn show_item<S: ToSV>(r: &Result<S, Error>) -> String {
    match r {
        Ok(s) => format!("ok {}", show_sv(&s.to_sv())),
        Err(e) => format!("err {}", show_err(e)),
    }
}

/// open + iterate everything; items capped (a longer iteration is reported as `runaway`)
pub fn read_all_as<S: ReadableShape + ToSV, T: Read + Seek>(shp: T, shx: Option<T>, cap: usize) -> String {
    guarded(move || {
        let rdr = match shx {
            Some(x) => ShapeReader::with_shx(shp, x),
            None => ShapeReader::new(shp),
        };
        let mut rdr = match rdr {
            Ok(r) => r,
            Err(e) => return format!("open err {}", show_err(&e)),
        };
        let mut out = String::from("open ok");
        let mut n = 0usize;
        for item in rdr.iter_shapes_as::<S>() {
            n += 1;
            if n > cap {
                out += " ; runaway";
                break;
            }
            out += " ; ";
            out += &show_item(&item);
        }
        out
    })
}

pub fn item_cap(shp_len: usize, shx_len: usize) -> usize {
    shp_len / 12 + shx_len / 8 + ITEM_CAP_SLACK
}

pub fn v_read(target: &str, shp: &[u8], shx: Option<&[u8]>) -> String {
    let cap = item_cap(shp.len(), shx.map(|x| x.len()).unwrap_or(0));
    let s = Cursor::new(shp.to_vec());
    let x = shx.map(|x| Cursor::new(x.to_vec()));
    with_type!(target, T => read_all_as::<T, _>(s, x, cap), else read_all_as::<Shape, _>(s, x, cap))
}

pub fn v_readflat(target: &str, shp: &[u8], shx: Option<&[u8]>) -> String {
    let _ = target;
    let cap = item_cap(shp.len(), shx.map(|x| x.len()).unwrap_or(0));
    let s = Cursor::new(shp.to_vec());
    let x = shx.map(|x| Cursor::new(x.to_vec()));
    guarded(move || {
        let rdr = match x {
            Some(x) => ShapeReader::with_shx(s, x),
            None => ShapeReader::new(s),
        };
        let mut rdr = match rdr {
            Ok(r) => r,
            Err(e) => return format!("open err {}", show_err(&e)),
        };
        let mut out = String::from("open ok");
        let mut n = 0usize;
        for item in rdr.iter_shapes() {
            n += 1;
            if n > cap {
                out += " ; runaway";
                break;
            }
            out += " ; ";
            out += &match item {
                Ok(s) => format!("ok {}", crate::oracles::flat_sv(&s.to_sv())),
                Err(e) => format!("err {}", show_err(&e)),
            };
        }
        out
    })
}

#[derive(Clone, Copy, Debug, PartialEq, Eq, Hash)]
pub enum ROp {
    It(usize), // pull k items from a fresh iterator (99 = until it ends)
    Nth(usize),
    Seek(usize),
    Count,
    Hint,
}
pub fn show_rops(ops: &[ROp]) -> String {
    let mut s = format!("{}", ops.len());
    for op in ops {
        s += &match op {
            ROp::It(k) => format!(" it {}", k),
            ROp::Nth(i) => format!(" nth {}", i),
            ROp::Seek(k) => format!(" seek {}", k),
            ROp::Count => " count 0".to_string(),
            ROp::Hint => " hint 0".to_string(),
        };
    }
    s
}

pub fn rhist_as<S: ReadableShape + ToSV, T: Read + Seek>(shp: T, shx: Option<T>, ops: &[ROp], cap: usize) -> String {
    guarded(move || {
        let rdr = match shx {
            Some(x) => ShapeReader::with_shx(shp, x),
            None => ShapeReader::new(shp),
        };
        let mut rdr = match rdr {
            Ok(r) => r,
            Err(e) => return format!("open err {}", show_err(&e)),
        };
        let mut outs: Vec<String> = vec![];
        for op in ops {
            match op {
                ROp::It(k) => {
                    let mut items = vec![];
                    let mut it = rdr.iter_shapes_as::<S>();
                    let limit = if *k == 99 { cap } else { *k };
                    let mut pulled = 0;
                    while pulled < limit {
                        match it.next() {
                            None => break,
                            Some(item) => items.push(show_item(&item)),
                        }
                        pulled += 1;
                    }
                    if *k == 99 && pulled == cap && it.next().is_some() {
                        items.push("runaway".into());
                    }
                    outs.push(format!("it[{}]", items.join(" ; ")));
                }
                ROp::Nth(i) => outs.push(match rdr.read_nth_shape_as::<S>(*i) {
                    None => "none".into(),
                    Some(r) => show_item(&r),
                }),
                ROp::Seek(k) => outs.push(match rdr.seek(*k) {
                    Ok(()) => "unit".into(),
                    Err(e) => format!("err {}", show_err(&e)),
                }),
                ROp::Count => outs.push(match rdr.shape_count() {
                    Ok(n) => format!("count {}", n),
                    Err(e) => format!("err {}", show_err(&e)),
                }),
                ROp::Hint => {
                    let it = rdr.iter_shapes_as::<S>();
                    outs.push(match it.size_hint() {
                        (lo, Some(hi)) if lo == hi => format!("hint {}", lo),
                        (0, None) => "hint none".into(),
                        (lo, hi) => format!("hint-bad {} {:?}", lo, hi),
                    });
                }
            }
        }
        format!("open ok ; {}", outs.join(" ; "))
    })
}

pub fn v_rhist(target: &str, shp: &[u8], shx: Option<&[u8]>, ops: &[ROp]) -> String {
    let cap = item_cap(shp.len(), shx.map(|x| x.len()).unwrap_or(0));
    let s = Cursor::new(shp.to_vec());
    let x = shx.map(|x| Cursor::new(x.to_vec()));
    with_type!(target, T => rhist_as::<T, _>(s, x, ops, cap), else rhist_as::<Shape, _>(s, x, ops, cap))
}

pub fn v_code(c: i32) -> String {
    match ShapeType::from(c) {
        Some(t) => format!("some {} {} {} {} {}", t, t as i32, t.has_z(), t.has_m(), t.is_multipart()),
        None => "none".into(),
    }
}

pub fn v_ring(d: Dim, r: Role, ps: &[P]) -> String {
    // a one-ring polygon built with `with_rings` applies close_and_reorder exactly once
    let c = Ctor::PolygonRings(d, vec![(r, ps.to_vec())]);
    match build(&c) {
        Err(_) => "panic".into(),
        Ok(a) => match sv_of_any(&a) {
            SV::Polygon(d, _, rings) => {
                let mut s = format!("{} ", rings[0].0.name());
                show_pts(d, &rings[0].1, &mut s);
                s
            }
            _ => "bad".into(),
        },
    }
}

//! Scenarios added after the sixth round of seeded changes: the by-path entry points, the bulk
//! calls and iterator adaptors on used readers, destinations that accept few bytes per write.
use crate::exec::*;
use crate::oracles::*;
use crate::proto::*;
use crate::round4::relay;
use shapefile::record::WritableShape;
use shapefile::*;
use std::io::{Cursor, Write};
use std::panic::{catch_unwind, AssertUnwindSafe};

fn wrap(tag: &str, r: std::thread::Result<Result<(), String>>) -> Verdict {
    match r {
        Ok(Ok(())) => Verdict::pass(),
        Ok(Err(e)) => Verdict::fail(tag, e),
        Err(e) => Verdict::fail(&format!("{}-panic", tag), panic_msg(&e)),
    }
}
fn pts(n: usize) -> Vec<Any> {
    (0..n).map(|q| Any::Point(Point::new(q as f64, (q % 7) as f64))).collect()
}
fn xs_of<I: Iterator<Item = Result<Point, Error>>>(it: I, cap: usize) -> Vec<String> {
    it.take(cap).map(|r| r.map(|p| format!("{}", p.x)).unwrap_or_else(|e| format!("err {}", show_err(&e)))).collect()
}
fn xs_shapes(v: Result<Vec<Shape>, Error>) -> Vec<String> {
    match v {
        Err(e) => vec![format!("err {}", show_err(&e))],
        Ok(v) => v.iter().map(|s| match s {
            Shape::Point(p) => format!("{}", p.x),
            other => format!("{}", other.shapetype()),
        }).collect(),
    }
}

/// C14 / C06: the by-path one-liners follow the index exactly like a reader opened by path: records
/// stored in another physical order with fillers, and a record the index does not list (dead space)
pub fn oracle_path_foreign_layout() -> Verdict {
    let dir = scratch_dir();
    let path = dir.join("foreign.shp");
    let r = catch_unwind(AssertUnwindSafe(|| -> Result<(), String> {
        let n = 6usize;
        let (shp, _) = write_files(true, &pts(n));
        for variant in ["permuted+fillers", "dead-space"] {
            let (f, x, want): (Vec<u8>, Vec<u8>, Vec<String>) = if variant == "permuted+fillers" {
                let order = [3usize, 0, 5, 1, 4, 2];
                let (f, x) = relay(&shp, &|i| [0usize, 6, 2, 40, 0, 18][i % 6], &order);
                (f, x, (0..n).map(|q| format!("{}", q)).collect())
            } else {
                // the index lists records 0, 2, 3, 5 only
                let keep = [0usize, 2, 3, 5];
                let mut x = shp[..100].to_vec();
                x[24..28].copy_from_slice(&((100 + 8 * keep.len()) as i32 / 2).to_be_bytes());
                for k in keep {
                    x.extend_from_slice(&(((100 + 28 * k) / 2) as i32).to_be_bytes());
                    x.extend_from_slice(&10i32.to_be_bytes());
                }
                (shp.clone(), x, keep.iter().map(|q| format!("{}", q)).collect())
            };
            std::fs::write(&path, &f).map_err(|e| e.to_string())?;
            std::fs::write(path.with_extension("shx"), &x).map_err(|e| e.to_string())?;
            let routes: Vec<(&str, Vec<String>)> = vec![
                ("read_shapes", xs_shapes(shapefile::read_shapes(&path))),
                ("read_shapes_as::<Point>", match shapefile::read_shapes_as::<_, Point>(&path) {
                    Ok(v) => v.iter().map(|p| format!("{}", p.x)).collect(),
                    Err(e) => vec![format!("err {}", show_err(&e))],
                }),
                ("ShapeReader::from_path(..).read()", xs_shapes(ShapeReader::from_path(&path).and_then(|r| r.read()))),
                ("ShapeReader::from_path(..).iter_shapes_as", match ShapeReader::from_path(&path) {
                    Ok(mut r) => xs_of(r.iter_shapes_as::<Point>(), n + 3),
                    Err(e) => vec![format!("err {}", show_err(&e))],
                }),
                ("in memory with the index", match ShapeReader::with_shx(Cursor::new(f.clone()), Cursor::new(x.clone())) {
                    Ok(mut r) => xs_of(r.iter_shapes_as::<Point>(), n + 3),
                    Err(e) => vec![format!("err {}", show_err(&e))],
                }),
            ];
            for (name, got) in routes {
                if got != want {
                    return Err(format!("{} file with its .shx next to it: {} yields x = {:?}, the index lists {:?}", variant, name, got, want));
                }
            }
        }
        Ok(())
    }));
    let _ = std::fs::remove_file(&path);
    let _ = std::fs::remove_file(path.with_extension("shx"));
    wrap("path-foreign-layout", r)
}

/// C03: bytes past the declared file length are ignored — also by path, without an index
pub fn oracle_path_trailing() -> Verdict {
    let dir = scratch_dir();
    let path = dir.join("trailing.shp");
    let r = catch_unwind(AssertUnwindSafe(|| -> Result<(), String> {
        let (shp, _) = write_files(false, &pts(3));
        for junk in ["stale-record", "zeros", "odd-bytes"] {
            // declare two records; the third (or filler) lies beyond the declared length
            let mut f = shp.clone();
            let declared = ((100 + 2 * 28) / 2) as i32;
            f[24..28].copy_from_slice(&declared.to_be_bytes());
            match junk {
                "zeros" => {
                    f.truncate(156);
                    f.extend_from_slice(&[0u8; 40]);
                }
                "odd-bytes" => {
                    f.truncate(156);
                    f.extend_from_slice(&[7u8; 13]);
                }
                _ => {}
            }
            std::fs::write(&path, &f).map_err(|e| e.to_string())?;
            let want = vec!["0".to_string(), "1".to_string()];
            let mem = xs_shapes(ShapeReader::new(Cursor::new(f.clone())).and_then(|r| r.read()));
            let by_path = xs_shapes(shapefile::read_shapes(&path));
            let by_reader = match ShapeReader::from_path(&path) {
                Ok(mut r) => xs_of(r.iter_shapes_as::<Point>(), 9),
                Err(e) => vec![format!("err {}", show_err(&e))],
            };
            for (name, got) in [("in memory", mem), ("read_shapes(path)", by_path), ("ShapeReader::from_path", by_reader)] {
                if got != want {
                    return Err(format!("a .shp declaring 2 records followed by {} (no .shx): {} yields {:?}, expected {:?}", junk, name, got, want));
                }
            }
        }
        Ok(())
    }));
    let _ = std::fs::remove_file(&path);
    wrap("spec-trailing-bytes-by-path", r)
}

/// C04: a pair created by path is found again by the same path, whatever the case of its extension
pub fn oracle_path_uppercase() -> Verdict {
    let dir = scratch_dir();
    let mut failures = vec![];
    for name in ["PARCELS.SHP", "Roads.Shp", "plain.shp"] {
        let path = dir.join(name);
        let r = catch_unwind(AssertUnwindSafe(|| -> Result<(), String> {
            {
                let mut w = ShapeWriter::from_path(&path).map_err(|e| show_err(&e))?;
                for q in 0..4 {
                    w.write_shape(&Point::new(q as f64, 1.0)).map_err(|e| show_err(&e))?;
                }
            }
            let mut rdr = ShapeReader::from_path(&path).map_err(|e| show_err(&e))?;
            match rdr.shape_count() {
                Ok(4) => {}
                other => return Err(format!("{}: 4 shapes written with ShapeWriter::from_path, ShapeReader::from_path on the same path reports shape_count() = {:?}", name, other.map_err(|e| show_err(&e)))),
            }
            match rdr.read_nth_shape_as::<Point>(3) {
                Some(Ok(p)) if p.x == 3.0 => Ok(()),
                other => Err(format!("{}: read_nth_shape(3) gave {:?}", name, other.map(|r| r.map(|p| p.x).map_err(|e| show_err(&e))))),
            }
        }));
        // whatever the writer called its companion files
        if let Ok(rd) = std::fs::read_dir(&dir) {
            let stem = path.file_stem().map(|s| s.to_string_lossy().to_lowercase()).unwrap_or_default();
            for e in rd.flatten() {
                if e.path().file_stem().map(|s| s.to_string_lossy().to_lowercase()) == Some(stem.clone()) {
                    let _ = std::fs::remove_file(e.path());
                }
            }
        }
        match r {
            Ok(Ok(())) => {}
            Ok(Err(e)) => failures.push(e),
            Err(e) => failures.push(panic_msg(&e)),
        }
    }
    if failures.is_empty() {
        Verdict::pass()
    } else {
        Verdict::fail("index-by-path", failures.join("; "))
    }
}

/// C13: a truncated .shp opened BY PATH behaves like the same bytes in memory: the complete records,
/// then an I/O error
pub fn oracle_path_truncated() -> Verdict {
    let dir = scratch_dir();
    let path = dir.join("cut.shp");
    let r = catch_unwind(AssertUnwindSafe(|| -> Result<(), String> {
        let n = 5usize;
        let (shp, shx) = write_files(true, &pts(n));
        for cut in [100usize, 101, 127, 128, 129, 150, 156, shp.len() - 1] {
            let whole = (cut - 100) / 28;
            for with in [true, false] {
                std::fs::write(&path, &shp[..cut]).map_err(|e| e.to_string())?;
                if with {
                    std::fs::write(path.with_extension("shx"), &shx).map_err(|e| e.to_string())?;
                } else {
                    let _ = std::fs::remove_file(path.with_extension("shx"));
                }
                let got = match ShapeReader::from_path(&path) {
                    Err(e) => vec![format!("open err {}", show_err(&e))],
                    Ok(mut r) => xs_of(r.iter_shapes_as::<Point>(), n + 3),
                };
                let oks: Vec<String> = got.iter().take_while(|s| !s.contains("err")).cloned().collect();
                let want: Vec<String> = (0..whole).map(|q| format!("{}", q)).collect();
                if oks != want || got.get(whole).map(|s| s.as_str()) != Some("err io") {
                    return Err(format!(".shp of {} bytes cut at byte {} and opened by path (index: {}): {:?}; expected the {} complete record(s) and then an I/O error", shp.len(), cut, with, got, whole));
                }
            }
        }
        Ok(())
    }));
    let _ = std::fs::remove_file(&path);
    let _ = std::fs::remove_file(path.with_extension("shx"));
    wrap("truncate-by-path", r)
}

/// C02: a destination that accepts at most `chunk` bytes per `write` call receives the same files
pub fn oracle_chunked_destination(chunk: usize) -> Verdict {
    wrap("wellformed-short-writes", catch_unwind(AssertUnwindSafe(|| -> Result<(), String> {
        let long: Vec<Point> = (0..700).map(|i| Point::new(i as f64, (i % 13) as f64)).collect();
        let longz: Vec<PointZ> = (0..600).map(|i| PointZ::new(i as f64, 1.0, (i % 5) as f64, i as f64)).collect();
        let sets: Vec<Vec<Any>> = vec![
            vec![Any::Polyline(Polyline::new(long.clone())), Any::Polyline(Polyline::new(long[..3].to_vec()))],
            vec![Any::PolylineZ(PolylineZ::new(longz.clone()))],
            vec![Any::MultipointZ(MultipointZ::new(longz)), Any::MultipointZ(MultipointZ::new(vec![PointZ::new(1.0, 2.0, 3.0, 4.0)]))],
            pts(3),
        ];
        for shapes in sets {
            let (eshp, eshx) = write_files(true, &shapes);
            let (shp, shx) = (LogDst::new(), LogDst::new());
            shp.0.borrow_mut().chunk = chunk;
            shx.0.borrow_mut().chunk = chunk;
            {
                let mut w = ShapeWriter::with_shx(shp.clone(), shx.clone());
                for a in &shapes {
                    crate::with_any!(a, s => w.write_shape(s).map_err(|e| show_err(&e))?);
                }
            }
            if shp.data() != eshp {
                let hdr = if shp.data().len() >= 28 { be32(&shp.data(), 24) as i64 * 2 } else { -1 };
                return Err(format!("destination accepting {} bytes per write call: the .shp has {} bytes (its header says {}), the same shapes written to an ordinary destination give {} bytes", chunk, shp.data().len(), hdr, eshp.len()));
            }
            if shx.data() != eshx {
                return Err(format!("destination accepting {} bytes per write call: the .shx differs", chunk));
            }
        }
        Ok(())
    })))
}

/// C18: shapes that were READ (from records with and without their optional M block) announce what
/// they emit
pub fn oracle_size_of_read_shapes(shp: &[u8]) -> Verdict {
    wrap("size-of-read-shape", catch_unwind(AssertUnwindSafe(|| -> Result<(), String> {
        let shapes = ShapeReader::new(Cursor::new(shp.to_vec())).and_then(|r| r.read()).map_err(|e| show_err(&e))?;
        for s in shapes {
            let (announced, emitted, name) = crate::round6::sizes_of(&s)?;
            if announced != emitted {
                return Err(format!("a {} read from a {}-byte record: size_in_bytes() = {} but write_to() emitted {} bytes", name, be32(shp, 104) * 2, announced, emitted));
            }
        }
        Ok(())
    })))
}
pub fn sizes_of(s: &Shape) -> Result<(usize, usize, String), String> {
    macro_rules! go {
        ($x:expr) => {{
            let mut out: Vec<u8> = vec![];
            $x.write_to(&mut out).map_err(|e| show_err(&e))?;
            out.flush().ok();
            Ok(($x.size_in_bytes(), out.len(), format!("{}", s.shapetype())))
        }};
    }
    match s {
        Shape::NullShape => Ok((0, 0, "NullShape".into())),
        Shape::Point(x) => go!(x),
        Shape::PointM(x) => go!(x),
        Shape::PointZ(x) => go!(x),
        Shape::Polyline(x) => go!(x),
        Shape::PolylineM(x) => go!(x),
        Shape::PolylineZ(x) => go!(x),
        Shape::Polygon(x) => go!(x),
        Shape::PolygonM(x) => go!(x),
        Shape::PolygonZ(x) => go!(x),
        Shape::Multipoint(x) => go!(x),
        Shape::MultipointM(x) => go!(x),
        Shape::MultipointZ(x) => go!(x),
        Shape::Multipatch(x) => go!(x),
    }
}

//! Scenarios added after the fourth round of seeded changes (oracle-only, replayable as
//! `scenario <name> <args>`).
use crate::exec::*;
use crate::oracles::*;
use crate::proto::*;
use shapefile::record::WritableShape;
use shapefile::*;
use std::io::{Cursor, Read, Seek, SeekFrom, Write};
use std::panic::{catch_unwind, AssertUnwindSafe};

fn wrap(tag: &str, r: std::thread::Result<Result<(), String>>) -> Verdict {
    match r {
        Ok(Ok(())) => Verdict::pass(),
        Ok(Err(e)) => Verdict::fail(tag, e),
        Err(e) => Verdict::fail(&format!("{}-panic", tag), panic_msg(&e)),
    }
}

fn pts(n: usize) -> Vec<Any> {
    (0..n).map(|q| Any::Point(Point::new(q as f64, (q % 7) as f64))).collect()
}

/// C02: a writer dropped while its thread unwinds from a panic is still a dropped writer
pub fn oracle_panic_drop(n: usize) -> Verdict {
    let shapes = pts(n);
    let (eshp, eshx) = write_files(true, &shapes);
    let (shp, shx) = (LogDst::new(), LogDst::new());
    let (s2, x2) = (shp.clone(), shx.clone());
    let r = catch_unwind(AssertUnwindSafe(move || {
        let mut w = ShapeWriter::with_shx(s2, x2);
        for q in 0..n {
            w.write_shape(&Point::new(q as f64, (q % 7) as f64)).unwrap();
        }
        if n < usize::MAX {
            panic!("export job failed");
        }
        drop(w);
    }));
    if r.is_ok() {
        return Verdict::fail("panic-drop-harness", "the job did not panic".into());
    }
    if shp.data() != eshp {
        return Verdict::fail("wellformed-after-unwinding-drop", format!("{} points written, writer dropped during unwinding: the .shp ({} bytes, header length field {} words) is not the file of a normal drop ({} bytes)", n, shp.data().len(), if shp.data().len() >= 28 { be32(&shp.data(), 24) } else { -1 }, eshp.len()));
    }
    if shx.data() != eshx {
        return Verdict::fail("wellformed-after-unwinding-drop", "the .shx is not the index of a normal drop".into());
    }
    Verdict::pass()
}

/// C04: destinations that already hold a longer dataset (rewound buffers reused for a smaller export)
pub fn oracle_reused_destinations(n_old: usize, n_new: usize) -> Verdict {
    wrap("reused-destinations", catch_unwind(AssertUnwindSafe(|| -> Result<(), String> {
        let (shp, shx) = (LogDst::new(), LogDst::new());
        {
            let mut w = ShapeWriter::with_shx(shp.clone(), shx.clone());
            for q in 0..n_old {
                w.write_shape(&Point::new(100.0 + q as f64, 1.0)).map_err(|e| show_err(&e))?;
            }
        }
        let (mut s2, mut x2) = (shp.clone(), shx.clone());
        s2.seek(SeekFrom::Start(0)).unwrap();
        x2.seek(SeekFrom::Start(0)).unwrap();
        {
            let mut w = ShapeWriter::with_shx(s2, x2);
            for q in 0..n_new {
                w.write_shape(&Point::new(q as f64, 2.0)).map_err(|e| show_err(&e))?;
            }
        }
        let (sd, xd) = (shp.data(), shx.data());
        let xl = be32(&xd, 24);
        if xl as usize != 50 + 4 * n_new {
            return Err(format!("{} shapes written over an older dataset of {}: .shx header length {} words, expected {}", n_new, n_old, xl, 50 + 4 * n_new));
        }
        let mut rdr = ShapeReader::with_shx(Cursor::new(sd.clone()), Cursor::new(xd)).map_err(|e| show_err(&e))?;
        let c = rdr.shape_count().map_err(|e| show_err(&e))?;
        if c != n_new {
            return Err(format!("shape_count() = {}, {} shapes were written", c, n_new));
        }
        if rdr.read_nth_shape_as::<Point>(n_new).is_some() {
            return Err(format!("read_nth_shape({}) returned something, {} shapes were written", n_new, n_new));
        }
        let got: Vec<f64> = rdr.iter_shapes_as::<Point>().map(|r| r.map(|p| p.x).unwrap_or(-1.0)).collect();
        let want: Vec<f64> = (0..n_new).map(|q| q as f64).collect();
        if got != want {
            return Err(format!("iteration with the index yields x = {:?}", got));
        }
        let mut plain = ShapeReader::new(Cursor::new(sd)).map_err(|e| show_err(&e))?;
        let got2: Vec<f64> = plain.iter_shapes_as::<Point>().map(|r| r.map(|p| p.x).unwrap_or(-1.0)).collect();
        if got2 != want {
            return Err(format!("iteration without the index yields x = {:?}", got2));
        }
        Ok(())
    })))
}

/// C06: the bulk typed read and the bulk generic read (then converted) agree on a reader that has
/// been used before (positioned by seek, partially iterated)
pub fn oracle_read_vs_readas() -> Verdict {
    wrap("typed-vs-generic-bulk", catch_unwind(AssertUnwindSafe(|| -> Result<(), String> {
        let (shp, shx) = write_files(true, &pts(5));
        for pre in ["fresh", "seek3", "iter1", "nth2", "seek0"] {
            let mk = |with: bool| -> Result<ShapeReader<Cursor<Vec<u8>>>, String> {
                let mut r = if with { ShapeReader::with_shx(Cursor::new(shp.clone()), Cursor::new(shx.clone())) } else { ShapeReader::new(Cursor::new(shp.clone())) }.map_err(|e| show_err(&e))?;
                match pre {
                    "seek3" if with => r.seek(3).map_err(|e| show_err(&e))?,
                    "seek0" if with => r.seek(0).map_err(|e| show_err(&e))?,
                    "iter1" => {
                        let _ = r.iter_shapes().next();
                    }
                    "nth2" if with => {
                        let _ = r.read_nth_shape(2);
                    }
                    _ => {}
                }
                Ok(r)
            };
            for with in [true, false] {
                let typed: Result<Vec<f64>, String> = mk(with)?.read_as::<Point>().map(|v| v.iter().map(|p| p.x).collect()).map_err(|e| show_err(&e));
                let generic: Result<Vec<f64>, String> = mk(with)?
                    .read()
                    .map_err(|e| show_err(&e))
                    .and_then(|v| v.into_iter().map(|s| Point::try_from(s).map(|p| p.x).map_err(|e| show_err(&e))).collect());
                if typed != generic {
                    return Err(format!("reader ({}, index: {}): read_as::<Point>() gives x = {:?}, read() + conversion gives {:?}", pre, with, typed, generic));
                }
            }
        }
        Ok(())
    })))
}
use std::convert::TryFrom;

/// C07: `size_hint` is part of iterating (collect calls it): never a panic, on any input
pub fn oracle_hint_no_panic(shp: &[u8], shx: Option<&[u8]>) -> Verdict {
    let cap = item_cap(shp.len(), shx.map(|x| x.len()).unwrap_or(0));
    let s = Cursor::new(shp.to_vec());
    let x = shx.map(|x| Cursor::new(x.to_vec()));
    let r = catch_unwind(AssertUnwindSafe(move || {
        let rdr = match x {
            Some(x) => ShapeReader::with_shx(s, x),
            None => ShapeReader::new(s),
        };
        let mut rdr = match rdr {
            Ok(r) => r,
            Err(_) => return,
        };
        let mut it = rdr.iter_shapes();
        let mut n = 0;
        loop {
            let _ = it.size_hint();
            if it.next().is_none() {
                break;
            }
            n += 1;
            if n > cap {
                break;
            }
        }
        let _ = it.size_hint();
    }));
    if let Err(e) = r {
        return Verdict::fail("panic-size-hint", format!("size_hint()/next() panicked: {}", panic_msg(&e)));
    }
    // the adaptors that step over records: skip, nth, step_by
    for which in 0..3usize {
        let s = Cursor::new(shp.to_vec());
        let x = shx.map(|x| Cursor::new(x.to_vec()));
        let r = catch_unwind(AssertUnwindSafe(move || {
            let rdr = match x {
                Some(x) => ShapeReader::with_shx(s, x),
                None => ShapeReader::new(s),
            };
            let mut rdr = match rdr {
                Ok(r) => r,
                Err(_) => return,
            };
            let it = rdr.iter_shapes();
            match which {
                0 => drop(it.skip(1).take(cap).count()),
                1 => drop(it.step_by(2).take(cap).count()),
                _ => {
                    let mut it = it;
                    let mut n = 0;
                    while it.nth(1).is_some() && n < cap {
                        n += 1;
                    }
                }
            }
        }));
        if let Err(e) = r {
            return Verdict::fail("panic-iterator-adaptor", format!("{} on the iterator panicked: {}", ["skip(1)", "step_by(2)", "nth(1)"][which], panic_msg(&e)));
        }
    }
    Verdict::pass()
}

/// C10: a rejected call made through `write_shapes` (the bulk form of `write_shape`; it consumes the
/// writer, so the files are those of the drop that follows)
pub fn oracle_write_shapes_rejected(n_before: usize) -> Verdict {
    wrap("rejected-write-left-trace", catch_unwind(AssertUnwindSafe(|| -> Result<(), String> {
        let (shp, shx) = (LogDst::new(), LogDst::new());
        let mut w = ShapeWriter::with_shx(shp.clone(), shx.clone());
        for q in 0..n_before {
            w.write_shape(&Point::new(q as f64, 2.0)).map_err(|e| show_err(&e))?;
        }
        let lines = vec![Polyline::new(vec![Point::new(0.0, 0.0), Point::new(1.0, 1.0)]), Polyline::new(vec![Point::new(2.0, 0.0), Point::new(3.0, 1.0)])];
        let mixed_first_ok = n_before == 0;
        let r = w.write_shapes(&lines);
        if !mixed_first_ok {
            match r {
                Err(Error::MismatchShapeType { requested, actual }) if requested == ShapeType::Point && actual == ShapeType::Polyline => {}
                other => return Err(format!("write_shapes(polylines) on a Point file holding {} shapes returned {:?}", n_before, other.map_err(|e| show_err(&e)))),
            }
            let all: Vec<Any> = (0..n_before).map(|q| Any::Point(Point::new(q as f64, 2.0))).collect();
            let (eshp, eshx) = write_files(true, &all);
            if shp.data() != eshp || shx.data() != eshx {
                return Err(format!("after the rejected write_shapes call the files ({} / {} bytes) differ from those of the {} accepted points ({} / {} bytes)", shp.data().len(), shx.data().len(), n_before, eshp.len(), eshx.len()));
            }
        } else {
            r.map_err(|e| show_err(&e))?;
            let (eshp, eshx) = write_files(true, &lines.iter().cloned().map(Any::Polyline).collect::<Vec<_>>());
            if shp.data() != eshp || shx.data() != eshx {
                return Err("write_shapes on a fresh writer does not leave the files of the same write_shape calls".into());
            }
        }
        Ok(())
    })))
}

/// a source that hands out at most `chunk` bytes per `read`
pub struct ChunkSrc {
    pub data: Vec<u8>,
    pub pos: u64,
    pub chunk: usize,
}
impl Read for ChunkSrc {
    fn read(&mut self, buf: &mut [u8]) -> std::io::Result<usize> {
        let start = (self.pos as usize).min(self.data.len());
        let n = buf.len().min(self.data.len() - start).min(self.chunk);
        buf[..n].copy_from_slice(&self.data[start..start + n]);
        self.pos += n as u64;
        Ok(n)
    }
}
impl Seek for ChunkSrc {
    fn seek(&mut self, to: SeekFrom) -> std::io::Result<u64> {
        self.pos = match to {
            SeekFrom::Start(p) => p,
            SeekFrom::End(d) => (self.data.len() as i64 + d).max(0) as u64,
            SeekFrom::Current(d) => (self.pos as i64 + d).max(0) as u64,
        };
        Ok(self.pos)
    }
}

/// records re-laid with `gap(i)` filler bytes (0x2a) before record i; the index follows
pub fn relay(shp: &[u8], gap: &dyn Fn(usize) -> usize, order: &[usize]) -> (Vec<u8>, Vec<u8>) {
    let recs = walk_records(shp).unwrap();
    let mut f = shp[..100].to_vec();
    let mut offs = vec![0usize; recs.len()];
    for (slot, &i) in order.iter().enumerate() {
        for _ in 0..gap(slot) {
            f.push(0x2a);
        }
        offs[i] = f.len();
        let a = recs[i].0 as usize * 2;
        f.extend_from_slice(&shp[a..a + 8 + recs[i].1 as usize * 2]);
    }
    let total = (f.len() / 2) as i32;
    f[24..28].copy_from_slice(&total.to_be_bytes());
    let mut x = shp[..100].to_vec();
    x[24..28].copy_from_slice(&((100 + 8 * recs.len()) as i32 / 2).to_be_bytes());
    for (i, (_, len)) in recs.iter().enumerate() {
        x.extend_from_slice(&((offs[i] / 2) as i32).to_be_bytes());
        x.extend_from_slice(&len.to_be_bytes());
    }
    (f, x)
}

/// the file of `n` polylines of different sizes, stored in reverse physical order
pub fn permuted_polylines(n: usize) -> (Vec<u8>, Vec<u8>) {
    let shapes: Vec<Any> = (0..n).map(|k| Any::Polyline(Polyline::new((0..k + 2).map(|j| Point::new((k * 10 + j) as f64, j as f64)).collect::<Vec<_>>()))).collect();
    let (shp, _) = write_files(true, &shapes);
    let order: Vec<usize> = (0..n).rev().collect();
    relay(&shp, &|_| 0, &order)
}

/// C14: small filler gaps, read through a source that returns few bytes per read call
pub fn oracle_gap_chunked(chunk: usize) -> Verdict {
    wrap("index-order-short-reads", catch_unwind(AssertUnwindSafe(|| -> Result<(), String> {
        let n = 12usize;
        let (shp, _) = write_files(true, &pts(n));
        let order: Vec<usize> = (0..n).collect();
        // filler lengths 0, 2, 4, .. (even: offsets are counted in 16-bit words), some beyond 64
        let gaps = [2usize, 0, 6, 64, 62, 66, 2, 130, 8, 4, 10, 12];
        let (f, x) = relay(&shp, &|i| gaps[i % gaps.len()], &order);
        let want: Vec<String> = (0..n).map(|q| format!("{}", q)).collect();
        let show = |r: Result<Point, Error>| r.map(|p| format!("{}", p.x)).unwrap_or_else(|e| format!("err {}", show_err(&e)));
        let mut rdr = ShapeReader::with_shx(ChunkSrc { data: f.clone(), pos: 0, chunk }, ChunkSrc { data: x.clone(), pos: 0, chunk }).map_err(|e| show_err(&e))?;
        let got: Vec<String> = rdr.iter_shapes_as::<Point>().map(show).collect();
        if got != want {
            return Err(format!("records separated by small fillers, source returning {} bytes per read: iteration yields x = {:?}", chunk, got));
        }
        for i in [n - 1, 0, 5] {
            match rdr.read_nth_shape_as::<Point>(i) {
                Some(Ok(p)) if p.x == i as f64 => {}
                other => return Err(format!("read_nth_shape({}) through the chunked source gave {:?}", i, other.map(show))),
            }
        }
        Ok(())
    })))
}

/// C14: an index with zero entries next to a .shp that holds (stale) records
pub fn oracle_empty_index() -> Verdict {
    wrap("index-order-empty-index", catch_unwind(AssertUnwindSafe(|| -> Result<(), String> {
        let (shp, shx) = write_files(true, &pts(3));
        let mut x = shx[..100].to_vec();
        x[24..28].copy_from_slice(&50i32.to_be_bytes());
        let mut rdr = ShapeReader::with_shx(Cursor::new(shp), Cursor::new(x)).map_err(|e| show_err(&e))?;
        let c = rdr.shape_count().map_err(|e| show_err(&e))?;
        let k = rdr.iter_shapes().count();
        if c != 0 || k != 0 {
            return Err(format!("index with zero entries: shape_count() = {}, iteration yields {} items", c, k));
        }
        if rdr.read_nth_shape(0).is_some() {
            return Err("index with zero entries: read_nth_shape(0) returned something".into());
        }
        Ok(())
    })))
}

/// C17: many parts that are really there (4 bytes each) and hold no points
pub fn many_empty_parts(type_code: i32, nparts: usize) -> Vec<u8> {
    let has_z = type_code == 13 || type_code == 15;
    let has_m = has_z || type_code == 23 || type_code == 25;
    let size = 44 + 4 * nparts + if has_z { 16 } else { 0 } + if has_m { 16 } else { 0 };
    let mut m = vec![0u8; 100];
    m[0..4].copy_from_slice(&9994i32.to_be_bytes());
    m[24..28].copy_from_slice(&(((100 + 8 + size) / 2) as i32).to_be_bytes());
    m[28..32].copy_from_slice(&1000i32.to_le_bytes());
    m[32..36].copy_from_slice(&type_code.to_le_bytes());
    let mut rec = vec![0u8; 12 + 32 + 8];
    rec[0..4].copy_from_slice(&1i32.to_be_bytes());
    rec[4..8].copy_from_slice(&((size / 2) as i32).to_be_bytes());
    rec[8..12].copy_from_slice(&type_code.to_le_bytes());
    rec[44..48].copy_from_slice(&(nparts as i32).to_le_bytes());
    rec[48..52].copy_from_slice(&0i32.to_le_bytes());
    m.extend_from_slice(&rec);
    m.extend(std::iter::repeat(0u8).take(4 * nparts));
    m.extend(std::iter::repeat(0u8).take(size - 44 - 4 * nparts));
    m
}

/// C17: what a caller's `collect()` requests on the iterator's word (its `size_hint`) counts too
pub fn oracle_collect_peak(declared_words: i32) -> Verdict {
    let (mut shp, _) = write_files(false, &pts(1));
    shp[24..28].copy_from_slice(&declared_words.to_be_bytes());
    let input = shp.len();
    let bound = 64 * input + 128 * 1024;
    let s = Cursor::new(shp);
    crate::alloc::reset();
    let r = catch_unwind(AssertUnwindSafe(move || {
        let mut rdr = match ShapeReader::new(s) {
            Ok(r) => r,
            Err(_) => return 0usize,
        };
        let v: Vec<Result<Point, Error>> = rdr.iter_shapes_as::<Point>().collect();
        v.len()
    }));
    let (peak, largest) = crate::alloc::measure();
    match r {
        Err(e) => Verdict::fail("alloc-panic", panic_msg(&e)),
        Ok(_) if peak > bound => Verdict::fail("alloc-disproportionate", format!("{} input bytes whose header declares {} words, items collected into a Vec: peak request {} bytes (largest single {}), bound {}", input, declared_words, peak, largest, bound)),
        Ok(_) => Verdict::pass(),
    }
}

/// a destination that accepts `room` bytes and then fails
struct Full {
    room: usize,
    taken: usize,
}
impl Write for Full {
    fn write(&mut self, b: &[u8]) -> std::io::Result<usize> {
        if self.taken + b.len() > self.room {
            return Err(std::io::Error::new(std::io::ErrorKind::Other, "destination full"));
        }
        self.taken += b.len();
        Ok(b.len())
    }
    fn flush(&mut self) -> std::io::Result<()> {
        Ok(())
    }
}

/// C18 as a history: a serialisation that failed half way on this thread must not change what the
/// next one emits
pub fn oracle_size_after_failed_write() -> Verdict {
    wrap("size-after-failed-write", catch_unwind(AssertUnwindSafe(|| -> Result<(), String> {
        let ring = |o: f64| vec![PointZ::new(o, 0.0, 1.0, 2.0), PointZ::new(o, 4.0, 1.0, 2.0), PointZ::new(o + 4.0, 4.0, 1.0, 2.0), PointZ::new(o + 4.0, 0.0, 1.0, 2.0), PointZ::new(o, 0.0, 1.0, 2.0)];
        let big = PolygonZ::with_rings(vec![PolygonRing::Outer(ring(0.0)), PolygonRing::Outer(ring(10.0))]);
        let small = Polygon::new(PolygonRing::Outer(vec![Point::new(0.0, 0.0), Point::new(0.0, 1.0), Point::new(1.0, 1.0), Point::new(0.0, 0.0)]));
        let line = PolylineM::new(vec![PointM::new(0.0, 0.0, 5.0), PointM::new(1.0, 1.0, 6.0)]);
        let full_len = big.size_in_bytes();
        // every failure point of the first serialisation
        for room in 0..full_len {
            let mut d = Full { room, taken: 0 };
            if big.write_to(&mut d).is_ok() {
                return Err(format!("a destination with room for {} of {} bytes accepted the shape", room, full_len));
            }
            let mut out: Vec<u8> = vec![];
            small.write_to(&mut out).map_err(|e| show_err(&e))?;
            if out.len() != small.size_in_bytes() {
                return Err(format!("after a write that failed at byte {}: Polygon announces {} bytes, write_to emitted {}", room, small.size_in_bytes(), out.len()));
            }
            let mut out2: Vec<u8> = vec![];
            line.write_to(&mut out2).map_err(|e| show_err(&e))?;
            if out2.len() != line.size_in_bytes() {
                return Err(format!("after a write that failed at byte {}: PolylineM announces {} bytes, write_to emitted {}", room, line.size_in_bytes(), out2.len()));
            }
            // leave the thread in the failed state for the next round as well
            let mut d = Full { room, taken: 0 };
            let _ = big.write_to(&mut d);
        }
        // and through the writer: the record header announces the record's real length
        let mut d = Full { room: 60, taken: 0 };
        let _ = big.write_to(&mut d);
        let (shp, _) = write_files(true, &[Any::Polygon(small.clone()), Any::Polygon(small.clone())]);
        let recs = walk_records(&shp)?;
        if recs.len() != 2 || recs.iter().any(|(_, l)| *l as usize * 2 != small.size_in_bytes() + 4) {
            return Err(format!("after a failed serialisation the written file's records are {:?} (offset, words); each should be {} words", recs, (small.size_in_bytes() + 4) / 2));
        }
        Ok(())
    })))
}

/// C19: the header's type code read through a source that returns one byte per call
pub fn oracle_header_code_chunked(code: i32, chunk: usize) -> Verdict {
    let mut hdr = vec![0u8; 100];
    hdr[0..4].copy_from_slice(&9994i32.to_be_bytes());
    hdr[24..28].copy_from_slice(&50i32.to_be_bytes());
    hdr[28..32].copy_from_slice(&1000i32.to_le_bytes());
    hdr[32..36].copy_from_slice(&code.to_le_bytes());
    let valid = ESRI_TABLE.iter().any(|r| r.0 == code);
    match catch_unwind(AssertUnwindSafe(|| ShapeReader::new(ChunkSrc { data: hdr, pos: 0, chunk }).map(|r| r.header().shape_type))) {
        Err(e) => Verdict::fail("header-code-panic", panic_msg(&e)),
        Ok(Ok(t)) if valid && t as i32 == code => Verdict::pass(),
        Ok(Ok(t)) => Verdict::fail("header-code-accepted", format!("header with type code {} read {} bytes at a time was read as {}", code, chunk, t)),
        Ok(Err(Error::InvalidShapeType(c))) if !valid && c == code => Verdict::pass(),
        Ok(Err(e)) => Verdict::fail("header-code-error", format!("header with type code {} read {} bytes at a time: error {}", code, chunk, show_err(&e))),
    }
}

/// a Point file (header type 1) with one good record and one record whose type field holds `code`
pub fn bad_record_code_file(code: i32) -> Vec<u8> {
    let (mut shp, _) = write_files(false, &pts(2));
    shp[100 + 28 + 8..100 + 28 + 12].copy_from_slice(&code.to_le_bytes());
    shp
}

/// C03: an independently encoded file with one long part (more vertices than any read block)
pub fn oracle_long_part(type_code: i32, n: usize) -> Verdict {
    let has_z = type_code == 13 || type_code == 18;
    let has_m = has_z || type_code == 23 || type_code == 28;
    let multipoint = type_code == 8 || type_code == 18 || type_code == 28;
    let xs: Vec<f64> = (0..n).map(|i| i as f64).collect();
    let ys: Vec<f64> = (0..n).map(|i| -(i as f64) * 0.5).collect();
    let zs: Vec<f64> = (0..n).map(|i| i as f64 + 0.25).collect();
    let ms: Vec<f64> = (0..n).map(|i| 1000.0 + i as f64).collect();
    let mut c: Vec<u8> = vec![];
    c.extend_from_slice(&type_code.to_le_bytes());
    for v in [0.0, ys[n - 1], xs[n - 1], 0.0] {
        c.extend_from_slice(&f64::to_le_bytes(v));
    }
    if !multipoint {
        c.extend_from_slice(&1i32.to_le_bytes());
    }
    c.extend_from_slice(&(n as i32).to_le_bytes());
    if !multipoint {
        c.extend_from_slice(&0i32.to_le_bytes());
    }
    for i in 0..n {
        c.extend_from_slice(&xs[i].to_le_bytes());
        c.extend_from_slice(&ys[i].to_le_bytes());
    }
    if has_z {
        c.extend_from_slice(&zs[0].to_le_bytes());
        c.extend_from_slice(&zs[n - 1].to_le_bytes());
        for z in &zs {
            c.extend_from_slice(&z.to_le_bytes());
        }
    }
    if has_m {
        c.extend_from_slice(&ms[0].to_le_bytes());
        c.extend_from_slice(&ms[n - 1].to_le_bytes());
        for m in &ms {
            c.extend_from_slice(&m.to_le_bytes());
        }
    }
    let mut f = vec![0u8; 100];
    f[0..4].copy_from_slice(&9994i32.to_be_bytes());
    f[24..28].copy_from_slice(&(((100 + 8 + c.len()) / 2) as i32).to_be_bytes());
    f[28..32].copy_from_slice(&1000i32.to_le_bytes());
    f[32..36].copy_from_slice(&type_code.to_le_bytes());
    f.extend_from_slice(&1i32.to_be_bytes());
    f.extend_from_slice(&((c.len() / 2) as i32).to_be_bytes());
    f.extend_from_slice(&c);
    wrap("spec-long-part", catch_unwind(AssertUnwindSafe(|| -> Result<(), String> {
        let mut rdr = ShapeReader::new(Cursor::new(f)).map_err(|e| show_err(&e))?;
        let shapes = rdr.read().map_err(|e| format!("type {} with one part of {} vertices: {}", type_code, n, show_err(&e)))?;
        if shapes.len() != 1 {
            return Err(format!("type {} with one part of {} vertices: {} shapes read", type_code, n, shapes.len()));
        }
        // (x, y, z, m) of every vertex of the only part
        let got: Vec<(f64, f64, f64, f64)> = match &shapes[0] {
            Shape::Polyline(p) if p.parts().len() == 1 => p.parts()[0].iter().map(|q| (q.x, q.y, 0.0, 0.0)).collect(),
            Shape::PolylineM(p) if p.parts().len() == 1 => p.parts()[0].iter().map(|q| (q.x, q.y, 0.0, q.m)).collect(),
            Shape::PolylineZ(p) if p.parts().len() == 1 => p.parts()[0].iter().map(|q| (q.x, q.y, q.z, q.m)).collect(),
            Shape::Multipoint(p) => p.points().iter().map(|q| (q.x, q.y, 0.0, 0.0)).collect(),
            Shape::MultipointM(p) => p.points().iter().map(|q| (q.x, q.y, 0.0, q.m)).collect(),
            Shape::MultipointZ(p) => p.points().iter().map(|q| (q.x, q.y, q.z, q.m)).collect(),
            other => return Err(format!("type {} with one part of {} vertices was read as {} with another part structure", type_code, n, other.shapetype())),
        };
        if got.len() != n {
            return Err(format!("type {}: the record stores one part of {} vertices, {} were decoded", type_code, n, got.len()));
        }
        for i in 0..n {
            let want = (xs[i], ys[i], if has_z { zs[i] } else { 0.0 }, if has_m { ms[i] } else { 0.0 });
            if got[i] != want {
                return Err(format!("type {}, {} vertices: vertex {} decoded as {:?}, stored {:?}", type_code, n, i, got[i], want));
            }
        }
        Ok(())
    })))
}

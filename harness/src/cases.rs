//! Case lines: the verbs of the protocol, parsed from text and executed on the real crate.
use crate::exec::*;
use crate::proto::*;

#[derive(Clone, Debug)]
pub enum Case {
    Construct(Ctor),
    Size(Ctor),
    Write { shx: bool, ctors: Vec<Ctor> },
    /// like Write, through the history route `route` (finalize calls and rejected writes interleaved);
    /// the model answers with the plain files: they must be identical
    WriteH { route: u64, shx: bool, ctors: Vec<Ctor> },
    Whist { shx: bool, ending: String, ops: Vec<WOp> },
    Wfault { shx: bool, dest: String, fault: Fault, persistent: bool, ops: Vec<WOp> },
    Read { target: String, shp: Vec<u8>, shx: Option<Vec<u8>> },
    /// like Read, printed role-free (the form the specification-side expectation uses)
    ReadFlat { target: String, shp: Vec<u8>, shx: Option<Vec<u8>> },
    Rhist { target: String, shp: Vec<u8>, shx: Option<Vec<u8>>, ops: Vec<ROp> },
    Code(i32),
    Ring(Dim, Role, Vec<P>),
    /// independent decoder (Lean `Spec.decodeFile`) on bytes the real writer produced; the
    /// implementation side prints what was handed to the writer
    SpecDecode { shp: Vec<u8>, expected: String },
    /// C08: pairs through the complete Writer (real dbase)
    DbfHist { base: String, ops: Vec<crate::extra::PairOp> },
    /// C20: geo-types / geo-traits conversions
    Geo(crate::extra::GeoCase),
    /// the complete Reader (shapes + rows) driven by seek / iterate operations; `rows` rows in the table
    Prhist { shp: Vec<u8>, shx: Vec<u8>, rows: usize, ops: Vec<(String, usize)> },
    /// a scenario evaluated by an oracle only (not part of the correspondence): name and arguments
    Scenario(Vec<String>),
    Raw(String),
}

pub fn show_case(c: &Case) -> String {
    match c {
        Case::Construct(c) => format!("construct {}", show_ctor(c)),
        Case::Size(c) => format!("size {}", show_ctor(c)),
        Case::Write { shx, ctors } => {
            let mut s = format!("write {} {}", *shx as u8, ctors.len());
            for c in ctors {
                s.push(' ');
                s += &show_ctor(c);
            }
            s
        }
        Case::WriteH { route, shx, ctors } => {
            let mut s = format!("writeh {} {} {}", route, *shx as u8, ctors.len());
            for c in ctors {
                s.push(' ');
                s += &show_ctor(c);
            }
            s
        }
        Case::Whist { shx, ending, ops } => format!("whist {} {} {}", *shx as u8, ending, show_wops(ops)),
        Case::Wfault { shx, dest, fault, persistent, ops } => {
            let (k, n) = match fault {
                Fault::None => ("none", 0),
                Fault::WriteAfter(n) => ("write", *n),
                Fault::SeekAt(n) => ("seek", *n),
                Fault::FlushAt(n) => ("flush", *n),
            };
            format!("wfault {} {} {} {} {} {}", *shx as u8, dest, k, n, *persistent as u8, show_wops(ops))
        }
        Case::Read { target, shp, shx } => {
            format!("read {} {} {}", target, hex(shp), shx.as_ref().map(|x| hex(x)).unwrap_or("none".into()))
        }
        Case::ReadFlat { target, shp, shx } => {
            format!("readflat {} {} {}", target, hex(shp), shx.as_ref().map(|x| hex(x)).unwrap_or("none".into()))
        }
        Case::Rhist { target, shp, shx, ops } => {
            format!("rhist {} {} {} {}", target, hex(shp), shx.as_ref().map(|x| hex(x)).unwrap_or("none".into()), show_rops(ops))
        }
        Case::Code(c) => format!("code {}", c),
        Case::Ring(d, r, ps) => {
            let mut s = format!("ring {} {} ", d.name(), r.name());
            show_pts(*d, ps, &mut s);
            s
        }
        Case::SpecDecode { shp, .. } => format!("specdecode {}", hex(shp)),
        Case::DbfHist { base, ops } => format!("dbfhist {} {} {}", base, ops.len(), ops.iter().map(|o| o.tok()).collect::<Vec<_>>().join(" ")).trim_end().to_string(),
        Case::Geo(g) => crate::extra::show_geocase(g),
        Case::Prhist { shp, shx, rows, ops } => format!("prhist {} {} {} {} {}", hex(shp), hex(shx), rows, ops.len(), ops.iter().map(|(o, k)| format!("{} {}", o, k)).collect::<Vec<_>>().join(" ")).trim_end().to_string(),
        Case::Scenario(a) => format!("scenario {}", a.join(" ")),
        Case::Raw(s) => s.clone(),
    }
}

fn parse_wops(t: &mut Toks) -> Option<Vec<WOp>> {
    let n = t.nat()?;
    let mut ops = vec![];
    for _ in 0..n {
        match t.next()? {
            "w" => ops.push(WOp::Write(t.ctor()?)),
            "f" => ops.push(WOp::Finalize),
            _ => return None,
        }
    }
    Some(ops)
}

fn parse_src(t: &mut Toks) -> Option<(Vec<u8>, Option<Vec<u8>>)> {
    let shp = unhex(t.next()?)?;
    let x = t.next()?;
    let shx = if x == "none" { None } else { Some(unhex(x)?) };
    Some((shp, shx))
}

/// parse the text after the case id
pub fn parse_case(line: &str) -> Option<Case> {
    let mut t = Toks::new(line);
    let c = match t.next()? {
        "construct" => Case::Construct(t.ctor()?),
        "size" => Case::Size(t.ctor()?),
        "write" => {
            let shx = t.nat()? == 1;
            let n = t.nat()?;
            Case::Write { shx, ctors: (0..n).map(|_| t.ctor()).collect::<Option<_>>()? }
        }
        "writeh" => {
            let route = t.next()?.parse().ok()?;
            let shx = t.nat()? == 1;
            let n = t.nat()?;
            Case::WriteH { route, shx, ctors: (0..n).map(|_| t.ctor()).collect::<Option<_>>()? }
        }
        "whist" => {
            let shx = t.nat()? == 1;
            let ending = t.next()?.to_string();
            Case::Whist { shx, ending, ops: parse_wops(&mut t)? }
        }
        "wfault" => {
            let shx = t.nat()? == 1;
            let dest = t.next()?.to_string();
            let kind = t.next()?;
            let n = t.nat()?;
            let fault = match kind {
                "write" => Fault::WriteAfter(n),
                "seek" => Fault::SeekAt(n),
                "flush" => Fault::FlushAt(n),
                _ => Fault::None,
            };
            let persistent = t.nat()? == 1;
            Case::Wfault { shx, dest, fault, persistent, ops: parse_wops(&mut t)? }
        }
        "read" => {
            let target = t.next()?.to_string();
            let (shp, shx) = parse_src(&mut t)?;
            Case::Read { target, shp, shx }
        }
        "readflat" => {
            let target = t.next()?.to_string();
            let (shp, shx) = parse_src(&mut t)?;
            Case::ReadFlat { target, shp, shx }
        }
        "rhist" => {
            let target = t.next()?.to_string();
            let (shp, shx) = parse_src(&mut t)?;
            let n = t.nat()?;
            let mut ops = vec![];
            for _ in 0..n {
                let op = t.next()?;
                let k = t.nat()?;
                ops.push(match op {
                    "it" => ROp::It(k),
                    "nth" => ROp::Nth(k),
                    "seek" => ROp::Seek(k),
                    "count" => ROp::Count,
                    "hint" => ROp::Hint,
                    _ => return None,
                });
            }
            Case::Rhist { target, shp, shx, ops }
        }
        "geo" => Case::Geo(crate::extra::parse_geocase(&mut t)?),
        "dbfhist" => {
            let base = t.next()?.to_string();
            let n = t.nat()?;
            let mut ops = vec![];
            for _ in 0..n {
                ops.push(crate::extra::PairOp::parse(t.next()?)?);
            }
            Case::DbfHist { base, ops }
        }
        "prhist" => {
            let shp = unhex(t.next()?)?;
            let shx = unhex(t.next()?)?;
            let rows = t.nat()?;
            let n = t.nat()?;
            let mut ops = vec![];
            for _ in 0..n {
                let o = t.next()?.to_string();
                ops.push((o, t.nat()?));
            }
            Case::Prhist { shp, shx, rows, ops }
        }
        "scenario" => {
            let mut a = vec![];
            while let Some(x) = t.next() {
                a.push(x.to_string());
            }
            t.i = t.t.len();
            Case::Scenario(a)
        }
        "code" => Case::Code(t.int()? as i32),
        "ring" => {
            let d = t.dim()?;
            let r = t.role()?;
            Case::Ring(d, r, t.pts(d)?)
        }
        _ => return None,
    };
    if t.i != t.t.len() {
        return None;
    }
    Some(c)
}

/// what the real crate does on this case, in the canonical form the driver prints too
pub fn run_case(c: &Case) -> String {
    match c {
        Case::Construct(c) => v_construct(c),
        Case::Size(c) => v_size(c),
        Case::Write { shx, ctors } => v_write(*shx, ctors),
        Case::WriteH { route, shx, ctors } => with_route(*route, || v_write(*shx, ctors)),
        Case::Whist { shx, ending, ops } => v_whist(*shx, ending, ops),
        Case::Wfault { shx, dest, fault, persistent, ops } => v_wfault(*shx, dest, *fault, *persistent, ops),
        Case::Read { target, shp, shx } => v_read(target, shp, shx.as_deref()),
        Case::ReadFlat { target, shp, shx } => v_readflat(target, shp, shx.as_deref()),
        Case::Rhist { target, shp, shx, ops } => v_rhist(target, shp, shx.as_deref(), ops),
        Case::Code(c) => v_code(*c),
        Case::Ring(d, r, ps) => v_ring(*d, *r, ps),
        Case::SpecDecode { expected, .. } => expected.clone(),
        Case::DbfHist { base, ops } => crate::extra::v_dbfhist(base, ops),
        Case::Geo(g) => crate::extra::run_geocase(g),
        Case::Prhist { shp, shx, rows, ops } => crate::extra::v_prhist(shp, shx, *rows, ops),
        Case::Scenario(_) => "scenario".into(),
        Case::Raw(_) => "unsupported".into(),
    }
}

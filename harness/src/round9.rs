//! Scenarios added after the ninth (small) round of seeded changes.
use crate::exec::*;
use crate::oracles::*;
use crate::proto::*;
use shapefile::*;
use std::io::Cursor;
use std::panic::{catch_unwind, AssertUnwindSafe};

fn wrap(tag: &str, r: std::thread::Result<Result<(), String>>) -> Verdict {
    match r {
        Ok(Ok(())) => Verdict::pass(),
        Ok(Err(e)) => Verdict::fail(tag, e),
        Err(e) => Verdict::fail(&format!("{}-panic", tag), panic_msg(&e)),
    }
}

/// a Point file (header type 1) with records point, null, point, null, point — hand-spliced
fn points_and_nulls() -> (Vec<u8>, Vec<(f64, f64)>) {
    let pts = [(1.5, 2.5), (3.5, -4.5), (6.0, 7.0)];
    let shapes: Vec<Any> = pts.iter().map(|(x, y)| Any::Point(Point::new(*x, *y))).collect();
    let (shp, _) = write_files(false, &shapes);
    let mut f = shp[..100].to_vec();
    let mut number = 1i32;
    for k in 0..3 {
        let o = 100 + 28 * k;
        let mut rec = shp[o..o + 28].to_vec();
        rec[0..4].copy_from_slice(&number.to_be_bytes());
        f.extend_from_slice(&rec);
        number += 1;
        if k < 2 {
            f.extend_from_slice(&number.to_be_bytes());
            f.extend_from_slice(&2i32.to_be_bytes());
            f.extend_from_slice(&0i32.to_le_bytes());
            number += 1;
        }
    }
    let total = (f.len() / 2) as i32;
    f[24..28].copy_from_slice(&total.to_be_bytes());
    (f, pts.to_vec())
}

/// C03: null-shape records in a file of points, through the BULK read and through the iterator
pub fn oracle_bulk_read_with_nulls() -> Verdict {
    wrap("bulk-read-nulls", catch_unwind(AssertUnwindSafe(|| -> Result<(), String> {
        let (f, pts) = points_and_nulls();
        let check = |route: &str, got: Vec<Shape>| -> Result<(), String> {
            if got.len() != 5 {
                return Err(format!("{}: {} shapes, the file encodes 5", route, got.len()));
            }
            for (i, s) in got.iter().enumerate() {
                match (i % 2, s) {
                    (0, Shape::Point(p)) if (p.x, p.y) == pts[i / 2] => {}
                    (1, Shape::NullShape) => {}
                    _ => return Err(format!("{}: record {} decoded as a {}", route, i, s.shapetype())),
                }
            }
            Ok(())
        };
        let bulk = ShapeReader::new(Cursor::new(f.clone())).map_err(|e| show_err(&e))?.read().map_err(|e| format!("read(): {}", show_err(&e)))?;
        check("read()", bulk)?;
        let mut rdr = ShapeReader::new(Cursor::new(f.clone())).map_err(|e| show_err(&e))?;
        let it: Result<Vec<Shape>, Error> = rdr.iter_shapes().collect();
        check("iter_shapes()", it.map_err(|e| format!("iter_shapes(): {}", show_err(&e)))?)?;
        let bulk2 = ShapeReader::new(crate::round4::ChunkSrc { data: f.clone(), pos: 0, chunk: 7 }).map_err(|e| show_err(&e))?.read().map_err(|e| format!("read() in chunks of 7: {}", show_err(&e)))?;
        check("read() in chunks of 7", bulk2)?;
        Ok(())
    })))
}

/// C19: a record that holds nothing but its type code: code 0 is the null shape, any other value is
/// refused — an invalid code as the invalid-shape-type error carrying the value, a valid code of a
/// shape that needs content as some error — by every untyped route
pub fn oracle_bare_record_code(code: i32) -> Verdict {
    wrap("bare-record-code", catch_unwind(AssertUnwindSafe(|| -> Result<(), String> {
        let (shp, _) = write_files(false, &[Any::Point(Point::new(1.0, 2.0))]);
        let mut f = shp[..100].to_vec();
        f.extend_from_slice(&1i32.to_be_bytes());
        f.extend_from_slice(&2i32.to_be_bytes());
        f.extend_from_slice(&code.to_le_bytes());
        let total = (f.len() / 2) as i32;
        f[24..28].copy_from_slice(&total.to_be_bytes());
        let valid = ESRI_TABLE.iter().any(|r| r.0 == code);
        let judge = |route: &str, r: Result<Shape, Error>| -> Result<(), String> {
            match (code, valid, r) {
                (0, _, Ok(Shape::NullShape)) => Ok(()),
                (0, _, other) => Err(format!("{}: a bare record with code 0 gave {:?}", route, other.map(|s| s.shapetype().to_string()).map_err(|e| show_err(&e)))),
                (_, false, Err(Error::InvalidShapeType(c))) if c == code => Ok(()),
                (_, true, Err(_)) => Ok(()),
                (_, _, other) => Err(format!("{}: a bare record with code {} gave {:?}", route, code, other.map(|s| s.shapetype().to_string()).map_err(|e| show_err(&e)))),
            }
        };
        let mut rdr = ShapeReader::new(Cursor::new(f.clone())).map_err(|e| show_err(&e))?;
        let first = rdr.iter_shapes().next().ok_or("iter_shapes(): no item for the record")?;
        judge("iter_shapes()", first)?;
        let bulk = ShapeReader::new(Cursor::new(f.clone())).map_err(|e| show_err(&e))?.read();
        judge("read()", bulk.and_then(|mut v| if v.len() == 1 { Ok(v.remove(0)) } else { Err(Error::MissingIndexFile) }))?;
        Ok(())
    })))
}

//! Counting global allocator (C17): bytes live now, peak since the last reset, largest single
//! request since the last reset.
use std::alloc::{GlobalAlloc, Layout, System};
use std::sync::atomic::{AtomicUsize, Ordering::Relaxed};

pub struct Counting;
static CUR: AtomicUsize = AtomicUsize::new(0);
static PEAK: AtomicUsize = AtomicUsize::new(0);
static LARGEST: AtomicUsize = AtomicUsize::new(0);
static BASE: AtomicUsize = AtomicUsize::new(0);

unsafe impl GlobalAlloc for Counting {
    unsafe fn alloc(&self, l: Layout) -> *mut u8 {
        let p = System.alloc(l);
        if !p.is_null() {
            let c = CUR.fetch_add(l.size(), Relaxed) + l.size();
            PEAK.fetch_max(c, Relaxed);
            LARGEST.fetch_max(l.size(), Relaxed);
        }
        p
    }
    unsafe fn dealloc(&self, p: *mut u8, l: Layout) {
        System.dealloc(p, l);
        CUR.fetch_sub(l.size(), Relaxed);
    }
    unsafe fn realloc(&self, p: *mut u8, l: Layout, new: usize) -> *mut u8 {
        let q = System.realloc(p, l, new);
        if !q.is_null() {
            if new >= l.size() {
                let c = CUR.fetch_add(new - l.size(), Relaxed) + (new - l.size());
                PEAK.fetch_max(c, Relaxed);
            } else {
                CUR.fetch_sub(l.size() - new, Relaxed);
            }
            LARGEST.fetch_max(new, Relaxed);
        }
        q
    }
}

#[global_allocator]
static A: Counting = Counting;

pub fn reset() {
    let c = CUR.load(Relaxed);
    BASE.store(c, Relaxed);
    PEAK.store(c, Relaxed);
    LARGEST.store(0, Relaxed);
}
/// (peak bytes requested above the level at reset, largest single request)
pub fn measure() -> (usize, usize) {
    (PEAK.load(Relaxed).saturating_sub(BASE.load(Relaxed)), LARGEST.load(Relaxed))
}

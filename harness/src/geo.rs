//! C20: geo-types / geo-traits conversions.
use crate::gen::*;
use crate::Out;

pub fn cases_geo(_tier: &str, _rng: &mut Rng, _stats: &mut Stats, _out: &mut Out) {}

//! C20: geo-types / geo-traits conversions.
use crate::cases::Case;
use crate::gen::*;
use crate::oracles::*;
use crate::proto::*;
use crate::Out;
use geo_traits::{CoordTrait, PointTrait};
use geo_types as gt;
use shapefile::*;
use std::convert::TryFrom;
use std::panic::{catch_unwind, AssertUnwindSafe};

type C = (u64, u64);

/// geo-types values as bit patterns
#[derive(Clone, Debug, PartialEq)]
pub enum G {
    Point(C),
    Line(C, C),
    LineString(Vec<C>),
    MultiPoint(Vec<C>),
    MultiLineString(Vec<Vec<C>>),
    Polygon(Vec<C>, Vec<Vec<C>>),
    MultiPolygon(Vec<(Vec<C>, Vec<Vec<C>>)>),
    Collection,
    Rect,
    Triangle,
}

fn show_cs(cs: &[C], s: &mut String) {
    s.push_str(&cs.len().to_string());
    for c in cs {
        s.push_str(&format!(" {} {}", hx(c.0), hx(c.1)));
    }
}
fn show_poly(p: &(Vec<C>, Vec<Vec<C>>), s: &mut String) {
    show_cs(&p.0, s);
    s.push_str(&format!(" {}", p.1.len()));
    for i in &p.1 {
        s.push(' ');
        show_cs(i, s);
    }
}
pub fn show_g(g: &G) -> String {
    let mut s = String::new();
    match g {
        G::Point(c) => s += &format!("gpoint {} {}", hx(c.0), hx(c.1)),
        G::Line(a, b) => s += &format!("gline {} {} {} {}", hx(a.0), hx(a.1), hx(b.0), hx(b.1)),
        G::LineString(cs) => {
            s += "gls ";
            show_cs(cs, &mut s)
        }
        G::MultiPoint(cs) => {
            s += "gmpoint ";
            show_cs(cs, &mut s)
        }
        G::MultiLineString(ls) => {
            s += &format!("gmls {}", ls.len());
            for l in ls {
                s.push(' ');
                show_cs(l, &mut s);
            }
        }
        G::Polygon(e, i) => {
            s += "gpoly ";
            show_poly(&(e.clone(), i.clone()), &mut s)
        }
        G::MultiPolygon(ps) => {
            s += &format!("gmpoly {}", ps.len());
            for p in ps {
                s.push(' ');
                show_poly(p, &mut s);
            }
        }
        G::Collection => s += "gcoll",
        G::Rect => s += "grect",
        G::Triangle => s += "gtri",
    }
    s
}

fn coord(c: &C) -> gt::Coord<f64> {
    gt::Coord { x: f(c.0), y: f(c.1) }
}
fn ls(cs: &[C]) -> gt::LineString<f64> {
    gt::LineString(cs.iter().map(coord).collect())
}
fn of_ls(l: &gt::LineString<f64>) -> Vec<C> {
    l.0.iter().map(|c| (c.x.to_bits(), c.y.to_bits())).collect()
}
fn of_poly(p: &gt::Polygon<f64>) -> (Vec<C>, Vec<Vec<C>>) {
    (of_ls(p.exterior()), p.interiors().iter().map(of_ls).collect())
}

pub fn to_geometry(g: &G) -> gt::Geometry<f64> {
    match g {
        G::Point(c) => gt::Geometry::Point(gt::Point(coord(c))),
        G::Line(a, b) => gt::Geometry::Line(gt::Line::new(coord(a), coord(b))),
        G::LineString(cs) => gt::Geometry::LineString(ls(cs)),
        G::MultiPoint(cs) => gt::Geometry::MultiPoint(gt::MultiPoint(cs.iter().map(|c| gt::Point(coord(c))).collect())),
        G::MultiLineString(l) => gt::Geometry::MultiLineString(gt::MultiLineString(l.iter().map(|x| ls(x)).collect())),
        G::Polygon(e, i) => gt::Geometry::Polygon(gt::Polygon::new(ls(e), i.iter().map(|x| ls(x)).collect())),
        G::MultiPolygon(ps) => gt::Geometry::MultiPolygon(gt::MultiPolygon(ps.iter().map(|(e, i)| gt::Polygon::new(ls(e), i.iter().map(|x| ls(x)).collect())).collect())),
        G::Collection => gt::Geometry::GeometryCollection(gt::GeometryCollection(vec![])),
        G::Rect => gt::Geometry::Rect(gt::Rect::new(gt::Coord { x: 0.0, y: 0.0 }, gt::Coord { x: 1.0, y: 1.0 })),
        G::Triangle => gt::Geometry::Triangle(gt::Triangle::new(gt::Coord { x: 0.0, y: 0.0 }, gt::Coord { x: 1.0, y: 0.0 }, gt::Coord { x: 0.0, y: 1.0 })),
    }
}
pub fn of_geometry(g: &gt::Geometry<f64>) -> G {
    match g {
        gt::Geometry::Point(p) => G::Point((p.x().to_bits(), p.y().to_bits())),
        gt::Geometry::Line(l) => G::Line((l.start.x.to_bits(), l.start.y.to_bits()), (l.end.x.to_bits(), l.end.y.to_bits())),
        gt::Geometry::LineString(l) => G::LineString(of_ls(l)),
        gt::Geometry::MultiPoint(m) => G::MultiPoint(m.0.iter().map(|p| (p.x().to_bits(), p.y().to_bits())).collect()),
        gt::Geometry::MultiLineString(m) => G::MultiLineString(m.0.iter().map(of_ls).collect()),
        gt::Geometry::Polygon(p) => {
            let (e, i) = of_poly(p);
            G::Polygon(e, i)
        }
        gt::Geometry::MultiPolygon(m) => G::MultiPolygon(m.0.iter().map(of_poly).collect()),
        gt::Geometry::GeometryCollection(_) => G::Collection,
        gt::Geometry::Rect(_) => G::Rect,
        gt::Geometry::Triangle(_) => G::Triangle,
    }
}

/// shape -> geometry with the real crate
pub fn v_s2g(c: &Ctor) -> String {
    let a = match build(c) {
        Ok(a) => a,
        Err(_) => return "panic".into(),
    };
    let shape = any_to_shape(&a);
    match catch_unwind(AssertUnwindSafe(move || gt::Geometry::<f64>::try_from(shape))) {
        Ok(Ok(g)) => show_g(&of_geometry(&g)),
        Ok(Err(_)) => "err".into(),
        Err(_) => "panic".into(),
    }
}
/// geometry -> shape with the real crate
pub fn v_g2s(g: &G) -> String {
    let geom = to_geometry(g);
    match catch_unwind(AssertUnwindSafe(move || Shape::try_from(geom))) {
        Ok(Ok(s)) => show_sv(&s.to_sv()),
        Ok(Err(_)) => "err".into(),
        Err(_) => "panic".into(),
    }
}
/// every way geo-traits offers to read coordinate i (< dim) of the same value gives the same bits
fn coord_routes_disagree<C: CoordTrait<T = f64>>(c: &C, n: usize) -> Option<String> {
    for i in 0..n {
        let a = c.nth_or_panic(i).to_bits();
        let b = c.nth(i).map(|v| v.to_bits());
        let u = unsafe { c.nth_unchecked(i) }.to_bits();
        if b != Some(a) || u != a {
            return Some(format!("index {} of {}: nth_or_panic {:016x}, nth {:?}, nth_unchecked {:016x}", i, n, a, b, u));
        }
    }
    if n >= 2 && (c.x().to_bits() != c.nth_or_panic(0).to_bits() || c.y().to_bits() != c.nth_or_panic(1).to_bits()) {
        return Some("x()/y() differ from indices 0/1".into());
    }
    None
}
/// geo-traits view of a point: dimension count and every coordinate below it
pub fn v_dims(d: Dim, p: &P) -> String {
    let r = catch_unwind(AssertUnwindSafe(|| {
        let (n, vals): (usize, Vec<f64>) = match d {
            Dim::Xy => {
                let q = mk_p(p);
                let n = PointTrait::dim(&q).size();
                if let Some(bad) = coord_routes_disagree(&q, n).or_else(|| coord_routes_disagree(&&q, n)).or_else(|| PointTrait::coord(&q).and_then(|c| coord_routes_disagree(&c, n))) {
                    return format!("coordinate routes disagree: {}", bad);
                }
                (n, (0..n).map(|i| CoordTrait::nth_or_panic(&q, i)).collect())
            }
            Dim::Xym => {
                let q = mk_pm(p);
                let n = PointTrait::dim(&q).size();
                if let Some(bad) = coord_routes_disagree(&q, n).or_else(|| coord_routes_disagree(&&q, n)).or_else(|| PointTrait::coord(&q).and_then(|c| coord_routes_disagree(&c, n))) {
                    return format!("coordinate routes disagree: {}", bad);
                }
                (n, (0..n).map(|i| CoordTrait::nth_or_panic(&q, i)).collect())
            }
            Dim::Xyzm => {
                let q = mk_pz(p);
                let n = PointTrait::dim(&q).size();
                if let Some(bad) = coord_routes_disagree(&q, n).or_else(|| coord_routes_disagree(&&q, n)).or_else(|| PointTrait::coord(&q).and_then(|c| coord_routes_disagree(&c, n))) {
                    return format!("coordinate routes disagree: {}", bad);
                }
                (n, (0..n).map(|i| CoordTrait::nth_or_panic(&q, i)).collect())
            }
        };
        let mut s = format!("dim {}", n);
        for v in vals {
            s += &format!(" {}", hx(v.to_bits()));
        }
        s
    }));
    r.unwrap_or_else(|_| "panic".into())
}

// ------------------------------------------------------------------ oracle
fn xy(ps: &[P]) -> Vec<C> {
    ps.iter().map(|p| (p.x, p.y)).collect()
}
fn same_up_to_reversal(a: &[C], b: &[C]) -> bool {
    let mut r = b.to_vec();
    r.reverse();
    a == b || a == &r[..]
}

pub fn oracle_c20_shape(c: &Ctor) -> Verdict {
    let a = match build(c) {
        Ok(a) => a,
        Err(_) => return Verdict::pass(),
    };
    let sv = sv_of_any(&a);
    let got = v_s2g(c);
    let fail = |sig: &str, msg: String| Verdict::fail(&format!("geo-{}", sig), msg);
    match &sv {
        SV::Point(_, p) => {
            if got != show_g(&G::Point((p.x, p.y))) {
                return fail("point", format!("point converts to {}", got));
            }
        }
        SV::Multipoint(_, _, ps) => {
            if got != show_g(&G::MultiPoint(xy(ps))) {
                return fail("multipoint", "multipoint coordinates/order not preserved".into());
            }
        }
        SV::Polyline(_, _, pp) => {
            if got != show_g(&G::MultiLineString(pp.iter().map(|p| xy(p)).collect())) {
                return fail("polyline", "polyline coordinates/grouping not preserved".into());
            }
        }
        SV::Polygon(_, _, rr) => {
            // each outer ring opens a polygon, following inner rings are its holes (rings are closed already)
            let mut want: Vec<(Vec<C>, Vec<Vec<C>>)> = vec![];
            for (r, ps) in rr {
                match r {
                    Role::Outer => want.push((xy(ps), vec![])),
                    Role::Inner => match want.last_mut() {
                        Some(p) if rr[0].0 == Role::Outer => p.1.push(xy(ps)),
                        _ => want.push((vec![], vec![xy(ps)])),
                    },
                }
            }
            if rr.first().map(|r| r.0) == Some(Role::Outer) && got != show_g(&G::MultiPolygon(want)) {
                return fail("polygon-nesting", format!("outer-first polygon converts to {}", &got[..got.len().min(200)]));
            }
        }
        SV::Multipatch(_, pp) => {
            let has_tri = pp.iter().any(|(k, _)| !k.is_ring());
            if has_tri && got != "err" {
                return fail("strip-fan-accepted", format!("multipatch with strip/fan converts to {}", &got[..got.len().min(80)]));
            }
            if !has_tri && (got == "err" || got == "panic") {
                return fail("ring-multipatch-refused", got);
            }
        }
        SV::Null => {}
    }
    if got == "panic" {
        return fail("panic", "conversion panicked".into());
    }
    // and back: the original 2-D shape (for 2-D inputs of the point, multipoint, polyline, outer-first polygon families)
    let in_scope = match &sv {
        SV::Point(..) | SV::Multipoint(..) | SV::Polyline(..) => true,
        // outer-first, and every ring has vertices (the property speaks of non-empty components; a
        // ring without vertices becomes a geo polygon with an empty exterior, which `with_rings`
        // refuses by panicking -- outside the claim, and reproduced by the model)
        SV::Polygon(_, _, rr) => rr.first().map(|r| r.0) == Some(Role::Outer) && rr.iter().all(|r| !r.1.is_empty()),
        _ => false,
    };
    if c.dim() == Dim::Xy && in_scope {
        let shape = any_to_shape(&a);
        let back = catch_unwind(AssertUnwindSafe(|| gt::Geometry::<f64>::try_from(shape).ok().and_then(|g| Shape::try_from(g).ok())));
        match (back, &sv) {
            (Err(_), _) => return fail("roundtrip-panic", "shape -> geo -> shape panicked".into()),
            (Ok(Some(b)), SV::Point(..)) | (Ok(Some(b)), SV::Multipoint(..)) | (Ok(Some(b)), SV::Polyline(..)) => {
                if b.to_sv() != sv {
                    return fail("roundtrip", "shape -> geo -> shape is not the identity".into());
                }
            }
            (Ok(Some(b)), SV::Polygon(_, _, rr)) if rr.first().map(|r| r.0) == Some(Role::Outer) && rr.iter().all(|(_, ps)| matches!(exact_area2(ps), Some(a) if a != 0)) => {
                if b.to_sv() != sv {
                    return fail("roundtrip-polygon", "outer-first polygon -> geo -> polygon is not the identity".into());
                }
            }
            _ => {}
        }
    }
    Verdict::pass()
}

pub fn oracle_c20_geo(g: &G) -> Verdict {
    let got = v_g2s(g);
    let fail = |sig: &str, msg: String| Verdict::fail(&format!("geo-{}", sig), msg);
    match g {
        G::Collection | G::Rect | G::Triangle => {
            return if got == "err" { Verdict::pass() } else { fail("refusal", format!("{} converts to {}", show_g(g), got)) };
        }
        _ => {}
    }
    if got == "panic" || got == "err" {
        return fail("geo-to-shape", format!("{} -> {}", &show_g(g)[..show_g(g).len().min(120)], got));
    }
    // back to geo: same coordinates in the same grouping (as the multi-geometry), up to ring orientation
    let geom = to_geometry(g);
    let back = catch_unwind(AssertUnwindSafe(|| Shape::try_from(geom).ok().and_then(|s| gt::Geometry::<f64>::try_from(s).ok())));
    let back = match back {
        Ok(Some(b)) => of_geometry(&b),
        _ => return fail("geo-roundtrip-fail", "geo -> shape -> geo failed".into()),
    };
    let closed = |cs: &Vec<C>| -> Vec<C> {
        let mut v = cs.clone();
        if let (Some(a), Some(b)) = (v.first().copied(), v.last().copied()) {
            if !(f(a.0) == f(b.0) && f(a.1) == f(b.1)) {
                v.push(a);
            }
        }
        v
    };
    let ok = match (g, &back) {
        (G::Point(c), G::Point(d)) => c == d,
        (G::MultiPoint(a), G::MultiPoint(b)) => a == b,
        (G::Line(a, b), G::MultiLineString(l)) => l.len() == 1 && l[0] == vec![*a, *b],
        (G::LineString(a), G::MultiLineString(l)) => l.len() == 1 && &l[0] == a,
        (G::MultiLineString(a), G::MultiLineString(b)) => a == b,
        (G::Polygon(e, i), G::MultiPolygon(ps)) => {
            let exact = std::iter::once(e).chain(i.iter()).all(|r| {
                let pts: Vec<P> = closed(r).iter().map(|c| P::new(Dim::Xy, c.0, c.1, 0, 0)).collect();
                matches!(exact_area2(&pts), Some(a) if a != 0)
            });
            !exact || (ps.len() == 1 && same_up_to_reversal(&closed(e), &ps[0].0) && ps[0].1.len() == i.len() && i.iter().zip(ps[0].1.iter()).all(|(x, y)| same_up_to_reversal(&closed(x), y)))
        }
        (G::MultiPolygon(a), G::MultiPolygon(b)) => {
            let exact = a.iter().all(|(e, i)| {
                std::iter::once(e).chain(i.iter()).all(|r| {
                    let pts: Vec<P> = closed(r).iter().map(|c| P::new(Dim::Xy, c.0, c.1, 0, 0)).collect();
                    matches!(exact_area2(&pts), Some(ar) if ar != 0)
                })
            });
            !exact || (a.len() == b.len() && a.iter().zip(b.iter()).all(|((e, i), (e2, i2))| same_up_to_reversal(&closed(e), e2) && i.len() == i2.len() && i.iter().zip(i2.iter()).all(|(x, y)| same_up_to_reversal(&closed(x), y))))
        }
        _ => false,
    };
    if !ok {
        return fail("geo-roundtrip", format!("{} came back as {}", &show_g(g)[..show_g(g).len().min(100)], &show_g(&back)[..show_g(&back).len().min(100)]));
    }
    Verdict::pass()
}

pub fn oracle_c20_dims(d: Dim, p: &P) -> Verdict {
    let got = v_dims(d, p);
    if got == "panic" {
        return Verdict::fail("geo-traits-panic", format!("{} point with m={}: a coordinate below dim() cannot be read", d.name(), hx(p.m)));
    }
    // every reported coordinate is the matching field
    let toks: Vec<&str> = got.split(' ').collect();
    let n: usize = toks[1].parse().unwrap_or(0);
    let fields = match d {
        Dim::Xy => vec![p.x, p.y],
        Dim::Xym => vec![p.x, p.y, p.m],
        Dim::Xyzm => vec![p.x, p.y, p.z, p.m],
    };
    if n < 2 || n > fields.len() {
        return Verdict::fail("geo-traits-dim", format!("dimension count {}", n));
    }
    for i in 0..n {
        if toks[2 + i] != hx(fields[i]) {
            return Verdict::fail("geo-traits-field", format!("coordinate {} is {} (field {})", i, toks[2 + i], hx(fields[i])));
        }
    }
    Verdict::pass()
}

// ------------------------------------------------------------------ generation
fn gen_cs(g: &mut Gen, n: usize, fl: Flavor) -> Vec<C> {
    (0..n).map(|_| (g.coord(fl), g.coord(fl))).collect()
}
fn gen_ring(g: &mut Gen, fl: Flavor) -> Vec<C> {
    let n = g.rng.range(3, 6);
    let mut v = gen_cs(g, n, fl);
    if g.rng.chance(1, 2) {
        let f0 = v[0];
        v.push(f0);
    }
    v
}

/// geometry collections (empty, one element, nested, several), rects and triangles are refused
pub fn oracle_c20_collections() -> Verdict {
    let pt = gt::Geometry::Point(gt::Point::new(1.0, 2.0));
    let poly = gt::Geometry::Polygon(gt::Polygon::new(gt::LineString::from(vec![(0.0, 0.0), (0.0, 4.0), (4.0, 4.0), (0.0, 0.0)]), vec![]));
    let coll = |v: Vec<gt::Geometry<f64>>| gt::Geometry::GeometryCollection(gt::GeometryCollection(v));
    let cases: Vec<(&str, gt::Geometry<f64>)> = vec![
        ("empty collection", coll(vec![])),
        ("collection of one point", coll(vec![pt.clone()])),
        ("collection of one polygon", coll(vec![poly.clone()])),
        ("collection holding a collection of one point", coll(vec![coll(vec![pt.clone()])])),
        ("collection of two points", coll(vec![pt.clone(), pt.clone()])),
    ];
    for (name, g) in cases {
        match catch_unwind(AssertUnwindSafe(|| Shape::try_from(g))) {
            Err(e) => return Verdict::fail("geo-panic", format!("{}: {}", name, panic_msg(&e))),
            Ok(Ok(s)) => return Verdict::fail("geo-collection-accepted", format!("{} was converted to a {} shape instead of being refused", name, s.shapetype())),
            Ok(Err(_)) => {}
        }
    }
    Verdict::pass()
}

pub fn cases_geo(tier: &str, rng: &mut Rng, stats: &mut Stats, out: &mut Out) {
    {
        let id = out.oracle_only_id();
        out.verdict(&id, "scenario geo-collections", oracle_c20_collections());
    }
    let n = if tier == "thorough" { 6000 } else { 320 };
    for i in 0..n {
        let mut g = Gen { rng, stats, max_parts: 4, max_points: 5 };
        let fl = if i % 2 == 0 { Flavor::Exact } else { g.flavor() };
        // shapes of every family and dimension -> geo
        let (fam, d) = ALL13[i % 13];
        let c = g.ctor(fam, d, fl, true);
        let case = Case::Geo(GeoCase::S2G(c.clone()));
        let (id, _) = out.case(&case);
        out.verdict(&id, &crate::cases::show_case(&case), oracle_c20_shape(&c));
        // geo -> shape
        let geo = match i % 9 {
            0 => G::Point((g.coord(fl), g.coord(fl))),
            1 => G::Line((g.coord(fl), g.coord(fl)), (g.coord(fl), g.coord(fl))),
            2 => {
                let k = g.rng.range(2, 6);
                G::LineString(gen_cs(&mut g, k, fl))
            }
            3 => {
                let k = g.rng.range(1, 6);
                G::MultiPoint(gen_cs(&mut g, k, fl))
            }
            4 => {
                let k = g.rng.range(1, 3);
                G::MultiLineString((0..k).map(|_| {
                    let m = g.rng.range(2, 5);
                    gen_cs(&mut g, m, fl)
                }).collect())
            }
            5 => {
                let k = g.rng.range(0, 2);
                G::Polygon(gen_ring(&mut g, fl), (0..k).map(|_| gen_ring(&mut g, fl)).collect())
            }
            6 => {
                let k = g.rng.range(1, 3);
                G::MultiPolygon((0..k).map(|_| {
                    let h = g.rng.range(0, 2);
                    (gen_ring(&mut g, fl), (0..h).map(|_| gen_ring(&mut g, fl)).collect())
                }).collect())
            }
            7 => G::Collection,
            _ => {
                if g.rng.chance(1, 2) {
                    G::Rect
                } else {
                    G::Triangle
                }
            }
        };
        g.stats.hit(&format!("geo.{}", show_g(&geo).split(' ').next().unwrap()));
        let case = Case::Geo(GeoCase::G2S(geo.clone()));
        let (id, _) = out.case(&case);
        out.verdict(&id, &crate::cases::show_case(&case), oracle_c20_geo(&geo));
        // geo-traits dimensions over special measures
        let d = Dim::ALL[i % 3];
        let mut p = g.pt(d, Flavor::Special, true);
        if i % 5 == 0 {
            p.m = [NO_DATA_BITS, next_up(NO_DATA_BITS), next_down(NO_DATA_BITS), 0x7ff8_0000_0000_0000, 0xfff0_0000_0000_0000][(i / 5) % 5];
        }
        let case = Case::Geo(GeoCase::Dims(d, p));
        let (id, _) = out.case(&case);
        out.verdict(&id, &crate::cases::show_case(&case), oracle_c20_dims(d, &p));
    }
    // rings that come back to their first vertex up to the sign of a zero coordinate (IEEE-closed)
    {
        let b = |v: f64| v.to_bits();
        let nz = 0x8000_0000_0000_0000u64;
        let ext = vec![(b(0.0), b(0.0)), (b(0.0), b(4.0)), (b(4.0), b(4.0)), (b(4.0), b(0.0)), (nz, b(0.0))];
        let hole = vec![(b(1.0), b(0.0)), (b(2.0), b(1.0)), (b(1.0), b(2.0)), (b(1.0), nz)];
        let ext2 = vec![(nz, nz), (b(0.0), b(9.0)), (b(9.0), b(9.0)), (b(0.0), b(0.0))];
        for geo in [G::Polygon(ext.clone(), vec![hole.clone()]), G::Polygon(ext2.clone(), vec![]), G::MultiPolygon(vec![(ext, vec![hole]), (ext2, vec![])])] {
            stats.hit("geo.signed-zero-ring");
            let case = Case::Geo(GeoCase::G2S(geo.clone()));
            let (id, _) = out.case(&case);
            out.verdict(&id, &crate::cases::show_case(&case), oracle_c20_geo(&geo));
        }
    }
    // null shape is refused
    let id = out.oracle_only_id();
    let r = gt::Geometry::<f64>::try_from(Shape::NullShape);
    out.verdict(&id, "geo null", if r.is_err() { Verdict::pass() } else { Verdict::fail("geo-null-accepted", "NullShape converted".into()) });
}

#[derive(Clone, Debug)]
pub enum GeoCase {
    S2G(Ctor),
    G2S(G),
    Dims(Dim, P),
}

pub fn show_geocase(c: &GeoCase) -> String {
    match c {
        GeoCase::S2G(c) => format!("geo s2g {}", show_ctor(c)),
        GeoCase::G2S(g) => format!("geo g2s {}", show_g(g)),
        GeoCase::Dims(d, p) => {
            let mut s = format!("geo dims {} ", d.name());
            show_pts(*d, std::slice::from_ref(p), &mut s);
            s
        }
    }
}
pub fn run_geocase(c: &GeoCase) -> String {
    match c {
        GeoCase::S2G(c) => v_s2g(c),
        GeoCase::G2S(g) => v_g2s(g),
        GeoCase::Dims(d, p) => v_dims(*d, p),
    }
}

fn parse_cs(t: &mut Toks) -> Option<Vec<C>> {
    let n = t.nat()?;
    (0..n).map(|_| Some((t.f64bits()?, t.f64bits()?))).collect()
}
fn parse_poly(t: &mut Toks) -> Option<(Vec<C>, Vec<Vec<C>>)> {
    let e = parse_cs(t)?;
    let k = t.nat()?;
    let i = (0..k).map(|_| parse_cs(t)).collect::<Option<_>>()?;
    Some((e, i))
}
pub fn parse_geocase(t: &mut Toks) -> Option<GeoCase> {
    match t.next()? {
        "s2g" => Some(GeoCase::S2G(t.ctor()?)),
        "dims" => {
            let d = t.dim()?;
            let ps = t.pts(d)?;
            Some(GeoCase::Dims(d, *ps.first()?))
        }
        "g2s" => {
            let g = match t.next()? {
                "gpoint" => G::Point((t.f64bits()?, t.f64bits()?)),
                "gline" => G::Line((t.f64bits()?, t.f64bits()?), (t.f64bits()?, t.f64bits()?)),
                "gls" => G::LineString(parse_cs(t)?),
                "gmpoint" => G::MultiPoint(parse_cs(t)?),
                "gmls" => {
                    let n = t.nat()?;
                    G::MultiLineString((0..n).map(|_| parse_cs(t)).collect::<Option<_>>()?)
                }
                "gpoly" => {
                    let (e, i) = parse_poly(t)?;
                    G::Polygon(e, i)
                }
                "gmpoly" => {
                    let n = t.nat()?;
                    G::MultiPolygon((0..n).map(|_| parse_poly(t)).collect::<Option<_>>()?)
                }
                "gcoll" => G::Collection,
                "grect" => G::Rect,
                "gtri" => G::Triangle,
                _ => return None,
            };
            Some(GeoCase::G2S(g))
        }
        _ => None,
    }
}

//! Case producers and oracles for the history / fault / malformed-input properties.
use crate::alloc;
use crate::cases::*;
use crate::exec::*;
use crate::gen::*;
use crate::oracles::*;
use crate::proto::*;
use crate::{with_any, Out};
use shapefile::*;
use std::io::Cursor;
use std::panic::{catch_unwind, AssertUnwindSafe};

fn judge(out: &mut Out, c: &Case) -> String {
    let (id, res) = out.case(c);
    let prop = out.prop.clone();
    for v in crate::oracles_for(&prop, c, &res) {
        out.verdict(&id, &show_case(c), v);
    }
    res
}

fn small_file(rng: &mut Rng, stats: &mut Stats, family: &str, d: Dim, n: usize, fl: Option<Flavor>) -> (Vec<Ctor>, Vec<Any>, Vec<u8>, Vec<u8>) {
    let mut g = Gen { rng, stats, max_parts: 3, max_points: 4 };
    let ctors: Vec<Ctor> = (0..n)
        .map(|_| {
            let fl = fl.unwrap_or_else(|| g.flavor());
            g.ctor(family, d, fl, false)
        })
        .collect();
    let shapes: Vec<Any> = ctors.iter().map(|c| build(c).unwrap()).collect();
    let (shp, shx) = write_files(true, &shapes);
    (ctors, shapes, shp, shx)
}

// ------------------------------------------------------------------ C07 / C17: malformed input
const BOUNDARY: [i64; 17] = [0, 1, -1, 2, -2, i32::MIN as i64, i32::MAX as i64, 1 << 30, -(1 << 30), (1 << 30) - 1, 1 << 28, 1 << 27, 1 << 29, 3, 0x0fff_ffff, 50, 1 << 26];

fn put32(buf: &mut [u8], at: usize, v: i32, be: bool) {
    let b = if be { v.to_be_bytes() } else { v.to_le_bytes() };
    buf[at..at + 4].copy_from_slice(&b);
}
fn get32(buf: &[u8], at: usize, be: bool) -> i32 {
    let b: [u8; 4] = buf[at..at + 4].try_into().unwrap();
    if be {
        i32::from_be_bytes(b)
    } else {
        i32::from_le_bytes(b)
    }
}

/// (offset, big-endian?) of the 32-bit fields of a well-formed .shp
fn shp_fields(shp: &[u8]) -> Vec<(usize, bool, &'static str)> {
    let mut v = vec![(24usize, true, "hdr.length"), (32, false, "hdr.type")];
    if let Ok(recs) = walk_records(shp) {
        for (off, len) in recs {
            let o = off as usize * 2;
            v.push((o, true, "rec.number"));
            v.push((o + 4, true, "rec.length"));
            v.push((o + 8, false, "rec.type"));
            let end = o + 8 + 2 * len as usize;
            // the words after the box: counts, part offsets, patch kinds (for point types these
            // are coordinate halves, harmless to mutate too)
            let mut p = o + 12 + 32;
            let mut k = 0;
            while p + 4 <= end && k < 8 {
                v.push((p, false, "rec.count-or-offset"));
                p += 4;
                k += 1;
            }
        }
    }
    v
}

fn standard_rops(n: usize) -> Vec<ROp> {
    vec![ROp::Count, ROp::Nth(0), ROp::Nth(n.saturating_sub(1)), ROp::Nth(n), ROp::Seek(1), ROp::It(99), ROp::Seek(n + 1), ROp::It(99), ROp::Hint]
}

pub fn cases_malformed(prop: &str, tier: &str, rng: &mut Rng, stats: &mut Stats, out: &mut Out) {
    let thorough = tier == "thorough";
    let per_field = if thorough { BOUNDARY.len() } else { 5 };
    for (ti, (fam, d)) in ALL13.iter().enumerate() {
        let n = 2 + ti % 2;
        let (_, _, shp, shx) = small_file(rng, stats, fam, *d, n, Some(Flavor::Exact));
        // every 32-bit field x boundary values
        for (off, be, name) in shp_fields(&shp) {
            let truev = get32(&shp, off, be) as i64;
            let mut vals: Vec<i64> = BOUNDARY.to_vec();
            vals.push(truev + 1);
            vals.push(truev - 1);
            vals.push(truev * 2);
            // a count that makes the 32-bit-truncated size formula alias the declared size
            vals.push(truev + (1 << 28));
            vals.push(truev + (1 << 29));
            for k in 0..per_field.min(vals.len()) {
                let v = if thorough { vals[k] } else { vals[rng.below(vals.len())] };
                let mut m = shp.clone();
                put32(&mut m, off, v as i32, be);
                stats.hit(&format!("mut.{}", name));
                if rng.chance(1, 2) {
                    judge(out, &Case::Read { target: "generic".into(), shp: m, shx: if rng.chance(1, 2) { Some(shx.clone()) } else { None } });
                } else {
                    judge(out, &Case::Rhist { target: "generic".into(), shp: m, shx: Some(shx.clone()), ops: standard_rops(n) });
                }
            }
        }
        // .shx fields
        let mut xfields = vec![(24usize, "shx.length")];
        for i in 0..n {
            xfields.push((100 + 8 * i, "shx.offset"));
            xfields.push((104 + 8 * i, "shx.size"));
        }
        for (off, name) in xfields {
            for k in 0..per_field {
                let v = if thorough { BOUNDARY[k] } else { BOUNDARY[rng.below(BOUNDARY.len())] };
                let mut m = shx.clone();
                put32(&mut m, off, v as i32, true);
                stats.hit(&format!("mut.{}", name));
                judge(out, &Case::Rhist { target: "generic".into(), shp: shp.clone(), shx: Some(m), ops: standard_rops(n) });
            }
        }
        // truncations and extensions
        let step = if thorough { 1 } else { 7 };
        let mut t = 0;
        while t <= shp.len() {
            stats.hit("mut.truncate");
            judge(out, &Case::Read { target: "generic".into(), shp: shp[..t].to_vec(), shx: if t % 2 == 0 { None } else { Some(shx.clone()) } });
            t += step;
        }
        let mut ext = shp.clone();
        ext.extend((0..40).map(|_| rng.next() as u8));
        stats.hit("mut.extend");
        judge(out, &Case::Read { target: "generic".into(), shp: ext, shx: None });
        // bit flips
        for _ in 0..(if thorough { 300 } else { 12 }) {
            let mut m = shp.clone();
            let i = rng.below(m.len());
            m[i] ^= 1 << rng.below(8);
            stats.hit("mut.bitflip");
            judge(out, &Case::Read { target: "generic".into(), shp: m, shx: if rng.chance(1, 3) { Some(shx.clone()) } else { None } });
        }
        // typed reads of a mutated file
        let tn = type_name_of(fam, *d);
        let mut m = shp.clone();
        put32(&mut m, 104, -1, true);
        judge(out, &Case::Read { target: tn, shp: m, shx: None });
    }
    // unstructured bytes behind a valid file code; counts that are consistent but not backed by data
    for i in 0..(if thorough { 4000 } else { 150 }) {
        let len = rng.range(0, 260);
        let mut m: Vec<u8> = (0..len).map(|_| rng.next() as u8).collect();
        if m.len() >= 4 {
            put32(&mut m, 0, 9994, true);
        }
        if m.len() >= 36 && i % 2 == 0 {
            put32(&mut m, 32, ESRI_TABLE[i % 14].0, false);
            put32(&mut m, 24, *rng.pick(&[50, 1 << 20, i32::MAX, 100, -5]), true);
        }
        if m.len() >= 112 && i % 4 == 0 {
            put32(&mut m, 108, ESRI_TABLE[i % 14].0, false);
            put32(&mut m, 104, *rng.pick(&[2, 10, 24, 1 << 20, (1 << 30) - 1]), true);
        }
        stats.hit("mut.random-tail");
        judge(out, &Case::Read { target: "generic".into(), shp: m.clone(), shx: None });
        if i % 5 == 0 {
            judge(out, &Case::Rhist { target: "generic".into(), shp: m.clone(), shx: Some(m), ops: standard_rops(2) });
        }
    }
    // declared-but-absent data: a header + one record announcing huge counts with a MATCHING declared
    // size (content length = 4 (type) + layout size for those counts), for every multi-vertex type
    // and both the with-M and without-M layouts of the Z types
    // (code, fixed bytes incl. type code, bytes per point, has parts array, bytes per part)
    let layouts: [(i32, i64, i64, bool, i64); 13] = [
        (8, 40, 16, false, 0),   // Multipoint
        (28, 56, 24, false, 0),  // MultipointM
        (18, 56, 24, false, 0),  // MultipointZ without M
        (18, 72, 32, false, 0),  // MultipointZ with M
        (3, 44, 16, true, 4),    // Polyline
        (5, 44, 16, true, 4),    // Polygon
        (23, 60, 24, true, 4),   // PolylineM
        (25, 60, 24, true, 4),   // PolygonM
        (13, 60, 24, true, 4),   // PolylineZ without M
        (15, 76, 32, true, 4),   // PolygonZ with M
        (13, 76, 32, true, 4),   // PolylineZ with M
        (31, 60, 24, true, 8),   // Multipatch without M
        (31, 76, 32, true, 8),   // Multipatch with M
    ];
    for (code, base, per_pt, has_parts, per_part) in layouts {
        for npts in [1i64 << 20, (1 << 26) - 3, 1 << 24, 100_000, 1 << 16] {
            let nparts: i64 = if has_parts { *rng.pick(&[1i64, 1 << 16, 1 << 22]) } else { 0 };
            let size = base + per_pt * npts + per_part * nparts;
            if size >= (1i64 << 31) {
                continue;
            }
            let mut m = vec![0u8; 100];
            put32(&mut m, 0, 9994, true);
            put32(&mut m, 24, i32::MAX, true);
            put32(&mut m, 28, 1000, false);
            put32(&mut m, 32, code, false);
            let mut rec = vec![0u8; 12 + 32 + 8];
            put32(&mut rec, 0, 1, true);
            put32(&mut rec, 4, (size / 2) as i32, true);
            put32(&mut rec, 8, code, false);
            if has_parts {
                put32(&mut rec, 44, nparts as i32, false);
                put32(&mut rec, 48, npts as i32, false);
            } else {
                put32(&mut rec, 44, npts as i32, false);
                rec.truncate(48);
            }
            m.extend_from_slice(&rec);
            // either nothing behind the counts, or the first points really there (more than any
            // pre-allocation cap) and the rest missing: a download cut short
            let real_pts: usize = *rng.pick(&[0usize, 0, 1023, 1024, 1025, 2100]);
            if real_pts > 0 && (npts as usize) > real_pts {
                let parts_bytes = (per_part * nparts) as usize;
                m.extend(std::iter::repeat(0u8).take(parts_bytes.min(1 << 16)));
                if parts_bytes <= (1 << 16) {
                    for q in 0..real_pts {
                        m.extend_from_slice(&(q as f64).to_le_bytes());
                        m.extend_from_slice(&1.5f64.to_le_bytes());
                    }
                    stats.hit("mut.partially-backed-counts");
                }
            } else {
                m.extend((0..rng.range(0, 64)).map(|_| 0u8));
            }
            stats.hit("mut.unbacked-counts");
            judge(out, &Case::Read { target: "generic".into(), shp: m.clone(), shx: None });
            // the same record reached through an index (random access and iteration)
            let mut x = vec![0u8; 108];
            put32(&mut x, 0, 9994, true);
            put32(&mut x, 24, 54, true);
            put32(&mut x, 28, 1000, false);
            put32(&mut x, 32, code, false);
            put32(&mut x, 100, 50, true);
            put32(&mut x, 104, (size / 2) as i32, true);
            judge(out, &Case::Rhist { target: "generic".into(), shp: m, shx: Some(x), ops: standard_rops(1) });
        }
    }
    // an index that announces far more entries than it holds
    for len in [i32::MAX, 1 << 30, (1 << 30) - 1, 1 << 27, 60] {
        let (_, _, shp, shx) = small_file(rng, stats, "point", Dim::Xy, 2, Some(Flavor::Exact));
        let mut m = shx.clone();
        put32(&mut m, 24, len, true);
        stats.hit("mut.unbacked-index");
        judge(out, &Case::Rhist { target: "generic".into(), shp, shx: Some(m), ops: standard_rops(2) });
    }
    let _ = prop;
}

/// C17: peak memory requested by open + iterate + random access, relative to the input size
pub fn oracle_c17(c: &Case) -> Verdict {
    let (shp, shx, ops): (&Vec<u8>, Option<&Vec<u8>>, Vec<ROp>) = match c {
        Case::Read { shp, shx, .. } => (shp, shx.as_ref(), vec![ROp::It(99)]),
        Case::Rhist { shp, shx, ops, .. } => (shp, shx.as_ref(), ops.clone()),
        _ => return Verdict::pass(),
    };
    let input = shp.len() + shx.map(|x| x.len()).unwrap_or(0);
    let bound = 64 * input + 128 * 1024;
    let s = Cursor::new(shp.clone());
    let x = shx.map(|x| Cursor::new(x.clone()));
    let cap = item_cap(shp.len(), shx.map(|x| x.len()).unwrap_or(0));
    alloc::reset();
    let r = catch_unwind(AssertUnwindSafe(move || {
        let rdr = match x {
            Some(x) => ShapeReader::with_shx(s, x),
            None => ShapeReader::new(s),
        };
        let mut rdr = match rdr {
            Ok(r) => r,
            Err(_) => return,
        };
        for op in ops {
            match op {
                ROp::It(k) => {
                    let mut n = 0;
                    for item in rdr.iter_shapes() {
                        drop(item);
                        n += 1;
                        if n >= k.min(cap) {
                            break;
                        }
                    }
                }
                ROp::Nth(i) => drop(rdr.read_nth_shape(i)),
                ROp::Seek(k) => drop(rdr.seek(k)),
                _ => {}
            }
        }
    }));
    let (peak, largest) = alloc::measure();
    if r.is_err() {
        return Verdict::fail("alloc-panic", "reader panicked while its allocations were being measured".into());
    }
    if peak > bound {
        return Verdict::fail("alloc-disproportionate", format!("{} input bytes: peak request {} bytes (largest single {}), bound {}", input, peak, largest, bound));
    }
    Verdict::pass()
}

// ------------------------------------------------------------------ C09 / C10: writer histories
fn all_histories(alphabet: usize, len: usize) -> Vec<Vec<usize>> {
    let mut out = vec![vec![]];
    for _ in 0..len {
        let mut next = vec![];
        for h in &out {
            for a in 0..alphabet {
                let mut h2 = h.clone();
                h2.push(a);
                next.push(h2);
            }
        }
        out = next;
    }
    out
}

pub fn cases_whist(prop: &str, tier: &str, rng: &mut Rng, stats: &mut Stats, out: &mut Out) {
    let max_len = if tier == "thorough" { 6 } else { 4 };
    for (ti, (fam, d)) in ALL13.iter().enumerate() {
        let mut g = Gen { rng, stats, max_parts: 2, max_points: 3 };
        // every third type: `a` may carry NaN in Z / M (C01's domain), so that its ranges can be NaN
        let a = g.ctor(fam, *d, Flavor::Special, ti % 3 == 1);
        let a = if ti % 3 == 1 && d.has_m() {
            // all measures NaN: the running header range stays at its sentinels
            let nan = 0x7ff8_0000_0000_0000u64;
            match a {
                Ctor::Point(d, p) => Ctor::Point(d, P { m: nan, ..p }),
                Ctor::Multipoint(d, ps) => Ctor::Multipoint(d, ps.into_iter().map(|p| P { m: nan, ..p }).collect()),
                Ctor::Polyline(d, ps) => Ctor::Polyline(d, ps.into_iter().map(|p| P { m: nan, ..p }).collect()),
                Ctor::PolylineParts(d, pp) => Ctor::PolylineParts(d, pp.into_iter().map(|ps| ps.into_iter().map(|p| P { m: nan, ..p }).collect()).collect()),
                other => other,
            }
        } else {
            a
        };
        let b = g.ctor(fam, *d, Flavor::Exact, false);
        // C10: `b` is a shape of ANOTHER type
        let others: Vec<(&str, Dim)> = ALL13.iter().copied().filter(|x| x != &(*fam, *d)).collect();
        let wrong: Vec<Ctor> = if tier == "thorough" { others.iter().map(|(f2, d2)| g.ctor(f2, *d2, Flavor::Exact, false)).collect() } else { vec![g.ctor(others[ti % 12].0, others[ti % 12].1, Flavor::Exact, false), g.ctor(others[(ti + 5) % 12].0, others[(ti + 5) % 12].1, Flavor::Exact, false)] };
        for len in 0..=max_len {
            // exhaustive up to length 4 for every type; longer lengths round-robin over types
            if len > 4 && ti % 3 != len % 3 {
                continue;
            }
            for h in all_histories(3, len) {
                let variants: Vec<Ctor> = if prop == "C10" { wrong.clone() } else { vec![b.clone()] };
                if prop == "C10" && !h.contains(&1) {
                    continue;
                }
                let with_shx = (h.len() + h.iter().sum::<usize>()) % 2 == 0;
                let ending = if h.iter().sum::<usize>() % 3 == 0 { "fdrop" } else { "drop" };
                for (vi, second) in variants.iter().enumerate() {
                    if prop == "C10" && len > 3 && vi != (h.iter().sum::<usize>()) % variants.len() {
                        continue;
                    }
                    let ops: Vec<WOp> = h
                        .iter()
                        .map(|x| match x {
                            0 => WOp::Write(a.clone()),
                            1 => WOp::Write(second.clone()),
                            _ => WOp::Finalize,
                        })
                        .collect();
                    stats.hit(&format!("hist.len.{}", len));
                    if ops.first().map(|o| matches!(o, WOp::Finalize)).unwrap_or(false) {
                        stats.hit("hist.finalize-first");
                    }
                    for shx in [with_shx, !with_shx] {
                        if len > 2 && shx != with_shx {
                            continue;
                        }
                        judge(out, &Case::Whist { shx, ending: ending.into(), ops: ops.clone() });
                    }
                }
            }
        }
        if prop == "C09" {
            // consumption by write_shapes == writes then drop
            let id = out.oracle_only_id();
            let shapes: Vec<Any> = vec![build(&a).unwrap(), build(&b).unwrap(), build(&a).unwrap()];
            let shp = LogDst::new();
            let shx = LogDst::new();
            let w = ShapeWriter::with_shx(shp.clone(), shx.clone());
            let r = match &shapes[0] {
                Any::Point(_) => w.write_shapes(shapes.iter().map(|s| if let Any::Point(p) = s { p } else { unreachable!() }).collect::<Vec<_>>()),
                Any::PointM(_) => w.write_shapes(shapes.iter().map(|s| if let Any::PointM(p) = s { p } else { unreachable!() }).collect::<Vec<_>>()),
                Any::PointZ(_) => w.write_shapes(shapes.iter().map(|s| if let Any::PointZ(p) = s { p } else { unreachable!() }).collect::<Vec<_>>()),
                Any::Multipoint(_) => w.write_shapes(shapes.iter().map(|s| if let Any::Multipoint(p) = s { p } else { unreachable!() }).collect::<Vec<_>>()),
                Any::MultipointM(_) => w.write_shapes(shapes.iter().map(|s| if let Any::MultipointM(p) = s { p } else { unreachable!() }).collect::<Vec<_>>()),
                Any::MultipointZ(_) => w.write_shapes(shapes.iter().map(|s| if let Any::MultipointZ(p) = s { p } else { unreachable!() }).collect::<Vec<_>>()),
                Any::Polyline(_) => w.write_shapes(shapes.iter().map(|s| if let Any::Polyline(p) = s { p } else { unreachable!() }).collect::<Vec<_>>()),
                Any::PolylineM(_) => w.write_shapes(shapes.iter().map(|s| if let Any::PolylineM(p) = s { p } else { unreachable!() }).collect::<Vec<_>>()),
                Any::PolylineZ(_) => w.write_shapes(shapes.iter().map(|s| if let Any::PolylineZ(p) = s { p } else { unreachable!() }).collect::<Vec<_>>()),
                Any::Polygon(_) => w.write_shapes(shapes.iter().map(|s| if let Any::Polygon(p) = s { p } else { unreachable!() }).collect::<Vec<_>>()),
                Any::PolygonM(_) => w.write_shapes(shapes.iter().map(|s| if let Any::PolygonM(p) = s { p } else { unreachable!() }).collect::<Vec<_>>()),
                Any::PolygonZ(_) => w.write_shapes(shapes.iter().map(|s| if let Any::PolygonZ(p) = s { p } else { unreachable!() }).collect::<Vec<_>>()),
                Any::Multipatch(_) => w.write_shapes(shapes.iter().map(|s| if let Any::Multipatch(p) = s { p } else { unreachable!() }).collect::<Vec<_>>()),
            };
            let (eshp, eshx) = write_files(true, &shapes);
            let ok = r.is_ok() && shp.data() == eshp && shx.data() == eshx;
            out.verdict(&id, &format!("write_shapes [{}; {}; {}]", show_ctor(&a), show_ctor(&b), show_ctor(&a)), if ok { Verdict::pass() } else { Verdict::fail("write-shapes-differs", "write_shapes leaves different files than write_shape + drop".into()) });
        }
    }
}

// ------------------------------------------------------------------ C11: crash points
/// rebuild what a destination holds after the first `k` ops and `cut` bytes of op `k`
pub fn persisted(ops: &[Op], k: usize, cut: usize) -> Vec<u8> {
    let mut data: Vec<u8> = vec![];
    let mut pos = 0usize;
    let mut apply_write = |data: &mut Vec<u8>, pos: &mut usize, b: &[u8]| {
        if data.len() < *pos + b.len() {
            data.resize(*pos + b.len(), 0);
        }
        data[*pos..*pos + b.len()].copy_from_slice(b);
        *pos += b.len();
    };
    for (i, op) in ops.iter().enumerate() {
        if i > k {
            break;
        }
        match op {
            Op::Write(b) => {
                if i < k {
                    apply_write(&mut data, &mut pos, b)
                } else {
                    apply_write(&mut data, &mut pos, &b[..cut.min(b.len())])
                }
            }
            Op::SeekStart(n) => {
                if i < k {
                    pos = *n as usize
                }
            }
            Op::SeekEnd => {
                if i < k {
                    pos = data.len()
                }
            }
            _ => {}
        }
    }
    data
}

fn read_items(shp: &[u8], shx: Option<&[u8]>) -> Result<Vec<Result<SV, String>>, String> {
    let cap = item_cap(shp.len(), shx.map(|x| x.len()).unwrap_or(0));
    let s = Cursor::new(shp.to_vec());
    let x = shx.map(|x| Cursor::new(x.to_vec()));
    match catch_unwind(AssertUnwindSafe(move || {
        let rdr = match x {
            Some(x) => ShapeReader::with_shx(s, x),
            None => ShapeReader::new(s),
        };
        let mut rdr = match rdr {
            Ok(r) => r,
            Err(e) => return Err(format!("open err {}", show_err(&e))),
        };
        let mut items = vec![];
        for item in rdr.iter_shapes() {
            items.push(match item {
                Ok(s) => Ok(s.to_sv()),
                Err(e) => Err(show_err(&e)),
            });
            if items.len() > cap {
                return Err("runaway".into());
            }
        }
        Ok(items)
    })) {
        Ok(r) => r,
        Err(e) => Err(format!("panic {}", panic_msg(&e))),
    }
}

/// every (prefix, byte cut) of the .shp op sequence x a few prefixes of the .shx sequence
pub fn oracle_c11(with_shx: bool, ops: &[WOp], sample: Option<(&mut Rng, usize)>) -> Verdict {
    let h = run_whist(with_shx, "drop", ops, LogDst::new(), LogDst::new());
    if h.panicked.is_some() {
        return Verdict::pass();
    }
    let shp_ops = h.shp.ops();
    let shx_ops = h.shx.ops();
    // shapes written, in order, and how many were written before each shp op index
    let written: Vec<SV> = ops
        .iter()
        .filter_map(|o| match o {
            WOp::Write(c) => Some(blind_roles(&expected_readback(&sv_of_any(&build(c).unwrap())))),
            _ => None,
        })
        .collect();
    // which shp op indices complete a finalize (a Flush), and how many shapes are durable there:
    // the length field of the header written by that finalize
    let mut states: Vec<(usize, usize)> = vec![];
    for (k, op) in shp_ops.iter().enumerate() {
        match op {
            Op::Write(b) => {
                for cut in 0..b.len() {
                    states.push((k, cut));
                }
            }
            _ => states.push((k, 0)),
        }
    }
    states.push((shp_ops.len(), 0));
    let mut shx_states: Vec<(usize, usize)> = vec![(0, 0), (shx_ops.len(), 0)];
    for (k, op) in shx_ops.iter().enumerate() {
        if let Op::Write(b) = op {
            shx_states.push((k, b.len() / 2));
            shx_states.push((k + 1, 0));
        }
    }
    let _ = sample;
    let mut durable = 0usize; // shapes covered by the last finalize whose flush completed
    let mut pending_header: Option<usize> = None;
    let mut records_seen = 0usize;
    for (k, cut) in states {
        // bookkeeping on completed ops: a 100-byte write at position 0 is a header
        if cut == 0 && k > 0 {
            match &shp_ops[k - 1] {
                Op::Flush => {
                    if let Some(n) = pending_header.take() {
                        durable = n;
                    }
                }
                Op::SeekEnd => {}
                _ => {}
            }
        }
        let data = persisted(&shp_ops, k, cut);
        if cut == 0 {
            // count complete records by walking what is there (only used for `durable`)
            records_seen = walk_prefix(&data);
            if k > 0 {
                if let Op::SeekStart(0) = &shp_ops[k - 1] {
                    pending_header = Some(records_seen);
                }
            }
        }
        let xs: Vec<Option<Vec<u8>>> = if with_shx { shx_states.iter().map(|(xk, xc)| Some(persisted(&shx_ops, *xk, *xc))).chain(std::iter::once(None)).collect() } else { vec![None] };
        for x in xs {
            match read_items(&data, x.as_deref()) {
                Err(e) if e.starts_with("open err") => {}
                Err(e) => return Verdict::fail(if e.starts_with("panic") { "crash-panic" } else { "crash-runaway" }, format!("shp cut ({}, {}): {}", k, cut, e)),
                Ok(items) => {
                    let oks: Vec<&SV> = items.iter().filter_map(|i| i.as_ref().ok()).collect();
                    // Ok items must come before any error and form a prefix of what was written
                    let first_err = items.iter().position(|i| i.is_err()).unwrap_or(items.len());
                    if items[first_err..].iter().any(|i| i.is_ok()) {
                        return Verdict::fail("crash-shape-after-error", format!("shp cut ({}, {}): a shape was yielded after an error", k, cut));
                    }
                    if oks.len() > written.len() || oks.iter().zip(written.iter()).any(|(g, w)| &blind_roles(g) != w) {
                        return Verdict::fail("crash-wrong-shape", format!("shp cut ({}, {}) shx {:?}: reader yielded a shape that was not written at that position", k, cut, x.as_ref().map(|v| v.len())));
                    }
                    if x.is_none() && oks.len() < durable {
                        return Verdict::fail("crash-lost-finalized", format!("shp cut ({}, {}): {} shapes were finalized but only {} are readable", k, cut, durable, oks.len()));
                    }
                }
            }
        }
    }
    Verdict::pass()
}

/// torn length fields: the header rewrite of a finalize cut inside the 4-byte big-endian length,
/// on files large enough for the new length to carry into a higher byte than the old one (so that
/// the torn value declares MORE than is present).  `.shp` and `.shx`, with and without the index.
pub fn oracle_c11_torn(n: usize, first_finalize_after: usize) -> Verdict {
    let mut ops: Vec<WOp> = vec![];
    for q in 0..n {
        ops.push(WOp::Write(Ctor::Point(Dim::Xy, P { x: (q as f64).to_bits(), y: 0.5f64.to_bits(), z: 0, m: 0 })));
        if q + 1 == first_finalize_after {
            ops.push(WOp::Finalize);
        }
    }
    ops.push(WOp::Finalize);
    let h = run_whist(true, "drop", &ops, LogDst::new(), LogDst::new());
    if h.panicked.is_some() {
        return Verdict::fail("crash-panic", format!("writing {} points panicked", n));
    }
    let written: Vec<SV> = ops
        .iter()
        .filter_map(|o| match o {
            WOp::Write(c) => Some(blind_roles(&expected_readback(&sv_of_any(&build(c).unwrap())))),
            _ => None,
        })
        .collect();
    let shp_ops = h.shp.ops();
    let shx_ops = h.shx.ops();
    // (op index, cut) pairs that stop a write inside the length field (file bytes 24..28): the
    // header is written field by field or in one piece, depending on the destination
    let len_cuts = |ops: &[Op]| -> Vec<(usize, usize)> {
        let mut v = vec![];
        let mut pos = 0usize;
        let mut end = 0usize;
        for (k, op) in ops.iter().enumerate() {
            match op {
                Op::Write(b) => {
                    if pos < 28 && pos + b.len() > 24 {
                        for c in 0..=b.len() {
                            if pos + c >= 24 && pos + c <= 28 {
                                v.push((k, c));
                            }
                        }
                    }
                    pos += b.len();
                    end = end.max(pos);
                }
                Op::SeekStart(n) => pos = *n as usize,
                Op::SeekEnd => pos = end,
                _ => {}
            }
        }
        v
    };
    let shp_full = h.shp.data();
    let shx_full = h.shx.data();
    let check = |label: String, data: &[u8], x: Option<&[u8]>| -> Option<Verdict> {
        match read_items(data, x) {
            Err(e) if e.starts_with("open err") => None,
            Err(e) => Some(Verdict::fail(if e.starts_with("panic") { "crash-panic" } else { "crash-runaway" }, format!("{}: {}", label, e))),
            Ok(items) => {
                let oks: Vec<&SV> = items.iter().filter_map(|i| i.as_ref().ok()).collect();
                let first_err = items.iter().position(|i| i.is_err()).unwrap_or(items.len());
                if items[first_err..].iter().any(|i| i.is_ok()) {
                    return Some(Verdict::fail("crash-shape-after-error", format!("{}: a shape was yielded after an error", label)));
                }
                if oks.len() > written.len() || oks.iter().zip(written.iter()).any(|(g, w)| &blind_roles(g) != w) {
                    return Some(Verdict::fail("crash-wrong-shape", format!("{}: reader yielded a shape that was not written at that position", label)));
                }
                None
            }
        }
    };
    let xc = len_cuts(&shx_ops);
    let sc = len_cuts(&shp_ops);
    if xc.len() < 5 || sc.len() < 5 {
        return Verdict::fail("crash-harness", format!("no write covers the length field: {} / {} cut points", sc.len(), xc.len()));
    }
    for (k, cut) in xc {
        let x = persisted(&shx_ops, k, cut);
        if let Some(v) = check(format!("{} points, .shx op #{} cut after {} byte(s) (inside the length field)", n, k, cut), &shp_full, Some(&x)) {
            return v;
        }
    }
    for (k, cut) in sc {
        let d = persisted(&shp_ops, k, cut);
        for x in [None, Some(&shx_full[..])] {
            if let Some(v) = check(format!("{} points, .shp op #{} cut after {} byte(s) (inside the length field)", n, k, cut), &d, x) {
                return v;
            }
        }
    }
    Verdict::pass()
}

fn walk_prefix(shp: &[u8]) -> usize {
    let mut pos = 100usize;
    let mut n = 0;
    while pos + 8 <= shp.len() {
        let len = be32(shp, pos + 4);
        if len < 2 {
            break;
        }
        let end = pos + 8 + 2 * len as usize;
        if end > shp.len() {
            break;
        }
        n += 1;
        pos = end;
    }
    n
}

pub fn cases_crash(tier: &str, rng: &mut Rng, stats: &mut Stats, out: &mut Out) {
    let workloads = if tier == "thorough" { 60 } else { 13 };
    for i in 0..workloads {
        let (fam, d) = ALL13[i % 13];
        let mut g = Gen { rng, stats, max_parts: 2, max_points: 3 };
        let a = g.ctor(fam, d, Flavor::Exact, false);
        let b = g.ctor(fam, d, Flavor::Special, false);
        let c = g.ctor(fam, d, Flavor::Exact, false);
        let ops: Vec<WOp> = match i % 4 {
            0 => vec![WOp::Write(a), WOp::Write(b)],
            1 => vec![WOp::Write(a), WOp::Finalize, WOp::Write(b), WOp::Write(c)],
            2 => vec![WOp::Finalize, WOp::Write(a), WOp::Write(b), WOp::Finalize, WOp::Write(c)],
            _ => vec![WOp::Write(a), WOp::Write(b), WOp::Finalize, WOp::Finalize, WOp::Write(c), WOp::Finalize],
        };
        stats.hit(&format!("crash.workload.{}", i % 4));
        let case = Case::Whist { shx: true, ending: "drop".into(), ops: ops.clone() };
        judge(out, &case);
        // a sample of the persisted states also goes through the model (correspondence on reads)
        let h = run_whist(true, "drop", &ops, LogDst::new(), LogDst::new());
        let shp_ops = h.shp.ops();
        let shx_ops = h.shx.ops();
        for _ in 0..(if tier == "thorough" { 40 } else { 8 }) {
            let k = rng.below(shp_ops.len() + 1);
            let cut = match shp_ops.get(k) {
                Some(Op::Write(b)) => rng.below(b.len().max(1)),
                _ => 0,
            };
            let xk = rng.below(shx_ops.len() + 1);
            let data = persisted(&shp_ops, k, cut);
            let xdata = persisted(&shx_ops, xk, 0);
            stats.hit("crash.read-case");
            out.case(&Case::Read { target: "generic".into(), shp: data, shx: if rng.chance(1, 2) { Some(xdata) } else { None } });
        }
    }
    {
        // first batch at positive coordinates, a finalize that completes, then a shape further out on
        // the negative side, and a second finalize: every byte cut of the header rewrite (also inside the
        // box) must leave the first batch readable
        let p = |x: f64, y: f64| Ctor::Point(Dim::Xy, P { x: x.to_bits(), y: y.to_bits(), z: 0, m: NO_DATA_BITS });
        let ops = vec![WOp::Write(p(1.0, 1.0)), WOp::Write(p(2.0, 2.5)), WOp::Finalize, WOp::Write(p(-3.0, -4.0)), WOp::Finalize];
        stats.hit("crash.workload.growing-box");
        let case = Case::Whist { shx: true, ending: "drop".into(), ops };
        judge(out, &case);
    }
    for (n_old, n_new) in [(40usize, 3usize), (7, 7), (12, 0)] {
        let id = out.oracle_only_id();
        out.verdict(&id, &format!("scenario path-overwrite {} {}", n_old, n_new), crate_dbf::oracle_path_overwrite(n_old, n_new));
    }
    // torn length fields on files large enough for a carry (>= 52 index entries, >= 15 point records)
    for (n, f) in if tier == "thorough" { vec![(52usize, 3usize), (60, 50), (64, 1), (70, 64), (120, 60), (16, 14), (20, 3)] } else { vec![(60, 50), (16, 14)] } {
        stats.hit("crash.torn-length");
        let id = out.oracle_only_id();
        out.verdict(&id, &format!("scenario torn-length {} {}", n, f), oracle_c11_torn(n, f));
    }
}

// ------------------------------------------------------------------ C12: failing destinations
fn totals(ops: &[Op]) -> (usize, usize, usize) {
    let mut b = 0;
    let mut s = 0;
    let mut f = 0;
    for op in ops {
        match op {
            Op::Write(x) => b += x.len(),
            Op::Flush => f += 1,
            _ => s += 1,
        }
    }
    (b, s, f)
}

pub fn oracle_c12(with_shx: bool, dest: &str, fault: Fault, persistent: bool, ops: &[WOp]) -> Verdict {
    // undisturbed run
    let healthy = run_whist(with_shx, "drop", ops, LogDst::new(), LogDst::new());
    if healthy.panicked.is_some() {
        return Verdict::pass();
    }
    let shp = if dest == "shp" { LogDst::with_fault(fault, persistent) } else { LogDst::new() };
    let shx = if dest == "shx" { LogDst::with_fault(fault, persistent) } else { LogDst::new() };
    let faulty = if dest == "shp" { shp.clone() } else { shx.clone() };
    let mut built = vec![];
    for op in ops {
        match op {
            WOp::Write(c) => built.push(Some(build(c).unwrap())),
            WOp::Finalize => built.push(None),
        }
    }
    let (s2, x2) = (shp.clone(), shx.clone());
    let f2 = faulty.clone();
    let r = catch_unwind(AssertUnwindSafe(move || -> Result<bool, (String, String)> {
        let mut w = if with_shx { ShapeWriter::with_shx(s2, x2) } else { ShapeWriter::new(s2) };
        let mut failed_call: Option<usize> = None;
        // the property's retry clause: a finalize failed and the NEXT call (or the drop) is finalize again
        let mut failed_was_finalize = false;
        for (i, b) in built.iter().enumerate() {
            let before = f2.0.borrow().faults_hit;
            let r = match b {
                Some(a) => with_any!(a, s => w.write_shape(s)),
                None => w.finalize(),
            };
            let hit = f2.0.borrow().faults_hit > before;
            match (hit, &r) {
                (true, Ok(())) => return Err(("fault-swallowed".into(), format!("call {} succeeded although its destination failed during it", i))),
                (true, Err(Error::IoError(_))) => {
                    if failed_call.is_none() {
                        failed_call = Some(i);
                        failed_was_finalize = b.is_none() && built.get(i + 1).map(|n| n.is_none()).unwrap_or(true);
                    }
                }
                (true, Err(e)) => return Err(("fault-wrong-error".into(), format!("call {}: destination failure surfaced as {}", i, show_err(e)))),
                (false, Err(e)) if failed_call.is_none() => return Err(("spurious-error".into(), format!("call {} failed with {} without any destination failure", i, show_err(e)))),
                _ => {}
            }
        }
        drop(w); // must not panic, whatever the destination does
        Ok(failed_was_finalize && failed_call.is_some())
    }));
    match r {
        Err(e) => Verdict::fail("fault-panic", format!("panic with a failing destination: {}", panic_msg(&e))),
        Ok(Err((sig, msg))) => Verdict::fail(&sig, msg),
        Ok(Ok(finalize_failed)) => {
            // a failed finalize that was retried (the workload ends with another finalize, or the drop)
            if finalize_failed && !persistent {
                if shp.data() != healthy.shp.data() || shx.data() != healthy.shx.data() {
                    return Verdict::fail("finalize-retry-differs", "after a failed finalize and a retry on a working destination the files differ from an undisturbed run".into());
                }
            }
            Verdict::pass()
        }
    }
}

/// destinations that accept fewer bytes per call than offered receive identical output
pub fn oracle_c12_chunks(with_shx: bool, ops: &[WOp]) -> Verdict {
    let healthy = run_whist(with_shx, "drop", ops, LogDst::new(), LogDst::new());
    if healthy.panicked.is_some() {
        return Verdict::pass();
    }
    for chunk in [1usize, 2, 3, 7, 13] {
        let shp = LogDst::new();
        let shx = LogDst::new();
        shp.0.borrow_mut().chunk = chunk;
        shx.0.borrow_mut().chunk = chunk;
        let h = run_whist(with_shx, "drop", ops, shp, shx);
        if let Some(p) = h.panicked {
            return Verdict::fail("chunk-panic", p);
        }
        if h.results != healthy.results || h.shp.data() != healthy.shp.data() || h.shx.data() != healthy.shx.data() {
            return Verdict::fail("chunk-differs", format!("a destination accepting {} bytes per call received different output", chunk));
        }
    }
    Verdict::pass()
}

pub fn cases_fault(tier: &str, rng: &mut Rng, stats: &mut Stats, out: &mut Out) {
    let workloads = if tier == "thorough" { 80 } else { 13 };
    for i in 0..workloads {
        let (fam, d) = ALL13[i % 13];
        let mut g = Gen { rng, stats, max_parts: 2, max_points: 2 };
        let a = g.ctor(fam, d, Flavor::Exact, false);
        let b = g.ctor(fam, d, Flavor::Special, false);
        // ends with finalize + finalize: the second one is the retry
        let ops: Vec<WOp> = if i % 2 == 0 { vec![WOp::Write(a), WOp::Write(b), WOp::Finalize, WOp::Finalize] } else { vec![WOp::Write(a), WOp::Finalize, WOp::Write(b), WOp::Finalize, WOp::Finalize] };
        judge(out, &Case::Whist { shx: true, ending: "drop".into(), ops: ops.clone() });
        let h = run_whist(true, "drop", &ops, LogDst::new(), LogDst::new());
        for dest in ["shp", "shx"] {
            let (bytes, seeks, flushes) = totals(&if dest == "shp" { h.shp.ops() } else { h.shx.ops() });
            let mut faults: Vec<Fault> = vec![];
            // every byte position in the quick tier would be thousands of runs per workload: every
            // position for seeks and flushes, every 4th byte (the write granularity) for writes
            let step = if tier == "thorough" { 1 } else { 4 };
            let mut k = 0;
            while k < bytes {
                faults.push(Fault::WriteAfter(k));
                k += step;
            }
            for k in 0..seeks {
                faults.push(Fault::SeekAt(k));
            }
            for k in 0..flushes {
                faults.push(Fault::FlushAt(k));
            }
            for fault in faults {
                for persistent in [false, true] {
                    stats.hit(match fault {
                        Fault::WriteAfter(_) => "fault.write",
                        Fault::SeekAt(_) => "fault.seek",
                        Fault::FlushAt(_) => "fault.flush",
                        Fault::None => "fault.none",
                    });
                    judge(out, &Case::Wfault { shx: true, dest: dest.into(), fault, persistent, ops: ops.clone() });
                }
            }
        }
    }
}

// ------------------------------------------------------------------ C13: truncated / failing sources
pub fn oracle_c13(ctors: &[Ctor]) -> Verdict {
    let mut shapes = vec![];
    for c in ctors {
        match build(c) {
            Ok(a) => shapes.push(a),
            Err(_) => return Verdict::pass(),
        }
    }
    let (shp, shx) = write_files(true, &shapes);
    let originals: Vec<SV> = shapes.iter().map(|a| blind_roles(&expected_readback(&sv_of_any(a)))).collect();
    let recs = walk_records(&shp).unwrap();
    let ends: Vec<usize> = recs.iter().map(|(o, l)| *o as usize * 2 + 8 + 2 * *l as usize).collect();
    // every truncation length of the .shp (read without and with the full index)
    for t in 0..=shp.len() {
        let whole = ends.iter().filter(|e| **e <= t).count();
        for with in [false, true] {
            let got = read_items(&shp[..t], if with { Some(&shx) } else { None });
            match got {
                Err(e) if e.starts_with("open err") => {
                    if t >= 100 {
                        return Verdict::fail("truncate-open-error", format!("truncated to {} bytes (complete header): open failed: {}", t, e));
                    }
                    if e != "open err io" {
                        return Verdict::fail("truncate-error-class", format!("truncated to {} bytes: open reported `{}`, not an I/O error", t, e));
                    }
                }
                Err(e) => return Verdict::fail(if e.starts_with("panic") { "truncate-panic" } else { "truncate-runaway" }, format!("truncated to {} bytes: {}", t, e)),
                Ok(items) => {
                    if t < 100 {
                        return Verdict::fail("truncate-open-ok", format!("truncated to {} bytes but the reader opened", t));
                    }
                    let first_err = items.iter().position(|i| i.is_err()).unwrap_or(items.len());
                    let oks: Vec<SV> = items[..first_err].iter().map(|i| blind_roles(i.as_ref().unwrap())).collect();
                    if oks.len() != whole || oks[..] != originals[..whole] {
                        return Verdict::fail("truncate-shapes", format!("truncated to {} bytes (index: {}): {} shapes before the first error, {} records are whole", t, with, oks.len(), whole));
                    }
                    if t < shp.len() {
                        match items.get(first_err) {
                            Some(Err(e)) if e == "io" => {}
                            other => return Verdict::fail("truncate-cut-record", format!("truncated to {} bytes: the cut record was reported as {:?}", t, other)),
                        }
                    } else if first_err != items.len() {
                        return Verdict::fail("truncate-spurious-error", "complete file read with an error".into());
                    }
                    if items[first_err..].iter().any(|i| i.is_ok()) {
                        return Verdict::fail("truncate-shape-after-error", format!("truncated to {} bytes: a shape was yielded after the error", t));
                    }
                }
            }
        }
    }
    // every truncation of the .shx (complete .shp)
    for t in 0..shx.len() {
        match read_items(&shp, Some(&shx[..t])) {
            Err(e) if e == "open err io" => {}
            other => return Verdict::fail("truncate-shx", format!(".shx truncated to {} bytes: {:?}", t, other.map(|v| v.len()))),
        }
    }
    // a source that fails at its k-th read or seek; a source that returns short reads
    let full = {
        let mut r = ShapeReader::with_shx(Src::new(shp.clone()), Src::new(shx.clone())).unwrap();
        let v: Vec<_> = r.iter_shapes().map(|i| i.map(|s| s.to_sv()).map_err(|e| show_err(&e))).collect();
        v
    };
    for chunk in [1usize, 2, 3, 7] {
        let mut s = Src::new(shp.clone());
        s.chunk = chunk;
        let mut x = Src::new(shx.clone());
        x.chunk = chunk;
        let r = catch_unwind(AssertUnwindSafe(move || {
            let mut r = ShapeReader::with_shx(s, x).map_err(|e| show_err(&e))?;
            let v: Vec<_> = r.iter_shapes().map(|i| i.map(|s| s.to_sv()).map_err(|e| show_err(&e))).collect();
            Ok::<_, String>(v)
        }));
        match r {
            Ok(Ok(v)) if v == full => {}
            Ok(other) => return Verdict::fail("short-read-differs", format!("source returning {} bytes per read: {:?} items", chunk, other.map(|v| v.len()))),
            Err(e) => return Verdict::fail("short-read-panic", panic_msg(&e)),
        }
    }
    // total calls of a full traversal (open + iterate + random access)
    // "yields THAT error": the injected error's kind comes back inside Error::IoError
    let show_k = |e: &Error| -> String {
        match e {
            Error::IoError(io) => format!("io:{:?}", io.kind()),
            other => show_err(other),
        }
    };
    let kinds = [std::io::ErrorKind::Other, std::io::ErrorKind::InvalidData, std::io::ErrorKind::UnexpectedEof, std::io::ErrorKind::TimedOut, std::io::ErrorKind::InvalidInput, std::io::ErrorKind::PermissionDenied, std::io::ErrorKind::BrokenPipe];
    let probe = |fail_at: Option<usize>| -> (Result<Vec<Result<SV, String>>, String>, usize, bool) {
        let mut s = Src::new(shp.clone());
        s.fail_at = fail_at;
        s.fail_kind = kinds[fail_at.unwrap_or(0) % kinds.len()];
        let calls = std::rc::Rc::new(std::cell::Cell::new((0usize, false)));
        let c2 = calls.clone();
        let n = shapes.len();
        let shx2 = shx.clone();
        let r = catch_unwind(AssertUnwindSafe(move || {
            let mut r = match ShapeReader::with_shx(s, Cursor::new(shx2)) {
                Ok(r) => r,
                Err(e) => return Err(format!("open err {}", show_k(&e))),
            };
            let mut v: Vec<Result<SV, String>> = r.iter_shapes().map(|i| i.map(|s| s.to_sv()).map_err(|e| show_k(&e))).collect();
            for i in (0..n).rev() {
                v.push(match r.read_nth_shape(i) {
                    Some(Ok(s)) => Ok(s.to_sv()),
                    Some(Err(e)) => Err(show_k(&e)),
                    None => Err("none".into()),
                });
                // whatever that access did, an iteration begun now starts at the first record
                v.push(match r.iter_shapes().next() {
                    Some(Ok(s)) => Ok(s.to_sv()),
                    Some(Err(e)) => Err(show_k(&e)),
                    None => Err("none".into()),
                });
            }
            let _ = &c2;
            // ... and one more iteration on the same reader: whatever failed before, the items it
            // yields are the file's records from the first on (marked so that they are compared by
            // position with the healthy second iteration)
            v.push(Err("--- second iteration".into()));
            v.extend(r.iter_shapes().map(|i| i.map(|s| s.to_sv()).map_err(|e| show_k(&e))));
            Ok(v)
        }));
        match r {
            Ok(x) => (x, 0, false),
            Err(e) => (Err(format!("panic {}", panic_msg(&e))), 0, false),
        }
    };
    // count calls with a never-failing source
    let total_calls = {
        let s = Src::new(shp.clone());
        let counter = std::rc::Rc::new(std::cell::RefCell::new(s));
        struct Shared(std::rc::Rc<std::cell::RefCell<Src>>);
        impl std::io::Read for Shared {
            fn read(&mut self, b: &mut [u8]) -> std::io::Result<usize> {
                self.0.borrow_mut().read(b)
            }
        }
        impl std::io::Seek for Shared {
            fn seek(&mut self, p: std::io::SeekFrom) -> std::io::Result<u64> {
                self.0.borrow_mut().seek(p)
            }
        }
        let mut r = ShapeReader::with_shx(Shared(counter.clone()), Cursor::new(shx.clone())).unwrap();
        let _: Vec<_> = r.iter_shapes().collect();
        for i in (0..shapes.len()).rev() {
            let _ = r.read_nth_shape(i);
            let _ = r.iter_shapes().next();
        }
        let _: Vec<_> = r.iter_shapes().collect();
        let n = counter.borrow().calls;
        n
    };
    let (healthy, _, _) = probe(None);
    let healthy = match healthy {
        Ok(v) => v,
        Err(e) => return Verdict::fail("source-healthy", e),
    };
    for k in 0..total_calls {
        let (got, _, _) = probe(Some(k));
        let want = format!("io:{:?}", kinds[k % kinds.len()]);
        match got {
            Err(e) if e == format!("open err {}", want) => {}
            Err(e) => return Verdict::fail(if e.starts_with("panic") { "source-fault-panic" } else { "source-fault-open" }, format!("source failing at call {}: {}", k, e)),
            Ok(v) => {
                // exactly one call saw the failure: it must report an I/O error; every Ok item must
                // be the genuine shape at that position
                if !v.iter().any(|i| matches!(i, Err(e) if *e == want)) {
                    return Verdict::fail("source-fault-swallowed", format!("source failing at call {} with an error of kind {}: no call reported that error (errors reported: {:?})", k, &want[3..], v.iter().filter_map(|i| i.as_ref().err()).collect::<Vec<_>>()));
                }
                // layout of the traversal: n iteration items; then for i = n-1..0 the random access at
                // i and the first item of a new iteration; a marker; a last full iteration
                let n = shapes.len();
                let rec = |j: usize| healthy.get(j).and_then(|h| h.as_ref().ok());
                for (pos, (g, h)) in v.iter().zip(healthy.iter()).enumerate() {
                    let g = match g {
                        Ok(g) => g,
                        Err(_) => continue,
                    };
                    let is_first_after = pos >= n && pos < 3 * n && (pos - n) % 2 == 1;
                    let in_last = pos > 3 * n;
                    let ok = if is_first_after {
                        // a successful access rewinds the cursor; a failed one either did so too or
                        // left it where the previous one-item iteration had put it (after record 0):
                        // never at the record it was asked for
                        Some(g) == rec(0) || (n > 1 && Some(g) == rec(1))
                    } else if in_last {
                        // genuine records, wherever the (possibly failed) calls before left the cursor
                        (0..n).any(|j| Some(g) == rec(j))
                    } else {
                        Ok(g) == h.as_ref()
                    };
                    if !ok {
                        return Verdict::fail("source-fault-wrong-shape", format!("source failing at call {}: result #{} of the traversal (iteration; random access at n-1..0, each followed by the first item of a new iteration; a full iteration) is {} where the healthy traversal has {:?}", k, pos, show_sv(g), h.as_ref().map(|s| show_sv(s))));
                    }
                }
            }
        }
    }
    Verdict::pass()
}

// ------------------------------------------------------------------ C15: reader histories
pub fn oracle_c15(target: &str, shp: &[u8], shx: Option<&[u8]>, ops: &[ROp]) -> Verdict {
    let shx = match shx {
        Some(x) => x,
        None => return Verdict::pass(),
    };
    // the records, by a fresh full read
    let records: Vec<String> = match read_items(shp, Some(shx)) {
        Ok(items) if items.iter().all(|i| i.is_ok()) => items.into_iter().map(|i| show_sv(&i.unwrap())).collect(),
        _ => return Verdict::pass(), // not a clean file: C15 is about valid files
    };
    let n = records.len();
    // a typed history over a file that holds records of another type (a null record in the middle)
    // is judged by the correspondence with the model, not by this oracle
    if target != "generic" && v_read(target, shp, Some(shx)).contains("err") {
        return Verdict::pass();
    }
    let real = v_rhist(target, shp, Some(shx), ops);
    // the same history through a source that returns five bytes per read call
    {
        let cap = item_cap(shp.len(), shx.len());
        let mk = |d: &[u8]| crate::round4::ChunkSrc { data: d.to_vec(), pos: 0, chunk: 5 };
        let chunked = crate::with_type!(target, T => rhist_as::<T, _>(mk(shp), Some(mk(shx)), ops, cap), else rhist_as::<Shape, _>(mk(shp), Some(mk(shx)), ops, cap));
        if chunked != real {
            return Verdict::fail("history-short-reads", format!("through a source returning 5 bytes per read the history gives `{}`, through a cursor `{}`", &chunked[..chunked.len().min(200)], &real[..real.len().min(200)]));
        }
    }
    let mut parts: Vec<&str> = vec![];
    // split "open ok ; a ; it[x ; y] ; b" at top-level " ; "
    {
        let body = match real.strip_prefix("open ok ; ") {
            Some(b) => b,
            None => return Verdict::fail("history-open", real.clone()),
        };
        let mut depth = 0;
        let mut start = 0;
        let bytes = body.as_bytes();
        let mut i = 0;
        while i < bytes.len() {
            match bytes[i] {
                b'[' => depth += 1,
                b']' => depth -= 1,
                b' ' if depth == 0 && body[i..].starts_with(" ; ") => {
                    parts.push(&body[start..i]);
                    start = i + 3;
                    i += 2;
                }
                _ => {}
            }
            i += 1;
        }
        parts.push(&body[start..]);
    }
    if parts.len() != ops.len() {
        return Verdict::fail("history-shape", format!("{} results for {} operations", parts.len(), ops.len()));
    }
    // allowed start positions of the next iteration
    let mut starts: Vec<usize> = vec![0];
    for (i, (op, got)) in ops.iter().zip(parts.iter()).enumerate() {
        match op {
            ROp::Count => {
                if *got != format!("count {}", n) {
                    return Verdict::fail("count-changed", format!("op {}: shape_count returned `{}` for {} records", i, got, n));
                }
            }
            ROp::Nth(k) => {
                let want = if *k < n { format!("ok {}", records[*k]) } else { "none".to_string() };
                if *got != want {
                    return Verdict::fail("nth-wrong-record", format!("op {}: random access at {} did not return record {}", i, k, k));
                }
                if *k < n {
                    starts = vec![0];
                }
            }
            ROp::Seek(k) => {
                if *got != "unit" {
                    return Verdict::fail("seek-error", format!("op {}: seek({}) returned {}", i, k, got));
                }
                starts = vec![(*k).min(n)];
            }
            ROp::Hint => {
                if !starts.iter().any(|s| *got == format!("hint {}", n - s)) {
                    return Verdict::fail("size-hint", format!("op {}: size hint `{}` with {} records, allowed starts {:?}", i, got, n, starts));
                }
            }
            ROp::It(k) => {
                let inner = got.strip_prefix("it[").and_then(|g| g.strip_suffix(']')).unwrap_or("");
                let items: Vec<&str> = if inner.is_empty() { vec![] } else { inner.split(" ; ").collect() };
                let mut matched: Vec<usize> = vec![];
                for s in &starts {
                    let end = if *k == 99 { n } else { (*s + *k).min(n) };
                    let want: Vec<String> = (*s..end).map(|j| format!("ok {}", records[j])).collect();
                    if items.len() == want.len() && items.iter().zip(want.iter()).all(|(a, b)| a == b) {
                        matched.push(end);
                    }
                }
                if matched.is_empty() {
                    let first = items.first().map(|s| &s[..s.len().min(40)]).unwrap_or("(nothing)");
                    return Verdict::fail("iteration-wrong-sequence", format!("op {}: iteration yielded {} items starting with `{}`; allowed starts were {:?} of {} records", i, items.len(), first, starts, n));
                }
                let mut next: Vec<usize> = matched;
                next.push(0);
                next.sort();
                next.dedup();
                starts = next;
            }
        }
    }
    Verdict::pass()
}

pub fn cases_rhist(tier: &str, rng: &mut Rng, stats: &mut Stats, out: &mut Out) {
    let max_len = if tier == "thorough" { 5 } else { 3 };
    let n = 4usize;
    // two size profiles: pairwise different record sizes, and equal sizes
    let mut files: Vec<(Vec<u8>, Vec<u8>, String)> = vec![];
    {
        let mk = |k: usize| -> Vec<P> { (0..k + 2).map(|j| P::new(Dim::Xy, bits((k * 10 + j) as f64), bits(j as f64), 0, 0)).collect() };
        let shapes: Vec<Any> = (0..n).map(|k| build(&Ctor::Polyline(Dim::Xy, mk(k))).unwrap()).collect();
        let (shp, shx) = write_files(true, &shapes);
        files.push((shp, shx, "Polyline".into()));
        let shapes: Vec<Any> = (0..n).map(|k| build(&Ctor::Point(Dim::Xyzm, P::new(Dim::Xyzm, bits(k as f64), bits(1.0), bits(2.0), bits(3.0)))).unwrap()).collect();
        let (shp, shx) = write_files(true, &shapes);
        files.push((shp, shx, "PointZ".into()));
        // a polyline file whose second feature has no geometry (a null record in the middle)
        let (pshp, _) = (files[0].0.clone(), ());
        if let Ok(recs) = walk_records(&pshp) {
            let mut f = pshp[..100].to_vec();
            let mut x = pshp[..100].to_vec();
            for (i, (off, len)) in recs.iter().enumerate() {
                let start = f.len();
                if i == 1 {
                    f.extend_from_slice(&[0, 0, 0, 2, 0, 0, 0, 2, 0, 0, 0, 0]);
                    x.extend_from_slice(&((start / 2) as i32).to_be_bytes());
                    x.extend_from_slice(&2i32.to_be_bytes());
                } else {
                    let a = *off as usize * 2;
                    f.extend_from_slice(&pshp[a..a + 8 + *len as usize * 2]);
                    x.extend_from_slice(&((start / 2) as i32).to_be_bytes());
                    x.extend_from_slice(&(*len as i32).to_be_bytes());
                }
            }
            let total = (f.len() / 2) as i32;
            f[24..28].copy_from_slice(&total.to_be_bytes());
            let xt = (x.len() / 2) as i32;
            x[24..28].copy_from_slice(&xt.to_be_bytes());
            files.push((f, x, "generic".into()));
        }
        // the same polylines stored in reverse physical order (an edited dataset): located by the index
        let (pf, px) = crate::round4::permuted_polylines(n);
        files.push((pf, px, "Polyline".into()));
    }
    let alphabet: Vec<ROp> = vec![ROp::It(0), ROp::It(1), ROp::It(2), ROp::It(99), ROp::Nth(0), ROp::Nth(2), ROp::Nth(4), ROp::Seek(0), ROp::Seek(2), ROp::Seek(4), ROp::Seek(5), ROp::Count, ROp::Hint, ROp::Nth(3), ROp::Seek(3), ROp::Seek(1)];
    let core = 12; // the first `core` symbols are enumerated exhaustively
    for (fi, (shp, shx, tn)) in files.iter().enumerate() {
        for len in 1..=max_len {
            let total = core.min(alphabet.len()).pow(len as u32);
            let limit = if tier == "thorough" { 30000 } else { 2200 };
            for idx in 0..total {
                if total > limit && rng.below(total) >= limit {
                    continue;
                }
                let mut x = idx;
                let mut ops = vec![];
                for _ in 0..len {
                    ops.push(alphabet[x % core]);
                    x /= core;
                }
                if rng.chance(1, 4) {
                    let at = rng.below(ops.len());
                    ops[at] = alphabet[rng.below(alphabet.len())];
                }
                stats.hit(&format!("rhist.len.{}", len));
                let target = if (idx + fi) % 3 == 0 { tn.clone() } else { "generic".to_string() };
                judge(out, &Case::Rhist { target, shp: shp.clone(), shx: Some(shx.clone()), ops });
            }
        }
        // without index: second iteration yields the rest (nothing) or everything
        for ops in [vec![ROp::It(99), ROp::It(99)], vec![ROp::It(1), ROp::It(99)], vec![ROp::It(2), ROp::It(1), ROp::It(99), ROp::It(99)]] {
            let c = Case::Rhist { target: "generic".into(), shp: shp.clone(), shx: None, ops: ops.clone() };
            let (id, res) = out.case(&c);
            // reference: continue from where the previous iteration stopped, or restart
            let all = read_items(shp, None).unwrap();
            let recs: Vec<String> = all.into_iter().map(|i| format!("ok {}", show_sv(&i.unwrap()))).collect();
            let mut starts = vec![0usize];
            let mut ok = res.starts_with("open ok ; ");
            if ok {
                let body = &res["open ok ; ".len()..];
                let its: Vec<&str> = body.split("] ; ").collect();
                for (op, got) in ops.iter().zip(its.iter()) {
                    let inner = got.trim_start_matches("it[").trim_end_matches(']');
                    let items: Vec<&str> = if inner.is_empty() { vec![] } else { inner.split(" ; ").collect() };
                    let k = if let ROp::It(k) = op { *k } else { 0 };
                    let mut matched = vec![];
                    for s in &starts {
                        let end = if k == 99 { recs.len() } else { (*s + k).min(recs.len()) };
                        if items.len() == end - s && items.iter().zip(recs[*s..end].iter()).all(|(a, b)| a == b) {
                            matched.push(end);
                        }
                    }
                    if matched.is_empty() {
                        ok = false;
                        break;
                    }
                    matched.push(0);
                    starts = matched;
                }
            }
            out.verdict(&id, &show_case(&c), if ok { Verdict::pass() } else { Verdict::fail("iteration-wrong-sequence-noindex", format!("without index: {}", &res[..res.len().min(160)])) });
        }
    }
}

// ------------------------------------------------------------------ macros (C16)
pub fn macro_cases(out: &mut Out) {
    use shapefile::{multipatch, polygon};
    let id = out.oracle_only_id();
    let p = polygon! {
        Outer((0.0, 0.0), (1.0, 0.0), (1.0, 1.0), (0.0, 1.0)),
        Inner((0.25, 0.25), (0.25, 0.75), (0.75, 0.75), (0.75, 0.25), (0.25, 0.25)),
    };
    let q = Polygon::with_rings(vec![
        PolygonRing::Outer(vec![Point::new(0.0, 0.0), Point::new(1.0, 0.0), Point::new(1.0, 1.0), Point::new(0.0, 1.0)]),
        PolygonRing::Inner(vec![Point::new(0.25, 0.25), Point::new(0.25, 0.75), Point::new(0.75, 0.75), Point::new(0.75, 0.25), Point::new(0.25, 0.25)]),
    ]);
    let pz = polygon! { Inner((0.0, 0.0, 5.0, 1.0), (0.0, 2.0, 5.0, 1.0), (2.0, 2.0, 5.0, 1.0)) };
    let qz = PolygonZ::with_rings(vec![PolygonRing::Inner(vec![PointZ::new(0.0, 0.0, 5.0, 1.0), PointZ::new(0.0, 2.0, 5.0, 1.0), PointZ::new(2.0, 2.0, 5.0, 1.0)])]);
    let mp = multipatch!(TriangleStrip({x: 0.0, y: 0.0, z: 0.0, m: 1.0}, {x: 1.0, y: 0.0, z: 0.0, m: 1.0}, {x: 1.0, y: 1.0, z: 0.0, m: 1.0}), Ring({x: 0.0, y: 0.0, z: 0.0, m: 1.0}, {x: 2.0, y: 0.0, z: 0.0, m: 1.0}, {x: 2.0, y: 2.0, z: 0.0, m: 1.0}));
    let mq = Multipatch::with_parts(vec![
        Patch::TriangleStrip(vec![PointZ::new(0.0, 0.0, 0.0, 1.0), PointZ::new(1.0, 0.0, 0.0, 1.0), PointZ::new(1.0, 1.0, 0.0, 1.0)]),
        Patch::Ring(vec![PointZ::new(0.0, 0.0, 0.0, 1.0), PointZ::new(2.0, 0.0, 0.0, 1.0), PointZ::new(2.0, 2.0, 0.0, 1.0)]),
    ]);
    let ok = p == q && pz == qz && mp == mq;
    let closed = p.rings().iter().all(|r| r.points().first() == r.points().last()) && pz.rings().iter().all(|r| r.points().first() == r.points().last());
    out.verdict(&id, "macros polygon!/multipatch!", if ok && closed { Verdict::pass() } else { Verdict::fail("ring-macro", "polygon!/multipatch! do not build what the constructors build".into()) });
    // the macro-built values through the constructor oracle
    for c in [
        Ctor::PolygonRings(Dim::Xy, vec![(Role::Outer, vec![P::new(Dim::Xy, bits(0.0), bits(0.0), 0, 0), P::new(Dim::Xy, bits(1.0), bits(0.0), 0, 0), P::new(Dim::Xy, bits(1.0), bits(1.0), 0, 0), P::new(Dim::Xy, bits(0.0), bits(1.0), 0, 0)])]),
    ] {
        if sv_of_any(&build(&c).unwrap()) != sv_of_any(&Any::Polygon(polygon! { Outer((0.0, 0.0), (1.0, 0.0), (1.0, 1.0), (0.0, 1.0)) })) {
            let id = out.oracle_only_id();
            out.verdict(&id, &show_ctor(&c), Verdict::fail("ring-macro", "polygon! differs from with_rings".into()));
        }
    }
}

// dbase and geo-types producers live in their own files
pub use crate_dbf::{cases_dbf, cases_dbf_c10, oracle_batch_rejected, cases_pairs_c15, oracle_c08, oracle_path_overwrite, v_dbfhist, v_prhist, PairOp};

/// replay of oracle-only scenarios (`scenario <name> <args>` lines in replay files)
pub fn oracle_scenario(prop: &str, a: &[String]) -> Option<Verdict> {
    match (prop, a.first().map(|s| s.as_str())) {
        ("C11", Some("torn-length")) => Some(oracle_c11_torn(a.get(1)?.parse().ok()?, a.get(2)?.parse().ok()?)),
        ("C20", Some("geo-collections")) => Some(crate_geo::oracle_c20_collections()),
        (_, Some("big-index")) => Some(crate::round3::oracle_big_index(a.get(1)?.parse().ok()?)),
        (_, Some("far-records")) => Some(crate::round3::oracle_far_records()),
        (_, Some("typed-nth-failure")) => Some(crate::round3::oracle_typed_nth_failure()),
        (_, Some("custom-rejected")) => Some(crate::round3::oracle_custom_rejected(a.get(1)?)),
        (_, Some("header-code-version")) => {
            let code: i32 = a.get(1)?.parse().ok()?;
            let v = u32::from_str_radix(a.get(2)?, 16).ok()?;
            Some(crate::round3::oracle_header_code_any_version(code, v.to_be_bytes()))
        }
        (_, Some("path-hostile-index")) => Some(crate::round8::oracle_path_hostile_index(a.get(1)?.parse().ok()?)),
        (_, Some("bulk-read-nulls")) => Some(crate::round9::oracle_bulk_read_with_nulls()),
        (_, Some("bare-record-code")) => Some(crate::round9::oracle_bare_record_code(a.get(1)?.parse().ok()?)),
        (_, Some("batch-rejected")) => Some(oracle_batch_rejected(a.get(1)?, a.get(2)?.parse().ok()?, a.get(3)?.parse().ok()?)),
        (_, Some("nth-after-failed-nth")) => Some(crate::round8::oracle_nth_after_failed_nth()),
        (_, Some("truncated-empty-shapes")) => Some(crate::round8::oracle_truncated_empty_shapes(a.get(1)?.parse().ok()?, a.get(2)?.parse().ok()?)),
        (_, Some("failed-write-then-finalize")) => Some(crate::round7::oracle_failed_write_then_finalize(a.get(1)?, a.get(2)?.parse().ok()?, a.get(3)?.parse().ok()?)),
        (_, Some("bulk-write-faults")) => Some(crate::round7::oracle_bulk_write_faults()),
        (_, Some("reverse-truncated")) => Some(crate::round7::oracle_reverse_truncated()),
        (_, Some("sparse-record-numbers")) => Some(crate::round7::oracle_sparse_record_numbers()),
        (_, Some("after-large-dataset")) => Some(crate::round7::oracle_after_large_dataset()),
        (_, Some("path-foreign-layout")) => Some(crate::round6::oracle_path_foreign_layout()),
        (_, Some("path-trailing")) => Some(crate::round6::oracle_path_trailing()),
        (_, Some("path-uppercase")) => Some(crate::round6::oracle_path_uppercase()),
        (_, Some("path-truncated")) => Some(crate::round6::oracle_path_truncated()),
        (_, Some("chunked-destination")) => Some(crate::round6::oracle_chunked_destination(a.get(1)?.parse().ok()?)),
        (_, Some("iter-adaptors")) => Some(crate::round5::oracle_iter_adaptors(a.get(1)?.parse().ok()?)),
        (_, Some("big-index-routes")) => Some(crate::round5::oracle_big_index_routes(a.get(1)?.parse().ok()?)),
        (_, Some("gap-faults")) => Some(crate::round5::oracle_gap_faults()),
        (_, Some("header-code-ranges")) => Some(crate::round5::oracle_header_code_ranges(a.get(1)?.parse().ok()?, a.get(2)?.parse().ok()?)),
        (_, Some("panic-drop")) => Some(crate::round4::oracle_panic_drop(a.get(1)?.parse().ok()?)),
        (_, Some("reused-destinations")) => Some(crate::round4::oracle_reused_destinations(a.get(1)?.parse().ok()?, a.get(2)?.parse().ok()?)),
        (_, Some("read-vs-readas")) => Some(crate::round4::oracle_read_vs_readas()),
        (_, Some("write-shapes-rejected")) => Some(crate::round4::oracle_write_shapes_rejected(a.get(1)?.parse().ok()?)),
        (_, Some("gap-chunked")) => Some(crate::round4::oracle_gap_chunked(a.get(1)?.parse().ok()?)),
        (_, Some("empty-index")) => Some(crate::round4::oracle_empty_index()),
        (_, Some("collect-peak")) => Some(crate::round4::oracle_collect_peak(a.get(1)?.parse().ok()?)),
        (_, Some("size-after-failed-write")) => Some(crate::round4::oracle_size_after_failed_write()),
        (_, Some("header-code-chunked")) => Some(crate::round4::oracle_header_code_chunked(a.get(1)?.parse().ok()?, a.get(2)?.parse().ok()?)),
        (_, Some("long-part")) => Some(crate::round4::oracle_long_part(a.get(1)?.parse().ok()?, a.get(2)?.parse().ok()?)),
        (_, Some("pairs-roundtrip")) => Some(crate_dbf::oracle_c08_roundtrip(a.get(1)?, a.get(2)?.parse().ok()?)),
        (_, Some("reader-pairs-noshx")) => Some(crate_dbf::oracle_c15_pairs_noshx(a.get(1)?, a.get(2)?.parse().ok()?, a.get(3)?.parse().ok()?)),
        _ => crate_dbf::oracle_scenario_dbf(prop, a),
    }
}
pub use crate_geo::{cases_geo, parse_geocase, run_geocase, show_geocase, GeoCase, oracle_c20_shape, oracle_c20_geo, oracle_c20_dims};
#[path = "dbf.rs"]
mod crate_dbf;
#[path = "geo.rs"]
mod crate_geo;

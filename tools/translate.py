#!/usr/bin/env python3
"""Rust source -> Lean tables (DESIGN §4.1, phase 1).

Reads /repo/src (or $VERIF_REPO/src) and writes lean/Shp/Gen/Tables.lean.  Only constructs
that are reliably syntactic are transcribed: enum discriminants, match tables, `matches!`
lists, `impl HasShapeType` bodies, the affine size expressions of `size_in_bytes` /
`size_of_record`, and a handful of constants.  Anything it cannot parse raises
TranslateError: the caller reports that as a broken tie, never as silence.
"""
import os
import re
import struct
import sys

REPO = os.environ.get("VERIF_REPO", "/repo")
OUT = os.environ.get("VERIF_TABLES_OUT") or os.path.join(os.path.dirname(os.path.abspath(__file__)), "..", "lean", "Shp", "Gen", "Tables.lean")


class TranslateError(Exception):
    pass


def read(rel):
    with open(os.path.join(REPO, "src", rel)) as f:
        return f.read()


def strip_comments(s):
    s = re.sub(r"/\*.*?\*/", "", s, flags=re.S)
    s = re.sub(r"//[^\n]*", "", s)
    return s


def lname(rust):
    """Rust CamelCase variant -> Lean constructor name."""
    return rust[0].lower() + rust[1:]


def body_after(src, header_re, what):
    """Return the brace-balanced body following the first match of header_re."""
    m = re.search(header_re, src)
    if not m:
        raise TranslateError(f"cannot find {what} (pattern {header_re!r})")
    i = src.index("{", m.end() - 1)
    depth = 0
    for j in range(i, len(src)):
        if src[j] == "{":
            depth += 1
        elif src[j] == "}":
            depth -= 1
            if depth == 0:
                return src[i + 1 : j]
    raise TranslateError(f"unbalanced braces after {what}")


# ------------------------------------------------------------------ ShapeType tables
def parse_shapetype(lib):
    body = body_after(lib, r"pub enum ShapeType\s*\{", "enum ShapeType")
    variants = re.findall(r"(\w+)\s*=\s*(-?\d+)\s*,", body)
    if not variants:
        raise TranslateError("enum ShapeType has no `Name = n,` variants")
    names = [v for v, _ in variants]
    rest = re.sub(r"(\w+)\s*=\s*(-?\d+)\s*,", "", body).strip()
    if rest:
        raise TranslateError(f"enum ShapeType: unparsed remainder {rest!r}")
    impl = body_after(lib, r"impl ShapeType\s*\{", "impl ShapeType")
    frm = body_after(impl, r"pub fn from\(code: i32\) -> Option<ShapeType>\s*\{", "ShapeType::from")
    frm = body_after(frm, r"match code\s*\{", "ShapeType::from match")
    arms = re.findall(r"(-?\d+)\s*=>\s*Some\(ShapeType::(\w+)\)\s*,", frm)
    rest = re.sub(r"(-?\d+)\s*=>\s*Some\(ShapeType::(\w+)\)\s*,", "", frm)
    rest = re.sub(r"_\s*=>\s*None\s*,", "", rest).strip()
    if rest:
        raise TranslateError(f"ShapeType::from: unparsed arms {rest!r}")

    def matches_list(fn):
        b = body_after(impl, r"pub fn %s\(self\) -> bool\s*\{" % fn, fn)
        m = re.fullmatch(r"\s*(!?)\s*matches!\(\s*self\s*,(.*)\)\s*", b, flags=re.S)
        if not m:
            raise TranslateError(f"{fn}: body is not a single matches!(self, ...)")
        items = [x.strip() for x in m.group(2).split("|")]
        out = []
        for it in items:
            mm = re.fullmatch(r"ShapeType::(\w+)", it)
            if not mm:
                raise TranslateError(f"{fn}: unparsed alternative {it!r}")
            out.append(mm.group(1))
        return (m.group(1) == "!"), out

    preds = {fn: matches_list(fn) for fn in ("has_z", "has_m", "is_multipart")}
    disp = body_after(lib, r"impl fmt::Display for ShapeType\s*\{", "Display for ShapeType")
    dnames = re.findall(r'ShapeType::(\w+)\s*=>\s*write!\(f,\s*"([^"]*)"\)', disp)
    if len(dnames) != len(names):
        raise TranslateError("Display for ShapeType: arm count differs from variant count")
    return names, variants, arms, preds, dnames


# ------------------------------------------------------------------ Shape enum tables
def parse_shape_tables(mod):
    body = body_after(mod, r"pub enum Shape\s*\{", "enum Shape")
    variants = re.findall(r"(\w+)(?:\((\w+)\))?\s*,", body)
    st = body_after(mod, r"pub fn shapetype\(&self\) -> ShapeType\s*\{", "Shape::shapetype")
    st = body_after(st, r"match self\s*\{", "Shape::shapetype match")
    st_arms = re.findall(r"Shape::(\w+)(?:\(_\))?\s*=>\s*ShapeType::(\w+)\s*,", st)
    if len(st_arms) != len(variants):
        raise TranslateError("Shape::shapetype: arm count differs from variant count")
    rd = body_after(mod, r"impl ReadableShape for Shape\s*\{", "ReadableShape for Shape")
    rd = body_after(rd, r"match shapetype\s*\{", "Shape::read_from dispatch")
    d1 = re.findall(
        r"ShapeType::(\w+)\s*=>\s*\{?\s*Shape::(\w+)\(\s*(\w+)::read_shape_content\(&mut source, record_size\)\?\s*\)", rd
    )
    d0 = re.findall(r"ShapeType::(\w+)\s*=>\s*Shape::(\w+)\s*,", rd)
    disp = [(t, v, r) for t, v, r in d1] + [(t, v, None) for t, v in d0]
    if len(disp) != len(variants):
        raise TranslateError(f"Shape::read_from: {len(disp)} dispatch arms for {len(variants)} variants")
    conv = re.findall(r"impl_to_way_conversion!\(Shape::(\w+)\s*<=>\s*(\w+)\);", mod)
    tf = body_after(mod, r"macro_rules! impl_try_from_shape\s*\{", "impl_try_from_shape")
    m = re.search(r"requested:\s*Self::shapetype\(\)\s*,\s*actual:\s*shape\.shapetype\(\)", tf)
    if not m:
        raise TranslateError("impl_try_from_shape: mismatch error is not {requested: Self::shapetype(), actual: shape.shapetype()}")
    rf = body_after(mod, r"impl<S: ConcreteReadableShape> ReadableShape for S\s*\{", "typed read_from")
    if not re.search(r"if shapetype == Self::shapetype\(\)", rf) or not re.search(
        r"requested:\s*Self::shapetype\(\)\s*,\s*actual:\s*shapetype\s*,", rf
    ):
        raise TranslateError("typed read_from: type test / mismatch fields not in the expected form")
    return variants, st_arms, disp, conv


def parse_has_shapetype(files):
    out = {}
    for rel, src in files.items():
        for m in re.finditer(
            r"impl HasShapeType for (\w+)\s*\{\s*fn shapetype\(\) -> ShapeType\s*\{\s*ShapeType::(\w+)\s*\}\s*\}", src
        ):
            out[m.group(1)] = m.group(2)
    return out


# ------------------------------------------------------------------ affine size terms
class Aff:
    """c0 + cparts*parts + cpoints*points"""

    def __init__(self, c0=0, cparts=0, cpoints=0):
        self.c = (c0, cparts, cpoints)

    def __add__(self, o):
        o = aff(o)
        return Aff(*[a + b for a, b in zip(self.c, o.c)])

    __radd__ = __add__

    def __mul__(self, o):
        o = aff(o)
        if self.c[1] == 0 and self.c[2] == 0:
            return Aff(*[self.c[0] * b for b in o.c])
        if o.c[1] == 0 and o.c[2] == 0:
            return Aff(*[a * o.c[0] for a in self.c])
        raise TranslateError("non-affine size expression")

    __rmul__ = __mul__

    def __repr__(self):
        return f"Aff({self.c[0]}, {self.c[1]}, {self.c[2]})"


def aff(x):
    return x if isinstance(x, Aff) else Aff(int(x))


SIZES = {"f64": 8, "i32": 4, "Point": 16, "PointM": 24, "PointZ": 32}


def eval_size_expr(e, env):
    e = e.strip()
    e = re.sub(r"size_of::<(\w+)>\(\)", lambda m: str(SIZES[m.group(1)]) if m.group(1) in SIZES else "UNKNOWN", e)
    e = re.sub(r"std::mem::", "", e)
    e = re.sub(r"i64::from\((\w+)\)", r"\1", e)
    e = re.sub(r"\s+as\s+(i64|usize|i32)", "", e)
    e = re.sub(r"self\.(parts|rings|patches)\.len\(\)", "PARTS", e)
    e = re.sub(r"self\.points\.len\(\)", "POINTS", e)
    e = re.sub(r"self\.total_point_count\(\)", "POINTS", e)
    e = re.sub(r"\bnum_points\b", "POINTS", e)
    e = re.sub(r"\bnum_parts\b", "PARTS", e)
    e = re.sub(r"\b0(usize|i64|_usize)\b", "0", e)
    if not re.fullmatch(r"[\d\s*+()A-Z]+", e):
        raise TranslateError(f"size expression not understood: {e!r}")
    try:
        return aff(eval(e, {"__builtins__": {}}, dict(PARTS=Aff(0, 1, 0), POINTS=Aff(0, 0, 1), **env)))
    except TranslateError:
        raise
    except Exception as ex:  # noqa
        raise TranslateError(f"size expression {e!r}: {ex}")


def eval_size_body(body, known_records):
    """returns (base Aff, m-delta Aff) for a `let mut size = ..; size += ..; [if is_m_used {..}] size` body"""
    body = strip_comments(body)
    # split off an `if is_m_used { ... }` block
    mdelta = Aff()
    m = re.search(r"if is_m_used\s*\{(.*?)\}", body, flags=re.S)
    if m:
        for st in [x.strip() for x in m.group(1).split(";") if x.strip()]:
            mm = re.fullmatch(r"size\s*\+=\s*(.*)", st, flags=re.S)
            if not mm:
                raise TranslateError(f"size body (m block): unparsed statement {st!r}")
            mdelta = mdelta + eval_size_expr(mm.group(1), {})
        body = body[: m.start()] + body[m.end() :]
    base = None
    stmts = [x.strip() for x in body.split(";") if x.strip()]
    for st in stmts:
        if re.fullmatch(r"let (\w+) = i64::from\(\1\)", st):
            continue
        mm = re.fullmatch(r"let mut size(?::\s*\w+)? = (.*)", st, flags=re.S)
        if mm:
            rhs = mm.group(1).strip()
            call = re.fullmatch(r"(\w+)::size_of_record\(([^)]*)\)", rhs)
            if call:
                if call.group(1) not in known_records:
                    raise TranslateError(f"size body refers to unknown {call.group(1)}::size_of_record")
                base = known_records[call.group(1)][0]
            else:
                base = eval_size_expr(rhs, {})
            continue
        mm = re.fullmatch(r"size\s*\+=\s*(.*)", st, flags=re.S)
        if mm:
            if base is None:
                raise TranslateError("size += before let mut size")
            base = base + eval_size_expr(mm.group(1), {})
            continue
        if st == "size":
            continue
        if base is None and len(stmts) == 1:
            base = eval_size_expr(st, {})
            continue
        raise TranslateError(f"size body: unparsed statement {st!r}")
    if base is None:
        raise TranslateError("size body: no value")
    return base, mdelta


TYPE_OF_ALIAS = {  # Rust concrete type name -> (file, impl header regex fragment)
    "Point": ("record/point.rs", "Point"),
    "PointM": ("record/point.rs", "PointM"),
    "PointZ": ("record/point.rs", "PointZ"),
    "Multipoint": ("record/multipoint.rs", "Multipoint"),
    "MultipointM": ("record/multipoint.rs", "MultipointM"),
    "MultipointZ": ("record/multipoint.rs", "MultipointZ"),
    "Polyline": ("record/polyline.rs", "Polyline"),
    "PolylineM": ("record/polyline.rs", "PolylineM"),
    "PolylineZ": ("record/polyline.rs", "PolylineZ"),
    "Polygon": ("record/polygon.rs", "Polygon"),
    "PolygonM": ("record/polygon.rs", "PolygonM"),
    "PolygonZ": ("record/polygon.rs", "PolygonZ"),
    "Multipatch": ("record/multipatch.rs", "Multipatch"),
}


def parse_sizes(files):
    in_bytes = {}
    for ty, (rel, name) in TYPE_OF_ALIAS.items():
        src = files[rel]
        impl = body_after(src, r"impl WritableShape for %s\s*\{" % name, f"WritableShape for {name}")
        b = body_after(impl, r"fn size_in_bytes\(&self\) -> usize\s*\{", f"{name}::size_in_bytes")
        base, md = eval_size_body(b, {})
        in_bytes[ty] = base
    records = {}
    for ty in ["Multipoint", "MultipointM", "MultipointZ", "Polyline", "PolylineM", "PolylineZ", "Multipatch"]:
        rel, name = TYPE_OF_ALIAS[ty]
        src = files[rel]
        # the inherent impl block that contains size_of_record for this alias
        found = None
        for m in re.finditer(r"impl %s\s*\{" % name, src):
            blk = body_after(src[m.start() :], r"impl %s\s*\{" % name, f"impl {name}")
            if "fn size_of_record" in blk:
                found = blk
                break
        if found is None:
            raise TranslateError(f"{name}::size_of_record not found")
        b = body_after(found, r"fn size_of_record\([^)]*\)\s*->\s*\w+\s*\{", f"{name}::size_of_record")
        records[ty] = eval_size_body(b, records)
    return in_bytes, records


def parse_point_read_sizes(src):
    """record sizes accepted by Point/PointM/PointZ::read_shape_content"""
    out = {}
    for name in ("Point", "PointM", "PointZ"):
        impl = body_after(src, r"impl ConcreteReadableShape for %s\s*\{" % name, f"ConcreteReadableShape for {name}")
        sizes = re.findall(r"record_size == (\d+) \* size_of::<f64>\(\) as i32", impl)
        if not sizes:
            raise TranslateError(f"{name}::read_shape_content: no `record_size == k * size_of::<f64>() as i32` test")
        out[name] = [int(k) * 8 for k in sizes]
    return out


# ------------------------------------------------------------------ patch types, constants
def parse_patch(mp):
    frm = body_after(mp, r"pub fn from\(code: i32\) -> Option<PatchType>\s*\{", "PatchType::from")
    arms = re.findall(r"(-?\d+)\s*=>\s*Some\(PatchType::(\w+)\)\s*,", frm)
    wr = re.findall(r"Patch::(\w+)\(_\)\s*=>\s*wrt\.dst\.write_i32::<LittleEndian>\((\d+)\)\?", mp)
    rd = re.findall(r"PatchType::(\w+)\s*=>\s*Patch::(\w+)\(points\)", mp)
    if not arms or len(arms) != len(wr) or len(arms) != len(rd):
        raise TranslateError("PatchType tables: from/write/read arm counts differ")
    closes = re.findall(r"Patch::(\w+)\((_|points)\)\s*=>\s*(\{\}|close_points_if_not_already\(points\))\s*,?", mp)
    if len(closes) != len(arms):
        raise TranslateError("Multipatch::with_parts: closing table arm count differs")
    return arms, wr, rd, closes


def f64_bits(text):
    return struct.unpack("<Q", struct.pack("<d", float(text)))[0]


def const_int(expr):
    """value of a constant integer expression made of literals, + - * << and parentheses"""
    e = re.sub(r"(?<=\d)_(?=\d)", "", expr)
    e = re.sub(r"(\d)(usize|u64|u32|i32|i64)\b", r"\1", e).strip()
    if not re.fullmatch(r"[\d\s+\-*()<]+", e):
        raise TranslateError(f"constant expression not understood: {expr.strip()}")
    try:
        return int(eval(e, {"__builtins__": {}}))
    except Exception:
        raise TranslateError(f"constant expression not understood: {expr.strip()}")


def parse_public_consts(files, executed=None):
    """constants that show in the bytes: read off the bytes when the crate could be executed"""
    if executed:
        return dict(executed)
    c = {}
    m = re.search(r"const HEADER_SIZE: i32 = (\d+);", files["header.rs"])
    c["headerSize"] = int(m.group(1)) if m else None
    m = re.search(r"const FILE_CODE: i32 = (\d+);", files["header.rs"])
    c["fileCode"] = int(m.group(1)) if m else None
    m = re.search(r"version: (\d+),", files["header.rs"])
    c["version"] = int(m.group(1)) if m else None
    m = re.search(r"pub const NO_DATA: f64 = ([-\de.+]+);", files["record/mod.rs"])
    c["noDataBits"] = f64_bits(m.group(1)) if m else None
    m = re.search(r"const INDEX_RECORD_SIZE: usize = 2 \* std::mem::size_of::<i32>\(\);", files["reader.rs"])
    c["indexRecordSize"] = 8 if m else None
    m = re.search(r"pub\(crate\) const SIZE: usize = 2 \* std::mem::size_of::<i32>\(\);", files["record/mod.rs"])
    c["recordHeaderSize"] = 8 if m else None
    return need(c)


def need(c):
    missing = [k for k, v in c.items() if v is None]
    if missing:
        raise TranslateError(f"constants not found in the expected form: {missing}")
    return c


def parse_nodata_cmp(files):
    m = re.search(r"fn is_no_data\(val: f64\) -> bool \{\s*val (<=|<) NO_DATA\s*\}", files["record/mod.rs"])
    return need({"isNoDataLe": None if not m else (1 if m.group(1) == "<=" else 0)})


def parse_prealloc(files):
    m = re.search(r"const\s+MAX_PREALLOCATED_ELEMENTS\s*:\s*usize\s*=\s*([^;]+);", files["record/io.rs"])
    return need({"maxPrealloc": const_int(m.group(1)) if m else None})


def parse_sentinels(files):
    c = {}
    w = strip_comments(files["writer.rs"])
    m = re.search(r"max:\s*PointZ::new\(\s*((?:f64::\w+\s*,?\s*){4})\)\s*,\s*min:\s*PointZ::new\(\s*((?:f64::\w+\s*,?\s*){4})\)", w)
    def sent(txt):
        vals = set(re.findall(r"f64::(\w+)", txt))
        if len(vals) != 1:
            raise TranslateError("writer sentinels: mixed constants")
        v = vals.pop()
        table = {"INFINITY": "inf", "NEG_INFINITY": "-inf", "MAX": repr(sys.float_info.max), "MIN": repr(-sys.float_info.max)}
        if v not in table:
            raise TranslateError(f"writer sentinels: unknown constant f64::{v}")
        return f64_bits(table[v])
    if m:
        c["sentinelMaxBits"] = sent(m.group(1))
        c["sentinelMinBits"] = sent(m.group(2))
    else:
        c["sentinelMaxBits"] = c["sentinelMinBits"] = None
    missing = [k for k, v in c.items() if v is None]
    if missing:
        raise TranslateError(f"constants not found in the expected form: {missing}")
    return c


def parse_alloc_sites(files):
    """every place in the reading code that sizes a collection ahead of its contents:
    (file, enclosing fn, expression), test modules excluded"""
    import hashlib
    sites = []
    for rel in ["reader.rs", "record/io.rs", "record/mod.rs", "record/point.rs", "record/multipoint.rs",
                "record/polyline.rs", "record/polygon.rs", "record/multipatch.rs", "header.rs"]:
        src = files[rel]
        cut = src.find("#[cfg(test)]")
        if cut >= 0:
            src = src[:cut]
        fn = "?"
        pos = 0
        for m in re.finditer(r"fn\s+(\w+)|(with_capacity|reserve_exact|reserve|resize_with|resize)\s*\(|vec!\s*\[", src):
            if m.group(1):
                fn = m.group(1)
                continue
            start = m.end()
            if m.group(2):
                depth, i = 1, start
                while i < len(src) and depth:
                    depth += src[i] == "("
                    depth -= src[i] == ")"
                    i += 1
                expr = src[start:i - 1]
                kind = m.group(2)
            else:
                depth, i = 1, start
                while i < len(src) and depth:
                    depth += src[i] == "["
                    depth -= src[i] == "]"
                    i += 1
                inner = src[start:i - 1]
                if ";" not in inner:
                    continue        # a literal list, not a sized one
                expr = inner.split(";", 1)[1]
                kind = "vec!"
            expr = re.sub(r"\s+", "", expr)
            # one spelling for a minimum: `a.min(b)`, `min(a, b)`, `cmp::min(a, b)`, `std::cmp::min(b, a)`
            mm = re.fullmatch(r"(?:std::)?(?:cmp::)?min\((.+?),(.+)\)", expr) or re.fullmatch(r"(.+?)\.min\((.+)\)", expr)
            if mm:
                expr = "min{" + ",".join(sorted([mm.group(1), mm.group(2)])) + "}"
            # only the code a READ goes through: the reader, the record readers and their helpers;
            # conversions between in-memory values (`from`, `try_from`, `convert_*`) size their
            # results by collections that already exist and are not part of the claim
            on_read_path = rel == "reader.rs" or fn.startswith("read") or fn in ("vec_for_count_from_file", "new")
            if not on_read_path:
                continue
            text = f"{rel}:{fn}:{kind}({expr})"
            h = int(hashlib.sha1(text.encode()).hexdigest()[:12], 16)
            sites.append((text, h))
    return sites


CACHE = os.path.join(os.path.dirname(os.path.abspath(__file__)), "tables_cache.txt")
STATUS = os.environ.get("VERIF_TABLES_STATUS") or os.path.join(os.path.dirname(os.path.dirname(os.path.abspath(__file__))), "work", "translate_status.json")


def exec_tables():
    """the tables as the compiled crate implements them: `harness dump full` (built from /repo's working
    tree by check.py / setup.sh just before).  None when the harness is not available."""
    import subprocess
    if os.environ.get("VERIF_NO_EXEC_TABLES") == "1":
        return None, "disabled by the caller (the harness does not build against this tree)"
    exe = os.path.join(os.path.dirname(os.path.dirname(os.path.abspath(__file__))), "harness", "target", "release", "harness")
    if not os.path.exists(exe):
        return None, "harness binary not built"
    try:
        p = subprocess.run([exe, "dump", "full"], capture_output=True, text=True, timeout=300)
    except Exception as e:
        return None, f"harness dump: {e}"
    if p.returncode != 0:
        return None, (p.stderr.strip() or f"harness dump exited with {p.returncode}")[:300]
    try:
        return eval(p.stdout, {"__builtins__": {}, "Aff": Aff, "True": True, "False": False, "None": None}), ""
    except Exception as e:
        return None, f"harness dump output not understood: {e}"


def load_cache():
    # a Python literal, plus `Aff(c0, cParts, cPoints)` terms
    try:
        return eval(open(CACHE).read(), {"__builtins__": {}, "Aff": Aff})
    except Exception:
        return {}


def save_state(cache, status):
    import json, pprint
    # the cache only moves forward when EVERY section was re-derived (so that it always holds one
    # coherent derivation), and never at run time of a check on a modified tree unless asked to
    if all(v == "ok" for k, v in status.items() if not k.startswith("_")) and os.environ.get("VERIF_UPDATE_TABLES_CACHE") == "1":
        with open(CACHE, "w") as f:
            f.write(pprint.pformat(cache, width=160))
    os.makedirs(os.path.dirname(STATUS), exist_ok=True)
    with open(STATUS, "w") as f:
        json.dump(status, f, indent=1)


# ------------------------------------------------------------------ emit
def emit():
    files = {
        rel: strip_comments(read(rel))
        for rel in [
            "lib.rs", "header.rs", "reader.rs", "writer.rs", "record/mod.rs", "record/io.rs", "record/point.rs",
            "record/multipoint.rs", "record/polyline.rs", "record/polygon.rs", "record/multipatch.rs",
        ]
    }
    # Each section is re-derived from the source independently.  A section whose source can no
    # longer be parsed keeps the value of its last successful derivation (tools/tables_cache.txt,
    # committed) and is reported in work/translate_status.json: for the properties that rest on it
    # the tie to the source is then established by the correspondence only, and check.py treats it
    # as a broken proof obligation for exactly those properties.
    cache = load_cache()
    status = {}
    ex, ex_why = exec_tables()
    status["_executed"] = "ok" if ex is not None else f"tables not obtained by execution ({ex_why}); parsed from the source text instead"
    def section(name, thunk):
        try:
            try:
                v = thunk()
            except TranslateError:
                raise
            except Exception as e:      # a parser tripping over unexpected syntax
                raise TranslateError(f"{name}: {type(e).__name__}: {e}")
            cache[name] = v
            status[name] = "ok"
            return v
        except TranslateError as e:
            if name not in cache:
                raise
            status[name] = f"not re-derived ({e}); last successful derivation reused"
            return cache[name]
    # tables the harness obtains by EXECUTING the crate (whatever its source looks like) take
    # precedence over the same tables parsed from the source text
    def pick(name, parse):
        return (lambda: ex[name]) if ex is not None and name in ex else parse
    names, variants, arms, preds, dnames = section("shapetype", pick("shapetype", lambda: parse_shapetype(files["lib.rs"])))
    svariants, st_arms, disp, conv = section("shape_tables", pick("shape_tables", lambda: parse_shape_tables(files["record/mod.rs"])))
    hst = section("has_shapetype", pick("has_shapetype", lambda: parse_has_shapetype(files)))
    # size_in_bytes by execution (fitted and cross-checked affine terms); size_of_record is private: parsed
    if ex is not None and "size_in_bytes" in ex:
        in_bytes = section("size_in_bytes", lambda: ex["size_in_bytes"])
        records = section("size_of_record", lambda: parse_sizes(files)[1])
    else:
        in_bytes, records = section("sizes", lambda: parse_sizes(files))
        cache["size_in_bytes"], cache["size_of_record"] = in_bytes, records
        status["size_in_bytes"] = status["size_of_record"] = status.pop("sizes")
    ptsizes = section("point_sizes", lambda: parse_point_read_sizes(files["record/point.rs"]))
    parms, pwr, prd, pclose = section("patch", pick("patch", lambda: parse_patch(files["record/multipatch.rs"])))
    consts = {}
    consts.update(section("consts_public", lambda: parse_public_consts(files, ex.get("consts_exec") if ex is not None else None)))
    consts.update(section("const_nodata_cmp", lambda: parse_nodata_cmp(files)))
    consts.update(section("const_prealloc", lambda: parse_prealloc(files)))
    consts.update(section("const_sentinels", lambda: parse_sentinels(files)))
    accounted = cache.get("alloc_sites")
    alloc_sites = section("alloc_sites", lambda: parse_alloc_sites(files))
    if status.get("alloc_sites") == "ok" and accounted is not None and os.environ.get("VERIF_UPDATE_TABLES_CACHE") != "1":
        a, b = {t for t, _ in accounted}, {t for t, _ in alloc_sites}
        if a != b:
            status["alloc_sites"] = ("pre-sizing sites of the reading code differ from the ones the model accounts for: new "
                                     + str(sorted(b - a)) + ", gone " + str(sorted(a - b)))
    save_state(cache, status)

    L = []
    A = L.append
    A("-- GENERATED by tools/translate.py from /repo/src on every run. Do not edit.")
    A("namespace Shp")
    A("")
    A("/-- a `match code { k => Some(a), ..., _ => None }` table: the first matching arm wins -/")
    A("def lookupCode {α : Type} : List (Int × α) → Int → Option α")
    A("  | [], _ => none")
    A("  | (k, a) :: rest, c => if c = k then some a else lookupCode rest c")
    A("")
    A("/-- `enum ShapeType` of src/lib.rs -/")
    A("inductive ShapeType where")
    for n in names:
        A(f"  | {lname(n)}")
    A("  deriving DecidableEq, Repr, Inhabited")
    A("")
    A("namespace ShapeType")
    A("def all : List ShapeType := [" + ", ".join("." + lname(n) for n in names) + "]")
    A("/-- discriminants (`X = n`) -/")
    A("def code : ShapeType → Int")
    for n, c in variants:
        A(f"  | .{lname(n)} => {c}")
    A("/-- the arms of `ShapeType::from` -/")
    A("def codeTable : List (Int × ShapeType) := [" + ", ".join(f"({c}, .{lname(n)})" for c, n in arms) + "]")
    A("/-- `ShapeType::from` -/")
    A("def ofCode (c : Int) : Option ShapeType := lookupCode codeTable c")

    def pred(fn, lean):
        neg, lst = preds[fn]
        A(f"/-- `ShapeType::{fn}` -/")
        A(f"def {lean} : ShapeType → Bool")
        for n in names:
            val = (n in lst) != neg
            A(f"  | .{lname(n)} => {'true' if val else 'false'}")

    pred("has_z", "hasZ")
    pred("has_m", "hasM")
    pred("is_multipart", "isMultipart")
    A("/-- `Display for ShapeType` -/")
    A("def name : ShapeType → String")
    for n, d in dnames:
        A(f'  | .{lname(n)} => "{d}"')
    A("end ShapeType")
    A("")
    A("/-- variants of `enum Shape` (src/record/mod.rs) -/")
    A("inductive Variant where")
    for v, _ in svariants:
        A(f"  | {lname(v)}")
    A("  deriving DecidableEq, Repr, Inhabited")
    A("namespace Variant")
    A("def all : List Variant := [" + ", ".join("." + lname(v) for v, _ in svariants) + "]")
    A("/-- `Shape::shapetype` -/")
    A("def shapetype : Variant → ShapeType")
    for v, t in st_arms:
        A(f"  | .{lname(v)} => .{lname(t)}")
    A("/-- the concrete Rust type wrapped by the variant and its `HasShapeType::shapetype()` -/")
    A("def concreteType : Variant → Option ShapeType")
    for v, ty in svariants:
        if ty:
            if ty not in hst:
                raise TranslateError(f"no impl HasShapeType for {ty}")
            A(f"  | .{lname(v)} => some .{lname(hst[ty])}")
        else:
            A(f"  | .{lname(v)} => none")
    A("/-- `impl_to_way_conversion!(Shape::V <=> T)`: the variant a concrete type converts to, by type name -/")
    A("def ofConcreteName : String → Option Variant")
    for v, ty in conv:
        A(f'  | "{ty}" => some .{lname(v)}')
    A("  | _ => none")
    A("end Variant")
    A("")
    A("/-- dispatch of `Shape::read_from`: record type code ↦ (variant built, type whose reader is called) -/")
    A("def dispatch : ShapeType → Variant × Option ShapeType")
    for t, v, r in disp:
        if r is not None and r not in hst:
            raise TranslateError(f"dispatch calls reader of unknown type {r}")
        rr = f"some .{lname(hst[r])}" if r else "none"
        A(f"  | .{lname(t)} => (.{lname(v)}, {rr})")
    A("")
    A("/-- affine size term `c0 + cParts * parts + cPoints * points` -/")
    A("structure SizeTerm where")
    A("  c0 : Nat")
    A("  cParts : Nat")
    A("  cPoints : Nat")
    A("  deriving DecidableEq, Repr")
    A("def SizeTerm.eval (t : SizeTerm) (parts points : Int) : Int := t.c0 + t.cParts * parts + t.cPoints * points")
    A("")
    A("/-- `size_in_bytes` of each concrete type, keyed by its `HasShapeType` -/")
    A("def sizeInBytesTerm : ShapeType → SizeTerm")
    seen = set()
    for ty, a in in_bytes.items():
        A(f"  | .{lname(hst[ty])} => ⟨{a.c[0]}, {a.c[1]}, {a.c[2]}⟩")
        seen.add(hst[ty])
    for n in names:
        if n not in seen:
            A(f"  | .{lname(n)} => ⟨0, 0, 0⟩")
    A("")
    A("/-- `size_of_record` (without M; and the extra when `is_m_used`) for the multi-vertex readers -/")
    A("def sizeOfRecordTerm : ShapeType → SizeTerm × SizeTerm")
    seen = set()
    for ty, (b, md) in records.items():
        A(f"  | .{lname(hst[ty])} => (⟨{b.c[0]}, {b.c[1]}, {b.c[2]}⟩, ⟨{md.c[0]}, {md.c[1]}, {md.c[2]}⟩)")
        seen.add(hst[ty])
    A("  | _ => (⟨0, 0, 0⟩, ⟨0, 0, 0⟩)")
    A("")
    A("/-- record content sizes (bytes, without the type code) accepted by the single-point readers -/")
    A("def pointReadSizes : ShapeType → List Int")
    for ty, lst in ptsizes.items():
        A(f"  | .{lname(hst[ty])} => [{', '.join(map(str, lst))}]")
    A("  | _ => []")
    A("")
    A("inductive PatchKind where")
    for _, n in parms:
        A(f"  | {lname(n)}")
    A("  deriving DecidableEq, Repr, Inhabited")
    A("namespace PatchKind")
    A("def all : List PatchKind := [" + ", ".join("." + lname(n) for _, n in parms) + "]")
    A("/-- the arms of `PatchType::from` -/")
    A("def codeTable : List (Int × PatchKind) := [" + ", ".join(f"({c}, .{lname(n)})" for c, n in parms) + "]")
    A("/-- `PatchType::from` -/")
    A("def ofCode (c : Int) : Option PatchKind := lookupCode codeTable c")
    A("/-- code written by `Multipatch::write_to` for `Patch::X` -/")
    A("def code : PatchKind → Int")
    for n, c in pwr:
        A(f"  | .{lname(n)} => {c}")
    A("/-- `Patch` variant built by the reader for `PatchType::X` -/")
    A("def readAs : PatchKind → PatchKind")
    for a, b in prd:
        A(f"  | .{lname(a)} => .{lname(b)}")
    A("/-- does `Multipatch::with_parts` close patches of this kind? -/")
    A("def closes : PatchKind → Bool")
    for n, _, act in pclose:
        A(f"  | .{lname(n)} => {'false' if act == '{}' else 'true'}")
    A("end PatchKind")
    A("")
    A("namespace Const")
    for k, v in consts.items():
        A(f"def {k} : Nat := {v}")
    A("end Const")
    A("")
    A("/-- every place in the reading code that sizes a collection ahead of its contents (fingerprints;")
    A("the text of each is in the comment).  `Props/C17` states which ones the model accounts for. -/")
    A("def allocSites : List Nat := [")
    for i, (text, h) in enumerate(alloc_sites):
        A(f"  {h}{',' if i + 1 < len(alloc_sites) else ''}  -- {text}")
    A("]")
    A("end Shp")
    return "\n".join(L) + "\n"


def main():
    try:
        text = emit()
    except TranslateError as e:
        print(f"TRANSLATE-ERROR: {e}")
        return 2
    out = os.path.normpath(OUT)
    os.makedirs(os.path.dirname(out), exist_ok=True)
    old = open(out).read() if os.path.exists(out) else None
    if old != text:
        with open(out, "w") as f:
            f.write(text)
        print(f"translate: wrote {out} (changed)")
    else:
        print("translate: unchanged")
    return 0


if __name__ == "__main__":
    sys.exit(main())

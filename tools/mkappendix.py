#!/usr/bin/env python3
"""Regenerates DESIGN.md's Appendix D (as-built summary per property) from tools/levels.json,
lean/obligations.json and properties.jsonl."""
import json, os
V = os.path.dirname(os.path.dirname(os.path.abspath(__file__)))
levels = json.load(open(os.path.join(V, "tools", "levels.json")))
obl = json.load(open(os.path.join(V, "lean", "obligations.json")))
props = [json.loads(l) for l in open(os.path.join(V, "properties.jsonl"))]
head = "## Appendix D — as-built summary per property (generated from `tools/levels.json` and `lean/obligations.json`)"
out = [head, "",
       "This appendix is what the checks claim today (regenerate with `python3 tools/mkappendix.py`); §6 above is the plan it grew from. For each property: what is proved (and tied how), what the trusted base adds, and the theorems the audit checks by name.", ""]
for p in props:
    pid = p["id"]
    lv = levels.get(pid, {})
    ob = obl.get(pid, {"module": "", "theorems": []})
    out += [f"### {pid} — {p.get('title', '')}", "",
            f"**Claim.** {lv.get('text', '')}", "",
            f"**Trusted base / limits.** {lv.get('note', '')}", "",
            f"**Module** `{ob['module']}`; **theorems audited** ({len(ob['theorems'])}): " + ", ".join(f"`{t}`" for t in ob["theorems"]), ""]
path = os.path.join(V, "DESIGN.md")
s = open(path).read()
i = s.index("## Appendix D")
s = s[:i] + "\n".join(out)
open(path, "w").write(s if s.endswith("\n") else s + "\n")
print("Appendix D regenerated:", sum(len(v["theorems"]) for v in obl.values()), "theorems")

#!/usr/bin/env python3
"""Writes seeded/README.md: one row per seeded breaking change — what it is, its trigger, and which
registered checks reported a violation when it was applied to /repo (from result.<tier>.json, written
by tools/seedrun.py)."""
import json, os, glob
V = os.path.dirname(os.path.dirname(os.path.abspath(__file__)))
rows, miss = [], []
for d in sorted(glob.glob(os.path.join(V, "seeded", "C*-*"))):
    sid = os.path.basename(d)
    meta = json.load(open(os.path.join(d, "meta.json")))
    res = None
    for tier in ("quick", "thorough"):
        p = os.path.join(d, f"result.{tier}.json")
        if os.path.exists(p):
            res = json.load(open(p))
            break
    if res is None:
        rows.append((sid, meta, None)); continue
    rows.append((sid, meta, res))
    if not res["target_detected"]:
        miss.append(sid)
out = ["# Seeded breaking changes", "",
       "Each directory holds `patch.diff` (applies to /repo's HEAD with `git apply`), `demo.rs` (prints",
       "`PROPERTY HOLDS` on the clean tree, `PROPERTY VIOLATED` with the patch), `meta.json` (what, trigger,",
       "independent confirmation by `tools/seedconfirm.py`) and `result.<tier>.json` (which checks fired:",
       "`tools/seedrun.py`). The changes were produced by sub-agents that saw only the property text and",
       "a scratch worktree of /repo; every one compiles and passes the crate's whole test suite.", "",
       "`first run` = the own check as the machinery stood when the change was produced (result.initial.json;",
       "rounds a/b predate that record); `final` = the own check at the end (result.final.json); `other checks`",
       "comes from the last run over all twenty checks (rounds g–j were run against their own check only).", "",
       "| seed | target | change | trigger | first run | target check | final | with failing input | other checks that fired |",
       "|---|---|---|---|---|---|---|---|---|"]
for sid, meta, res in rows:
    t = meta["property"]
    title = meta.get("title", "").replace("|", "/")
    trig = meta.get("trigger", "").replace("|", "/")
    if len(trig) > 160: trig = trig[:157] + "..."
    if res is None:
        out.append(f"| {sid} | {t} | {title} | {trig} | | not run | | | |"); continue
    det = "**caught**" if res["target_detected"] else "**MISSED**"
    def own(path):
        if not os.path.exists(path): return ""
        r = json.load(open(path)); rr = r.get("results", r)
        return "caught" if rr.get(t, {}).get("violation") else "missed"
    first = own(os.path.join(V, "seeded", sid, "result.initial.json"))
    final = own(os.path.join(V, "seeded", sid, "result.final.json"))
    wf = "yes" if t in res.get("with_failing_input", []) else ("no-failing-input-found" if res["target_detected"] else "")
    others = [p for p in res["detected_by"] if p != t]
    out.append(f"| {sid} | {t} | {title} | {trig} | {first} | {det} | {final} | {wf} | {' '.join(others)} |")
# behaviour-preserving refactors: no check should fire
ref = []
for d in sorted(glob.glob(os.path.join(V, "seeded", "R-C*-*"))):
    sid = os.path.basename(d)
    meta = json.load(open(os.path.join(d, "meta.json")))
    p = os.path.join(d, "result.quick.json")
    res = json.load(open(p)) if os.path.exists(p) else None
    ref.append((sid, meta, res))
if ref:
    out += ["", "## Behaviour-preserving refactors (no check should fire)", "",
            "| seed | anchored property | refactor | checks that fired |", "|---|---|---|---|"]
    for sid, meta, res in ref:
        title = meta.get("title", "").replace("|", "/")
        if len(title) > 150: title = title[:147] + "..."
        fired = "not run" if res is None else (" ".join(res["detected_by"]) or "none")
        out.append(f"| {sid} | {meta['property']} | {title} | {fired} |")
    quiet = sum(1 for _, _, r in ref if r is not None and not r["detected_by"])
    out += ["", f"{quiet} of {sum(1 for _,_,r in ref if r is not None)} refactors raise no alarm."]
out += ["", f"{sum(1 for _,_,r in rows if r and r['target_detected'])} of {sum(1 for _,_,r in rows if r)} changes are caught by the check of the property they were aimed at"
        + (f"; missed: {', '.join(miss)}" if miss else "") + "."]
open(os.path.join(V, "seeded", "README.md"), "w").write("\n".join(out) + "\n")
print("\n".join(out[-3:]))

#!/usr/bin/env python3
"""Single entry point of every MANIFEST command (DESIGN §2, §5, §8).

    python3 tools/check.py Cxx --tier quick|thorough
    python3 tools/check.py Cxx --replay <file>

One run = translate -> prove (lake build + axiom audit) -> build harness against /repo's
working tree -> correspondence (model vs implementation) -> direct oracle -> verdict.
Exit 0: property held on everything explored.  Exit 1: at least one `VIOLATION` line.
"""
import argparse
import fcntl
import hashlib
import json
import os
import re
import subprocess
import sys
import time

VERIF = os.path.dirname(os.path.dirname(os.path.abspath(__file__)))
REPO = os.environ.get("VERIF_REPO", "/repo")
LEAN = os.path.join(VERIF, "lean")
HARNESS = os.path.join(VERIF, "harness")
WORK = os.path.join(VERIF, "work")
ALLOWED_AXIOMS = {"propext", "Classical.choice", "Quot.sound"}
FORBIDDEN = re.compile(r"\b(sorry|admit|native_decide|bv_decide|implemented_by|unsafe)\b|^\s*axiom\s|maxHeartbeats\s+0")

TRUSTED_BASE = [
    "Lean 4.33.0 kernel (re-checked by leanchecker in the thorough tier)",
    "axioms allowed in property theorems: propext, Classical.choice, Quot.sound (audited with #print axioms on every run); no native_decide, no bv_decide, no sorry",
    "tools/translate.py + `harness dump`: regenerate Shp/Gen/Tables.lean on every run — the table-like behaviour by EXECUTING the compiled crate (ShapeType::from on all 2^32 codes, every variant, patch kinds, size_in_bytes fitted and cross-checked), the few forms execution cannot show (size_of_record, the pre-allocation cap, the NO_DATA comparison, the writer's sentinels) by parsing /repo/src; a section that cannot be re-derived is listed under table_sections_tied_by_correspondence_only and widens the run",
    "hand-written Lean model Shp/Model/* of writer.rs, reader.rs, header.rs, record/*.rs: tied to the code by the differential correspondence (harness vs native driver) on every run",
    "harness (Rust, links /repo's working tree, overflow checks + debug assertions on) and tools/check.py: trusted to run the real code and compare honestly",
    "modelled, not verified: std (Cursor/File/BufReader/BufWriter/write_all/Vec; read_exact's default loop is transcribed and proved equivalent to the model's read primitive on every chunk schedule), byteorder, dbase 0.6.1, geo-types 0.7, geo-traits 0.2, rustc; IEEE-754 comparison is modelled exactly on bit patterns; float arithmetic (shoelace) is an uninterpreted function in theorems and native Float in the driver",
    "model functions tied by a direct oracle only (no line-protocol verb): C10.writeShapes (bulk write), ChunkSrc.readExact",
]


def sh(cmd, cwd=None, inp=None, timeout=None, env=None):
    e = dict(os.environ)
    e["CARGO_NET_OFFLINE"] = "true"
    if env:
        e.update(env)
    p = subprocess.run(cmd, cwd=cwd, input=inp, capture_output=True, text=True, timeout=timeout, env=e)
    return p.returncode, p.stdout, p.stderr


class Lock:
    def __init__(self, name):
        os.makedirs(WORK, exist_ok=True)
        self.f = open(os.path.join(WORK, name + ".lock"), "w")

    def __enter__(self):
        fcntl.flock(self.f, fcntl.LOCK_EX)

    def __exit__(self, *a):
        fcntl.flock(self.f, fcntl.LOCK_UN)


def load_json(path, default):
    try:
        with open(path) as f:
            return json.load(f)
    except FileNotFoundError:
        return default


# ---------------------------------------------------------------------------- proof side (P)
def theorem_ranges(path):
    """[(name, first_line, last_line)] of the theorems of a Lean file"""
    out = []
    with open(path) as f:
        lines = f.read().split("\n")
    cur = None
    for i, l in enumerate(lines, 1):
        m = re.match(r"\s*(?:private\s+|protected\s+)?(theorem|lemma|example|def|abbrev|instance|structure|inductive|namespace|section|end)\b\s*([\w.']*)", l)
        if m:
            if cur:
                out.append((cur[0], cur[1], i - 1))
                cur = None
            if m.group(1) == "theorem":
                cur = (m.group(2), i)
    if cur:
        out.append((cur[0], cur[1], len(lines)))
    return out


# which generated-table sections (tools/translate.py) each property's theorems rest on
TABLE_DEPENDS = {
    "C01": ("patch", "consts_public", "const_nodata_cmp"), "C02": ("shapetype", "patch", "consts_public"),
    "C03": ("point_sizes", "patch"), "C05": ("const_sentinels",), "C06": ("shapetype", "shape_tables", "has_shapetype"),
    "C07": ("size_of_record", "point_sizes"), "C09": ("const_sentinels", "consts_public"), "C16": ("patch",),
    "C17": ("size_of_record", "const_prealloc", "alloc_sites"), "C18": ("size_in_bytes",), "C19": ("shapetype",),
    "C20": ("const_nodata_cmp",),
}


STRICT_SECTIONS = ()


def prove(prop, tier, log):
    """returns dict(obligations=[names], discharged=[names], failures=[text], checker_cmd=str)"""
    obl = load_json(os.path.join(LEAN, "obligations.json"), {})
    spec = obl.get(prop, {"module": f"Shp.Props.{prop}", "theorems": []})
    module = spec["module"]
    names = spec["theorems"]
    res = dict(obligations=list(names), discharged=[], failures=[], checker_cmd=f"cd lean && lake build {module} shpdriver && lake env lean <audit of {len(names)} theorems with #print axioms>", axioms={})
    # the harness is built first: the translator takes the table-like behaviour from the compiled
    # crate (`harness dump`), and falls back to parsing the source when it does not build
    hb_ok, _ = build_harness(log)
    with Lock("lake"):
        rc, out, err = sh(["python3", os.path.join(VERIF, "tools", "translate.py")], env=None if hb_ok else {"VERIF_NO_EXEC_TABLES": "1"})
        log.append(out.strip())
        if rc != 0:
            res["failures"].append("translator: " + out.strip())
            res["translator_failed"] = True
        else:
            # sections of the generated tables that could not be re-derived from the source keep
            # their last successful derivation: a broken tie for the properties that rest on them
            st = load_json(os.path.join(WORK, "translate_status.json"), {})
            stale = [(sec, msg) for sec, msg in st.items() if msg != "ok" and sec in TABLE_DEPENDS.get(prop, ())]
            # Sections whose content the correspondence exercises value by value (sizes accepted and
            # rejected, header bytes around the sentinels, NO_DATA and its neighbours) stay tied by the
            # correspondence when the source text can no longer be parsed: the run is widened, not failed.
            # What no correspondence case can see (how much memory is reserved ahead of the data) is strict.
            strict = [f"{sec}: {msg}" for sec, msg in stale if sec in STRICT_SECTIONS]
            lenient = [f"{sec}: {msg}" for sec, msg in stale if sec not in STRICT_SECTIONS]
            res["stale_sections"] = [s for s, _ in stale]
            if lenient:
                res["widen"] = True
                log.append("table sections tied by correspondence only in this run: " + "; ".join(lenient))
            if strict:
                res["failures"].append("translator: generated table section(s) not re-derived from the source and not observable by the correspondence: " + "; ".join(strict))
                res["translator_failed"] = True
        t0 = time.time()
        rc, out, err = sh(["lake", "build", module, "shpdriver"], cwd=LEAN, timeout=3000)
        log.append(f"lake build {module} shpdriver: rc={rc} ({time.time()-t0:.1f}s)")
        build_out = out + err
        if rc != 0:
            errs = re.findall(r"error: ([^\n]*\.lean):(\d+):(\d+): ([^\n]*)", build_out)
            res["failures"].append("lake build failed: " + "; ".join(f"{f}:{l}: {m[:160]}" for f, l, c, m in errs[:6]))
            res["build_errors"] = [(f, int(l), m) for f, l, c, m in errs]
            res["driver_ok"] = os.path.exists(os.path.join(LEAN, ".lake/build/bin/shpdriver")) and "Driver" not in build_out.split("error:")[1] if "error:" in build_out else False
        else:
            res["driver_ok"] = True
        if tier == "thorough" and rc == 0:
            rc2, out2, err2 = sh(["lake", "env", "leanchecker", module], cwd=LEAN, timeout=3000)
            log.append(f"leanchecker {module}: rc={rc2}")
            if rc2 != 0:
                res["failures"].append("leanchecker rejected " + module + ": " + (out2 + err2)[-300:])
        # forbidden constructs in the sources of the property's import cone
        for root, _, files in os.walk(os.path.join(LEAN, "Shp")):
            for fn in files:
                if not fn.endswith(".lean"):
                    continue
                p = os.path.join(root, fn)
                in_block = False
                for ln, l in enumerate(open(p), 1):
                    s = l
                    if in_block:
                        if "-/" in s:
                            in_block = False
                        continue
                    if "/-" in s and "-/" not in s:
                        in_block = True
                        continue
                    s = re.sub(r"/-.*?-/", "", s)
                    s = s.split("--")[0]
                    if FORBIDDEN.search(s):
                        res["failures"].append(f"forbidden construct in {os.path.relpath(p, LEAN)}:{ln}: {l.strip()[:80]}")
        # axiom audit, theorem by theorem
        if names:
            os.makedirs(WORK, exist_ok=True)
            audit = os.path.join(WORK, f"Audit_{prop}_{os.getpid()}.lean")
            with open(audit, "w") as f:
                f.write(f"import {module}\n")
                for n in names:
                    f.write(f"#print axioms {n}\n")
            rc, out, err = sh(["lake", "env", "lean", audit], cwd=LEAN, timeout=1200)
            os.remove(audit)
            txt = out + err
            for n in names:
                m = re.search(r"'%s' (depends on axioms: \[([^\]]*)\]|does not depend on any axioms)" % re.escape(n), txt)
                if not m:
                    res["failures"].append(f"theorem {n}: not checked (missing or its module does not build)")
                    continue
                axs = set(a.strip() for a in (m.group(2) or "").split(",") if a.strip())
                res["axioms"][n] = sorted(axs)
                bad = axs - ALLOWED_AXIOMS
                if bad:
                    res["failures"].append(f"theorem {n} depends on disallowed axioms {sorted(bad)}")
                else:
                    res["discharged"].append(n)
    return res


# ---------------------------------------------------------------------------- harness + driver (K, O)
def build_harness(log):
    with Lock("cargo"):
        t0 = time.time()
        rc, out, err = sh(["cargo", "build", "--release", "--offline"], cwd=HARNESS, timeout=3000)
        log.append(f"cargo build harness against {REPO}: rc={rc} ({time.time()-t0:.1f}s)")
        if rc != 0:
            errs = re.findall(r"(error(?:\[E\d+\])?: [^\n]*\n\s*--> [^\n]*)", err)
            return False, "\n".join(errs[:8]) or err[-2000:]
    return True, ""


def harness_timeout(args):
    """how long the real crate may take on a batch of cases: the unchanged tree needs seconds for a
    quick batch and about two minutes for the largest thorough one"""
    return 5400 if "thorough" in args else 1200


def run_harness(args, inp=None, timeout=None):
    exe = os.path.join(HARNESS, "target", "release", "harness")
    env = {"VERIF_WORK": WORK}
    timeout = timeout or harness_timeout(args)
    try:
        p = subprocess.run([exe] + args, input=inp, capture_output=True, text=True, timeout=timeout, env={**os.environ, **env})
    except subprocess.TimeoutExpired as e:
        # not a crash of the check: an observation about the code under test
        out = e.stdout.decode(errors="replace") if isinstance(e.stdout, bytes) else (e.stdout or "")
        return 124, out, f"the harness (real crate, `{' '.join(args)}`) did not finish within {timeout} s"
    return p.returncode, p.stdout, p.stderr


def run_driver(case_lines, timeout=7200):
    exe = os.path.join(LEAN, ".lake", "build", "bin", "shpdriver")
    p = subprocess.run([exe], input="\n".join(case_lines) + "\n", capture_output=True, text=True, timeout=timeout)
    out = {}
    for l in p.stdout.split("\n"):
        if not l:
            continue
        i, _, r = l.partition(" ")
        out[i] = r
    return p.returncode, out, p.stderr


def run_driver_gen(args, timeout=7200):
    exe = os.path.join(LEAN, ".lake", "build", "bin", "shpdriver")
    p = subprocess.run([exe] + args, capture_output=True, text=True, timeout=timeout)
    return p.returncode, p.stdout, p.stderr


THOROUGH_SEEDS = 6


def explore_many(prop, tier, seed, log):
    """quick: one seed.  thorough: THOROUGH_SEEDS seeds explored in parallel and merged (ids are
    prefixed with the seed's rank so that they stay unique)."""
    if tier != "thorough":
        return explore(prop, tier, seed, log)
    import concurrent.futures
    with concurrent.futures.ThreadPoolExecutor(max_workers=THOROUGH_SEEDS) as ex:
        parts = list(ex.map(lambda k: explore(prop, tier, seed + k, log), range(THOROUGH_SEEDS)))
    m = dict(cases=[], impl={}, model={}, oracle_fail=[], oracle_pass=0, stats={}, samples=[], expect={}, errors=[])
    for k, r in enumerate(parts):
        pre = f"s{k}."
        m["cases"] += [pre + c for c in r["cases"]]
        for key in ("impl", "model", "expect"):
            for i, v in r[key].items():
                m[key][pre + i] = v
        for f in r["oracle_fail"]:
            f = dict(f)
            f["id"] = pre + f["id"]
            m["oracle_fail"].append(f)
        m["oracle_pass"] += r["oracle_pass"]
        for a, b in r["stats"].items():
            m["stats"][a] = m["stats"].get(a, 0) + b
        if k == 0:
            m["samples"] = r["samples"]
        m["errors"] += r["errors"]
    log.append(f"thorough: seeds {seed}..{seed + THOROUGH_SEEDS - 1} merged")
    return m


# per-property canonicalisation of what is compared (DESIGN §4.2): errors only as finely as the
# property needs.  Default: exact equality of the canonical result strings.
def canon(prop, s):
    if prop in ("C07", "C17"):
        # compare outcome classes and shapes; an I/O error and a size error are both "the reader
        # refused this record" -- the property is about panics and termination
        s = re.sub(r"panic .*", "panic", s)
    return s


DRIVER_GEN = {"C03": "spec", "C14": "perm"}


def explore(prop, tier, seed, log):
    """run the harness (and the driver) for this property; returns a dict with everything observed"""
    r = dict(cases=[], impl={}, model={}, oracle_fail=[], oracle_pass=0, stats={}, samples=[], expect={}, errors=[])
    if prop in DRIVER_GEN:
        n = {"quick": 400, "thorough": 12000}[tier]
        rc, out, err = run_driver_gen(["gen", DRIVER_GEN[prop], str(seed), str(n)])
        if rc != 0:
            r["errors"].append("driver gen failed: " + err[-300:])
        case_lines = []
        for l in out.split("\n"):
            if l.startswith("CASE "):
                case_lines.append(l[5:])
            elif l.startswith("EXPECT "):
                i, _, e = l[7:].partition(" ")
                r["expect"][i] = e
            elif l.startswith("STAT "):
                _, k, v = l.split(" ", 2)
                r["stats"][k] = int(v)
        rc, out, err = run_harness(["oracle", prop], inp="\n".join(case_lines) + "\n")
        if rc != 0:
            r["errors"].append(f"harness exited with {rc}: {err[-300:]}")
        hl = out.split("\n")
        r["cases"] = case_lines
        rc2, out2, err2 = run_harness(["cases", prop, tier, str(seed)])
        if rc2 != 0:
            r["errors"].append(f"harness scenarios exited with {rc2}: {err2[-300:]}")
        # the harness's own cases of this property (ids are decimal, the driver's end in a letter):
        # they go through the correspondence with the model like the generated ones
        hl += [l for l in out2.split("\n") if l.startswith(("ORACLE ", "STAT ", "CASE ", "IMPL "))]
    else:
        rc, out, err = run_harness(["cases", prop, tier, str(seed)])
        if rc != 0:
            r["errors"].append(f"harness exited with {rc}: {err[-300:]}")
        hl = out.split("\n")
    for l in hl:
        if l.startswith("CASE "):
            r["cases"].append(l[5:])
        elif l.startswith("IMPL "):
            i, _, res = l[5:].partition(" ")
            r["impl"][i] = res
        elif l.startswith("ORACLE "):
            parts = l.split(" ", 4)
            if parts[3] == "PASS":
                r["oracle_pass"] += 1
            else:
                sig, _, rest = parts[4].partition(" :: ")
                msg, _, replay = rest.partition(" :: ")
                r["oracle_fail"].append(dict(id=parts[2], signature=sig, message=msg, replay=replay))
        elif l.startswith("STAT "):
            _, k, v = l.split(" ", 2)
            r["stats"][k] = int(v)
        elif l.startswith("SAMPLE "):
            r["samples"].append(l[7:])
        elif l.startswith("ERROR "):
            r["errors"].append(l)
    # expected-by-specification (driver generated cases): implementation vs the expectation
    for i, e in r["expect"].items():
        got = r["impl"].get(i)
        if got != e:
            line = next((c for c in r["cases"] if c.startswith(i + " ")), i)
            r["oracle_fail"].append(dict(id=i, signature="spec-expected", message=f"implementation returned `{(got or '')[:120]}`, the specification says `{e[:120]}`", replay=line.partition(" ")[2]))
        else:
            r["oracle_pass"] += 1
    if r["cases"]:
        rc, model, err = run_driver(r["cases"])
        if rc != 0:
            r["errors"].append("driver failed: " + err[-300:])
        r["model"] = model
    return r


def replay_file(prop, sig, text):
    d = os.path.join(VERIF, "replays")
    os.makedirs(d, exist_ok=True)
    h = hashlib.sha1(text.encode()).hexdigest()[:10]
    p = os.path.join(d, f"{prop}-{re.sub(r'[^A-Za-z0-9_.-]', '_', sig)[:40]}-{h}.case")
    with open(p, "w") as f:
        f.write(text if text.endswith("\n") else text + "\n")
    return p


def main():
    ap = argparse.ArgumentParser()
    ap.add_argument("prop")
    ap.add_argument("--tier", default=os.environ.get("VERIF_TIER", "quick"))
    ap.add_argument("--replay")
    args = ap.parse_args()
    prop, tier = args.prop, args.tier
    seed = int(os.environ.get("VERIF_SEED", "1"))
    t0 = time.time()
    log = []
    os.makedirs(WORK, exist_ok=True)

    if args.replay:
        ok, why = build_harness(log)
        if not ok:
            print("harness does not build:\n" + why)
            sys.exit(1)
        lines = [l.strip() for l in open(args.replay) if l.strip() and not l.startswith("#")]
        numbered = [f"r{i} {l}" for i, l in enumerate(lines)]
        rc, out, err = run_harness(["oracle", prop], inp="\n".join(numbered) + "\n")
        print(out)
        _, model, _ = run_driver(numbered)
        for k, v in model.items():
            print(f"MODEL {k} {v}")
        sys.exit(1 if " FAIL " in out else 0)

    violations = []  # (replay path, suffix)
    known_hits = []

    P = prove(prop, tier, log)
    p_ok = not P["failures"] and len(P["discharged"]) == len(P["obligations"]) and len(P["obligations"]) > 0

    h_ok, h_why = build_harness(log)
    E = dict(cases=[], impl={}, model={}, oracle_fail=[], oracle_pass=0, stats={}, samples=[], expect={}, errors=[])
    disagreements = []
    if h_ok:
        # a broken proof or tie widens the search (thorough budget) for a failing input
        search_tier = tier if (p_ok and not P.get("widen")) else "thorough"
        # (a search triggered by a broken proof uses the thorough budget on ONE seed; the thorough
        # tier itself explores several seeds in parallel)
        st = search_tier if P.get("driver_ok", True) else tier

        def compare(E):
            out = []
            for line in E["cases"]:
                i = line.partition(" ")[0]
                a, b = E["impl"].get(i), E["model"].get(i)
                if a is None or b is None or canon(prop, a) != canon(prop, b):
                    out.append(dict(id=i, case=line.partition(" ")[2], impl=a, model=b))
            return out

        _known = load_json(os.path.join(VERIF, "known_findings.json"), {"findings": [], "fixed": []})
        _known_sigs = {(k["property"], k["signature"]) for k in _known.get("findings", [])}
        if tier != "thorough" and st != tier:
            # the nominal budget first: when it already shows a failing input (or a disagreement)
            # the wide search is not needed
            E = explore(prop, tier, seed, log)
            disagreements = compare(E)
            if not ([f for f in E["oracle_fail"] if (prop, f["signature"]) not in _known_sigs] or disagreements or E["errors"]):
                log.append("nominal budget found nothing: searching with the thorough budget")
                E = explore(prop, st, seed, log)
                disagreements = compare(E)
        else:
            E = explore_many(prop, st, seed, log) if tier == "thorough" else explore(prop, st, seed, log)
            disagreements = compare(E)
    # the independent whitepaper decoder run on the REAL writer's bytes is an oracle on the
    # implementation (C02), not a model-vs-implementation comparison
    for d in [d for d in disagreements if d["case"].startswith("specdecode ")]:
        disagreements.remove(d)
        E["oracle_fail"].append(dict(id=d["id"], signature="spec-decode-mismatch", message=f"independent decoder on the written bytes: `{str(d['model'])[:150]}`; handed to the writer: `{str(d['impl'])[:150]}`", replay=d["case"]))
    k_ok = h_ok and not disagreements and not E["errors"] and P.get("driver_ok", True)

    known = load_json(os.path.join(VERIF, "known_findings.json"), {"findings": [], "fixed": []})
    known_sigs = {(k["property"], k["signature"]) for k in known.get("findings", [])}

    # ---- verdict (DESIGN §5)
    seen = set()
    for f in E["oracle_fail"]:
        key = (prop, f["signature"])
        if key in known_sigs:
            if key not in seen:
                seen.add(key)
                known_hits.append(f)
                desc = next(k["description"] for k in known["findings"] if (k["property"], k["signature"]) == key)
                print(f"KNOWN-FINDING: property={prop} {f['signature']}: {desc}")
            continue
        if key in seen:
            continue
        seen.add(key)
        path = replay_file(prop, f["signature"], f"# {prop} oracle failure `{f['signature']}`: {f['message']}\n{f['replay']}")
        violations.append((path, ""))
    new_oracle_fail = [f for f in E["oracle_fail"] if (prop, f["signature"]) not in known_sigs]
    if not new_oracle_fail:
        if not h_ok:
            path = replay_file(prop, "harness-build", f"# the correspondence harness does not compile against {REPO}'s working tree; the tie between model and code cannot be established\n# {h_why}".replace("\n", "\n# "))
            violations.append((path, " no-failing-input-found"))
        elif not p_ok:
            txt = "# proof obligations of %s no longer check; the search (thorough budget) found no failing input\n" % prop + "\n".join("# " + x for x in P["failures"][:20])
            txt += "\n# undischarged: " + ", ".join(sorted(set(P["obligations"]) - set(P["discharged"])))
            path = replay_file(prop, "proof", txt)
            violations.append((path, " no-failing-input-found"))
        elif not k_ok:
            # a disagreement is itself an input on which to look: it is the replay
            d = disagreements[0] if disagreements else None
            txt = "# model and implementation disagree; the property's direct oracle holds on every explored input\n"
            if d:
                txt += f"# impl : {str(d['impl'])[:400]}\n# model: {str(d['model'])[:400]}\n{d['case']}"
            else:
                txt += "# " + "; ".join(E["errors"])
            path = replay_file(prop, "correspondence", txt)
            violations.append((path, " no-failing-input-found"))

    # ---- evidence
    distinct = set()
    for line in E["cases"]:
        i, _, c = line.partition(" ")
        res = E["impl"].get(i, "")
        if res and res not in ("bad-case", "panic", "unsupported"):
            distinct.add(hashlib.sha1(c.encode()).hexdigest())
    n_oracle = E["oracle_pass"] + len(E["oracle_fail"])
    evidence = {
        "property_id": prop,
        "tier": tier,
        "seed": seed,
        "level": "proof",
        "coverage": {
            "obligations": len(P["obligations"]),
            "discharged": len(P["discharged"]),
            "checker_cmd": P["checker_cmd"],
            "trusted_base": TRUSTED_BASE,
            "theorems": P["obligations"],
            "axioms_per_theorem": P["axioms"],
            "proof_failures": P["failures"],
            "table_sections_tied_by_correspondence_only": P.get("stale_sections", []),
            "evaluations": len(E["cases"]) + max(0, n_oracle - len(E["cases"])),
            "distinct_nontrivial": len(distinct),
            "rule": "cases come from the harness generators (structured-valid, spec, malformed, history and fault streams of DESIGN §4.2) seeded by VERIF_SEED; a case counts as distinct+non-trivial when its text is unique in this run and the implementation produced a result for it (not a rejected constructor call)",
            "samples": (E["samples"] or [c[:400] for c in E["cases"][:3]] or P["obligations"][:3] or ["(none)"])[:5],
            "correspondence_cases": len(E["cases"]),
            "disagreements_checked": len(E["cases"]),
            "model_vs_impl_disagreements": disagreements[:5],
            "n_model_vs_impl_disagreements": len(disagreements),
            "oracle_evaluations": n_oracle,
            "oracle_failures": [dict(signature=f["signature"], message=f["message"][:300]) for f in E["oracle_fail"][:10]],
            "n_oracle_failures": len(E["oracle_fail"]),
            "known_findings_hit": sorted({f["signature"] for f in known_hits}),
            "input_distribution": E["stats"],
            "errors": E["errors"] + ([] if h_ok else ["harness build failed: " + h_why[:500]]),
            "exhaustive": False,
            "log": log,
        },
        "assumptions": [
            "theorems are about the Lean model; the model is tied to the code by the translator (tables) and by the differential correspondence on the cases of this run",
            "records of 2^31 bytes or more are outside the format's i32 interface and excluded by explicit hypotheses",
        ],
        "wall_s": round(time.time() - t0, 2),
        "violations": len(violations),
    }
    # VERIF_EVIDENCE_DIR: used by tools/seedrun.py so that runs against a deliberately broken tree do
    # not overwrite the evidence of the real tree
    evdir = os.environ.get("VERIF_EVIDENCE_DIR") or os.path.join(VERIF, "evidence")
    os.makedirs(evdir, exist_ok=True)
    with open(os.path.join(evdir, f"{prop}.json"), "w") as f:
        json.dump(evidence, f, indent=1)

    print(f"{prop} [{tier}] proof: {len(P['discharged'])}/{len(P['obligations'])} theorems; correspondence: {len(E['cases'])} cases, {len(disagreements)} disagreements; oracle: {n_oracle} evaluations, {len(E['oracle_fail'])} failures ({len(known_hits)} known); {time.time()-t0:.1f}s")
    for x in P["failures"][:10]:
        print("  proof: " + x)
    for d in disagreements[:3]:
        print(f"  disagreement {d['id']}: impl={str(d['impl'])[:160]} model={str(d['model'])[:160]}")
    for f in new_oracle_fail[:5]:
        print(f"  oracle {f['id']} {f['signature']}: {f['message'][:200]}")
    for e in E["errors"][:5]:
        print("  error: " + e)
    for path, suffix in violations:
        print(f"VIOLATION property={prop} replay={path}{suffix}")
    sys.exit(1 if violations else 0)


if __name__ == "__main__":
    main()

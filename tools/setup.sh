#!/bin/bash
# Builds the framework from files on disk only (offline).
set -e
cd "$(dirname "$0")/.."
export CARGO_NET_OFFLINE=true
mkdir -p work evidence replays
[ -f harness/Cargo.lock ] || cp /repo/Cargo.lock harness/Cargo.lock
(cd harness && cargo build --release --offline 2>&1 | tail -2)
python3 tools/translate.py
(cd lean && lake build Shp shpdriver 2>&1 | tail -3)
echo "setup done"

#!/usr/bin/env python3
"""Applies a seeded breaking change (seeded/<id>/patch.diff) to /repo's working tree, runs the
registered checks against it, records which of them report a violation, and restores /repo.

  python3 tools/seedrun.py seeded/<id> [--props C01,C05|all] [--tier quick|thorough] [--jobs N]

With --jobs N the checks of one seed run N at a time (check.py is safe to run concurrently: builds
are serialised by file locks, scratch files carry the process id).

Nothing is committed to /repo; evidence of these runs goes to work/seed-evidence, not evidence/."""
import json, os, subprocess, sys, time
V = os.path.dirname(os.path.dirname(os.path.abspath(__file__)))
REPO = "/repo"

def sh(cmd, **kw):
    return subprocess.run(cmd, shell=True, capture_output=True, text=True, **kw)

def main():
    seed = os.path.abspath(sys.argv[1])
    props, tier, jobs, tag = None, "quick", 1, None
    a = sys.argv[2:]
    while a:
        if a[0] == "--props":
            props = None if a[1] == "all" else a[1].split(",")
            a = a[2:]
        elif a[0] == "--tier":
            tier = a[1]
            a = a[2:]
        elif a[0] == "--jobs":
            jobs = int(a[1])
            a = a[2:]
        elif a[0] == "--tag":
            # write result.<tag>.json instead of result.<tier>.json (keeps a fuller earlier record)
            tag = a[1]
            a = a[2:]
        else:
            a = a[1:]
    meta = json.load(open(os.path.join(seed, "meta.json")))
    target = meta["property"]
    if props is None:
        props = [f"C{i:02d}" for i in range(1, 21)]
    if sh(f"git -C {REPO} status --porcelain --untracked-files=no").stdout.strip():
        print("refusing: /repo has local modifications")
        return 2
    r = sh(f"git -C {REPO} apply {os.path.join(seed, 'patch.diff')}")
    if r.returncode != 0:
        print("patch does not apply:", r.stderr)
        return 2
    results = {}
    env = dict(os.environ, VERIF_EVIDENCE_DIR=os.path.join(V, "work", "seed-evidence"))
    try:
        def one(p):
            t0 = time.time()
            r = subprocess.run(["python3", os.path.join(V, "tools", "check.py"), p, "--tier", tier],
                               capture_output=True, text=True, cwd=V, env=env)
            viol = [l for l in r.stdout.splitlines() if l.startswith("VIOLATION")]
            summ = [l for l in r.stdout.splitlines() if l.startswith(p + " [")]
            replay_text = ""
            for l in viol[:1]:
                for tok in l.split():
                    if tok.startswith("replay="):
                        try:
                            replay_text = open(tok[7:]).read()[:1500]
                        except Exception:
                            pass
            print(p, "exit", r.returncode, (viol[0] if viol else ""), flush=True)
            return p, {"exit": r.returncode, "violation": viol, "summary": summ, "seconds": round(time.time() - t0, 1),
                       "replay_head": replay_text}
        if jobs > 1 and len(props) > 1:
            # the first check alone: it builds the harness and regenerates the tables for this tree
            p0, v0 = one(props[0])
            results[p0] = v0
            from concurrent.futures import ThreadPoolExecutor
            with ThreadPoolExecutor(max_workers=jobs) as ex:
                for p, v in ex.map(one, props[1:]):
                    results[p] = v
            results = {p: results[p] for p in props}
        else:
            for p in props:
                p, v = one(p)
                results[p] = v
    finally:
        sh(f"git -C {REPO} checkout -- .")
        # files a change ADDED (new modules) are untracked: remove them too
        sh(f"git -C {REPO} clean -fdq -- src tests examples")
        sh(f"python3 {os.path.join(V, 'tools', 'translate.py')}")
    detected = [p for p, v in results.items() if v["exit"] != 0]
    out = {"seed": os.path.basename(seed), "target_property": target, "tier": tier, "detected_by": detected,
           "target_detected": target in detected,
           "with_failing_input": [p for p, v in results.items() if v["violation"] and not v["violation"][0].rstrip().endswith("no-failing-input-found")],
           "results": results}
    json.dump(out, open(os.path.join(seed, f"result.{tag or tier}.json"), "w"), indent=1)
    print("target", target, "detected" if target in detected else "MISSED", "| all:", detected)
    return 0

if __name__ == "__main__":
    sys.exit(main())

#!/usr/bin/env python3
"""Confirms a candidate seeded change independently of whoever produced it, then files it.

  python3 tools/seedconfirm.py <candidate_dir> <seed_id>

candidate_dir holds patch.diff, demo.rs, meta.json.  In a scratch git worktree of /repo (outside
/repo and /verif, removed afterwards): the patch applies to HEAD, the crate's whole test suite passes
with it, the demonstration prints PROPERTY VIOLATED with it and PROPERTY HOLDS without it.  Only then
is the candidate copied to seeded/<seed_id>/ with the confirmation recorded in meta.json."""
import json, os, shutil, subprocess, sys
V = os.path.dirname(os.path.dirname(os.path.abspath(__file__)))

def sh(cmd, cwd=None, timeout=1800):
    e = dict(os.environ, CARGO_NET_OFFLINE="true")
    p = subprocess.run(cmd, shell=True, cwd=cwd, capture_output=True, text=True, timeout=timeout, env=e)
    return p.returncode, p.stdout + p.stderr

def main():
    cand, sid = os.path.abspath(sys.argv[1]), sys.argv[2]
    meta = json.load(open(os.path.join(cand, "meta.json")))
    refactor = meta.get("kind") == "refactor"     # a behaviour-preserving change: no demonstration
    wt = f"/tmp/seedconfirm-{os.getpid()}"
    rc, out = sh(f"git -C /repo worktree add --detach {wt} HEAD")
    if rc != 0:
        print(out); return 2
    ok, notes = True, {}
    try:
        feats = "--features geo-types,geo-traits" if "geo" in meta.get("demo_cmd", "") else ""
        if not refactor:
            os.makedirs(os.path.join(wt, "examples"), exist_ok=True)
            shutil.copy(os.path.join(cand, "demo.rs"), os.path.join(wt, "examples", "demo.rs"))
            rc, out = sh(f"cargo run --offline --example demo {feats}", cwd=wt)
            notes["demo_clean"] = [l for l in out.splitlines() if "PROPERTY" in l][:3]
            if not any("PROPERTY HOLDS" in l for l in notes["demo_clean"]) or any("VIOLATED" in l for l in notes["demo_clean"]):
                ok = False
        rc, out = sh(f"git apply {os.path.join(cand, 'patch.diff')}", cwd=wt)
        if rc != 0:
            notes["apply"] = out; ok = False
        else:
            rc, out = sh("cargo test --workspace --no-fail-fast --offline", cwd=wt)
            res = [l for l in out.splitlines() if l.startswith("test result")]
            notes["tests"] = res
            if rc != 0 or any(" 0 failed" not in l for l in res) or not res:
                ok = False
            if refactor:
                rc, out = sh("cargo build --offline --features geo-types,geo-traits", cwd=wt)
                notes["build_with_features"] = rc == 0
                ok = ok and rc == 0
            else:
                rc, out = sh(f"cargo run --offline --example demo {feats}", cwd=wt)
                notes["demo_changed"] = [l for l in out.splitlines() if "PROPERTY" in l][:3]
                if not any("PROPERTY VIOLATED" in l for l in notes["demo_changed"]):
                    ok = False
            rc, out = sh("git diff --stat -- . ':!examples'", cwd=wt)
            notes["stat"] = out.strip().splitlines()[-1:] 
    finally:
        sh(f"git -C /repo worktree remove --force {wt}")
        shutil.rmtree(wt, ignore_errors=True)
    print(json.dumps(notes, indent=1))
    if not ok:
        print("NOT CONFIRMED"); return 1
    dst = os.path.join(V, "seeded", sid)
    os.makedirs(dst, exist_ok=True)
    for f in (("patch.diff",) if refactor else ("patch.diff", "demo.rs")):
        shutil.copy(os.path.join(cand, f), os.path.join(dst, f))
    meta["confirmed"] = {"by": "tools/seedconfirm.py", "base_commit": subprocess.run("git -C /repo rev-parse --short HEAD", shell=True, capture_output=True, text=True).stdout.strip(), **notes}
    json.dump(meta, open(os.path.join(dst, "meta.json"), "w"), indent=1)
    print("CONFIRMED ->", dst)
    return 0

if __name__ == "__main__":
    sys.exit(main())

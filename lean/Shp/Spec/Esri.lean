/-
An independent codec written from the ESRI Shapefile Technical Description (July 1998), not from
the crate: its own number codecs, its own data types.  Shares nothing with `Shp.Model` except
`List UInt8` (and, for `expected`, the no-data rule on bit patterns that the property itself states).

* `decodeFile` is STRICT: it rejects anything the whitepaper does not allow (C02's oracle).
* `encodeFile` can emit every legal layout, including those this library's writer never produces
  (C03, C14).
-/
import Shp.Prim.F64
namespace Shp.Spec

/-! ### own primitives -/
def rdU32LE : Bytes → Option (Nat × Bytes)
  | a :: b :: c :: d :: r => some (a.toNat + 256 * (b.toNat + 256 * (c.toNat + 256 * d.toNat)), r)
  | _ => none
def rdU32BE : Bytes → Option (Nat × Bytes)
  | a :: b :: c :: d :: r => some (d.toNat + 256 * (c.toNat + 256 * (b.toNat + 256 * a.toNat)), r)
  | _ => none
def asI32 (n : Nat) : Int := if n ≥ 2147483648 then (n : Int) - 4294967296 else n
def rdI32LE (bs : Bytes) : Option (Int × Bytes) := (rdU32LE bs).map fun (n, r) => (asI32 n, r)
def rdI32BE (bs : Bytes) : Option (Int × Bytes) := (rdU32BE bs).map fun (n, r) => (asI32 n, r)
/-- a double as its 64-bit pattern -/
def rdF64 (bs : Bytes) : Option (Nat × Bytes) := do
  let (lo, r) ← rdU32LE bs
  let (hi, r) ← rdU32LE r
  pure (lo + 4294967296 * hi, r)

def wrU32LE (n : Nat) : Bytes := [UInt8.ofNat (n % 256), UInt8.ofNat (n / 256 % 256), UInt8.ofNat (n / 65536 % 256), UInt8.ofNat (n / 16777216 % 256)]
def wrU32BE (n : Nat) : Bytes := (wrU32LE n).reverse
def ofInt32 (i : Int) : Nat := (i % 4294967296).toNat
def wrI32LE (i : Int) : Bytes := wrU32LE (ofInt32 i)
def wrI32BE (i : Int) : Bytes := wrU32BE (ofInt32 i)
def wrF64 (bits : Nat) : Bytes := wrU32LE (bits % 4294967296) ++ wrU32LE (bits / 4294967296)

def rdMany {α : Type} (rd : Bytes → Option (α × Bytes)) : Nat → Bytes → Option (List α × Bytes)
  | 0, bs => some ([], bs)
  | n + 1, bs => do
    let (a, r) ← rd bs
    let (as, r) ← rdMany rd n r
    pure (a :: as, r)

/-! ### the whitepaper's data -/
/-- a vertex: bit patterns; coordinates the type lacks are 0 -/
structure V where
  x : Nat
  y : Nat
  z : Nat := 0
  m : Nat := 0
  deriving DecidableEq, Repr, Inhabited

/-- Table 1 of the whitepaper: value ↦ (has Z, has M, family) ; family 0 null 1 point 2 multipoint
3 polyline 4 polygon 5 multipatch -/
def typeInfo : Nat → Option (Bool × Bool × Nat)
  | 0 => some (false, false, 0)
  | 1 => some (false, false, 1) | 3 => some (false, false, 3) | 5 => some (false, false, 4) | 8 => some (false, false, 2)
  | 11 => some (true, true, 1) | 13 => some (true, true, 3) | 15 => some (true, true, 4) | 18 => some (true, true, 2)
  | 21 => some (false, true, 1) | 23 => some (false, true, 3) | 25 => some (false, true, 4) | 28 => some (false, true, 2)
  | 31 => some (true, true, 5)
  | _ => none

structure Rec where
  number : Int
  typeCode : Nat                      -- the file's type, or 0 for a null shape record
  box : List Nat := []                -- Xmin Ymin Xmax Ymax (multi-vertex types)
  zRange : Nat × Nat := (0, 0)
  mRange : Nat × Nat := (0, 0)
  parts : List (List V) := []         -- point: [[v]], multipoint: [vs]
  kinds : List Nat := []              -- multipatch part types
  mPresent : Bool := true             -- is the optional M block stored?
  deriving Repr, Inhabited

structure File where
  typeCode : Nat
  box : List Nat                      -- 8 doubles of the header
  records : List Rec
  trailing : Bytes := []              -- bytes after the declared length
  deriving Repr, Inhabited

def offsetsOf : Nat → List (List V) → List Nat
  | _, [] => []
  | s, p :: ps => s :: offsetsOf (s + p.length) ps

def total (parts : List (List V)) : Nat := (parts.map List.length).sum

/-! ### encoder (every legal layout) -/
def encVerts (hasZ hasM mPresent : Bool) (r : Rec) : Bytes :=
  let vs := r.parts.flatten
  vs.flatMap (fun v => wrF64 v.x ++ wrF64 v.y) ++
  (if hasZ then wrF64 r.zRange.1 ++ wrF64 r.zRange.2 ++ vs.flatMap (fun v => wrF64 v.z) else []) ++
  (if hasM && mPresent then wrF64 r.mRange.1 ++ wrF64 r.mRange.2 ++ vs.flatMap (fun v => wrF64 v.m) else [])

def encContent (r : Rec) : Bytes :=
  match typeInfo r.typeCode with
  | none => []
  | some (hasZ, hasM, fam) =>
    wrI32LE r.typeCode ++
    match fam with
    | 0 => []
    | 1 =>
      match r.parts.flatten with
      | v :: _ => wrF64 v.x ++ wrF64 v.y ++ (if hasZ then wrF64 v.z else []) ++
                  (if hasM && (r.mPresent || !hasZ) then wrF64 v.m else [])
      | [] => []
    | 2 => (r.box.flatMap wrF64) ++ wrI32LE (total r.parts) ++ encVerts hasZ hasM r.mPresent r
    | 5 => (r.box.flatMap wrF64) ++ wrI32LE r.parts.length ++ wrI32LE (total r.parts) ++
           (offsetsOf 0 r.parts).flatMap (fun (o : Nat) => wrI32LE (o : Int)) ++ r.kinds.flatMap (fun (k : Nat) => wrI32LE (k : Int)) ++
           encVerts hasZ hasM r.mPresent r
    | _ => (r.box.flatMap wrF64) ++ wrI32LE r.parts.length ++ wrI32LE (total r.parts) ++
           (offsetsOf 0 r.parts).flatMap (fun (o : Nat) => wrI32LE (o : Int)) ++ encVerts hasZ hasM r.mPresent r

def encRecord (r : Rec) : Bytes :=
  let c := encContent r
  wrI32BE r.number ++ wrI32BE (c.length / 2) ++ c

def encHeader (typeCode : Nat) (lenWords : Nat) (box : List Nat) : Bytes :=
  wrI32BE 9994 ++ List.replicate 20 0 ++ wrI32BE lenWords ++ wrI32LE 1000 ++ wrI32LE typeCode ++ box.flatMap wrF64

def encodeFile (f : File) : Bytes :=
  let body := f.records.flatMap encRecord
  encHeader f.typeCode ((100 + body.length) / 2) f.box ++ body ++ f.trailing

/-! ### strict decoder -/
def splitParts : List Nat → Nat → List V → Option (List (List V))
  | [], _, vs => if vs.isEmpty then some [] else none
  | [s], n, vs => if s ≤ n ∧ vs.length = n - s then some [vs] else none
  | s :: e :: rest, n, vs =>
    if s ≤ e then (splitParts (e :: rest) n (vs.drop (e - s))).map (vs.take (e - s) :: ·) else none

def zipZM (vs : List V) (zs ms : List Nat) : List V :=
  vs.zipIdx.map fun (v, i) => { v with z := zs.getD i 0, m := ms.getD i 0 }

/-- vertices + optional blocks of a multi-vertex record; `content` must be consumed exactly -/
def decVerts (hasZ hasM : Bool) (n : Nat) (bs : Bytes) : Option (List V × (Nat × Nat) × (Nat × Nat) × Bool) := do
  let (xy, r) ← rdMany (fun b => do let (x, r) ← rdF64 b; let (y, r) ← rdF64 r; pure (({ x := x, y := y } : V), r)) n bs
  let (zr, zs, r) ← (if hasZ then do
      let (a, r) ← rdF64 r; let (b, r) ← rdF64 r; let (zs, r) ← rdMany rdF64 n r; pure ((a, b), zs, r)
    else pure ((0, 0), [], r))
  if r.isEmpty then
    if hasM then none else pure (zipZM xy zs [], zr, (0, 0), false)   -- our writer always stores M: strictness for C02
  else do
    if !hasM then none
    let (a, r) ← rdF64 r; let (b, r) ← rdF64 r; let (ms, r) ← rdMany rdF64 n r
    if !r.isEmpty then none
    pure (zipZM xy zs ms, zr, (a, b), true)

def decContent (fileType : Nat) (number : Int) (content : Bytes) : Option Rec := do
  let (t, r) ← rdI32LE content
  if t < 0 then none
  let t := t.toNat
  if t ≠ fileType ∧ t ≠ 0 then none
  let (hasZ, hasM, fam) ← typeInfo t
  match fam with
  | 0 => if r.isEmpty then pure { number := number, typeCode := 0 } else none
  | 1 => do
    let (x, r) ← rdF64 r; let (y, r) ← rdF64 r
    let (z, r) ← (if hasZ then rdF64 r else pure (0, r))
    if hasM then do
      let (m, r) ← rdF64 r
      if !r.isEmpty then none
      pure { number := number, typeCode := t, parts := [[{ x := x, y := y, z := z, m := m }]] }
    else
      if !r.isEmpty then none else pure { number := number, typeCode := t, parts := [[{ x := x, y := y }]] }
  | 2 => do
    let (box, r) ← rdMany rdF64 4 r
    let (n, r) ← rdI32LE r
    if n < 0 then none
    let (vs, zr, mr, mp) ← decVerts hasZ hasM n.toNat r
    pure { number := number, typeCode := t, box := box, zRange := zr, mRange := mr, parts := [vs], mPresent := mp }
  | _ => do
    let (box, r) ← rdMany rdF64 4 r
    let (np, r) ← rdI32LE r
    let (n, r) ← rdI32LE r
    if np < 0 ∨ n < 0 then none
    let (offs, r) ← rdMany rdI32LE np.toNat r
    if offs.any (· < 0) then none
    let offs := offs.map Int.toNat
    -- ascending part offsets starting at 0 (when there is a part at all)
    if (offs.head?).any (· ≠ 0) then none
    let (kinds, r) ← (if fam = 5 then rdMany rdI32LE np.toNat r else pure ([], r))
    if kinds.any (fun k => k < 0 ∨ k > 5) then none
    let (vs, zr, mr, mp) ← decVerts hasZ hasM n.toNat r
    let parts ← splitParts offs n.toNat vs
    pure { number := number, typeCode := t, box := box, zRange := zr, mRange := mr, parts := parts,
           kinds := kinds.map Int.toNat, mPresent := mp }

def decRecords (fileType : Nat) : Nat → Nat → Bytes → Option (List Rec)
  | 0, _, bs => if bs.isEmpty then some [] else none
  | fuel + 1, expectNum, bs =>
    if bs.isEmpty then some [] else do
      let (num, r) ← rdI32BE bs
      let (len, r) ← rdI32BE r
      if num ≠ expectNum then none
      if len < 2 then none
      let n := 2 * len.toNat
      if r.length < n then none
      let rec_ ← decContent fileType num (r.take n)
      let rest ← decRecords fileType fuel (expectNum + 1) (r.drop n)
      pure (rec_ :: rest)

/-- strict validator/decoder of a whole `.shp` -/
def decodeFile (bs : Bytes) : Option File := do
  let (code, r) ← rdI32BE bs
  if code ≠ 9994 then none
  let (unused, r) ← rdMany rdI32BE 5 r
  if unused.any (· ≠ 0) then none
  let (len, r) ← rdI32BE r
  if len < 0 ∨ 2 * len.toNat ≠ bs.length then none
  let (version, r) ← rdI32LE r
  if version ≠ 1000 then none
  let (t, r) ← rdI32LE r
  if t < 0 then none
  let _ ← typeInfo t.toNat
  let (box, r) ← rdMany rdF64 8 r
  let recs ← decRecords t.toNat (r.length + 1) 1 r
  pure { typeCode := t.toNat, box := box, records := recs }

/-! ### what a conforming reader must return (C03): flat, role-free geometry -/
def hex16 (n : Nat) : String :=
  let digits := (List.range 16).map fun i => (n / 16 ^ (15 - i)) % 16
  String.ofList (digits.map fun d => if d < 10 then Char.ofNat (48 + d) else Char.ofNat (87 + d))

def kindName : Nat → String
  | 0 => "strip" | 1 => "fan" | 2 => "outer" | 3 => "inner" | 4 => "first" | _ => "ring"

def noDataBits : Nat := Const.noDataBits

/-- the read-side rule for measures of multi-vertex shapes (C01): NaN or `<= NO_DATA` ↦ NO_DATA -/
def normM (bits : Nat) : Nat := (F64.ofNat bits).maxNoData.bits.toNat

def showV (hasZ hasM : Bool) (v : V) : String :=
  hex16 v.x ++ " " ++ hex16 v.y ++ (if hasZ then " " ++ hex16 v.z else "") ++ (if hasM then " " ++ hex16 v.m else "")

/-- a record as a conforming reader reports it: `stored = true` prints the measures as stored
(C02), otherwise with absent measures as NO_DATA and present ones normalised (C03) -/
def flatRec (stored : Bool) (r : Rec) : String :=
  match typeInfo r.typeCode with
  | none => "?"
  | some (hasZ, hasM, fam) =>
    let mOf : V → Nat := fun v => if stored then v.m else if r.mPresent then normM v.m else noDataBits
    let fix : V → V := fun v => { v with m := mOf v }
    match fam with
    | 0 => "null"
    | 1 =>
      let v := (r.parts.flatten.headD default)
      -- single points are not normalised; only an absent measure becomes NO_DATA
      let v := if stored || r.mPresent || !hasZ then v else { v with m := noDataBits }
      "pt 1 " ++ showV hasZ hasM v
    | _ =>
      let mr : Nat × Nat := if stored || r.mPresent then r.mRange else (noDataBits, noDataBits)
      "box " ++ String.intercalate " " (r.box.map hex16) ++
      (if hasZ then " " ++ hex16 r.zRange.1 ++ " " ++ hex16 r.zRange.2 else "") ++
      (if hasM then " " ++ hex16 mr.1 ++ " " ++ hex16 mr.2 else "") ++
      " parts " ++ toString r.parts.length ++
      String.join ((r.parts.zipIdx).map fun (p, i) =>
        " " ++ (if fam = 5 then kindName (r.kinds.getD i 5) else "-") ++ " " ++ toString p.length ++
        String.join (p.map fun v => " " ++ showV hasZ hasM (fix v)))

def flatFile (stored : Bool) (f : File) : String :=
  "ok " ++ toString f.typeCode ++ " " ++ toString f.records.length ++
  String.join (f.records.map fun r => " ; " ++ toString r.number ++ " " ++ flatRec stored r)

end Shp.Spec

/-
What a conforming reader must return for a whitepaper record (C03's `expected`), as a model
shape: absent measures are NO_DATA, present ones follow the read-side normalisation, the stored
box is returned as stored.  Definitions only (imported by the native driver).
-/
import Shp.Spec.Esri
import Shp.Model.Norm
namespace Shp
open Spec

def Spec.V.toPt (v : V) : Pt := ⟨F64.ofNat v.x, F64.ofNat v.y, F64.ofNat v.z, F64.ofNat v.m⟩
def Pt.toV (p : Pt) : V := ⟨p.x.bits.toNat, p.y.bits.toNat, p.z.bits.toNat, p.m.bits.toNat⟩

def dimOf (hasZ hasM : Bool) : Dim := if hasZ then .xyzm else if hasM then .xym else .xy

/-- the stored box of a record as the model's box value -/
def Spec.Rec.bbox (r : Rec) : BBox :=
  ⟨⟨F64.ofNat (r.box.getD 0 0), F64.ofNat (r.box.getD 1 0), F64.ofNat r.zRange.1, F64.ofNat r.mRange.1⟩,
   ⟨F64.ofNat (r.box.getD 2 0), F64.ofNat (r.box.getD 3 0), F64.ofNat r.zRange.2, F64.ofNat r.mRange.2⟩⟩

def Spec.Rec.pparts (r : Rec) : List (List Pt) := r.parts.map (List.map V.toPt)

/-- the model's shape type with a given whitepaper code -/
def typeOfCode (c : Nat) : ShapeType := (ShapeType.ofCode c).getD .nullShape

/-- the patch kind the reader builds for a part-type code -/
def kindOfCode (k : Nat) : PatchKind := ((PatchKind.ofCode k).map PatchKind.readAs).getD .ring

/-- what a conforming reader returns for a record (C03's `expected`) -/
def Spec.Rec.expected (o : Orient) (r : Rec) : Shape :=
  match typeInfo r.typeCode with
  | none => .null
  | some (hasZ, hasM, fam) =>
    let d := dimOf hasZ hasM
    let m := r.mPresent
    match fam with
    | 0 => .null
    | 1 => .point d ((r.pparts.flatten.headD Pt.default).readRawOpt d (m || !hasZ))
    | 2 => .multipoint d (r.bbox.readRawOpt d m) (r.pparts.flatten.map (Pt.readBackOpt d m))
    | 3 => .polyline d (r.bbox.readRawOpt d m) (r.pparts.map (List.map (Pt.readBackOpt d m)))
    | 4 => .polygon d (r.bbox.readRawOpt d m)
        (r.pparts.map fun ps => (roleOf o (ps.map (Pt.readBackOpt d m)), ps.map (Pt.readBackOpt d m)))
    | _ => .multipatch (r.bbox.readRawOpt .xyzm m)
        ((r.kinds.zip r.pparts).map fun kp => (kindOfCode kp.1, kp.2.map (Pt.readBackOpt .xyzm m)))


end Shp

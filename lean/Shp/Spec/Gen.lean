/-
Generators of spec-conformant files (driver side): `Spec.File` values drawn from one
SplitMix64 state, rendered by `Spec.encodeFile`, together with what a conforming reader must
return for them.  Used by C03 (foreign layouts) and C14 (index-driven, permuted records).
-/
import Shp.Spec.Esri
namespace Shp.Spec

structure Rng where
  s : UInt64

def Rng.next (r : Rng) : UInt64 × Rng :=
  let s := r.s + 0x9E3779B97F4A7C15
  let z := s
  let z := (z ^^^ (z >>> 30)) * 0xBF58476D1CE4E5B9
  let z := (z ^^^ (z >>> 27)) * 0x94D049BB133111EB
  (z ^^^ (z >>> 31), ⟨s⟩)

abbrev G (α : Type) := StateM Rng α

def nextU64 : G UInt64 := fun r => r.next
def below (n : Nat) : G Nat := do
  let v ← nextU64
  pure (if n = 0 then 0 else v.toNat % n)
def chance (num den : Nat) : G Bool := do
  let v ← below den
  pure (v < num)

def specials : List Nat :=
  [0x0000000000000000, 0x8000000000000000, 0x0000000000000001, 0x3ff0000000000000, 0xbff0000000000000,
   0x7ff0000000000000, 0xfff0000000000000, 0x7fefffffffffffff, 0xffefffffffffffff,
   Const.noDataBits, Const.noDataBits + 1, Const.noDataBits - 1, 0xc7d2ced32a16a1b1, 0x4024000000000000]

def isNaNBits (b : Nat) : Bool := (b % 9223372036854775808) > 9218868437227405312

/-- a double: small integers, specials, arbitrary bits; NaN only when allowed -/
partial def genF (allowNaN : Bool) : G Nat := do
  let k ← below 10
  if k < 4 then
    let v ← below 17
    -- small integers -8..8 as doubles: build from a table
    let tbl : List Nat := [0xc020000000000000, 0xc01c000000000000, 0xc018000000000000, 0xc014000000000000,
      0xc010000000000000, 0xc008000000000000, 0xc000000000000000, 0xbff0000000000000, 0x0000000000000000,
      0x3ff0000000000000, 0x4000000000000000, 0x4008000000000000, 0x4010000000000000, 0x4014000000000000,
      0x4018000000000000, 0x401c000000000000, 0x4020000000000000]
    pure (tbl.getD v 0)
  else if k < 7 then
    let i ← below specials.length
    pure (specials.getD i 0)
  else if k = 7 ∧ allowNaN then
    pure 0x7ff8000000000000
  else
    let v ← nextU64
    if isNaNBits v.toNat ∧ !allowNaN then genF allowNaN else pure v.toNat

def genV (hasZ hasM : Bool) : G V := do
  let x ← genF false
  let y ← genF false
  let z ← if hasZ then genF true else pure 0
  let m ← if hasM then genF true else pure 0
  pure { x := x, y := y, z := z, m := m }

def genList {α : Type} (n : Nat) (g : G α) : G (List α) :=
  match n with
  | 0 => pure []
  | n + 1 => do
    let a ← g
    let as ← genList n g
    pure (a :: as)

def typeCodes : List Nat := [1, 3, 5, 8, 11, 13, 15, 18, 21, 23, 25, 28, 31]

/-- one record of file type `t` (sometimes a null-shape record) -/
def genRec (t : Nat) (allowNull : Bool) (minVerts : Nat) : G Rec := do
  let num ← nextU64
  let number : Int := asI32 (num.toNat % 4294967296)
  let isNull ← chance 1 8
  if allowNull ∧ isNull then pure { number := number, typeCode := 0 } else
  match typeInfo t with
  | none => pure { number := number, typeCode := 0 }
  | some (hasZ, hasM, fam) => do
    let mAbsent ← chance 1 2
    let mPresent := !(hasM ∧ mAbsent ∧ (fam ≠ 1 ∨ hasZ))
    let box ← genList 4 (genF false)
    let zr ← genList 2 (genF true)
    let mr ← genList 2 (genF true)
    let parts ← (match fam with
      | 1 => do let v ← genV hasZ hasM; pure [[v]]
      | 2 => do
        let n ← below 6
        let vs ← genList (max n minVerts) (genV hasZ hasM)
        pure [vs]
      | _ => do
        let np ← below 4
        genList (max np (if minVerts > 0 then 1 else 0)) (do
          let n ← below 5
          genList (max n minVerts) (genV hasZ hasM)))
    let kinds ← genList parts.length (below 6)
    pure { number := number, typeCode := t, box := box, zRange := (zr.getD 0 0, zr.getD 1 0),
           mRange := (mr.getD 0 0, mr.getD 1 0), parts := parts, kinds := if fam = 5 then kinds else [],
           mPresent := mPresent }

def genFile : G File := do
  let ti ← below typeCodes.length
  let t := typeCodes.getD ti 1
  let n ← below 5
  let recs ← genList n (genRec t true 0)
  let box ← genList 8 (genF true)
  let nt ← below 4
  let trailing ← genList (if nt = 0 then 6 else 0) (do let v ← nextU64; pure (UInt8.ofNat (v.toNat % 256)))
  pure { typeCode := t, box := box, records := recs, trailing := trailing }

def hexOf (bs : Bytes) : String :=
  if bs.isEmpty then "-" else
  String.join (bs.map fun b =>
    let d := fun (n : Nat) => if n < 10 then Char.ofNat (48 + n) else Char.ofNat (87 + n)
    String.ofList [d (b.toNat / 16), d (b.toNat % 16)])

/-- `open ok ; <flat record> ; ...` — what a conforming reader yields -/
def expectRead (recs : List Rec) : String :=
  "open ok" ++ String.join (recs.map fun r => " ; ok " ++ flatRec false r)

/-- a permutation of `0..n-1` by repeated extraction -/
def genPerm : Nat → List Nat → G (List Nat)
  | 0, _ => pure []
  | n + 1, pool => do
    let i ← below pool.length
    let x := pool.getD i 0
    let rest ← genPerm n (pool.eraseIdx i)
    pure (x :: rest)

/-- C14: records in a physical order different from the index order, separated by filler -/
def genPermuted : G (Bytes × Bytes × List Rec) := do
  let ti ← below typeCodes.length
  let t := typeCodes.getD ti 1
  let n0 ← below 4
  let n := n0 + 1
  let recs ← genList n (genRec t false 1)
  -- our writer's layout rules: measures always stored (so that every reader route accepts them)
  let perm ← genPerm n (List.range n)
  let filler : G Bytes := do
    let k ← below 5
    genList (2 * k) (do let v ← nextU64; pure (UInt8.ofNat (v.toNat % 256)))
  let lead ← filler
  -- lay the records out in `perm` order, remembering where each one starts
  let mut body : Bytes := lead
  let mut starts : List (Nat × Nat × Nat) := []   -- (logical index, byte offset, content words)
  for li in perm do
    let r := recs.getD li default
    let enc := encRecord r
    starts := (li, 100 + body.length, (enc.length - 8) / 2) :: starts
    let gap ← filler
    body := body ++ enc ++ gap
  let box ← genList 8 (genF true)
  let shp := encHeader t ((100 + body.length) / 2) box ++ body
  let entries := (List.range n).map fun li =>
    match starts.find? (·.1 = li) with
    | some (_, off, w) => wrI32BE (off / 2) ++ wrI32BE w
    | none => []
  let shx := encHeader t (50 + 4 * n) box ++ entries.flatten
  pure (shp, shx, recs)

end Shp.Spec

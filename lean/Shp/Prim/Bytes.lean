/-
Bytes and the fixed-width number codecs used by the shapefile format
(`byteorder`'s `read_i32::<BigEndian/LittleEndian>`, `read_f64::<LittleEndian>` and the
matching `write_*`).  Core Lean only: this file is imported by the native driver.
-/
namespace Shp

abbrev Bytes := List UInt8

/-- low byte of a natural number -/
def u8 (n : Nat) : UInt8 := UInt8.ofNat n

@[simp] theorem u8_toNat (n : Nat) : (u8 n).toNat = n % 256 := by
  simp [u8]

/-- little-endian, 4 bytes, of `n mod 2^32` -/
def encU32LE (n : Nat) : Bytes := [u8 n, u8 (n / 256), u8 (n / 65536), u8 (n / 16777216)]
/-- big-endian, 4 bytes, of `n mod 2^32` -/
def encU32BE (n : Nat) : Bytes := [u8 (n / 16777216), u8 (n / 65536), u8 (n / 256), u8 n]
/-- little-endian, 8 bytes, of `n mod 2^64` -/
def encU64LE (n : Nat) : Bytes :=
  [u8 n, u8 (n / 256), u8 (n / 65536), u8 (n / 16777216), u8 (n / 4294967296),
   u8 (n / 1099511627776), u8 (n / 281474976710656), u8 (n / 72057594037927936)]

def decU32LE (b0 b1 b2 b3 : UInt8) : Nat :=
  b0.toNat + 256 * b1.toNat + 65536 * b2.toNat + 16777216 * b3.toNat
def decU32BE (b0 b1 b2 b3 : UInt8) : Nat := decU32LE b3 b2 b1 b0
def decU64LE (b0 b1 b2 b3 b4 b5 b6 b7 : UInt8) : Nat :=
  b0.toNat + 256 * b1.toNat + 65536 * b2.toNat + 16777216 * b3.toNat + 4294967296 * b4.toNat
    + 1099511627776 * b5.toNat + 281474976710656 * b6.toNat + 72057594037927936 * b7.toNat

/-- two's complement: the `u32` holding an `i32` -/
def ofI32 (i : Int) : Nat := (i % 4294967296).toNat
/-- two's complement: the `i32` held by a `u32` -/
def toI32 (n : Nat) : Int := if n < 2147483648 then (n : Int) else (n : Int) - 4294967296

def InI32 (i : Int) : Prop := -2147483648 ≤ i ∧ i < 2147483648
instance (i : Int) : Decidable (InI32 i) := by unfold InI32; infer_instance

theorem toI32_ofI32 {i : Int} (h : InI32 i) : toI32 (ofI32 i) = i := by
  unfold InI32 at h
  unfold toI32 ofI32
  split <;> omega

theorem toI32_inI32 (n : Nat) (h : n < 4294967296) : InI32 (toI32 n) := by
  unfold InI32 toI32; split <;> omega

theorem ofI32_lt (i : Int) : ofI32 i < 4294967296 := by
  unfold ofI32; omega

theorem decU32LE_lt (b0 b1 b2 b3 : UInt8) : decU32LE b0 b1 b2 b3 < 4294967296 := by
  have := b0.toNat_lt; have := b1.toNat_lt; have := b2.toNat_lt; have := b3.toNat_lt
  unfold decU32LE; omega

theorem decU32LE_enc (n : Nat) (h : n < 4294967296) :
    decU32LE (u8 n) (u8 (n / 256)) (u8 (n / 65536)) (u8 (n / 16777216)) = n := by
  simp only [decU32LE, u8_toNat]; omega

theorem decU64LE_enc (n : Nat) (h : n < 18446744073709551616) :
    decU64LE (u8 n) (u8 (n / 256)) (u8 (n / 65536)) (u8 (n / 16777216)) (u8 (n / 4294967296))
      (u8 (n / 1099511627776)) (u8 (n / 281474976710656)) (u8 (n / 72057594037927936)) = n := by
  simp only [decU64LE, u8_toNat]; omega

theorem decU64LE_lt (b0 b1 b2 b3 b4 b5 b6 b7 : UInt8) :
    decU64LE b0 b1 b2 b3 b4 b5 b6 b7 < 18446744073709551616 := by
  have := b0.toNat_lt; have := b1.toNat_lt; have := b2.toNat_lt; have := b3.toNat_lt
  have := b4.toNat_lt; have := b5.toNat_lt; have := b6.toNat_lt; have := b7.toNat_lt
  unfold decU64LE; omega

@[simp] theorem encU32LE_length (n : Nat) : (encU32LE n).length = 4 := rfl
@[simp] theorem encU32BE_length (n : Nat) : (encU32BE n).length = 4 := rfl
@[simp] theorem encU64LE_length (n : Nat) : (encU64LE n).length = 8 := rfl

def encI32LE (i : Int) : Bytes := encU32LE (ofI32 i)
def encI32BE (i : Int) : Bytes := encU32BE (ofI32 i)
@[simp] theorem encI32LE_length (i : Int) : (encI32LE i).length = 4 := rfl
@[simp] theorem encI32BE_length (i : Int) : (encI32BE i).length = 4 := rfl

end Shp

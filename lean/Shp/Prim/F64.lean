/-
IEEE-754 binary64 values as bit patterns.  The library moves doubles around and *compares*
them; the only float arithmetic is the shoelace sum (kept abstract, see `Model/Ring`).
Comparison is modelled exactly on the bit pattern.
-/
import Shp.Prim.Bytes
import Shp.Gen.Tables
namespace Shp

structure F64 where
  bits : UInt64
  deriving DecidableEq, Repr, Inhabited

namespace F64

def ofNat (n : Nat) : F64 := ⟨UInt64.ofNat n⟩

/-- magnitude bits (exponent and fraction) -/
def mag (a : F64) : Nat := a.bits.toNat % 9223372036854775808
/-- sign bit -/
def sign (a : F64) : Bool := decide (9223372036854775808 ≤ a.bits.toNat)
def isNaN (a : F64) : Bool := decide (9218868437227405312 < a.mag)
/-- order key of a non-NaN value; `-0` and `+0` share key 0 -/
def key (a : F64) : Int := if a.sign then -(a.mag : Int) else (a.mag : Int)

/-- IEEE `<` -/
def lt (a b : F64) : Bool := !a.isNaN && !b.isNaN && decide (a.key < b.key)
/-- IEEE `<=` -/
def le (a b : F64) : Bool := !a.isNaN && !b.isNaN && decide (a.key ≤ b.key)
/-- IEEE `==` -/
def feq (a b : F64) : Bool := !a.isNaN && !b.isNaN && decide (a.key = b.key)

/-- `writer::f64_min`: `if a < b { a } else { b }` -/
def fmin (a b : F64) : F64 := if a.lt b then a else b
/-- `writer::f64_max`: `if a > b { a } else { b }` -/
def fmax (a b : F64) : F64 := if b.lt a then a else b

def zero : F64 := ⟨0⟩
def noData : F64 := ofNat Const.noDataBits
def posInf : F64 := ofNat 9218868437227405312
def negInf : F64 := ofNat 18442240474082181120
def sentinelMin : F64 := ofNat Const.sentinelMinBits
def sentinelMax : F64 := ofNat Const.sentinelMaxBits

/-- `is_no_data`: `val <= NO_DATA` (or `<`, whichever the source says) -/
def isNoData (v : F64) : Bool := if Const.isNoDataLe = 1 then v.le noData else v.lt noData

/-- `f64::max(v, NO_DATA)` (std: a NaN operand yields the other operand) -/
def maxNoData (v : F64) : F64 := if v.isNaN then noData else if noData.lt v then v else noData

def enc (a : F64) : Bytes := encU64LE a.bits.toNat
@[simp] theorem enc_length (a : F64) : a.enc.length = 8 := rfl

def dec (b0 b1 b2 b3 b4 b5 b6 b7 : UInt8) : F64 := ofNat (decU64LE b0 b1 b2 b3 b4 b5 b6 b7)

theorem ofNat_toNat (a : F64) : ofNat a.bits.toNat = a := by
  cases a; simp [ofNat]

end F64
end Shp

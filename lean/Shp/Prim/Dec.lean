/-
The decoder monad: a decoder consumes a prefix of the bytes it is given (`Read::read_exact`
on a sequential source) and yields a value with the rest, a library error, or a panic
(arithmetic overflow, failed assertion, capacity overflow: the things C07 forbids).
-/
import Shp.Prim.F64
namespace Shp

/-- `shapefile::Error`, as finely as the properties need it -/
inductive Err where
  | io                                   -- IoError (UnexpectedEof, InvalidData, ...)
  | fileCode (c : Int)                   -- InvalidFileCode
  | shapeType (c : Int)                  -- InvalidShapeType
  | patchType (c : Int)                  -- InvalidPatchType
  | mismatch (requested actual : ShapeType)
  | recSize                              -- InvalidShapeRecordSize
  | noIndex                              -- MissingIndexFile
  | dbase                                -- DbaseError (a row rejected by the dbase crate)
  deriving DecidableEq, Repr, Inhabited

inductive Res (α : Type) where
  | ok (a : α) (rest : Bytes)
  | err (e : Err)
  | panic (site : String)
  deriving Repr

namespace Res
/-- what the same decoder run yields when `ext` is appended to its input (if it did not hit EOF) -/
def extend {α} (r : Res α) (ext : Bytes) : Res α :=
  match r with
  | ok a rest => ok a (rest ++ ext)
  | err e => err e
  | panic s => panic s

def isPanic {α} : Res α → Bool
  | panic _ => true
  | _ => false

def map {α β} (f : α → β) : Res α → Res β
  | ok a r => ok (f a) r
  | err e => err e
  | panic s => panic s
end Res

abbrev Dec (α : Type) := Bytes → Res α

namespace Dec
variable {α β : Type}

@[inline] def pure (a : α) : Dec α := fun bs => .ok a bs
@[inline] def bind (d : Dec α) (f : α → Dec β) : Dec β := fun bs =>
  match d bs with
  | .ok a rest => f a rest
  | .err e => .err e
  | .panic s => .panic s
@[inline] def fail (e : Err) : Dec α := fun _ => .err e
@[inline] def panic (s : String) : Dec α := fun _ => .panic s

/-- `read_exact` of `n` bytes -/
def take (n : Nat) : Dec Bytes := fun bs =>
  if n ≤ bs.length then .ok (bs.take n) (bs.drop n) else .err .io

def u32LE : Dec Nat := fun bs =>
  match bs with
  | b0 :: b1 :: b2 :: b3 :: rest => .ok (decU32LE b0 b1 b2 b3) rest
  | _ => .err .io
def u32BE : Dec Nat := fun bs =>
  match bs with
  | b0 :: b1 :: b2 :: b3 :: rest => .ok (decU32BE b0 b1 b2 b3) rest
  | _ => .err .io
/-- `read_i32::<LittleEndian>` -/
def i32LE : Dec Int := fun bs => (u32LE bs).map toI32
/-- `read_i32::<BigEndian>` -/
def i32BE : Dec Int := fun bs => (u32BE bs).map toI32
/-- `read_f64::<LittleEndian>` -/
def f64 : Dec F64 := fun bs =>
  match bs with
  | b0 :: b1 :: b2 :: b3 :: b4 :: b5 :: b6 :: b7 :: rest => .ok (F64.dec b0 b1 b2 b3 b4 b5 b6 b7) rest
  | _ => .err .io

/-- `for _ in 0..n { v.push(d()?) }` -/
def repeatN (n : Nat) (d : Dec α) : Dec (List α) :=
  match n with
  | 0 => pure []
  | n + 1 => bind d fun a => bind (repeatN n d) fun as => pure (a :: as)

/-- run `f` over a list, threading the source (a `for x in xs { ... ? }` loop) -/
def mapM' (f : α → Dec β) : List α → Dec (List β)
  | [] => pure []
  | a :: as => bind (f a) fun b => bind (mapM' f as) fun bs => pure (b :: bs)

/-! ### Sequential-source discipline

`Stable d`: running `d` on a longer input gives the same outcome with the extra bytes left
over — unless the shorter run failed with an I/O error (it hit the end of the input). -/
def Stable (d : Dec α) : Prop :=
  ∀ bs ext, d bs = .err .io ∨ d (bs ++ ext) = (d bs).extend ext

theorem Stable.pure (a : α) : Stable (pure a) := by
  intro bs ext; right; rfl

theorem Stable.fail (e : Err) : Stable (fail e : Dec α) := by
  intro bs ext; right; rfl

theorem Stable.panic (s : String) : Stable (panic s : Dec α) := by
  intro bs ext; right; rfl

theorem Stable.bind {d : Dec α} {f : α → Dec β} (hd : Stable d) (hf : ∀ a, Stable (f a)) :
    Stable (bind d f) := by
  intro bs ext
  unfold Dec.bind
  rcases hd bs ext with h | h
  · left; simp [h]
  · rw [h]
    cases hdb : d bs with
    | ok a rest =>
      simp only [Res.extend]
      exact hf a rest ext
    | err e => right; rfl
    | panic s => right; rfl

theorem Stable.take (n : Nat) : Stable (take n) := by
  intro bs ext
  unfold Dec.take
  by_cases h : n ≤ bs.length
  · right
    have h2 : n ≤ (bs ++ ext).length := by simp; omega
    simp only [h, h2, if_true, Res.extend]
    congr 1
    · exact List.take_append_of_le_length h
    · exact List.drop_append_of_le_length h
  · left; simp [h]

theorem Stable.u32LE : Stable u32LE := by
  intro bs ext
  match bs with
  | [] => left; rfl
  | [_] => left; rfl
  | [_, _] => left; rfl
  | [_, _, _] => left; rfl
  | _ :: _ :: _ :: _ :: _ => right; rfl

theorem Stable.u32BE : Stable u32BE := by
  intro bs ext
  match bs with
  | [] => left; rfl
  | [_] => left; rfl
  | [_, _] => left; rfl
  | [_, _, _] => left; rfl
  | _ :: _ :: _ :: _ :: _ => right; rfl

theorem Stable.map_res {d : Dec α} (f : α → β) (hd : Stable d) : Stable (fun bs => (d bs).map f) := by
  intro bs ext
  rcases hd bs ext with h | h
  · left; simp [h, Res.map]
  · right; simp only [h]; cases d bs <;> rfl

theorem Stable.i32LE : Stable i32LE := Stable.map_res _ Stable.u32LE
theorem Stable.i32BE : Stable i32BE := Stable.map_res _ Stable.u32BE

theorem Stable.f64 : Stable f64 := by
  intro bs ext
  match bs with
  | [] => left; rfl
  | [_] => left; rfl
  | [_, _] => left; rfl
  | [_, _, _] => left; rfl
  | [_, _, _, _] => left; rfl
  | [_, _, _, _, _] => left; rfl
  | [_, _, _, _, _, _] => left; rfl
  | [_, _, _, _, _, _, _] => left; rfl
  | _ :: _ :: _ :: _ :: _ :: _ :: _ :: _ :: _ => right; rfl

theorem Stable.repeatN (n : Nat) {d : Dec α} (hd : Stable d) : Stable (repeatN n d) := by
  induction n with
  | zero => exact Stable.pure _
  | succ n ih =>
    unfold Dec.repeatN
    exact Stable.bind hd fun a => Stable.bind ih fun as => Stable.pure _

theorem Stable.mapM' {f : α → Dec β} (hf : ∀ a, Stable (f a)) (l : List α) : Stable (mapM' f l) := by
  induction l with
  | nil => exact Stable.pure _
  | cons a as ih =>
    unfold Dec.mapM'
    exact Stable.bind (hf a) fun b => Stable.bind ih fun bs => Stable.pure _

/-- `Exact d enc`: `d` inverts `enc` and consumes exactly what `enc` emitted. -/
def Exact (d : Dec α) (enc : α → Bytes) (a : α) : Prop := ∀ rest, d (enc a ++ rest) = .ok a rest

/-- A strict prefix of an encoding never decodes to a value: the sequential reader reports
an I/O error (end of input).  This is the lemma behind C11 and C13. -/
theorem strict_prefix_io {d : Dec α} {enc : α → Bytes} {a : α}
    (hs : Stable d) (he : Exact d enc a) (p ext : Bytes) (hp : p ++ ext = enc a) (hne : ext ≠ []) :
    d p = .err .io := by
  rcases hs p ext with h | h
  · exact h
  · have h1 := he []
    rw [List.append_nil, ← hp, h] at h1
    cases hd : d p with
    | ok b r =>
      rw [hd] at h1
      simp only [Res.extend, Res.ok.injEq] at h1
      have : ext = [] := (List.append_eq_nil_iff.mp h1.2).2
      exact absurd this hne
    | err e => rw [hd] at h1; simp [Res.extend] at h1
    | panic s => rw [hd] at h1; simp [Res.extend] at h1

end Dec
end Shp

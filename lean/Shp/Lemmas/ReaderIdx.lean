/-
Index-driven reading as a refinement of an abstract cursor over a list of records
(C04, C14, C15): the concrete reader state abstracts to `nextShape`, whatever the physical
layout of the `.shp`, provided every index entry points at a decodable record.
-/
import Shp.Model.Reader
namespace Shp

/-- index entry `e` points at a record of `data` that decodes to `s` and whose declared content
length is what the decoder consumed -/
def RecordAt (o : Orient) (tg : Target) (data : Bytes) (e : IndexEntry) (s : Shape) : Prop :=
  0 ≤ e.offset ∧ ∃ (w : Int) (rest : Bytes),
    readOneShape o tg (data.drop (2 * e.offset).toNat) = .ok (w, s) rest ∧ 0 ≤ w ∧
    (2 * e.offset).toNat + 8 + (2 * w).toNat + rest.length = data.length

/-- every index entry points at the record the abstract list holds at that position -/
def Addressable (o : Orient) (tg : Target) (data : Bytes) (idx : List IndexEntry) (shapes : List Shape) : Prop :=
  idx.length = shapes.length ∧
  ∀ (i : Nat) (h1 : i < idx.length) (h2 : i < shapes.length), RecordAt o tg data idx[i] shapes[i]

structure RInv (o : Orient) (tg : Target) (shapes : List Shape) (st : RState) : Prop where
  idx : ∃ idx, st.index = some idx ∧ Addressable o tg st.data idx shapes
  /-- the reader's belief about the source position is right whenever it has one -/
  truthful : ∀ p, st.currentPos = some p → st.srcPos = p

/-- one `next()` of an index-driven iterator: yields record `nextShape` and advances the cursor -/
theorem RInv.iterNext {o : Orient} {tg : Target} {shapes : List Shape} {st : RState} (h : RInv o tg shapes st)
    (hk : st.nextShape < shapes.length) :
    ∃ st', st.iterNext o tg = (st', .shape shapes[st.nextShape]) ∧ RInv o tg shapes st' ∧
      st'.nextShape = st.nextShape + 1 := by
  obtain ⟨idx, hidx, hlen, haddr⟩ := h.idx
  have htruth := h.truthful
  obtain ⟨data, srcPos, header, index, currentPos, nextShape⟩ := st
  simp only at hidx hk haddr htruth ⊢
  subst hidx
  have hk' : nextShape < idx.length := by omega
  obtain ⟨hoff, w, rest, hread, hw, hcons⟩ := haddr nextShape hk' hk
  unfold RState.iterNext
  simp only []
  have hget : idx[nextShape]? = some idx[nextShape] := List.getElem?_eq_getElem hk'
  rw [hget]
  simp only []
  have hwb : wordsToBytes idx[nextShape].offset = some (2 * idx[nextShape].offset) := by
    unfold wordsToBytes; rw [if_neg (by omega)]
  rw [hwb]
  simp only []
  -- after the optional seek the source is at the record's start and the reader knows it
  have hpos : ∀ st2 : RState, st2.data = data → st2.index = some idx → st2.srcPos = (2 * idx[nextShape].offset).toNat →
      st2.currentPos = some (2 * idx[nextShape].offset).toNat → st2.nextShape = nextShape + 1 →
      ∃ st', st2.readHere o tg = (st', .shape shapes[nextShape]) ∧ RInv o tg shapes st' ∧
        st'.nextShape = nextShape + 1 := by
    intro st2 hd hi hs hc hn
    unfold RState.readHere
    rw [hd, hs, hread]
    refine ⟨_, rfl, ⟨⟨idx, hi, ?_⟩, ?_⟩, hn⟩
    · exact ⟨hlen, haddr⟩
    · intro p hp
      simp only [hc, Option.map_some, Option.some.injEq] at hp
      simp only [Const.recordHeaderSize] at hp
      simp only
      omega
  by_cases hc : currentPos = some (2 * idx[nextShape].offset).toNat
  · rw [if_pos hc]
    exact hpos _ rfl rfl (htruth _ hc) hc rfl
  · rw [if_neg hc]
    exact hpos _ rfl rfl rfl rfl rfl

/-- past the last entry the iterator ends, and the state is untouched -/
theorem RInv.iterNext_end {o : Orient} {tg : Target} {shapes : List Shape} {st : RState} (h : RInv o tg shapes st)
    (hk : shapes.length ≤ st.nextShape) : st.iterNext o tg = (st, .none) := by
  obtain ⟨idx, hidx, hlen, _⟩ := h.idx
  unfold RState.iterNext
  rw [hidx]
  simp only []
  have : idx[st.nextShape]? = none := List.getElem?_eq_none (by omega)
  rw [this]

/-- pulling up to `fuel` items from an iterator: the records from the cursor on, in index order -/
theorem RInv.iterAll {o : Orient} {tg : Target} {shapes : List Shape} (fuel : Nat) {st : RState}
    (h : RInv o tg shapes st) :
    ∃ st', st.iterAll o tg fuel = (st', ((shapes.drop st.nextShape).take fuel).map ROut.shape) ∧
      RInv o tg shapes st' ∧ st'.nextShape = min (st.nextShape + fuel) (max st.nextShape shapes.length) := by
  induction fuel generalizing st with
  | zero =>
    refine ⟨st, by simp [RState.iterAll], h, ?_⟩
    simp only [Nat.add_zero]; omega
  | succ fuel ih =>
    by_cases hk : st.nextShape < shapes.length
    · obtain ⟨st1, hnext, hinv1, hn1⟩ := h.iterNext hk
      obtain ⟨st2, hall, hinv2, hn2⟩ := ih hinv1
      refine ⟨st2, ?_, hinv2, ?_⟩
      · unfold RState.iterAll
        rw [hnext]
        simp only [hall, hn1]
        have hdrop : shapes.drop st.nextShape = shapes[st.nextShape] :: shapes.drop (st.nextShape + 1) :=
          (List.drop_eq_getElem_cons hk)
        rw [hdrop, List.take_succ_cons, List.map_cons]
      · rw [hn2, hn1]; omega
    · have hk' : shapes.length ≤ st.nextShape := by omega
      refine ⟨st, ?_, h, ?_⟩
      · unfold RState.iterAll
        rw [h.iterNext_end hk']
        simp [List.drop_eq_nil_of_le hk']
      · omega

/-- `seek(k)`: positions the cursor at `min k n` -/
theorem RInv.seek {o : Orient} {tg : Target} {shapes : List Shape} {st : RState} (h : RInv o tg shapes st) (k : Nat) :
    ∃ st', st.seek k = (st', .unit) ∧ RInv o tg shapes st' ∧ st'.nextShape = min k shapes.length := by
  obtain ⟨idx, hidx, hlen, haddr⟩ := h.idx
  obtain ⟨data, srcPos, header, index, currentPos, nextShape⟩ := st
  simp only at hidx haddr ⊢
  subst hidx
  unfold RState.seek
  simp only []
  by_cases hk : k < idx.length
  · have hget : idx[k]? = some idx[k] := List.getElem?_eq_getElem hk
    obtain ⟨hoff, _⟩ := haddr k hk (by omega)
    rw [hget]
    simp only []
    have hwb : wordsToBytes idx[k].offset = some (2 * idx[k].offset) := by
      unfold wordsToBytes; rw [if_neg (by omega)]
    rw [hwb]
    refine ⟨_, rfl, ⟨⟨idx, rfl, hlen, haddr⟩, ?_⟩, ?_⟩
    · intro p hp
      simp only [Option.some.injEq] at hp
      exact hp
    · simp only; omega
  · have hget : idx[k]? = none := List.getElem?_eq_none (by omega)
    rw [hget]
    refine ⟨_, rfl, ⟨⟨idx, rfl, hlen, haddr⟩, ?_⟩, ?_⟩
    · intro p hp
      simp only [Option.some.injEq] at hp
      exact hp
    · simp only; omega

/-- `read_nth_shape(i)`: record `i`, whatever came before; the cursor goes back to the first record -/
theorem RInv.readNth {o : Orient} {tg : Target} {shapes : List Shape} {st : RState} (h : RInv o tg shapes st)
    (i : Nat) (hi : i < shapes.length) :
    ∃ st', st.readNth o tg i = (st', .shape shapes[i]) ∧ RInv o tg shapes st' ∧ st'.nextShape = 0 := by
  obtain ⟨idx, hidx, hlen, haddr⟩ := h.idx
  obtain ⟨data, srcPos, header, index, currentPos, nextShape⟩ := st
  simp only at hidx haddr ⊢
  subst hidx
  have hi' : i < idx.length := by omega
  obtain ⟨hoff, w, rest, hread, hw, hcons⟩ := haddr i hi' hi
  unfold RState.readNth
  simp only []
  rw [if_neg (by omega)]
  -- the seek
  have hseek : RState.seek ⟨data, srcPos, header, some idx, currentPos, nextShape⟩ i =
      (⟨data, (2 * idx[i].offset).toNat, header, some idx, some (2 * idx[i].offset).toNat, min i idx.length⟩, .unit) := by
    unfold RState.seek
    simp only []
    rw [List.getElem?_eq_getElem hi']
    simp only []
    have hwb : wordsToBytes idx[i].offset = some (2 * idx[i].offset) := by
      unfold wordsToBytes; rw [if_neg (by omega)]
    rw [hwb]
  rw [hseek]
  simp only [hread]
  refine ⟨_, rfl, ⟨⟨idx, rfl, hlen, haddr⟩, ?_⟩, rfl⟩
  intro p hp
  simp only [Option.some.injEq] at hp
  exact hp

theorem RInv.readNth_none {o : Orient} {tg : Target} {shapes : List Shape} {st : RState} (h : RInv o tg shapes st)
    (i : Nat) (hi : shapes.length ≤ i) : st.readNth o tg i = (st, .none) := by
  obtain ⟨idx, hidx, hlen, _⟩ := h.idx
  unfold RState.readNth
  rw [hidx]
  simp only []
  rw [if_pos (by omega)]

theorem RInv.shapeCount {o : Orient} {tg : Target} {shapes : List Shape} {st : RState} (h : RInv o tg shapes st) :
    st.shapeCount = .count shapes.length := by
  obtain ⟨idx, hidx, hlen, _⟩ := h.idx
  unfold RState.shapeCount
  rw [hidx]
  simp only [hlen]

end Shp

/- `read()` (open + drain + collect) in terms of the two reading invariants. -/
import Shp.Lemmas.ReaderSeq
namespace Shp

theorem collectShapes_shapes (l : List Shape) : collectShapes (l.map ROut.shape) = .ok l := by
  induction l with
  | nil => rfl
  | cons a as ih => simp [collectShapes, ih, Except.map]

/-- draining an index-driven iterator with enough fuel yields every record from the cursor on -/
theorem RInv.drain {o : Orient} {tg : Target} {shapes : List Shape} {st : RState} (h : RInv o tg shapes st)
    (fuel : Nat) (hf : shapes.length ≤ st.nextShape + fuel) :
    (st.iterAll o tg fuel).2 = (shapes.drop st.nextShape).map ROut.shape := by
  obtain ⟨st', he, _, _⟩ := h.iterAll fuel
  rw [he]
  simp only
  rw [List.take_of_length_le (by simp; omega)]

theorem SInv.drain {o : Orient} {tg : Target} {shapes : List Shape} {st : RState} (h : SInv o tg shapes st)
    (fuel : Nat) (hf : shapes.length ≤ fuel) :
    (st.iterAll o tg fuel).2 = shapes.map ROut.shape := by
  obtain ⟨st', he, _⟩ := h.iterAll fuel
  rw [he]
  simp only
  rw [List.take_of_length_le hf]

/-- a header always occupies exactly 100 bytes of the source -/
theorem readHeader_consumes (bs : Bytes) (h : Header) (rest : Bytes) (he : readHeader bs = .ok h rest) :
    rest.length + 100 = bs.length := by
  unfold readHeader at he
  -- peel the binds: 4 + 20 + 4 + 4 + 4 + 8*8 bytes
  have step4 : ∀ (d : Dec Int) (hd : d = Dec.i32BE ∨ d = Dec.i32LE) (b : Bytes) (a : Int) (r : Bytes), d b = .ok a r → r.length + 4 = b.length := by
    intro d hd b a r hh
    rcases hd with rfl | rfl
    · unfold Dec.i32BE Dec.u32BE at hh
      split at hh <;> simp [Res.map] at hh
      obtain ⟨_, rfl⟩ := hh; simp
    · unfold Dec.i32LE Dec.u32LE at hh
      split at hh <;> simp [Res.map] at hh
      obtain ⟨_, rfl⟩ := hh; simp
  have step8 : ∀ (b : Bytes) (a : F64) (r : Bytes), Dec.f64 b = .ok a r → r.length + 8 = b.length := by
    intro b a r hh
    unfold Dec.f64 at hh
    split at hh <;> simp at hh
    obtain ⟨_, rfl⟩ := hh; simp
  obtain ⟨c, r1, h1, he⟩ := Dec.bind_ok he
  have l1 := step4 _ (Or.inl rfl) _ _ _ h1
  split at he
  · simp [Dec.fail] at he
  obtain ⟨_, r2, h2, he⟩ := Dec.bind_ok he
  have l2 : r2.length + 20 = r1.length := by
    unfold Dec.take at h2
    split at h2 <;> simp at h2
    obtain ⟨_, rfl⟩ := h2
    simp; omega
  obtain ⟨_, r3, h3, he⟩ := Dec.bind_ok he
  have l3 := step4 _ (Or.inl rfl) _ _ _ h3
  obtain ⟨_, r4, h4, he⟩ := Dec.bind_ok he
  have l4 := step4 _ (Or.inr rfl) _ _ _ h4
  obtain ⟨_, r5, h5, he⟩ := Dec.bind_ok he
  have l5 : r5.length + 4 = r4.length := by
    unfold readShapeType at h5
    obtain ⟨cc, r5', h5a, h5b⟩ := Dec.bind_ok h5
    have := step4 _ (Or.inr rfl) _ _ _ h5a
    cases hcc : ShapeType.ofCode cc with
    | none => rw [hcc] at h5b; simp [Dec.fail] at h5b
    | some t => rw [hcc] at h5b; simp [Dec.pure] at h5b; obtain ⟨_, rfl⟩ := h5b; exact this
  obtain ⟨_, r6, h6, he⟩ := Dec.bind_ok he
  have l6 := step8 _ _ _ h6
  obtain ⟨_, r7, h7, he⟩ := Dec.bind_ok he
  have l7 := step8 _ _ _ h7
  obtain ⟨_, r8, h8, he⟩ := Dec.bind_ok he
  have l8 := step8 _ _ _ h8
  obtain ⟨_, r9, h9, he⟩ := Dec.bind_ok he
  have l9 := step8 _ _ _ h9
  obtain ⟨_, r10, h10, he⟩ := Dec.bind_ok he
  have l10 := step8 _ _ _ h10
  obtain ⟨_, r11, h11, he⟩ := Dec.bind_ok he
  have l11 := step8 _ _ _ h11
  obtain ⟨_, r12, h12, he⟩ := Dec.bind_ok he
  have l12 := step8 _ _ _ h12
  obtain ⟨_, r13, h13, he⟩ := Dec.bind_ok he
  have l13 := step8 _ _ _ h13
  simp only [Dec.pure, Res.ok.injEq] at he
  obtain ⟨_, rfl⟩ := he
  omega

/-- opening any `.shp` with any `.shx` whose entries address records of it -/
theorem open_addressable (o : Orient) (tg : Target) (shp shx : Bytes) (idx : List IndexEntry) (shapes : List Shape)
    (h : Header) (rest xr : Bytes)
    (hx : readIndexFile shx = .ok idx xr) (hh : readHeader shp = .ok h rest)
    (ha : Addressable o tg shp idx shapes) :
    ∃ st, RState.open shp (some shx) = .ok st ∧ RInv o tg shapes st ∧ st.nextShape = 0 := by
  unfold RState.open
  simp only [hx, hh]
  refine ⟨_, rfl, ⟨⟨idx, rfl, ha⟩, ?_⟩, rfl⟩
  intro p hp
  simp only [Option.some.injEq, Const.headerSize] at hp
  have := readHeader_consumes shp h rest hh
  simp only
  omega

end Shp

/-
C13, "a source that returns fewer bytes than asked per read call produces the same shapes as one
that returns them all".

The model's decoders consume their input through the primitives `Dec.take`, `Dec.u32LE/BE` and
`Dec.f64` only, each of which stands for one `Read::read_exact`.  Here `read_exact` itself is
modelled (std's default implementation: call `read` until the buffer is full, `Ok(0)` means end of
input) over a source that hands out its bytes according to an ARBITRARY schedule of chunk sizes,
and shown to deliver exactly what the primitive delivers — whatever the schedule.
-/
import Shp.Prim.Dec
namespace Shp

/-- a source: the bytes still to come, and for each coming `read` call the most it is willing to
return (every entry ≥ 1; after the schedule is used up, reads return all that is asked) -/
structure ChunkSrc where
  data : Bytes
  sched : List Nat

namespace ChunkSrc

/-- `Read::read(&mut buf)` with `buf.len() = n` -/
def read (s : ChunkSrc) (n : Nat) : Bytes × ChunkSrc :=
  match s.sched with
  | [] => (s.data.take n, ⟨s.data.drop n, []⟩)
  | k :: ks => (s.data.take (min n k), ⟨s.data.drop (min n k), ks⟩)

/-- std's default `Read::read_exact`: `while !buf.is_empty() { match read(buf) { Ok(0) => break,
Ok(k) => buf = &mut buf[k..], .. } }`, then `UnexpectedEof` (here `none`) unless the buffer is full.
`fuel` bounds the number of `read` calls (each returns at least one byte or ends the loop). -/
def readExact : Nat → ChunkSrc → Nat → Bytes → Option (Bytes × ChunkSrc)
  | _, s, 0, acc => some (acc, s)
  | 0, _, _ + 1, _ => none
  | fuel + 1, s, n + 1, acc =>
    let r := s.read (n + 1)
    if r.1.isEmpty then none else readExact fuel r.2 (n + 1 - r.1.length) (acc ++ r.1)

def Positive (s : ChunkSrc) : Prop := ∀ k ∈ s.sched, 1 ≤ k

theorem read_length (s : ChunkSrc) (n : Nat) (hp : s.Positive) (hn : 1 ≤ n) (hd : 1 ≤ s.data.length) :
    1 ≤ (s.read n).1.length ∧ (s.read n).1.length ≤ n := by
  unfold read
  cases hs : s.sched with
  | nil => simp only [List.length_take]; omega
  | cons k ks =>
    have := hp k (by rw [hs]; exact List.mem_cons_self)
    simp only [List.length_take]; omega

theorem read_spec (s : ChunkSrc) (n : Nat) (hp : s.Positive) :
    ∃ m, (s.read n).1 = s.data.take m ∧ (s.read n).2.data = s.data.drop m ∧ m ≤ n ∧
      (s.read n).2.Positive ∧ (1 ≤ n → 1 ≤ s.data.length → 1 ≤ m) := by
  unfold read
  cases hs : s.sched with
  | nil => exact ⟨n, rfl, rfl, Nat.le_refl _, by intro k hk; simp at hk, fun h _ => h⟩
  | cons k ks =>
    have hk := hp k (by rw [hs]; exact List.mem_cons_self)
    refine ⟨min n k, rfl, rfl, Nat.min_le_left _ _, ?_, fun h _ => by omega⟩
    intro j hj
    exact hp j (by rw [hs]; exact List.mem_cons_of_mem _ hj)

/-- MAIN: on every schedule of positive chunk sizes `read_exact(n)` yields the next `n` bytes and
leaves the source just behind them, or reports the end of input when fewer than `n` remain -/
theorem readExact_spec (fuel : Nat) (s : ChunkSrc) (n : Nat) (acc : Bytes) (hp : s.Positive) (hf : n ≤ fuel) :
    if n ≤ s.data.length then
      ∃ s', readExact fuel s n acc = some (acc ++ s.data.take n, s') ∧ s'.data = s.data.drop n ∧ s'.Positive
    else readExact fuel s n acc = none := by
  induction fuel generalizing s n acc with
  | zero =>
    have : n = 0 := by omega
    subst this
    simp only [Nat.zero_le, if_true, readExact, List.take_zero, List.append_nil, List.drop_zero]
    exact ⟨s, rfl, rfl, hp⟩
  | succ fuel ih =>
    cases n with
    | zero =>
      simp only [Nat.zero_le, if_true, readExact, List.take_zero, List.append_nil, List.drop_zero]
      exact ⟨s, rfl, rfl, hp⟩
    | succ n =>
      obtain ⟨m, h1, h2, hmn, hp', hpos⟩ := read_spec s (n + 1) hp
      simp only [readExact]
      by_cases hd : s.data.length = 0
      · -- nothing left: `read` returns `Ok(0)`
        have hnil : s.data = [] := List.eq_nil_of_length_eq_zero hd
        have : (s.read (n + 1)).1 = [] := by rw [h1, hnil]; simp
        rw [if_neg (by omega)]
        simp [this]
      · have hm1 : 1 ≤ m := hpos (by omega) (by omega)
        have hlen : (s.read (n + 1)).1.length = min m s.data.length := by rw [h1]; simp
        have hne : (s.read (n + 1)).1.isEmpty = false := by
          cases hx : (s.read (n + 1)).1 with
          | nil => rw [hx] at hlen; simp at hlen; omega
          | cons _ _ => rfl
        rw [hne]
        simp only [Bool.false_eq_true, if_false]
        have ih' := ih (s.read (n + 1)).2 (n + 1 - (s.read (n + 1)).1.length) (acc ++ (s.read (n + 1)).1) hp'
          (by rw [hlen]; omega)
        rw [h2] at ih'
        simp only [List.length_drop] at ih'
        by_cases hle : n + 1 ≤ s.data.length
        · rw [if_pos hle]
          have hm : min m s.data.length = m := by omega
          rw [hlen, hm] at ih' ⊢
          rw [if_pos (by omega)] at ih'
          obtain ⟨s', he, hd', hps⟩ := ih'
          refine ⟨s', ?_, ?_, hps⟩
          · rw [he, h1, List.append_assoc]
            congr 2
            rw [← List.take_add]
            have : m + (n + 1 - m) = n + 1 := by omega
            rw [this]
          · rw [hd', List.drop_drop]
            have : m + (n + 1 - m) = n + 1 := by omega
            first | rw [this] | (rw [Nat.add_comm] at this; rw [this])
        · rw [if_neg hle]
          rw [hlen] at ih' ⊢
          rw [if_neg (by omega)] at ih'
          exact ih'

/-- hence the model's `read_exact` primitive IS std's `read_exact` on any chunking schedule: same
bytes, same remaining input, same end-of-input error -/
theorem take_eq_readExact (data : Bytes) (sched : List Nat) (hp : ∀ k ∈ sched, 1 ≤ k) (n : Nat) :
    Dec.take n data =
      match readExact n ⟨data, sched⟩ n [] with
      | some (b, s') => .ok b s'.data
      | none => .err .io := by
  have := readExact_spec n ⟨data, sched⟩ n [] hp (Nat.le_refl n)
  unfold Dec.take
  by_cases h : n ≤ data.length
  · rw [if_pos h] at this ⊢
    obtain ⟨s', he, hd, _⟩ := this
    rw [he]
    simp only [List.nil_append, hd]
  · rw [if_neg h] at this ⊢
    rw [this]

/-- the number primitives are `read_exact` of 4 and 8 bytes followed by a pure conversion -/
theorem u32LE_via_take (bs : Bytes) :
    Dec.u32LE bs = match Dec.take 4 bs with
      | .ok [b0, b1, b2, b3] rest => .ok (decU32LE b0 b1 b2 b3) rest
      | .ok _ _ => .err .io
      | .err e => .err e
      | .panic s => .panic s := by
  unfold Dec.u32LE Dec.take
  match bs with
  | [] | [_] | [_, _] | [_, _, _] => simp
  | b0 :: b1 :: b2 :: b3 :: rest => simp

theorem f64_via_take (bs : Bytes) :
    Dec.f64 bs = match Dec.take 8 bs with
      | .ok [b0, b1, b2, b3, b4, b5, b6, b7] rest => .ok (F64.dec b0 b1 b2 b3 b4 b5 b6 b7) rest
      | .ok _ _ => .err .io
      | .err e => .err e
      | .panic s => .panic s := by
  unfold Dec.f64 Dec.take
  match bs with
  | [] | [_] | [_, _] | [_, _, _] | [_, _, _, _] | [_, _, _, _, _] | [_, _, _, _, _, _] | [_, _, _, _, _, _, _] => simp
  | b0 :: b1 :: b2 :: b3 :: b4 :: b5 :: b6 :: b7 :: rest => simp

/-- non-vacuity: 5 bytes asked from a source that returns 2, 1, 3 bytes per call -/
example : readExact 5 ⟨[1, 2, 3, 4, 5, 6, 7], [2, 1, 3]⟩ 5 [] = some ([1, 2, 3, 4, 5], ⟨[6, 7], []⟩) := by rfl

end ChunkSrc
end Shp

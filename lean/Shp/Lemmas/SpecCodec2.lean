/- Record level of the whitepaper codec round trip. -/
import Shp.Lemmas.SpecCodec
namespace Shp.Spec

theorem typeInfo_facts (c : Nat) (z m : Bool) (f : Nat) (h : typeInfo c = some (z, m, f)) :
    c ≤ 31 ∧ (z = true → m = true) ∧ f ≤ 5 ∧ (f = 0 → c = 0) := by
  unfold typeInfo at h
  split at h <;> simp only [Option.some.injEq, Prod.mk.injEq, reduceCtorEq] at h <;>
    (obtain ⟨rfl, rfl, rfl⟩ := h; simp)

/-- what the strict decoder can tell apart: a record without the fields its type does not have -/
def Rec.canon (r : Rec) : Rec :=
  match typeInfo r.typeCode with
  | none => r
  | some (hasZ, hasM, fam) =>
    match fam with
    | 0 => { number := r.number, typeCode := 0 }
    | 1 => { number := r.number, typeCode := r.typeCode, parts := r.parts.map (List.map (V.canon hasZ hasM)) }
    | _ => { number := r.number, typeCode := r.typeCode, box := r.box,
             zRange := if hasZ then r.zRange else (0, 0), mRange := if hasM then r.mRange else (0, 0),
             parts := r.parts.map (List.map (V.canon hasZ hasM)),
             kinds := if fam = 5 then r.kinds else [], mPresent := hasM }

/-- a record of a file of type `fileType` the whitepaper allows and this library's writer can
produce (the optional M block is stored): every quantity fits its field -/
def Rec.Strict (fileType : Nat) (r : Rec) : Prop :=
  InI32 r.number ∧ (r.typeCode = fileType ∨ r.typeCode = 0) ∧
  match typeInfo r.typeCode with
  | none => False
  | some (_, hasM, fam) =>
    match fam with
    | 0 => True
    | 1 => r.parts.flatten.length = 1 ∧ r.parts.length = 1 ∧ (∀ v ∈ r.parts.flatten, v.Ok) ∧ r.mPresent = true
    | _ => r.box.length = 4 ∧ (∀ b ∈ r.box, Ok64 b) ∧ (∀ v ∈ r.parts.flatten, v.Ok) ∧
           (Ok64 r.zRange.1 ∧ Ok64 r.zRange.2) ∧ (Ok64 r.mRange.1 ∧ Ok64 r.mRange.2) ∧
           (hasM = true → r.mPresent = true) ∧ total r.parts < 2147483648 ∧ r.parts.length < 2147483648 ∧
           (fam = 2 → r.parts.length = 1) ∧
           (fam = 5 → r.kinds.length = r.parts.length ∧ ∀ k ∈ r.kinds, k ≤ 5)

theorem encVerts_mPresent (hasZ hasM : Bool) (r : Rec) (h : hasM = true → r.mPresent = true) :
    encVerts hasZ hasM r.mPresent r = encVerts hasZ hasM true r := by
  cases hasM
  · simp [encVerts]
  · rw [h rfl]

theorem rd_box (box : List Nat) (n : Nat) (hl : box.length = n) (h : ∀ b ∈ box, Ok64 b) (r : Bytes) :
    rdMany rdF64 n (box.flatMap wrF64 ++ r) = some (box, r) := by
  subst hl
  exact rdMany_flatMap rdF64 wrF64 box (fun a ha r => rdF64_wr a (h a ha) r) r

theorem rd_ints (l : List Nat) (h : ∀ a ∈ l, a < 2147483648) (r : Bytes) :
    rdMany rdI32LE l.length (l.flatMap (fun (o : Nat) => wrI32LE (o : Int)) ++ r) = some (l.map Int.ofNat, r) := by
  have := rdMany_flatMap rdI32LE wrI32LE (l.map Int.ofNat) (by
    intro a ha r
    simp only [List.mem_map] at ha
    obtain ⟨n, hn, rfl⟩ := ha
    have := h n hn
    exact rdI32LE_wr _ (by unfold InI32; simp only [Int.ofNat_eq_natCast]; omega) r) r
  simpa [List.flatMap_map] using this

theorem map_toNat_ofNat (l : List Nat) : (l.map Int.ofNat).map Int.toNat = l := by
  induction l with
  | nil => rfl
  | cons a as ih => simp [ih]

theorem any_neg_ofNat (l : List Nat) : (l.map Int.ofNat).any (· < 0) = false := by
  induction l with
  | nil => rfl
  | cons a as ih => simp only [List.map_cons, List.any_cons, ih, Bool.or_false]; simp

theorem offsetsOf_map (f : V → V) (s : Nat) (parts : List (List V)) :
    offsetsOf s (parts.map (List.map f)) = offsetsOf s parts := by
  induction parts generalizing s with
  | nil => rfl
  | cons p ps ih => simp [offsetsOf, ih]

theorem total_map (f : V → V) (parts : List (List V)) : total (parts.map (List.map f)) = total parts := by
  simp [total, List.map_map, Function.comp_def]

theorem splitParts_canon (f : V → V) (parts : List (List V)) :
    splitParts (offsetsOf 0 parts) (total parts) (parts.flatten.map f) = some (parts.map (List.map f)) := by
  have := splitParts_offsets 0 (parts.map (List.map f))
  rw [offsetsOf_map, total_map, Nat.zero_add] at this
  rw [← this]
  congr 1
  simp [List.map_flatten]

/-- the common tail of the multi-vertex decoders -/
theorem dec_tail (hasZ hasM : Bool) (hzm : hasZ = true → hasM = true) (r : Rec)
    (hvo : ∀ v ∈ r.parts.flatten, v.Ok) (hzr : Ok64 r.zRange.1 ∧ Ok64 r.zRange.2)
    (hmr : Ok64 r.mRange.1 ∧ Ok64 r.mRange.2) (hmp : hasM = true → r.mPresent = true) :
    decVerts hasZ hasM (total r.parts) (encVerts hasZ hasM r.mPresent r) =
      some ((r.parts.flatten).map (V.canon hasZ hasM), (if hasZ then r.zRange else (0, 0)),
        (if hasM then r.mRange else (0, 0)), hasM) := by
  rw [encVerts_mPresent _ _ _ hmp, ← total_flatten]
  exact decVerts_enc hasZ hasM hzm r hvo hzr hmr

theorem any_bad_kind (l : List Nat) (h : ∀ k ∈ l, k ≤ 5) :
    (l.map Int.ofNat).any (fun k => decide (k < 0 ∨ k > 5)) = false := by
  induction l with
  | nil => rfl
  | cons a as ih =>
    have := h a List.mem_cons_self
    simp only [List.map_cons, List.any_cons, ih (fun k hk => h k (List.mem_cons_of_mem _ hk)), Bool.or_false]
    simp only [Int.ofNat_eq_natCast, decide_eq_false_iff_not]
    omega

theorem decContent_multi (fileType : Nat) (r : Rec) (hs : r.Strict fileType) (hasZ hasM : Bool) (fam : Nat)
    (hi : typeInfo r.typeCode = some (hasZ, hasM, fam)) (hf : 3 ≤ fam) :
    decContent fileType r.number (encContent r) = some r.canon := by
  obtain ⟨hc31, hzm, hf5, _⟩ := typeInfo_facts _ _ _ _ hi
  obtain ⟨hnum, hty, hrest⟩ := hs
  rw [hi] at hrest
  have hfam : fam = 3 ∨ fam = 4 ∨ fam = 5 := by omega
  unfold encContent decContent
  simp only [hi]
  rcases hfam with rfl | rfl | rfl
  · simp only [List.append_assoc] at hrest ⊢
    rw [rdI32LE_wr _ (by unfold InI32; omega)]
    simp only [Option.bind_eq_bind, Option.bind_some, Option.pure_def]
    obtain ⟨hbl, hbo, hvo, hzr, hmr, hmp, htot, hnp, _, _⟩ := hrest
    have hneg : ¬ ((r.typeCode : Int) < 0) := by omega
    have hft : ¬ (r.typeCode ≠ fileType ∧ r.typeCode ≠ 0) := by omega
    simp only [hneg, if_false, Int.toNat_natCast, hft, hi, Option.bind_some]
    rw [rd_box r.box 4 hbl hbo]
    simp only [Option.bind_some]
    rw [rdI32LE_wr _ (by unfold InI32; omega)]
    simp only [Option.bind_some]
    rw [rdI32LE_wr _ (by unfold InI32; omega)]
    simp only [Option.bind_some]
    have hnn : ¬ ((r.parts.length : Int) < 0 ∨ ((total r.parts : Nat) : Int) < 0) := by omega
    simp only [hnn, if_false, Int.toNat_natCast]
    have hol := offsetsOf_length 0 r.parts
    have hrd := rd_ints (offsetsOf 0 r.parts) (by
      intro a ha; have := offsetsOf_le 0 r.parts a ha; omega) (encVerts hasZ hasM r.mPresent r)
    rw [hol] at hrd
    rw [hrd]
    simp only [Option.bind_some, any_neg_ofNat, Bool.false_eq_true, if_false, map_toNat_ofNat, offsetsOf_head]
    rw [if_neg (by decide)]
    simp only [Option.bind_some, List.any_nil, Bool.false_eq_true, if_false]
    rw [dec_tail hasZ hasM hzm r hvo hzr hmr hmp]
    simp only [Option.bind_some, splitParts_canon, List.map_nil]
    simp [Rec.canon, hi]
  · simp only [List.append_assoc] at hrest ⊢
    rw [rdI32LE_wr _ (by unfold InI32; omega)]
    simp only [Option.bind_eq_bind, Option.bind_some, Option.pure_def]
    obtain ⟨hbl, hbo, hvo, hzr, hmr, hmp, htot, hnp, _, _⟩ := hrest
    have hneg : ¬ ((r.typeCode : Int) < 0) := by omega
    have hft : ¬ (r.typeCode ≠ fileType ∧ r.typeCode ≠ 0) := by omega
    simp only [hneg, if_false, Int.toNat_natCast, hft, hi, Option.bind_some]
    rw [rd_box r.box 4 hbl hbo]
    simp only [Option.bind_some]
    rw [rdI32LE_wr _ (by unfold InI32; omega)]
    simp only [Option.bind_some]
    rw [rdI32LE_wr _ (by unfold InI32; omega)]
    simp only [Option.bind_some]
    have hnn : ¬ ((r.parts.length : Int) < 0 ∨ ((total r.parts : Nat) : Int) < 0) := by omega
    simp only [hnn, if_false, Int.toNat_natCast]
    have hol := offsetsOf_length 0 r.parts
    have hrd := rd_ints (offsetsOf 0 r.parts) (by
      intro a ha; have := offsetsOf_le 0 r.parts a ha; omega) (encVerts hasZ hasM r.mPresent r)
    rw [hol] at hrd
    rw [hrd]
    simp only [Option.bind_some, any_neg_ofNat, Bool.false_eq_true, if_false, map_toNat_ofNat, offsetsOf_head]
    rw [if_neg (by decide)]
    simp only [Option.bind_some, List.any_nil, Bool.false_eq_true, if_false]
    rw [dec_tail hasZ hasM hzm r hvo hzr hmr hmp]
    simp only [Option.bind_some, splitParts_canon, List.map_nil]
    simp [Rec.canon, hi]
  · simp only [List.append_assoc] at hrest ⊢
    rw [rdI32LE_wr _ (by unfold InI32; omega)]
    simp only [Option.bind_eq_bind, Option.bind_some, Option.pure_def]
    obtain ⟨hbl, hbo, hvo, hzr, hmr, hmp, htot, hnp, _, hkinds⟩ := hrest
    have hkinds := hkinds trivial
    have hneg : ¬ ((r.typeCode : Int) < 0) := by omega
    have hft : ¬ (r.typeCode ≠ fileType ∧ r.typeCode ≠ 0) := by omega
    simp only [hneg, if_false, Int.toNat_natCast, hft, hi, Option.bind_some]
    rw [rd_box r.box 4 hbl hbo]
    simp only [Option.bind_some]
    rw [rdI32LE_wr _ (by unfold InI32; omega)]
    simp only [Option.bind_some]
    rw [rdI32LE_wr _ (by unfold InI32; omega)]
    simp only [Option.bind_some]
    have hnn : ¬ ((r.parts.length : Int) < 0 ∨ ((total r.parts : Nat) : Int) < 0) := by omega
    simp only [hnn, if_false, Int.toNat_natCast]
    have hol := offsetsOf_length 0 r.parts
    have hrd := rd_ints (offsetsOf 0 r.parts) (by
      intro a ha; have := offsetsOf_le 0 r.parts a ha; omega)
      (List.flatMap (fun (k : Nat) => wrI32LE (k : Int)) r.kinds ++ encVerts hasZ hasM r.mPresent r)
    rw [hol] at hrd
    rw [hrd]
    simp only [Option.bind_some, any_neg_ofNat, Bool.false_eq_true, if_false, map_toNat_ofNat, offsetsOf_head]
    rw [if_pos trivial]
    have hk := rd_ints r.kinds (by intro a ha; have := hkinds.2 a ha; omega) (encVerts hasZ hasM r.mPresent r)
    rw [hkinds.1] at hk
    rw [hk]
    simp only [Option.bind_some, any_bad_kind r.kinds hkinds.2, Bool.false_eq_true, if_false, map_toNat_ofNat]
    rw [dec_tail hasZ hasM hzm r hvo hzr hmr hmp]
    simp only [Option.bind_some, splitParts_canon, List.map_nil]
    simp [Rec.canon, hi]

theorem decContent_multipoint (fileType : Nat) (r : Rec) (hs : r.Strict fileType) (hasZ hasM : Bool)
    (hi : typeInfo r.typeCode = some (hasZ, hasM, 2)) :
    decContent fileType r.number (encContent r) = some r.canon := by
  obtain ⟨hc31, hzm, hf5, _⟩ := typeInfo_facts _ _ _ _ hi
  obtain ⟨hnum, hty, hrest⟩ := hs
  rw [hi] at hrest
  unfold encContent decContent
  simp only [hi]
  simp only [List.append_assoc] at hrest ⊢
  rw [rdI32LE_wr _ (by unfold InI32; omega)]
  simp only [Option.bind_eq_bind, Option.bind_some, Option.pure_def]
  obtain ⟨hbl, hbo, hvo, hzr, hmr, hmp, htot, hnp, hone, _⟩ := hrest
  have hneg : ¬ ((r.typeCode : Int) < 0) := by omega
  have hft : ¬ (r.typeCode ≠ fileType ∧ r.typeCode ≠ 0) := by omega
  simp only [hneg, if_false, Int.toNat_natCast, hft, hi, Option.bind_some]
  rw [rd_box r.box 4 hbl hbo]
  simp only [Option.bind_some]
  rw [rdI32LE_wr _ (by unfold InI32; omega)]
  simp only [Option.bind_some]
  have hnn : ¬ (((total r.parts : Nat) : Int) < 0) := by omega
  simp only [hnn, if_false, Int.toNat_natCast]
  rw [dec_tail hasZ hasM hzm r hvo hzr hmr hmp]
  simp only [Option.bind_some]
  have h1 := hone trivial
  have hp : [r.parts.flatten.map (V.canon hasZ hasM)] = r.parts.map (List.map (V.canon hasZ hasM)) := by
    match hq : r.parts, h1 with
    | [p], _ => simp
  rw [hp]
  simp [Rec.canon, hi]

theorem parts_single (parts : List (List V)) (h1 : parts.flatten.length = 1) (h2 : parts.length = 1) :
    ∃ v, parts = [[v]] := by
  match parts, h2 with
  | [p], _ =>
    simp only [List.flatten_cons, List.flatten_nil, List.append_nil] at h1
    match p, h1 with
    | [v], _ => exact ⟨v, rfl⟩

theorem decContent_point (fileType : Nat) (r : Rec) (hs : r.Strict fileType) (hasZ hasM : Bool)
    (hi : typeInfo r.typeCode = some (hasZ, hasM, 1)) :
    decContent fileType r.number (encContent r) = some r.canon := by
  obtain ⟨hc31, hzm, hf5, _⟩ := typeInfo_facts _ _ _ _ hi
  obtain ⟨hnum, hty, hrest⟩ := hs
  rw [hi] at hrest
  obtain ⟨hfl, hpl, hvo, hmp⟩ := hrest
  obtain ⟨v, hv⟩ := parts_single r.parts hfl hpl
  have hok : v.Ok := hvo v (by simp [hv])
  unfold encContent decContent
  simp only [hi, hv, List.flatten_cons, List.flatten_nil, List.append_nil, hmp, Bool.true_or, Bool.and_true]
  simp only [List.append_assoc]
  rw [rdI32LE_wr _ (by unfold InI32; omega)]
  simp only [Option.bind_eq_bind, Option.bind_some, Option.pure_def]
  have hneg : ¬ ((r.typeCode : Int) < 0) := by omega
  have hft : ¬ (r.typeCode ≠ fileType ∧ r.typeCode ≠ 0) := by omega
  simp only [hneg, if_false, Int.toNat_natCast, hft, hi, Option.bind_some]
  rw [rdF64_wr _ hok.1]
  simp only [Option.bind_some]
  rw [rdF64_wr _ hok.2.1]
  simp only [Option.bind_some]
  cases hasZ <;> cases hasM
  · simp [Rec.canon, hi, hv, V.canon]
  · simp only [Bool.false_eq_true, if_false, if_true, List.nil_append, Option.bind_some]
    have := rdF64_wr _ hok.2.2.2 []
    rw [List.append_nil] at this
    rw [this]
    simp [Rec.canon, hi, hv, V.canon]
  · exact absurd (hzm rfl) (by decide)
  · simp only [if_true]
    rw [rdF64_wr _ hok.2.2.1]
    simp only [Option.bind_some]
    have := rdF64_wr _ hok.2.2.2 []
    rw [List.append_nil] at this
    rw [this]
    simp [Rec.canon, hi, hv, V.canon]

theorem decContent_null (fileType : Nat) (r : Rec) (hs : r.Strict fileType) (hasZ hasM : Bool)
    (hi : typeInfo r.typeCode = some (hasZ, hasM, 0)) :
    decContent fileType r.number (encContent r) = some r.canon := by
  obtain ⟨hc31, hzm, hf5, h0⟩ := typeInfo_facts _ _ _ _ hi
  have h0 := h0 rfl
  unfold encContent decContent
  simp only [hi, List.append_nil]
  have := rdI32LE_wr (r.typeCode : Int) (by unfold InI32; omega) []
  rw [List.append_nil] at this
  rw [this]
  simp only [Option.bind_eq_bind, Option.bind_some, Option.pure_def]
  have hneg : ¬ ((r.typeCode : Int) < 0) := by omega
  have hft : ¬ (r.typeCode ≠ fileType ∧ r.typeCode ≠ 0) := by omega
  simp only [hneg, if_false, Int.toNat_natCast, hft, hi, Option.bind_some]
  simp [Rec.canon, hi]

/-- the strict decoder inverts the encoder on every strict record -/
theorem decContent_enc (fileType : Nat) (r : Rec) (hs : r.Strict fileType) :
    decContent fileType r.number (encContent r) = some r.canon := by
  have h := hs.2.2
  rcases hi : typeInfo r.typeCode with _ | ⟨hasZ, hasM, fam⟩
  · rw [hi] at h; exact h.elim
  · have := (typeInfo_facts _ _ _ _ hi).2.2.1
    match fam, hi with
    | 0, hi => exact decContent_null fileType r hs hasZ hasM hi
    | 1, hi => exact decContent_point fileType r hs hasZ hasM hi
    | 2, hi => exact decContent_multipoint fileType r hs hasZ hasM hi
    | n + 3, hi => exact decContent_multi fileType r hs hasZ hasM (n + 3) hi (by omega)

end Shp.Spec

/-
Every decoder of the model reads its source sequentially (`Stable`) and never panics
(`NoPanic`): the two facts behind C07, C11 and C13.
-/
import Shp.Lemmas.Post
import Shp.Model.Header
namespace Shp
open Dec

theorem Dec.Stable.ite {α : Type} {c : Prop} [Decidable c] {d1 d2 : Dec α}
    (h1 : Stable d1) (h2 : Stable d2) : Stable (if c then d1 else d2) := by
  split
  · exact h1
  · exact h2

/-! ### Stable -/
theorem readXYPt_stable : Stable readXYPt :=
  Stable.bind Stable.f64 fun _ => Stable.bind Stable.f64 fun _ => Stable.pure _

theorem readCounted_stable {α : Type} (n : Int) {d : Dec α} (hd : Stable d) : Stable (readCounted n d) := by
  unfold readCounted
  exact Stable.ite (Stable.fail _) (Stable.repeatN _ hd)

theorem readXYVec_stable (n : Int) : Stable (readXYVec n) := readCounted_stable n readXYPt_stable

theorem readBBoxXY_stable : Stable readBBoxXY :=
  Stable.bind Stable.f64 fun _ => Stable.bind Stable.f64 fun _ => Stable.bind Stable.f64 fun _ =>
  Stable.bind Stable.f64 fun _ => Stable.pure _

theorem readZsInto_stable (pts : List Pt) : Stable (readZsInto pts) :=
  Stable.mapM' (fun _ => Stable.bind Stable.f64 fun _ => Stable.pure _) pts
theorem readMsInto_stable (pts : List Pt) : Stable (readMsInto pts) :=
  Stable.mapM' (fun _ => Stable.bind Stable.f64 fun _ => Stable.pure _) pts

theorem readZs_stable (b : BBox) (parts : List (List Pt)) : Stable (readZs b parts) :=
  Stable.bind Stable.f64 fun _ => Stable.bind Stable.f64 fun _ =>
  Stable.bind (Stable.mapM' readZsInto_stable parts) fun _ => Stable.pure _
theorem readMs_stable (b : BBox) (parts : List (List Pt)) : Stable (readMs b parts) :=
  Stable.bind Stable.f64 fun _ => Stable.bind Stable.f64 fun _ =>
  Stable.bind (Stable.mapM' readMsInto_stable parts) fun _ => Stable.pure _

theorem readZM_stable (d : Dim) (m : Bool) (b : BBox) (parts : List (List Pt)) : Stable (readZM d m b parts) := by
  unfold readZM
  exact Stable.bind (Stable.ite (readZs_stable _ _) (Stable.pure _)) fun r =>
    Stable.ite (readMs_stable _ _) (Stable.pure _)

theorem readPartsXY_stable (bounds : List (Int × Int)) : Stable (readPartsXY bounds) :=
  Stable.mapM' (fun _ => Stable.ite (Stable.fail _) (readXYVec_stable _)) bounds

theorem readMultiPartHeader_stable : Stable readMultiPartHeader :=
  Stable.bind readBBoxXY_stable fun _ => Stable.bind Stable.i32LE fun _ => Stable.bind Stable.i32LE fun _ =>
  Stable.bind (readCounted_stable _ Stable.i32LE) fun _ => Stable.pure _

theorem readPolylineContent_stable (d : Dim) (rs : Int) : Stable (readPolylineContent d rs) :=
  Stable.bind readMultiPartHeader_stable fun _ =>
    Stable.ite (Stable.fail _) (Stable.bind (readPartsXY_stable _) fun _ => readZM_stable _ _ _ _)

theorem readPatchKind_stable : Stable readPatchKind :=
  Stable.bind Stable.i32LE fun c => by
    cases PatchKind.ofCode c
    · exact Stable.fail _
    · exact Stable.pure _

theorem readMultipatchContent_stable (rs : Int) : Stable (readMultipatchContent rs) :=
  Stable.bind readMultiPartHeader_stable fun _ =>
    Stable.ite (Stable.fail _) (Stable.bind (readCounted_stable _ readPatchKind_stable) fun _ =>
      Stable.bind (readPartsXY_stable _) fun _ => Stable.bind (readZM_stable _ _ _ _) fun _ => Stable.pure _)

theorem readMultipointContent_stable (d : Dim) (rs : Int) : Stable (readMultipointContent d rs) :=
  Stable.bind readBBoxXY_stable fun _ => Stable.bind Stable.i32LE fun _ =>
    Stable.ite (Stable.fail _) (Stable.bind (readXYVec_stable _) fun _ =>
      Stable.bind (readZM_stable _ _ _ _) fun _ => Stable.pure _)

theorem readPointContent_stable (d : Dim) (rs : Int) : Stable (readPointContent d rs) := by
  cases d <;> unfold readPointContent
  · exact Stable.ite (Stable.bind Stable.f64 fun _ => Stable.bind Stable.f64 fun _ => Stable.pure _) (Stable.fail _)
  · exact Stable.ite (Stable.bind Stable.f64 fun _ => Stable.bind Stable.f64 fun _ => Stable.bind Stable.f64 fun _ =>
      Stable.pure _) (Stable.fail _)
  · exact Stable.ite (Stable.bind Stable.f64 fun _ => Stable.bind Stable.f64 fun _ => Stable.bind Stable.f64 fun _ =>
      Stable.pure _)
      (Stable.ite (Stable.bind Stable.f64 fun _ => Stable.bind Stable.f64 fun _ => Stable.bind Stable.f64 fun _ =>
        Stable.bind Stable.f64 fun _ => Stable.pure _) (Stable.fail _))

theorem readContentOf_stable (o : Orient) (t : ShapeType) (rs : Int) : Stable (readContentOf o t rs) := by
  cases t <;> simp only [readContentOf]
  case nullShape => exact Stable.pure _
  case point | pointM | pointZ => exact readPointContent_stable _ _
  case multipoint | multipointM | multipointZ => exact readMultipointContent_stable _ _
  case polyline | polylineM | polylineZ | polygon | polygonM | polygonZ =>
    exact Stable.bind (readPolylineContent_stable _ _) fun _ => Stable.pure _
  case multipatch => exact readMultipatchContent_stable _

theorem readShapeType_stable : Stable readShapeType :=
  Stable.bind Stable.i32LE fun c => by
    cases ShapeType.ofCode c
    · exact Stable.fail _
    · exact Stable.pure _

theorem subTypeCode_stable (rs : Int) : Stable (subTypeCode rs) := by
  unfold subTypeCode; exact Stable.ite (Stable.pure _) (Stable.panic _)

theorem readShape_stable (o : Orient) (rs : Int) : Stable (readShape o rs) :=
  Stable.bind readShapeType_stable fun t => Stable.bind (subTypeCode_stable rs) fun rs' => by
    cases (dispatch t).2
    · exact Stable.pure _
    · exact readContentOf_stable _ _ _

theorem readShapeAs_stable (o : Orient) (S : ShapeType) (rs : Int) : Stable (readShapeAs o S rs) :=
  Stable.bind readShapeType_stable fun _ => Stable.bind (subTypeCode_stable rs) fun _ =>
    Stable.ite (readContentOf_stable _ _ _) (Stable.fail _)

theorem readTarget_stable (o : Orient) (tg : Target) (rs : Int) : Stable (readTarget o tg rs) := by
  cases tg
  · exact readShape_stable o rs
  · exact readShapeAs_stable o _ rs

theorem readOneShape_stable (o : Orient) (tg : Target) : Stable (readOneShape o tg) :=
  Stable.bind Stable.i32BE fun _ => Stable.bind Stable.i32BE fun w => by
    cases wordsToBytes w
    · exact Stable.fail _
    · exact Stable.ite (Stable.fail _) (Stable.bind (readTarget_stable _ _ _) fun _ => Stable.pure _)

theorem readHeader_stable : Stable readHeader :=
  Stable.bind Stable.i32BE fun _ => Stable.ite (Stable.fail _)
    (Stable.bind (Stable.take _) fun _ => Stable.bind Stable.i32BE fun _ => Stable.bind Stable.i32LE fun _ =>
     Stable.bind readShapeType_stable fun _ =>
     Stable.bind Stable.f64 fun _ => Stable.bind Stable.f64 fun _ => Stable.bind Stable.f64 fun _ =>
     Stable.bind Stable.f64 fun _ => Stable.bind Stable.f64 fun _ => Stable.bind Stable.f64 fun _ =>
     Stable.bind Stable.f64 fun _ => Stable.bind Stable.f64 fun _ => Stable.pure _)

theorem readIndexEntry_stable : Stable readIndexEntry :=
  Stable.bind Stable.i32BE fun _ => Stable.bind Stable.i32BE fun _ => Stable.pure _

theorem readIndexFile_stable : Stable readIndexFile :=
  Stable.bind readHeader_stable fun h => by
    cases wordsToBytes h.fileLength
    · exact Stable.fail _
    · exact Stable.repeatN _ readIndexEntry_stable

/-! ### NoPanic -/
theorem readXYPt_noPanic : NoPanic readXYPt :=
  NoPanic.bind NoPanic.f64 fun _ => NoPanic.bind NoPanic.f64 fun _ => NoPanic.pure _

theorem readCounted_noPanic {α : Type} (n : Int) {d : Dec α} (hd : NoPanic d) : NoPanic (readCounted n d) := by
  unfold readCounted
  exact NoPanic.ite (fun _ => NoPanic.fail _) (fun _ => NoPanic.repeatN _ hd)

theorem readBBoxXY_noPanic : NoPanic readBBoxXY :=
  NoPanic.bind NoPanic.f64 fun _ => NoPanic.bind NoPanic.f64 fun _ => NoPanic.bind NoPanic.f64 fun _ =>
  NoPanic.bind NoPanic.f64 fun _ => NoPanic.pure _

theorem readZs_noPanic (b : BBox) (parts : List (List Pt)) : NoPanic (readZs b parts) :=
  NoPanic.bind NoPanic.f64 fun _ => NoPanic.bind NoPanic.f64 fun _ =>
  NoPanic.bind (NoPanic.mapM' (fun pts => NoPanic.mapM' (fun _ => NoPanic.bind NoPanic.f64 fun _ => NoPanic.pure _) pts) parts)
    fun _ => NoPanic.pure _
theorem readMs_noPanic (b : BBox) (parts : List (List Pt)) : NoPanic (readMs b parts) :=
  NoPanic.bind NoPanic.f64 fun _ => NoPanic.bind NoPanic.f64 fun _ =>
  NoPanic.bind (NoPanic.mapM' (fun pts => NoPanic.mapM' (fun _ => NoPanic.bind NoPanic.f64 fun _ => NoPanic.pure _) pts) parts)
    fun _ => NoPanic.pure _

theorem readZM_noPanic (d : Dim) (m : Bool) (b : BBox) (parts : List (List Pt)) : NoPanic (readZM d m b parts) := by
  unfold readZM
  exact NoPanic.bind (NoPanic.ite (fun _ => readZs_noPanic _ _) (fun _ => NoPanic.pure _)) fun r =>
    NoPanic.ite (fun _ => readMs_noPanic _ _) (fun _ => NoPanic.pure _)

theorem readPartsXY_noPanic (bounds : List (Int × Int)) : NoPanic (readPartsXY bounds) :=
  NoPanic.mapM' (fun _ => NoPanic.ite (fun _ => NoPanic.fail _) (fun _ => readCounted_noPanic _ readXYPt_noPanic)) bounds

theorem readMultiPartHeader_noPanic : NoPanic readMultiPartHeader :=
  NoPanic.bind readBBoxXY_noPanic fun _ => NoPanic.bind NoPanic.i32LE fun _ => NoPanic.bind NoPanic.i32LE fun _ =>
  NoPanic.bind (readCounted_noPanic _ NoPanic.i32LE) fun _ => NoPanic.pure _

theorem readPolylineContent_noPanic (d : Dim) (rs : Int) : NoPanic (readPolylineContent d rs) :=
  NoPanic.bind readMultiPartHeader_noPanic fun _ =>
    NoPanic.ite (fun _ => NoPanic.fail _) (fun _ => NoPanic.bind (readPartsXY_noPanic _) fun _ => readZM_noPanic _ _ _ _)

theorem readPatchKind_noPanic : NoPanic readPatchKind :=
  NoPanic.bind NoPanic.i32LE fun c => by
    cases PatchKind.ofCode c
    · exact NoPanic.fail _
    · exact NoPanic.pure _

theorem readMultipatchContent_noPanic (rs : Int) : NoPanic (readMultipatchContent rs) :=
  NoPanic.bind readMultiPartHeader_noPanic fun _ =>
    NoPanic.ite (fun _ => NoPanic.fail _) (fun _ => NoPanic.bind (readCounted_noPanic _ readPatchKind_noPanic) fun _ =>
      NoPanic.bind (readPartsXY_noPanic _) fun _ => NoPanic.bind (readZM_noPanic _ _ _ _) fun _ => NoPanic.pure _)

theorem readMultipointContent_noPanic (d : Dim) (rs : Int) : NoPanic (readMultipointContent d rs) :=
  NoPanic.bind readBBoxXY_noPanic fun _ => NoPanic.bind NoPanic.i32LE fun _ =>
    NoPanic.ite (fun _ => NoPanic.fail _) (fun _ => NoPanic.bind (readCounted_noPanic _ readXYPt_noPanic) fun _ =>
      NoPanic.bind (readZM_noPanic _ _ _ _) fun _ => NoPanic.pure _)

theorem readPointContent_noPanic (d : Dim) (rs : Int) : NoPanic (readPointContent d rs) := by
  cases d <;> unfold readPointContent
  · exact NoPanic.ite (fun _ => NoPanic.bind NoPanic.f64 fun _ => NoPanic.bind NoPanic.f64 fun _ => NoPanic.pure _) (fun _ => NoPanic.fail _)
  · exact NoPanic.ite (fun _ => NoPanic.bind NoPanic.f64 fun _ => NoPanic.bind NoPanic.f64 fun _ => NoPanic.bind NoPanic.f64 fun _ =>
      NoPanic.pure _) (fun _ => NoPanic.fail _)
  · exact NoPanic.ite (fun _ => NoPanic.bind NoPanic.f64 fun _ => NoPanic.bind NoPanic.f64 fun _ => NoPanic.bind NoPanic.f64 fun _ =>
      NoPanic.pure _)
      (fun _ => NoPanic.ite (fun _ => NoPanic.bind NoPanic.f64 fun _ => NoPanic.bind NoPanic.f64 fun _ => NoPanic.bind NoPanic.f64 fun _ =>
        NoPanic.bind NoPanic.f64 fun _ => NoPanic.pure _) (fun _ => NoPanic.fail _))

theorem readContentOf_noPanic (o : Orient) (t : ShapeType) (rs : Int) : NoPanic (readContentOf o t rs) := by
  cases t <;> simp only [readContentOf]
  case nullShape => exact NoPanic.pure _
  case point | pointM | pointZ => exact readPointContent_noPanic _ _
  case multipoint | multipointM | multipointZ => exact readMultipointContent_noPanic _ _
  case polyline | polylineM | polylineZ | polygon | polygonM | polygonZ =>
    exact NoPanic.bind (readPolylineContent_noPanic _ _) fun _ => NoPanic.pure _
  case multipatch => exact readMultipatchContent_noPanic _

theorem readShapeType_noPanic : NoPanic readShapeType :=
  NoPanic.bind NoPanic.i32LE fun c => by
    cases ShapeType.ofCode c
    · exact NoPanic.fail _
    · exact NoPanic.pure _

/-- `record_size -= 4` cannot overflow: the caller only passes sizes in `[0, 2^31)` -/
theorem subTypeCode_noPanic (rs : Int) (h : 0 ≤ rs ∧ rs < 2147483648) : NoPanic (subTypeCode rs) := by
  unfold subTypeCode
  have : InI32 (rs - 4) := by unfold InI32; omega
  rw [if_pos this]
  exact NoPanic.pure _

theorem readTarget_noPanic (o : Orient) (tg : Target) (rs : Int) (h : 0 ≤ rs ∧ rs < 2147483648) :
    NoPanic (readTarget o tg rs) := by
  cases tg
  · exact NoPanic.bind readShapeType_noPanic fun t => NoPanic.bind (subTypeCode_noPanic rs h) fun rs' => by
      cases (dispatch t).2
      · exact NoPanic.pure _
      · exact readContentOf_noPanic _ _ _
  · exact NoPanic.bind readShapeType_noPanic fun _ => NoPanic.bind (subTypeCode_noPanic rs h) fun _ =>
      NoPanic.ite (fun _ => readContentOf_noPanic _ _ _) (fun _ => NoPanic.fail _)

/-- reading one record never panics, whatever the bytes: the two guards of `read_one_shape_as`
(negative length, doubled length beyond `i32`) dominate the only arithmetic that could overflow -/
theorem readOneShape_noPanic (o : Orient) (tg : Target) : NoPanic (readOneShape o tg) :=
  NoPanic.bind NoPanic.i32BE fun _ => NoPanic.bind NoPanic.i32BE fun w => by
    unfold wordsToBytes
    by_cases hw : w < 0
    · simp only [hw, if_true]; exact NoPanic.fail _
    · simp only [hw, if_false]
      exact NoPanic.ite (fun _ => NoPanic.fail _) (fun hlt =>
        NoPanic.bind (readTarget_noPanic o tg (2 * w) (by omega)) fun _ => NoPanic.pure _)

theorem readHeader_noPanic : NoPanic readHeader :=
  NoPanic.bind NoPanic.i32BE fun _ => NoPanic.ite (fun _ => NoPanic.fail _) fun _ =>
    (NoPanic.bind (NoPanic.take _) fun _ => NoPanic.bind NoPanic.i32BE fun _ => NoPanic.bind NoPanic.i32LE fun _ =>
     NoPanic.bind readShapeType_noPanic fun _ =>
     NoPanic.bind NoPanic.f64 fun _ => NoPanic.bind NoPanic.f64 fun _ => NoPanic.bind NoPanic.f64 fun _ =>
     NoPanic.bind NoPanic.f64 fun _ => NoPanic.bind NoPanic.f64 fun _ => NoPanic.bind NoPanic.f64 fun _ =>
     NoPanic.bind NoPanic.f64 fun _ => NoPanic.bind NoPanic.f64 fun _ => NoPanic.pure _)

theorem readIndexFile_noPanic : NoPanic readIndexFile :=
  NoPanic.bind readHeader_noPanic fun h => by
    cases wordsToBytes h.fileLength
    · exact NoPanic.fail _
    · exact NoPanic.repeatN _ (NoPanic.bind NoPanic.i32BE fun _ => NoPanic.bind NoPanic.i32BE fun _ => NoPanic.pure _)

end Shp

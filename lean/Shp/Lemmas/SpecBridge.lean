/-
Bridge between the independent whitepaper codec (`Shp.Spec`) and the model of the crate:
the whitepaper ENCODER emits, for every record, exactly the bytes of the model's encoders with
an optional M block (C03 direction), hence the model writer's bytes are what the whitepaper
encoder emits for the geometry handed in (C02 direction).
-/
import Shp.Lemmas.SpecPrim
import Shp.Spec.Expected
import Shp.Lemmas.ReaderSeq
namespace Shp
open Spec

theorem Pt.toV_toPt (p : Pt) : p.toV.toPt = p := by
  cases p; simp [Pt.toV, V.toPt, F64.ofNat_toNat]

theorem total_eq (parts : List (List V)) : total parts = totalPoints (parts.map (List.map V.toPt)) := by
  simp [total, totalPoints, List.map_map, Function.comp_def]

theorem offsetsOf_eq (s : Nat) (parts : List (List V)) :
    offsetsOf s parts = offsetsFrom s ((parts.map (List.map V.toPt)).map List.length) := by
  induction parts generalizing s with
  | nil => rfl
  | cons p ps ih => simp [offsetsOf, offsetsFrom, ih]

theorem flatMap_flatten' {α β : Type} (l : List (List α)) (f : α → List β) :
    l.flatten.flatMap f = l.flatMap (fun p => p.flatMap f) := by
  induction l with
  | nil => rfl
  | cons a as ih => simp [ih]

theorem encXY_toPt (vs : List V) : encXY (vs.map V.toPt) = vs.flatMap fun v => wrF64 v.x ++ wrF64 v.y := by
  simp [encXY, List.flatMap_map, wrF64_eq, V.toPt]
theorem encZs_toPt (vs : List V) : encZs (vs.map V.toPt) = vs.flatMap fun v => wrF64 v.z := by
  simp [encZs, List.flatMap_map, wrF64_eq, V.toPt]
theorem encMs_toPt (vs : List V) : encMs (vs.map V.toPt) = vs.flatMap fun v => wrF64 v.m := by
  simp [encMs, List.flatMap_map, wrF64_eq, V.toPt]

theorem flatMap_parts_toPt (parts : List (List V)) (f : List Pt → Bytes) (g : V → Bytes)
    (h : ∀ vs : List V, f (vs.map V.toPt) = vs.flatMap g) :
    (parts.map (List.map V.toPt)).flatMap f = parts.flatten.flatMap g := by
  rw [flatMap_flatten', List.flatMap_map]
  congr 1
  funext p
  exact h p

/-- vertices, Z block, optional M block -/
theorem encVerts_eq (hasZ hasM m : Bool) (r : Rec) (hzm : hasZ = true → hasM = true) :
    encVerts hasZ hasM m r =
      r.pparts.flatMap encXY ++ encZMopt (dimOf hasZ hasM) m r.bbox r.pparts := by
  unfold encVerts encZMopt Rec.pparts
  rw [flatMap_parts_toPt r.parts encXY _ encXY_toPt, flatMap_parts_toPt r.parts encZs _ encZs_toPt,
    flatMap_parts_toPt r.parts encMs _ encMs_toPt]
  cases hasZ <;> cases hasM <;> cases m <;>
    simp [dimOf, Dim.hasZ, Dim.hasM, encZRange, encMRange, Rec.bbox, wrF64_eq] at hzm ⊢

theorem box4_eq (r : Rec) (h : r.box.length = 4) : r.box.flatMap wrF64 = encBBoxXY r.bbox := by
  match hb : r.box, h with
  | [a, b, c, d], _ => simp [encBBoxXY, Rec.bbox, hb, wrF64_eq]

/-- the well-formedness the whitepaper imposes on a record of file type `t` (and the format's
`i32` size limit) -/
structure Spec.Rec.WF (t : Nat) (r : Rec) : Prop where
  number : InI32 r.number
  typ : r.typeCode = t ∨ r.typeCode = 0
  info : (typeInfo r.typeCode).isSome
  box : r.typeCode ≠ 0 → r.box.length = 4
  shape : match typeInfo r.typeCode with
    | some (_, _, 1) => ∃ v, r.parts = [[v]]
    | some (_, _, 2) => ∃ vs, r.parts = [vs]
    | some (_, _, 5) => r.kinds.length = r.parts.length ∧ ∀ k ∈ r.kinds, k < 6
    | _ => True
  small : (encContent r).length < 1073741824
  /-- content lengths are counted in 16-bit words -/
  even : (encContent r).length % 2 = 0

/-- multi-part families (polyline, polygon): whitepaper bytes = model bytes -/
theorem encContent_multipart (r : Rec) (hasZ hasM : Bool) (fam : Nat) (hi : typeInfo r.typeCode = some (hasZ, hasM, fam))
    (hf : fam = 3 ∨ fam = 4) (hb : r.box.length = 4) (hzm : hasZ = true → hasM = true) :
    encContent r = encI32LE r.typeCode ++ encMultiPartOpt (dimOf hasZ hasM) r.mPresent r.bbox r.pparts := by
  unfold encContent
  rw [hi]
  simp only []
  rcases hf with rfl | rfl <;>
    simp only [encMultiPartOpt, encVerts_eq _ _ _ _ hzm, box4_eq r hb, wrI32LE_eq, List.append_assoc, partOffsets, encI32s,
      List.flatMap_map, Rec.pparts, List.length_map, total_eq, offsetsOf_eq, Int.ofNat_eq_natCast]

theorem encContent_multipoint (r : Rec) (hasZ hasM : Bool) (hi : typeInfo r.typeCode = some (hasZ, hasM, 2))
    (hb : r.box.length = 4) (vs : List V) (hp : r.parts = [vs]) (hzm : hasZ = true → hasM = true) :
    encContent r = encI32LE r.typeCode ++ encMultipointOpt (dimOf hasZ hasM) r.mPresent r.bbox (vs.map V.toPt) := by
  unfold encContent
  rw [hi]
  simp only []
  simp only [encMultipointOpt, encVerts_eq _ _ _ _ hzm, box4_eq r hb, wrI32LE_eq, List.append_assoc, Rec.pparts, hp, total,
    List.map_cons, List.map_nil, List.sum_cons, List.sum_nil, Nat.add_zero, List.flatMap_cons, List.flatMap_nil,
    List.append_nil, List.length_map]

open Dec in
/-- framing: a record header, a type code and a content that the type's reader accepts -/
theorem readOneShape_frame (o : Orient) (num : Int) (t : ShapeType) (content rest : Bytes) (shape : Shape)
    (hnum : InI32 num) (heven : content.length % 2 = 0) (hsmall : content.length + 4 < 2147483648)
    (hread : t ≠ .nullShape → readContentOf o t (content.length : Int) (content ++ rest) = .ok shape rest)
    (hnull : t = .nullShape → content = [] ∧ shape = .null) :
    readOneShape o .generic (encI32BE num ++ (encI32BE (((4 + content.length) / 2 : Nat) : Int) ++
        (encI32LE t.code ++ (content ++ rest)))) = .ok ((((4 + content.length) / 2 : Nat) : Int), shape) rest := by
  unfold readOneShape
  rw [bind_exact (i32BE_enc num hnum)]
  rw [bind_exact (i32BE_enc _ (by unfold InI32; omega))]
  have hwb : wordsToBytes (((4 + content.length) / 2 : Nat) : Int) = some (2 * (((4 + content.length) / 2 : Nat) : Int)) := by
    unfold wordsToBytes; rw [if_neg (by omega)]
  rw [hwb]
  simp only []
  rw [if_neg (by omega)]
  have hsz : 2 * (((4 + content.length) / 2 : Nat) : Int) - 4 = (content.length : Int) := by omega
  have hsub : subTypeCode (2 * (((4 + content.length) / 2 : Nat) : Int)) = Dec.pure (content.length : Int) := by
    unfold subTypeCode
    rw [hsz, if_pos (by unfold InI32; omega)]
  simp only [readTarget, readShape]
  rw [bind_of_ok (show Dec.bind _ _ _ = Res.ok shape rest from by
    rw [bind_exact (readShapeType_enc t), hsub]
    show Dec.bind (Dec.pure _) _ _ = _
    unfold Dec.bind Dec.pure
    simp only []
    by_cases ht : t = .nullShape
    · obtain ⟨hc, hs⟩ := hnull ht
      subst ht hc hs
      rfl
    · rw [dispatch_snd _ ht]
      exact hread ht)]
  rfl

theorem typeOfCode_code (c : Nat) (h : (typeInfo c).isSome) : (typeOfCode c).code = c := by
  have : c ∈ [0, 1, 3, 5, 8, 11, 13, 15, 18, 21, 23, 25, 28, 31] := by
    unfold typeInfo at h
    split at h <;> simp_all
  simp only [List.mem_cons, List.mem_nil_iff, or_false] at this
  rcases this with rfl | rfl | rfl | rfl | rfl | rfl | rfl | rfl | rfl | rfl | rfl | rfl | rfl | rfl <;> decide

open Dec in
theorem readPatchKind_code (k : Nat) (hk : k < 6) (r : Bytes) :
    readPatchKind (encI32LE k ++ r) = .ok (kindOfCode k) r := by
  unfold readPatchKind
  rw [bind_exact (i32LE_enc _ (by unfold InI32; omega))]
  have : k ∈ [0, 1, 2, 3, 4, 5] := by simp; omega
  simp only [List.mem_cons, List.mem_nil_iff, or_false] at this
  rcases this with rfl | rfl | rfl | rfl | rfl | rfl <;> rfl

theorem encContent_multipatch (r : Rec) (hi : r.typeCode = 31) (hb : r.box.length = 4) :
    encContent r = encI32LE 31 ++ (encBBoxXY r.bbox ++ (encI32LE r.pparts.length ++ (encI32LE (totalPoints r.pparts) ++
      (encI32s ((partOffsets r.pparts).map Int.ofNat) ++ (encI32s (r.kinds.map fun (k : Nat) => (k : Int)) ++
      (r.pparts.flatMap encXY ++ encZMopt .xyzm r.mPresent r.bbox r.pparts)))))) := by
  unfold encContent
  rw [hi]
  simp only [typeInfo]
  have := encVerts_eq true true r.mPresent r (fun _ => rfl)
  simp only [dimOf, if_true] at this
  simp only [this, box4_eq r hb, wrI32LE_eq, List.append_assoc, partOffsets, encI32s,
      List.flatMap_map, Rec.pparts, List.length_map, total_eq, offsetsOf_eq, Int.ofNat_eq_natCast]
  rfl

end Shp

/-
The other half of the sequential-source discipline.  `Stable` says: what a decoder does on an input
it also does on every extension of it (unless it ran out of input).  `Local` says the converse: a
decoder looks at no byte it does not consume — when the run on a longer input succeeded without
touching the last `ext.length` bytes, the run on the input without them succeeds with the same value.
Together: the records wholly contained in the retained bytes of a truncated source are returned,
whatever wrote them and wherever they lie (C13 on foreign layouts).
-/
import Shp.Lemmas.StableAll
namespace Shp
open Dec

namespace Dec
variable {α β : Type}

def Local (d : Dec α) : Prop :=
  (∀ bs a rest, d bs = .ok a rest → rest.length ≤ bs.length) ∧
  (∀ bs ext a rest, d (bs ++ ext) = .ok a rest → ext.length ≤ rest.length →
    ∃ r', rest = r' ++ ext ∧ d bs = .ok a r')

theorem Local.pure (a : α) : Local (pure a) := by
  refine ⟨?_, ?_⟩
  · intro bs a' rest h; simp only [Dec.pure, Res.ok.injEq] at h; rw [h.2]; omega
  · intro bs ext a' rest h _
    simp only [Dec.pure, Res.ok.injEq] at h
    exact ⟨bs, h.2.symm, by simp [Dec.pure, h.1]⟩

theorem Local.fail (e : Err) : Local (fail e : Dec α) :=
  ⟨fun bs a rest h => by simp [Dec.fail] at h, fun bs ext a rest h _ => by simp [Dec.fail] at h⟩

theorem Local.panic (s : String) : Local (panic s : Dec α) :=
  ⟨fun bs a rest h => by simp [Dec.panic] at h, fun bs ext a rest h _ => by simp [Dec.panic] at h⟩

theorem bind_ok' {d : Dec α} {f : α → Dec β} {bs : Bytes} {b : β} {rest : Bytes}
    (h : Dec.bind d f bs = .ok b rest) : ∃ a r, d bs = .ok a r ∧ f a r = .ok b rest := by
  unfold Dec.bind at h
  cases hd : d bs with
  | ok a r => rw [hd] at h; exact ⟨a, r, rfl, h⟩
  | err e => rw [hd] at h; simp at h
  | panic s => rw [hd] at h; simp at h

theorem Local.bind {d : Dec α} {f : α → Dec β} (hd : Local d) (hf : ∀ a, Local (f a)) :
    Local (bind d f) := by
  refine ⟨?_, ?_⟩
  · intro bs b rest h
    obtain ⟨a, r, h1, h2⟩ := bind_ok' h
    have := hd.1 bs a r h1
    have := (hf a).1 r b rest h2
    omega
  · intro bs ext b rest h hle
    obtain ⟨a, r, h1, h2⟩ := bind_ok' h
    have hr := (hf a).1 r b rest h2
    obtain ⟨r1, e1, hd1⟩ := hd.2 bs ext a r h1 (by omega)
    rw [e1] at h2
    obtain ⟨r2, e2, hf2⟩ := (hf a).2 r1 ext b rest h2 hle
    refine ⟨r2, e2, ?_⟩
    unfold Dec.bind
    rw [hd1]
    exact hf2

theorem Local.ite {c : Prop} [Decidable c] {d1 d2 : Dec α} (h1 : Local d1) (h2 : Local d2) :
    Local (if c then d1 else d2) := by
  split
  · exact h1
  · exact h2

theorem Local.take (n : Nat) : Local (take n) := by
  refine ⟨?_, ?_⟩
  · intro bs a rest h
    unfold Dec.take at h
    split at h <;> simp at h
    obtain ⟨_, rfl⟩ := h
    simp
  · intro bs ext a rest h hle
    unfold Dec.take at h ⊢
    by_cases hn' : n ≤ (bs ++ ext).length
    · rw [if_pos hn'] at h
      simp only [Res.ok.injEq] at h
      obtain ⟨rfl, rfl⟩ := h
      simp only [List.length_drop, List.length_append] at hle hn'
      have hn : n ≤ bs.length := by omega
      refine ⟨bs.drop n, List.drop_append_of_le_length hn, ?_⟩
      rw [if_pos hn, List.take_append_of_le_length hn]
    · rw [if_neg hn'] at h; simp at h

theorem Local.map_res {d : Dec α} (f : α → β) (hd : Local d) : Local (fun bs => (d bs).map f) := by
  refine ⟨?_, ?_⟩
  · intro bs b rest h
    have h : (d bs).map f = .ok b rest := h
    cases hx : d bs with
    | ok a r =>
      rw [hx] at h
      simp only [Res.map, Res.ok.injEq] at h
      have := hd.1 bs a r hx
      rw [← h.2]; exact this
    | err e => rw [hx] at h; simp [Res.map] at h
    | panic s => rw [hx] at h; simp [Res.map] at h
  · intro bs ext b rest h hle
    have h : (d (bs ++ ext)).map f = .ok b rest := h
    show ∃ r', rest = r' ++ ext ∧ (d bs).map f = .ok b r'
    cases hx : d (bs ++ ext) with
    | ok a r =>
      simp only [hx, Res.map, Res.ok.injEq] at h
      obtain ⟨rfl, rfl⟩ := h
      obtain ⟨r', e, hd'⟩ := hd.2 bs ext a r hx hle
      exact ⟨r', e, by simp [hd', Res.map]⟩
    | err e => simp [hx, Res.map] at h
    | panic s => simp [hx, Res.map] at h

/-- the fixed-width primitives are `take k` followed by a pure conversion -/
theorem Local.of_take (k : Nat) (d : Dec α) (g : Bytes → α)
    (h : ∀ bs, d bs = (Dec.take k bs).map g) : Local d := by
  have := Local.map_res g (Local.take k)
  have e : d = fun bs => (Dec.take k bs).map g := funext h
  rw [e]; exact this

theorem Local.u32LE : Local u32LE :=
  Local.of_take 4 _ (fun b => match b with | [b0, b1, b2, b3] => decU32LE b0 b1 b2 b3 | _ => 0) (by
    intro bs
    unfold Dec.u32LE Dec.take
    match bs with
    | [] | [_] | [_, _] | [_, _, _] => simp [Res.map]
    | b0 :: b1 :: b2 :: b3 :: rest => simp [Res.map])

theorem Local.u32BE : Local u32BE :=
  Local.of_take 4 _ (fun b => match b with | [b0, b1, b2, b3] => decU32BE b0 b1 b2 b3 | _ => 0) (by
    intro bs
    unfold Dec.u32BE Dec.take
    match bs with
    | [] | [_] | [_, _] | [_, _, _] => simp [Res.map]
    | b0 :: b1 :: b2 :: b3 :: rest => simp [Res.map])

theorem Local.i32LE : Local i32LE := Local.map_res _ Local.u32LE
theorem Local.i32BE : Local i32BE := Local.map_res _ Local.u32BE

theorem Local.f64 : Local f64 :=
  Local.of_take 8 _ (fun b => match b with
      | [b0, b1, b2, b3, b4, b5, b6, b7] => F64.dec b0 b1 b2 b3 b4 b5 b6 b7
      | _ => F64.zero) (by
    intro bs
    unfold Dec.f64 Dec.take
    match bs with
    | [] | [_] | [_, _] | [_, _, _] | [_, _, _, _] | [_, _, _, _, _] | [_, _, _, _, _, _] | [_, _, _, _, _, _, _] =>
      simp [Res.map]
    | b0 :: b1 :: b2 :: b3 :: b4 :: b5 :: b6 :: b7 :: rest => simp [Res.map])

theorem Local.repeatN (n : Nat) {d : Dec α} (hd : Local d) : Local (repeatN n d) := by
  induction n with
  | zero => exact Local.pure _
  | succ n ih =>
    unfold Dec.repeatN
    exact Local.bind hd fun a => Local.bind ih fun as => Local.pure _

theorem Local.mapM' {f : α → Dec β} (hf : ∀ a, Local (f a)) (l : List α) : Local (mapM' f l) := by
  induction l with
  | nil => exact Local.pure _
  | cons a as ih =>
    unfold Dec.mapM'
    exact Local.bind (hf a) fun b => Local.bind ih fun bs => Local.pure _

end Dec

/-! ### every decoder of the model is `Local` -/
theorem readXYPt_local : Local readXYPt :=
  Local.bind Local.f64 fun _ => Local.bind Local.f64 fun _ => Local.pure _

theorem readCounted_local {α : Type} (n : Int) {d : Dec α} (hd : Local d) : Local (readCounted n d) := by
  unfold readCounted
  exact Local.ite (Local.fail _) (Local.repeatN _ hd)

theorem readXYVec_local (n : Int) : Local (readXYVec n) := readCounted_local n readXYPt_local

theorem readBBoxXY_local : Local readBBoxXY :=
  Local.bind Local.f64 fun _ => Local.bind Local.f64 fun _ => Local.bind Local.f64 fun _ =>
  Local.bind Local.f64 fun _ => Local.pure _

theorem readZsInto_local (pts : List Pt) : Local (readZsInto pts) :=
  Local.mapM' (fun _ => Local.bind Local.f64 fun _ => Local.pure _) pts
theorem readMsInto_local (pts : List Pt) : Local (readMsInto pts) :=
  Local.mapM' (fun _ => Local.bind Local.f64 fun _ => Local.pure _) pts

theorem readZs_local (b : BBox) (parts : List (List Pt)) : Local (readZs b parts) :=
  Local.bind Local.f64 fun _ => Local.bind Local.f64 fun _ =>
  Local.bind (Local.mapM' readZsInto_local parts) fun _ => Local.pure _
theorem readMs_local (b : BBox) (parts : List (List Pt)) : Local (readMs b parts) :=
  Local.bind Local.f64 fun _ => Local.bind Local.f64 fun _ =>
  Local.bind (Local.mapM' readMsInto_local parts) fun _ => Local.pure _

theorem readZM_local (d : Dim) (m : Bool) (b : BBox) (parts : List (List Pt)) : Local (readZM d m b parts) := by
  unfold readZM
  exact Local.bind (Local.ite (readZs_local _ _) (Local.pure _)) fun r =>
    Local.ite (readMs_local _ _) (Local.pure _)

theorem readPartsXY_local (bounds : List (Int × Int)) : Local (readPartsXY bounds) :=
  Local.mapM' (fun _ => Local.ite (Local.fail _) (readXYVec_local _)) bounds

theorem readMultiPartHeader_local : Local readMultiPartHeader :=
  Local.bind readBBoxXY_local fun _ => Local.bind Local.i32LE fun _ => Local.bind Local.i32LE fun _ =>
  Local.bind (readCounted_local _ Local.i32LE) fun _ => Local.pure _

theorem readPolylineContent_local (d : Dim) (rs : Int) : Local (readPolylineContent d rs) :=
  Local.bind readMultiPartHeader_local fun _ =>
    Local.ite (Local.fail _) (Local.bind (readPartsXY_local _) fun _ => readZM_local _ _ _ _)

theorem readPatchKind_local : Local readPatchKind :=
  Local.bind Local.i32LE fun c => by
    cases PatchKind.ofCode c
    · exact Local.fail _
    · exact Local.pure _

theorem readMultipatchContent_local (rs : Int) : Local (readMultipatchContent rs) :=
  Local.bind readMultiPartHeader_local fun _ =>
    Local.ite (Local.fail _) (Local.bind (readCounted_local _ readPatchKind_local) fun _ =>
      Local.bind (readPartsXY_local _) fun _ => Local.bind (readZM_local _ _ _ _) fun _ => Local.pure _)

theorem readMultipointContent_local (d : Dim) (rs : Int) : Local (readMultipointContent d rs) :=
  Local.bind readBBoxXY_local fun _ => Local.bind Local.i32LE fun _ =>
    Local.ite (Local.fail _) (Local.bind (readXYVec_local _) fun _ =>
      Local.bind (readZM_local _ _ _ _) fun _ => Local.pure _)

theorem readPointContent_local (d : Dim) (rs : Int) : Local (readPointContent d rs) := by
  cases d <;> unfold readPointContent
  · exact Local.ite (Local.bind Local.f64 fun _ => Local.bind Local.f64 fun _ => Local.pure _) (Local.fail _)
  · exact Local.ite (Local.bind Local.f64 fun _ => Local.bind Local.f64 fun _ => Local.bind Local.f64 fun _ =>
      Local.pure _) (Local.fail _)
  · exact Local.ite (Local.bind Local.f64 fun _ => Local.bind Local.f64 fun _ => Local.bind Local.f64 fun _ =>
      Local.pure _)
      (Local.ite (Local.bind Local.f64 fun _ => Local.bind Local.f64 fun _ => Local.bind Local.f64 fun _ =>
        Local.bind Local.f64 fun _ => Local.pure _) (Local.fail _))

theorem readContentOf_local (o : Orient) (t : ShapeType) (rs : Int) : Local (readContentOf o t rs) := by
  cases t <;> simp only [readContentOf]
  case nullShape => exact Local.pure _
  case point | pointM | pointZ => exact readPointContent_local _ _
  case multipoint | multipointM | multipointZ => exact readMultipointContent_local _ _
  case polyline | polylineM | polylineZ | polygon | polygonM | polygonZ =>
    exact Local.bind (readPolylineContent_local _ _) fun _ => Local.pure _
  case multipatch => exact readMultipatchContent_local _

theorem readShapeType_local : Local readShapeType :=
  Local.bind Local.i32LE fun c => by
    cases ShapeType.ofCode c
    · exact Local.fail _
    · exact Local.pure _

theorem subTypeCode_local (rs : Int) : Local (subTypeCode rs) := by
  unfold subTypeCode; exact Local.ite (Local.pure _) (Local.panic _)

theorem readShape_local (o : Orient) (rs : Int) : Local (readShape o rs) :=
  Local.bind readShapeType_local fun t => Local.bind (subTypeCode_local rs) fun rs' => by
    cases (dispatch t).2
    · exact Local.pure _
    · exact readContentOf_local _ _ _

theorem readShapeAs_local (o : Orient) (S : ShapeType) (rs : Int) : Local (readShapeAs o S rs) :=
  Local.bind readShapeType_local fun _ => Local.bind (subTypeCode_local rs) fun _ =>
    Local.ite (readContentOf_local _ _ _) (Local.fail _)

theorem readTarget_local (o : Orient) (tg : Target) (rs : Int) : Local (readTarget o tg rs) := by
  cases tg
  · exact readShape_local o rs
  · exact readShapeAs_local o _ rs

theorem readOneShape_local (o : Orient) (tg : Target) : Local (readOneShape o tg) :=
  Local.bind Local.i32BE fun _ => Local.bind Local.i32BE fun w => by
    cases wordsToBytes w
    · exact Local.fail _
    · exact Local.ite (Local.fail _) (Local.bind (readTarget_local _ _ _) fun _ => Local.pure _)

theorem readHeader_local : Local readHeader :=
  Local.bind Local.i32BE fun _ => Local.ite (Local.fail _)
    (Local.bind (Local.take _) fun _ => Local.bind Local.i32BE fun _ => Local.bind Local.i32LE fun _ =>
     Local.bind readShapeType_local fun _ =>
     Local.bind Local.f64 fun _ => Local.bind Local.f64 fun _ => Local.bind Local.f64 fun _ =>
     Local.bind Local.f64 fun _ => Local.bind Local.f64 fun _ => Local.bind Local.f64 fun _ =>
     Local.bind Local.f64 fun _ => Local.bind Local.f64 fun _ => Local.pure _)

end Shp

/-
C03's core: the model reader decodes every record the whitepaper encoder can emit (optional M
block present or absent, PointZ with or without M, null records, any part structure) to
`Rec.expected`.
-/
import Shp.Lemmas.SpecBridge
namespace Shp
open Spec Dec

theorem encContent_length_even_multipart (d : Dim) (m : Bool) (b : BBox) (parts : List (List Pt)) :
    (encMultiPartOpt d m b parts).length % 2 = 0 := by
  rw [encMultiPartOpt_length]
  cases d <;> cases m <;> simp [Dim.hasZ, Dim.hasM] <;> omega

theorem spec_frame (o : Orient) (r : Rec) (mt : ShapeType) (content rest : Bytes) (shape : Shape)
    (hc : encContent r = encI32LE mt.code ++ content) (hn : InI32 r.number)
    (heven : content.length % 2 = 0) (hsmall : content.length + 4 < 2147483648)
    (hread : mt ≠ .nullShape → readContentOf o mt (content.length : Int) (content ++ rest) = .ok shape rest)
    (hnull : mt = .nullShape → content = [] ∧ shape = .null) :
    readOneShape o .generic (Spec.encRecord r ++ rest) = .ok ((((encContent r).length / 2 : Nat) : Int), shape) rest := by
  unfold Spec.encRecord
  simp only [wrI32BE_eq, hc, List.append_assoc, List.length_append, encI32LE_length]
  have := readOneShape_frame o r.number mt content rest shape hn heven hsmall hread hnull
  simpa using this

/-- polylines and polygons, 2-D / M / Z, with or without the optional M block -/
theorem spec_read_multipart (o : Orient) (t : Nat) (r : Rec) (hwf : r.WF t) (rest : Bytes)
    (hcode : r.typeCode ∈ [3, 23, 13, 5, 25, 15]) :
    readOneShape o .generic (Spec.encRecord r ++ rest) =
      .ok ((((encContent r).length / 2 : Nat) : Int), r.expected o) rest := by
  have hb := hwf.box (by intro h; rw [h] at hcode; simp at hcode)
  have hsm := hwf.small
  simp only [List.mem_cons, List.mem_nil_iff, or_false] at hcode
  have key : ∀ (hasZ hasM : Bool) (fam : Nat) (mt : ShapeType), typeInfo r.typeCode = some (hasZ, hasM, fam) →
      (fam = 3 ∨ fam = 4) → (hasZ = true → hasM = true) → mt.code = r.typeCode → mt ≠ .nullShape →
      (∀ rs bs, readContentOf o mt rs bs = Dec.bind (readPolylineContent (dimOf hasZ hasM) rs)
        (fun x => Dec.pure (if fam = 3 then Shape.polyline (dimOf hasZ hasM) x.1 x.2
          else Shape.polygon (dimOf hasZ hasM) x.1 (x.2.map fun p => (roleOf o p, p)))) bs) →
      readOneShape o .generic (Spec.encRecord r ++ rest) =
        .ok ((((encContent r).length / 2 : Nat) : Int),
          if fam = 3 then Shape.polyline (dimOf hasZ hasM) (r.bbox.readRawOpt (dimOf hasZ hasM) r.mPresent)
              (r.pparts.map (List.map (Pt.readBackOpt (dimOf hasZ hasM) r.mPresent)))
          else Shape.polygon (dimOf hasZ hasM) (r.bbox.readRawOpt (dimOf hasZ hasM) r.mPresent)
              ((r.pparts.map (List.map (Pt.readBackOpt (dimOf hasZ hasM) r.mPresent))).map fun p => (roleOf o p, p))) rest := by
    intro hasZ hasM fam mt hi hf hzm hmc hmt hrd
    have hc := encContent_multipart r hasZ hasM fam hi hf hb hzm
    rw [← hmc] at hc
    have hlen := encMultiPartOpt_length (dimOf hasZ hasM) r.mPresent r.bbox r.pparts
    have hcl : (encContent r).length = 4 + (encMultiPartOpt (dimOf hasZ hasM) r.mPresent r.bbox r.pparts).length := by
      rw [hc]; simp
    refine spec_frame o r mt _ rest _ hc hwf.number (encContent_length_even_multipart _ _ _ _) (by omega) ?_
      (fun h => absurd h hmt)
    intro _
    have hparts : r.pparts.length < 2147483648 ∧ totalPoints r.pparts < 2147483648 := by
      rw [hlen] at hcl; constructor <;> omega
    rw [hrd, bind_of_ok (readPolylineContent_enc (dimOf hasZ hasM) r.mPresent r.bbox r.pparts rest hparts.2 hparts.1)]
    rfl
  rcases hcode with h | h | h | h | h | h
  · have := key false false 3 .polyline (by rw [h]; rfl) (Or.inl rfl) (by simp) (by rw [h]; rfl) (by decide) (fun _ _ => rfl)
    simpa [Rec.expected, h, typeInfo, dimOf] using this
  · have := key false true 3 .polylineM (by rw [h]; rfl) (Or.inl rfl) (by simp) (by rw [h]; rfl) (by decide) (fun _ _ => rfl)
    simpa [Rec.expected, h, typeInfo, dimOf] using this
  · have := key true true 3 .polylineZ (by rw [h]; rfl) (Or.inl rfl) (by simp) (by rw [h]; rfl) (by decide) (fun _ _ => rfl)
    simpa [Rec.expected, h, typeInfo, dimOf] using this
  · have := key false false 4 .polygon (by rw [h]; rfl) (Or.inr rfl) (by simp) (by rw [h]; rfl) (by decide) (fun _ _ => rfl)
    simpa [Rec.expected, h, typeInfo, dimOf, List.map_map, Function.comp_def] using this
  · have := key false true 4 .polygonM (by rw [h]; rfl) (Or.inr rfl) (by simp) (by rw [h]; rfl) (by decide) (fun _ _ => rfl)
    simpa [Rec.expected, h, typeInfo, dimOf, List.map_map, Function.comp_def] using this
  · have := key true true 4 .polygonZ (by rw [h]; rfl) (Or.inr rfl) (by simp) (by rw [h]; rfl) (by decide) (fun _ _ => rfl)
    simpa [Rec.expected, h, typeInfo, dimOf, List.map_map, Function.comp_def] using this

theorem encMultipointOpt_even (d : Dim) (m : Bool) (b : BBox) (pts : List Pt) :
    (encMultipointOpt d m b pts).length % 2 = 0 := by
  rw [encMultipointOpt_length]
  cases d <;> cases m <;> simp [Dim.hasZ, Dim.hasM] <;> omega

/-- multipoints, 2-D / M / Z, with or without the optional M block -/
theorem spec_read_multipoint (o : Orient) (t : Nat) (r : Rec) (hwf : r.WF t) (rest : Bytes)
    (hcode : r.typeCode ∈ [8, 28, 18]) :
    readOneShape o .generic (Spec.encRecord r ++ rest) =
      .ok ((((encContent r).length / 2 : Nat) : Int), r.expected o) rest := by
  have hb := hwf.box (by intro h; rw [h] at hcode; simp at hcode)
  have hsm := hwf.small
  have hshape := hwf.shape
  simp only [List.mem_cons, List.mem_nil_iff, or_false] at hcode
  have key : ∀ (hasZ hasM : Bool) (mt : ShapeType) (vs : List V), typeInfo r.typeCode = some (hasZ, hasM, 2) →
      r.parts = [vs] → (hasZ = true → hasM = true) → mt.code = r.typeCode → mt ≠ .nullShape →
      (∀ rs bs, readContentOf o mt rs bs = readMultipointContent (dimOf hasZ hasM) rs bs) →
      readOneShape o .generic (Spec.encRecord r ++ rest) =
        .ok ((((encContent r).length / 2 : Nat) : Int),
          Shape.multipoint (dimOf hasZ hasM) (r.bbox.readRawOpt (dimOf hasZ hasM) r.mPresent)
            ((vs.map V.toPt).map (Pt.readBackOpt (dimOf hasZ hasM) r.mPresent))) rest := by
    intro hasZ hasM mt vs hi hp hzm hmc hmt hrd
    have hc := encContent_multipoint r hasZ hasM hi hb vs hp hzm
    rw [← hmc] at hc
    have hlen := encMultipointOpt_length (dimOf hasZ hasM) r.mPresent r.bbox (vs.map V.toPt)
    have hcl : (encContent r).length = 4 + (encMultipointOpt (dimOf hasZ hasM) r.mPresent r.bbox (vs.map V.toPt)).length := by
      rw [hc]; simp
    refine spec_frame o r mt _ rest _ hc hwf.number (encMultipointOpt_even _ _ _ _) (by omega) ?_
      (fun h => absurd h hmt)
    intro _
    rw [hrd]
    exact readMultipointContent_enc (dimOf hasZ hasM) r.mPresent r.bbox (vs.map V.toPt) rest (by rw [hlen] at hcl; omega)
  rcases hcode with h | h | h
  · rw [h] at hshape; simp only [typeInfo] at hshape
    obtain ⟨vs, hp⟩ := hshape
    have := key false false .multipoint vs (by rw [h]; rfl) hp (by simp) (by rw [h]; rfl) (by decide) (fun _ _ => rfl)
    simpa [Rec.expected, h, typeInfo, dimOf, Rec.pparts, hp] using this
  · rw [h] at hshape; simp only [typeInfo] at hshape
    obtain ⟨vs, hp⟩ := hshape
    have := key false true .multipointM vs (by rw [h]; rfl) hp (by simp) (by rw [h]; rfl) (by decide) (fun _ _ => rfl)
    simpa [Rec.expected, h, typeInfo, dimOf, Rec.pparts, hp] using this
  · rw [h] at hshape; simp only [typeInfo] at hshape
    obtain ⟨vs, hp⟩ := hshape
    have := key true true .multipointZ vs (by rw [h]; rfl) hp (by simp) (by rw [h]; rfl) (by decide) (fun _ _ => rfl)
    simpa [Rec.expected, h, typeInfo, dimOf, Rec.pparts, hp] using this

/-- null-shape records -/
theorem spec_read_null (o : Orient) (t : Nat) (r : Rec) (hwf : r.WF t) (rest : Bytes) (hcode : r.typeCode = 0) :
    readOneShape o .generic (Spec.encRecord r ++ rest) =
      .ok ((((encContent r).length / 2 : Nat) : Int), r.expected o) rest := by
  have hc : encContent r = encI32LE ShapeType.nullShape.code ++ [] := by
    unfold encContent; rw [hcode]; simp [typeInfo, wrI32LE_eq, ShapeType.code]
  have := spec_frame o r .nullShape [] rest .null hc hwf.number rfl (by simp) (fun h => absurd rfl h) (fun _ => ⟨rfl, rfl⟩)
  simpa [Rec.expected, hcode, typeInfo] using this

theorem kindOfCode_code (k : Nat) (hk : k < 6) : ((kindOfCode k).code : Int) = (k : Int) := by
  have : k ∈ [0, 1, 2, 3, 4, 5] := by simp; omega
  simp only [List.mem_cons, List.mem_nil_iff, or_false] at this
  rcases this with rfl | rfl | rfl | rfl | rfl | rfl <;> rfl

/-- multipatches, with or without the optional M block, any part-type codes 0..5 -/
theorem spec_read_multipatch (o : Orient) (t : Nat) (r : Rec) (hwf : r.WF t) (rest : Bytes) (hcode : r.typeCode = 31) :
    readOneShape o .generic (Spec.encRecord r ++ rest) =
      .ok ((((encContent r).length / 2 : Nat) : Int), r.expected o) rest := by
  have hb := hwf.box (by rw [hcode]; decide)
  have hsm := hwf.small
  have hshape := hwf.shape
  rw [hcode] at hshape; simp only [typeInfo] at hshape
  obtain ⟨hkl, hk6⟩ := hshape
  have hpl : r.pparts.length = r.parts.length := by simp [Rec.pparts]
  let patches : List (PatchKind × List Pt) := List.zip (r.kinds.map kindOfCode) r.pparts
  have hsnd : patches.map (·.2) = r.pparts := by
    apply List.map_snd_zip; simp [hkl, hpl]
  have hfst : patches.map (·.1) = r.kinds.map kindOfCode := by
    apply List.map_fst_zip; simp [hkl, hpl]
  have hcodes : patches.map (fun p => p.1.code) = r.kinds.map fun (k : Nat) => (k : Int) := by
    have : patches.map (fun p => p.1.code) = (patches.map (·.1)).map PatchKind.code := by simp [List.map_map]
    rw [this, hfst, List.map_map]
    apply List.map_congr_left
    intro k hk
    exact kindOfCode_code k (hk6 k hk)
  have hplen : patches.length = r.pparts.length := by
    have := congrArg List.length hsnd; simpa using this
  have hc : encContent r = encI32LE ShapeType.multipatch.code ++ encMultipatchOpt r.mPresent r.bbox patches := by
    rw [encContent_multipatch r hcode hb]
    unfold encMultipatchOpt
    simp only [hsnd, hcodes, hplen, List.append_assoc]
    rfl
  have hlen := encMultipatchOpt_length r.mPresent r.bbox patches
  have hcl : (encContent r).length = 4 + (encMultipatchOpt r.mPresent r.bbox patches).length := by rw [hc]; simp
  have heven : (encMultipatchOpt r.mPresent r.bbox patches).length % 2 = 0 := by
    rw [hlen]; cases r.mPresent <;> simp <;> omega
  have := spec_frame o r .multipatch _ rest
    (.multipatch (r.bbox.readRawOpt .xyzm r.mPresent) (patches.map fun p => (p.1, p.2.map (Pt.readBackOpt .xyzm r.mPresent))))
    hc hwf.number heven (by omega)
    (fun _ => by
      simp only [readContentOf]
      exact readMultipatchContent_enc r.mPresent r.bbox patches rest (by rw [hlen] at hcl; omega) (by rw [hlen] at hcl; omega))
    (fun h => by cases h)
  rw [this]
  congr 2
  simp only [Rec.expected, hcode, typeInfo, patches, List.zip_map_left, List.map_map]
  rfl

theorem readPointContent_opt (d : Dim) (m : Bool) (p : Pt) (r : Bytes) (hm : d = .xyzm ∨ m = true) :
    readPointContent d
      ((p.x.enc ++ p.y.enc ++ (if d.hasZ then p.z.enc else []) ++ (if d.hasM && m then p.m.enc else [])).length : Int)
      ((p.x.enc ++ p.y.enc ++ (if d.hasZ then p.z.enc else []) ++ (if d.hasM && m then p.m.enc else [])) ++ r) =
      .ok (.point d (p.readRawOpt d m)) r := by
  cases d <;> cases m
  · rcases hm with hm | hm <;> cases hm
  · simp only [Dim.hasZ, Dim.hasM, Bool.false_eq_true, if_false, List.append_nil,
      List.length_append, F64.enc_length, List.append_assoc, readPointContent, Bool.and_true, Bool.false_and]
    rw [if_pos (by rfl), bind_exact (f64_enc _), bind_exact (f64_enc _)]
    simp [Dec.pure, Pt.readRawOpt, Pt.default, Dim.hasZ, Dim.hasM]
  · rcases hm with hm | hm <;> cases hm
  · simp only [Dim.hasZ, Dim.hasM, Bool.false_eq_true, if_false, if_true, List.append_nil,
      List.length_append, F64.enc_length, List.append_assoc, readPointContent, Bool.and_true]
    rw [if_pos (by rfl), bind_exact (f64_enc _), bind_exact (f64_enc _), bind_exact (f64_enc _)]
    simp [Dec.pure, Pt.readRawOpt, Pt.default, Dim.hasZ, Dim.hasM]
  · simp only [Dim.hasZ, Dim.hasM, Bool.false_eq_true, if_false, if_true, List.append_nil,
      List.length_append, F64.enc_length, List.append_assoc, readPointContent, Bool.and_false]
    rw [if_pos (by rfl), bind_exact (f64_enc _), bind_exact (f64_enc _), bind_exact (f64_enc _)]
    simp [Dec.pure, Pt.readRawOpt, Pt.default, Dim.hasZ, Dim.hasM]
  · simp only [Dim.hasZ, Dim.hasM, if_true, List.append_nil,
      List.length_append, F64.enc_length, List.append_assoc, readPointContent, Bool.and_true]
    rw [if_neg (by decide), if_pos (by rfl), bind_exact (f64_enc _), bind_exact (f64_enc _), bind_exact (f64_enc _),
      bind_exact (f64_enc _)]
    simp [Dec.pure, Pt.readRawOpt, Dim.hasZ, Dim.hasM]

/-- single points: Point, PointM, PointZ with or without its measure -/
theorem spec_read_point (o : Orient) (t : Nat) (r : Rec) (hwf : r.WF t) (rest : Bytes)
    (hcode : r.typeCode ∈ [1, 21, 11]) :
    readOneShape o .generic (Spec.encRecord r ++ rest) =
      .ok ((((encContent r).length / 2 : Nat) : Int), r.expected o) rest := by
  have hshape := hwf.shape
  simp only [List.mem_cons, List.mem_nil_iff, or_false] at hcode
  have key : ∀ (hasZ hasM : Bool) (mt : ShapeType) (v : V), typeInfo r.typeCode = some (hasZ, hasM, 1) →
      r.parts = [[v]] → (hasZ = true → hasM = true) → mt.code = r.typeCode → mt ≠ .nullShape →
      (∀ rs bs, readContentOf o mt rs bs = readPointContent (dimOf hasZ hasM) rs bs) →
      readOneShape o .generic (Spec.encRecord r ++ rest) =
        .ok ((((encContent r).length / 2 : Nat) : Int),
          Shape.point (dimOf hasZ hasM) (v.toPt.readRawOpt (dimOf hasZ hasM) (r.mPresent || !hasZ))) rest := by
    intro hasZ hasM mt v hi hp hzm hmc hmt hrd
    have hc : encContent r = encI32LE mt.code ++
        (v.toPt.x.enc ++ v.toPt.y.enc ++ (if (dimOf hasZ hasM).hasZ then v.toPt.z.enc else []) ++
          (if (dimOf hasZ hasM).hasM && (r.mPresent || !hasZ) then v.toPt.m.enc else [])) := by
      unfold encContent
      rw [hi, hmc]
      simp only [hp, List.flatten_cons, List.flatten_nil, List.append_nil, wrI32LE_eq, wrF64_eq, V.toPt]
      cases hasZ <;> cases hasM <;> simp [dimOf, Dim.hasZ, Dim.hasM] at hzm ⊢
    have hm : dimOf hasZ hasM = .xyzm ∨ (r.mPresent || !hasZ) = true := by
      cases hasZ <;> simp [dimOf]
    have hrd' := readPointContent_opt (dimOf hasZ hasM) (r.mPresent || !hasZ) v.toPt rest hm
    refine spec_frame o r mt _ rest _ hc hwf.number ?_ ?_ (fun _ => by rw [hrd]; exact hrd') (fun h => absurd h hmt)
    · cases hasZ <;> cases hasM <;> cases r.mPresent <;> simp [dimOf, Dim.hasZ, Dim.hasM]
    · cases hasZ <;> cases hasM <;> cases r.mPresent <;> simp [dimOf, Dim.hasZ, Dim.hasM]
  rcases hcode with h | h | h
  · rw [h] at hshape; simp only [typeInfo] at hshape
    obtain ⟨v, hp⟩ := hshape
    have := key false false .point v (by rw [h]; rfl) hp (by simp) (by rw [h]; rfl) (by decide) (fun _ _ => rfl)
    simpa [Rec.expected, h, typeInfo, dimOf, Rec.pparts, hp] using this
  · rw [h] at hshape; simp only [typeInfo] at hshape
    obtain ⟨v, hp⟩ := hshape
    have := key false true .pointM v (by rw [h]; rfl) hp (by simp) (by rw [h]; rfl) (by decide) (fun _ _ => rfl)
    simpa [Rec.expected, h, typeInfo, dimOf, Rec.pparts, hp] using this
  · rw [h] at hshape; simp only [typeInfo] at hshape
    obtain ⟨v, hp⟩ := hshape
    have := key true true .pointZ v (by rw [h]; rfl) hp (by simp) (by rw [h]; rfl) (by decide) (fun _ _ => rfl)
    simpa [Rec.expected, h, typeInfo, dimOf, Rec.pparts, hp] using this

/-- MAIN (record level): every record the whitepaper encoder can emit for a file of type `t` is
decoded by the reader to `expected`, consuming exactly its bytes -/
theorem spec_read_record (o : Orient) (t : Nat) (r : Rec) (hwf : r.WF t) (rest : Bytes) :
    readOneShape o .generic (Spec.encRecord r ++ rest) =
      .ok ((((encContent r).length / 2 : Nat) : Int), r.expected o) rest := by
  have hinfo := hwf.info
  have : r.typeCode ∈ [0, 1, 3, 5, 8, 11, 13, 15, 18, 21, 23, 25, 28, 31] := by
    unfold typeInfo at hinfo
    split at hinfo <;> simp_all
  simp only [List.mem_cons, List.mem_nil_iff, or_false] at this
  rcases this with h | h | h | h | h | h | h | h | h | h | h | h | h | h
  · exact spec_read_null o t r hwf rest h
  · exact spec_read_point o t r hwf rest (by simp [h])
  · exact spec_read_multipart o t r hwf rest (by simp [h])
  · exact spec_read_multipart o t r hwf rest (by simp [h])
  · exact spec_read_multipoint o t r hwf rest (by simp [h])
  · exact spec_read_point o t r hwf rest (by simp [h])
  · exact spec_read_multipart o t r hwf rest (by simp [h])
  · exact spec_read_multipart o t r hwf rest (by simp [h])
  · exact spec_read_multipoint o t r hwf rest (by simp [h])
  · exact spec_read_point o t r hwf rest (by simp [h])
  · exact spec_read_multipart o t r hwf rest (by simp [h])
  · exact spec_read_multipart o t r hwf rest (by simp [h])
  · exact spec_read_multipoint o t r hwf rest (by simp [h])
  · exact spec_read_multipatch o t r hwf rest h

end Shp

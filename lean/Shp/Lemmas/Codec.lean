/- Round trips of the number codecs and of the repetition combinators. -/
import Shp.Lemmas.Post
import Shp.Lemmas.Length
namespace Shp
open Dec

theorem i32LE_enc (i : Int) (h : InI32 i) (rest : Bytes) : i32LE (encI32LE i ++ rest) = .ok i rest := by
  simp only [Dec.i32LE, Dec.u32LE, encI32LE, encU32LE, List.cons_append, List.nil_append, Res.map]
  rw [decU32LE_enc _ (ofI32_lt i), toI32_ofI32 h]

theorem i32BE_enc (i : Int) (h : InI32 i) (rest : Bytes) : i32BE (encI32BE i ++ rest) = .ok i rest := by
  simp only [Dec.i32BE, Dec.u32BE, encI32BE, encU32BE, List.cons_append, List.nil_append, Res.map, decU32BE]
  rw [decU32LE_enc _ (ofI32_lt i), toI32_ofI32 h]

theorem f64_enc (a : F64) (rest : Bytes) : f64 (a.enc ++ rest) = .ok a rest := by
  simp only [Dec.f64, F64.enc, encU64LE, List.cons_append, List.nil_append, F64.dec]
  rw [decU64LE_enc _ a.bits.toNat_lt, F64.ofNat_toNat]

theorem take_append (a rest : Bytes) : take a.length (a ++ rest) = .ok a rest := by
  unfold Dec.take
  simp

/-- `bind` over an exact first step -/
theorem bind_exact {α β : Type} {d : Dec α} {f : α → Dec β} {e rest : Bytes} {a : α}
    (h : ∀ r, d (e ++ r) = .ok a r) : Dec.bind d f (e ++ rest) = f a rest := by
  unfold Dec.bind; rw [h]

/-- `repeatN` inverts `flatMap` of an encoder that the element decoder inverts -/
theorem repeatN_exact {α : Type} (d : Dec α) (enc : α → Bytes) (l : List α)
    (h : ∀ a ∈ l, ∀ r, d (enc a ++ r) = .ok a r) (rest : Bytes) :
    repeatN l.length d (l.flatMap enc ++ rest) = .ok l rest := by
  induction l with
  | nil => rfl
  | cons a as ih =>
    simp only [List.length_cons, Dec.repeatN, List.flatMap_cons, List.append_assoc]
    rw [bind_exact (h a List.mem_cons_self)]
    rw [bind_of_ok (ih fun x hx => h x (List.mem_cons_of_mem _ hx))]
    rfl

/-- variant where the decoded value is a function of the encoded one -/
theorem repeatN_exact_map {α β : Type} (d : Dec β) (enc : α → Bytes) (g : α → β) (l : List α)
    (h : ∀ a r, d (enc a ++ r) = .ok (g a) r) (rest : Bytes) :
    repeatN l.length d (l.flatMap enc ++ rest) = .ok (l.map g) rest := by
  induction l with
  | nil => rfl
  | cons a as ih =>
    simp only [List.length_cons, Dec.repeatN, List.flatMap_cons, List.append_assoc, List.map_cons]
    rw [bind_exact (h a), bind_of_ok ih]
    rfl

/-- `mapM'` over a list of partially built values, consuming the encoding of the originals -/
theorem mapM'_exact_map {α β γ : Type} (f : β → Dec γ) (hh : α → β) (enc : α → Bytes) (g : α → γ) (l : List α)
    (h : ∀ a r, f (hh a) (enc a ++ r) = .ok (g a) r) (rest : Bytes) :
    mapM' f (l.map hh) (l.flatMap enc ++ rest) = .ok (l.map g) rest := by
  induction l with
  | nil => rfl
  | cons a as ih =>
    simp only [List.map_cons, Dec.mapM', List.flatMap_cons, List.append_assoc]
    rw [bind_exact (h a), bind_of_ok ih]
    rfl

end Shp

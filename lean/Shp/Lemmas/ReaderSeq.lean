/- Sequential (index-less) reading: records are consumed one after the other up to the length the
header declares; bytes past it are ignored. -/
import Shp.Lemmas.FileRead
namespace Shp

/-- from byte `p` on, `data` holds exactly the records `shapes`, back to back, and the declared
length `flen` ends right after the last one (any bytes beyond `flen` are not looked at) -/
def SeqRecords (o : Orient) (tg : Target) (data : Bytes) (flen : Nat) : Nat → List Shape → Prop
  | p, [] => flen ≤ p
  | p, s :: ss => p < flen ∧ ∃ (w : Int) (rest : Bytes),
      readOneShape o tg (data.drop p) = .ok (w, s) rest ∧ 0 ≤ w ∧
      p + 8 + (2 * w).toNat + rest.length = data.length ∧
      SeqRecords o tg data flen (p + 8 + (2 * w).toNat) ss

structure SInv (o : Orient) (tg : Target) (shapes : List Shape) (st : RState) : Prop where
  noIndex : st.index = none
  pos : st.currentPos = some st.srcPos
  flen : 0 ≤ st.header.fileLength
  recs : SeqRecords o tg st.data (2 * st.header.fileLength).toNat st.srcPos shapes

theorem SInv.iterNext_cons {o : Orient} {tg : Target} {s : Shape} {ss : List Shape} {st : RState}
    (h : SInv o tg (s :: ss) st) : ∃ st', st.iterNext o tg = (st', .shape s) ∧ SInv o tg ss st' := by
  obtain ⟨hlt, w, rest, hread, hw, hcons, hrest⟩ := h.recs
  have hidx := h.noIndex
  have hpos := h.pos
  have hfl := h.flen
  obtain ⟨data, srcPos, header, index, currentPos, nextShape⟩ := st
  simp only at hidx hpos hfl hlt hread hcons hrest ⊢
  subst hidx hpos
  unfold RState.iterNext
  simp only []
  have hwb : wordsToBytes header.fileLength = some (2 * header.fileLength) := by
    unfold wordsToBytes; rw [if_neg (by omega)]
  rw [hwb]
  simp only [Option.getD_some]
  rw [if_neg (by omega)]
  unfold RState.readHere
  simp only [hread]
  refine ⟨_, rfl, ⟨rfl, ?_, hfl, ?_⟩⟩
  · simp only [Option.map_some, Const.recordHeaderSize, Option.some.injEq]; omega
  · simp only
    have : data.length - rest.length = srcPos + 8 + (2 * w).toNat := by omega
    rw [this]; exact hrest

theorem SInv.iterNext_nil {o : Orient} {tg : Target} {st : RState} (h : SInv o tg [] st) :
    st.iterNext o tg = (st, .none) := by
  have hle : (2 * st.header.fileLength).toNat ≤ st.srcPos := h.recs
  have hidx := h.noIndex
  have hpos := h.pos
  have hfl := h.flen
  unfold RState.iterNext
  rw [hidx]
  simp only []
  have hwb : wordsToBytes st.header.fileLength = some (2 * st.header.fileLength) := by
    unfold wordsToBytes; rw [if_neg (by omega)]
  rw [hwb, hpos]
  simp only [Option.getD_some]
  rw [if_pos hle]

theorem SInv.iterAll {o : Orient} {tg : Target} (fuel : Nat) {shapes : List Shape} {st : RState}
    (h : SInv o tg shapes st) :
    ∃ st', st.iterAll o tg fuel = (st', (shapes.take fuel).map ROut.shape) ∧ SInv o tg (shapes.drop fuel) st' := by
  induction fuel generalizing shapes st with
  | zero => exact ⟨st, by simp [RState.iterAll], by simpa using h⟩
  | succ fuel ih =>
    cases shapes with
    | nil =>
      refine ⟨st, ?_, by simpa using h⟩
      unfold RState.iterAll
      rw [h.iterNext_nil]
      rfl
    | cons s ss =>
      obtain ⟨st1, hnext, hinv1⟩ := h.iterNext_cons
      obtain ⟨st2, hall, hinv2⟩ := ih hinv1
      refine ⟨st2, ?_, by simpa using hinv2⟩
      unfold RState.iterAll
      rw [hnext]
      simp only [hall, List.take_succ_cons, List.map_cons]

/-- the records the writer lays out after the header are sequentially readable -/
theorem seqRecords_records (o : Orient) (tg : Target) (t : ShapeType) (ss : List Shape) (pre extra : Bytes) (k : Nat)
    (hsz : ∀ s ∈ ss, s.Sized) (hnn : ∀ s ∈ ss, s ≠ .null) (hty : ∀ s ∈ ss, s.writeType = t)
    (hacc : ∀ s ∈ ss, tg.Accepts s.writeType) (hk : k + ss.length < 2147483648) :
    SeqRecords o tg (pre ++ (recordsFrom t k ss ++ extra)) (pre.length + (recordsFrom t k ss).length) pre.length
      (ss.map (Shape.readBack o)) := by
  induction ss generalizing pre k with
  | nil => simp [SeqRecords, recordsFrom]
  | cons s ss ih =>
    have hs := hsz s List.mem_cons_self
    have hts : s.writeType = t := hty s List.mem_cons_self
    have hrec := readOneShape_encRecord o tg (k : Int) s (recordsFrom t (k + 1) ss ++ extra)
      (by unfold InI32; simp only [List.length_cons] at hk; omega) hs (hnn s List.mem_cons_self)
      (hacc s List.mem_cons_self)
    rw [hts] at hrec
    have ih' := ih (pre ++ encRecord k t s) (k + 1)
      (fun x hx => hsz x (List.mem_cons_of_mem _ hx)) (fun x hx => hnn x (List.mem_cons_of_mem _ hx))
      (fun x hx => hty x (List.mem_cons_of_mem _ hx)) (fun x hx => hacc x (List.mem_cons_of_mem _ hx))
      (by simp only [List.length_cons] at hk; omega)
    simp only [List.map_cons, SeqRecords, recordsFrom, List.length_append, C18.encRecord_length]
    refine ⟨by omega, (recordSizeWords s : Int), recordsFrom t (k + 1) ss ++ extra, ?_, by omega, ?_, ?_⟩
    · rw [List.drop_left, List.append_assoc]; exact hrec
    · simp only [List.length_append, C18.encRecord_length]; omega
    · simp only [List.length_append, C18.encRecord_length, List.append_assoc] at ih'
      have e1 : pre.length + 8 + (2 * (recordSizeWords s : Int)).toNat = pre.length + (8 + 2 * recordSizeWords s) := by omega
      have e2 : pre.length + (8 + 2 * recordSizeWords s + (recordsFrom t (k + 1) ss).length) =
          pre.length + (8 + 2 * recordSizeWords s) + (recordsFrom t (k + 1) ss).length := by omega
      rw [e1, e2, List.append_assoc]
      exact ih'

/-- opening the written `.shp` alone (followed by any bytes the header does not cover) -/
theorem open_written_noindex (o : Orient) (tg : Target) (ss : List Shape) (h : FileOK tg ss) (extra : Bytes) :
    ∃ st, RState.open (shpFile ss ++ extra) none = .ok st ∧ SInv o tg (ss.map (Shape.readBack o)) st ∧
      st.header = finalHeader ss := by
  have hh := finalHeader_inI32 ss h.total
  have hhdr := readHeader_enc (finalHeader ss) hh.1 hh.2 (recordsFrom (fileTypeOf ss) 1 ss ++ extra)
  unfold RState.open
  simp only []
  have : readHeader (shpFile ss ++ extra) = .ok (finalHeader ss) (recordsFrom (fileTypeOf ss) 1 ss ++ extra) := by
    unfold shpFile; rw [List.append_assoc]; exact hhdr
  rw [this]
  have hl := length_le_totalWords ss
  have htot := h.total
  have hseq := seqRecords_records o tg (fileTypeOf ss) ss (finalHeader ss).enc extra 1
    h.sized h.nonnull h.types h.accepts (by omega)
  refine ⟨_, rfl, ⟨rfl, ?_, ?_, ?_⟩, rfl⟩
  · simp only [shpFile, List.length_append, Header.enc_length, Const.headerSize, Option.some.injEq]
    omega
  · simp only [finalHeader]; omega
  · simp only [shpFile, List.length_append, Header.enc_length, finalHeader, List.append_assoc] at hseq ⊢
    rw [recordsFrom_length] at hseq
    have e1 : (2 * (50 + (totalWords ss : Int))).toNat = 100 + 2 * totalWords ss := by omega
    have e2 : 100 + ((recordsFrom (fileTypeOf ss) 1 ss).length + extra.length) -
        ((recordsFrom (fileTypeOf ss) 1 ss).length + extra.length) = 100 := by omega
    rw [e1, e2]
    exact hseq

end Shp

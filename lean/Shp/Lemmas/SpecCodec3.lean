/- File level of the whitepaper codec round trip. -/
import Shp.Lemmas.SpecCodec2
namespace Shp.Spec

@[simp] theorem len_f64s (l : List Nat) : (l.flatMap wrF64).length = 8 * l.length := flatMap_len _ 8 (fun _ => rfl) l
@[simp] theorem len_col (f : V → Nat) (vs : List V) : (vs.flatMap fun v => wrF64 (f v)).length = 8 * vs.length :=
  flatMap_len _ 8 (fun _ => rfl) vs
@[simp] theorem len_xy (vs : List V) : (vs.flatMap fun v => wrF64 v.x ++ wrF64 v.y).length = 16 * vs.length :=
  flatMap_len _ 16 (fun _ => rfl) vs
@[simp] theorem len_ints (l : List Nat) : (l.flatMap fun (o : Nat) => wrI32LE (o : Int)).length = 4 * l.length :=
  flatMap_len _ 4 (fun _ => rfl) l

theorem encVerts_len (hasZ hasM mp : Bool) (r : Rec) : (encVerts hasZ hasM mp r).length % 4 = 0 := by
  unfold encVerts
  cases hasZ <;> cases hasM <;> cases mp <;>
    simp only [Bool.false_eq_true, if_false, if_true, Bool.and_true, Bool.and_false, Bool.and_self, List.length_append,
      len_xy, len_col, wrF64_length, List.length_nil] <;> omega

theorem encContent_len (r : Rec) (h : (typeInfo r.typeCode).isSome) :
    (encContent r).length % 2 = 0 ∧ 4 ≤ (encContent r).length := by
  unfold encContent
  rcases hi : typeInfo r.typeCode with _ | ⟨hasZ, hasM, fam⟩
  · rw [hi] at h; exact absurd h (by simp)
  · simp only
    have hv := encVerts_len hasZ hasM r.mPresent r
    match fam with
    | 0 => simp
    | 1 =>
      simp only
      split
      · cases hasZ <;> cases hasM <;> cases r.mPresent <;> simp
      · simp
    | 2 => simp only [List.length_append, wrI32LE_length, len_f64s]; omega
    | 3 => simp only [List.length_append, wrI32LE_length, len_f64s, len_ints]; omega
    | 4 => simp only [List.length_append, wrI32LE_length, len_f64s, len_ints]; omega
    | 5 => simp only [List.length_append, wrI32LE_length, len_f64s, len_ints]; omega
    | n + 6 => simp only [List.length_append, wrI32LE_length, len_f64s, len_ints]; omega

/-- record numbers k, k+1, … -/
def Numbered : Nat → List Rec → Prop
  | _, [] => True
  | k, r :: rs => r.number = (k : Int) ∧ Numbered (k + 1) rs

theorem encRecord_length (r : Rec) : (encRecord r).length = 8 + (encContent r).length := by
  simp [encRecord]; omega

theorem strict_typeInfo (t : Nat) (r : Rec) (h : r.Strict t) : (typeInfo r.typeCode).isSome := by
  have := h.2.2
  cases hi : typeInfo r.typeCode with
  | none => rw [hi] at this; exact this.elim
  | some _ => rfl

theorem decRecords_enc (t : Nat) (recs : List Rec) (fuel k : Nat) (hf : recs.length ≤ fuel)
    (hs : ∀ r ∈ recs, r.Strict t) (hn : Numbered k recs)
    (hlen : (recs.flatMap encRecord).length < 4294967296) :
    decRecords t fuel k (recs.flatMap encRecord) = some (recs.map Rec.canon) := by
  induction recs generalizing fuel k with
  | nil => cases fuel <;> simp [decRecords]
  | cons r rs ih =>
    match fuel, hf with
    | f + 1, hf =>
      have hsr := hs r List.mem_cons_self
      obtain ⟨hev, h4⟩ := encContent_len r (strict_typeInfo t r hsr)
      simp only [List.flatMap_cons, List.length_append, encRecord_length] at hlen
      have hne : (encRecord r ++ rs.flatMap encRecord).isEmpty = false := by
        cases hx : encRecord r ++ rs.flatMap encRecord with
        | nil => have := congrArg List.length hx; simp [encRecord_length] at this
        | cons _ _ => rfl
      simp only [List.flatMap_cons, decRecords, hne, Bool.false_eq_true, if_false]
      have he : encRecord r ++ rs.flatMap encRecord = wrI32BE r.number ++
          (wrI32BE (((encContent r).length : Int) / 2) ++ (encContent r ++ rs.flatMap encRecord)) := by
        simp [encRecord]
      rw [he]
      rw [rdI32BE_wr _ hsr.1]
      simp only [Option.bind_eq_bind, Option.bind_some, Option.pure_def]
      rw [rdI32BE_wr _ (by unfold InI32; omega)]
      simp only [Option.bind_some]
      have h1 : ¬ (r.number ≠ (k : Int)) := by simp [hn.1]
      have h2 : ¬ (((encContent r).length : Int) / 2 < 2) := by omega
      have h3 : 2 * (((encContent r).length : Int) / 2).toNat = (encContent r).length := by omega
      simp only [h1, if_false, h2, h3, List.length_append, List.take_left, List.drop_left]
      rw [if_neg (by omega)]
      rw [decContent_enc t r hsr]
      simp only [Option.bind_some]
      rw [ih f (k + 1) (by simpa using hf) (fun x hx => hs x (List.mem_cons_of_mem _ hx)) hn.2 (by omega)]
      simp

/-- a file the whitepaper allows and this library's writer can produce -/
def File.Strict (f : File) : Prop :=
  f.trailing = [] ∧ (typeInfo f.typeCode).isSome ∧ f.box.length = 8 ∧ (∀ b ∈ f.box, Ok64 b) ∧
  (∀ r ∈ f.records, r.Strict f.typeCode) ∧ Numbered 1 f.records ∧
  100 + (f.records.flatMap encRecord).length < 4294967296

def File.canon (f : File) : File := { f with records := f.records.map Rec.canon, trailing := [] }

theorem body_even (t : Nat) (recs : List Rec) (hs : ∀ r ∈ recs, r.Strict t) :
    (recs.flatMap encRecord).length % 2 = 0 ∧ recs.length ≤ (recs.flatMap encRecord).length := by
  induction recs with
  | nil => simp
  | cons r rs ih =>
    have := ih (fun x hx => hs x (List.mem_cons_of_mem _ hx))
    have h2 := encContent_len r (strict_typeInfo t r (hs r List.mem_cons_self))
    simp only [List.flatMap_cons, List.length_append, encRecord_length, List.length_cons]
    omega

theorem rd_zeros (r : Bytes) : rdMany rdI32BE 5 (List.replicate 20 0 ++ r) = some ([0, 0, 0, 0, 0], r) := by
  simp [rdMany, rdI32BE, rdU32BE, List.replicate, asI32]

/-- MAIN (codec): the strict whitepaper decoder inverts the whitepaper encoder -/
theorem decodeFile_encodeFile (f : File) (h : f.Strict) : decodeFile (encodeFile f) = some f.canon := by
  obtain ⟨htr, hti, hbl, hbo, hrs, hnum, hlen⟩ := h
  obtain ⟨hev, hcnt⟩ := body_even f.typeCode f.records hrs
  rcases hi : typeInfo f.typeCode with _ | ⟨hasZ, hasM, fam⟩
  · rw [hi] at hti; exact absurd hti (by simp)
  have hc31 := (typeInfo_facts _ _ _ _ hi).1
  have htot : (encodeFile f).length = 100 + (f.records.flatMap encRecord).length := by
    simp only [encodeFile, encHeader, htr, List.length_append, wrI32BE_length, wrI32LE_length,
      List.length_replicate, len_f64s, hbl, List.length_nil]; omega
  unfold decodeFile
  rw [htot]
  unfold encodeFile encHeader
  simp only [htr, List.append_nil, List.append_assoc]
  rw [rdI32BE_wr _ (by unfold InI32; omega)]
  simp only [Option.bind_eq_bind, Option.bind_some, Option.pure_def]
  rw [rd_zeros]
  simp only [Option.bind_some]
  rw [rdI32BE_wr _ (by unfold InI32; omega)]
  simp only [Option.bind_some]
  rw [rdI32LE_wr _ (by unfold InI32; omega)]
  simp only [Option.bind_some]
  rw [rdI32LE_wr _ (by unfold InI32; omega)]
  simp only [Option.bind_some]
  rw [rd_box f.box 8 hbl hbo]
  simp only [Option.bind_some]
  have h1 : ¬ ((9994 : Int) ≠ 9994) := by decide
  have h2 : ([0, 0, 0, 0, 0] : List Int).any (· ≠ 0) = false := by decide
  have h3 : ¬ ((((100 + (f.records.flatMap encRecord).length) / 2 : Nat) : Int) < 0 ∨
      2 * ((((100 + (f.records.flatMap encRecord).length) / 2 : Nat) : Int)).toNat ≠
        100 + (f.records.flatMap encRecord).length) := by
    rw [Int.toNat_natCast]; omega
  have h4 : ¬ ((1000 : Int) ≠ 1000) := by decide
  have h5 : ¬ ((f.typeCode : Int) < 0) := by omega
  rw [if_neg h1, h2]
  simp only [Bool.false_eq_true, if_false]
  rw [if_neg h3, if_neg h4, if_neg h5]
  simp only [Int.toNat_natCast, hi, Option.bind_some]
  rw [decRecords_enc f.typeCode f.records _ 1 (by omega) hrs hnum (by omega)]
  simp [File.canon]

end Shp.Spec

/-
Sequential reading (no index) of ANY file whose records lie back to back behind the header — a
spec-conformant file of C03, not only one this library wrote — cut at any length: the records wholly
inside the retained bytes, then the I/O error for the cut record, then the end.
-/
import Shp.Lemmas.ReaderSeq
import Shp.Lemmas.Local
import Shp.Lemmas.Shrinks
namespace Shp

/-- the state of a reader without index positioned at byte `p` of the cut file -/
structure TSeq (o : Orient) (tg : Target) (data : Bytes) (t : Nat) (st : RState) (p : Nat) : Prop where
  data : st.data = data.take t
  noIndex : st.index = none
  pos : st.currentPos = some p
  src : st.srcPos = p
  flen : 0 ≤ st.header.fileLength

theorem drop_split (data : Bytes) (p t : Nat) (hp : p ≤ t) (ht : t ≤ data.length) :
    data.drop p = (data.take t).drop p ++ data.drop t := by
  have : data = data.take t ++ data.drop t := (List.take_append_drop t data).symm
  conv => lhs; rw [this]
  rw [List.drop_append_of_le_length (by rw [List.length_take]; omega)]

/-- after a failed read the reader without index ends -/
theorem iterAll_after_error (o : Orient) (tg : Target) (st : RState) (hi : st.index = none)
    (hc : st.currentPos = none) (fuel : Nat) : (st.iterAll o tg fuel).2 = [] := by
  cases fuel with
  | zero => rfl
  | succ f =>
    unfold RState.iterAll RState.iterNext
    simp only [hi, hc]

/-- MAIN: what the sequential reader yields on the cut file, record by record -/
theorem truncated_sequential_any (o : Orient) (tg : Target) (data : Bytes) (t : Nat) (ht : t ≤ data.length) :
    ∀ (shapes : List Shape) (p : Nat) (st : RState) (fuel : Nat),
      SeqRecords o tg data (2 * st.header.fileLength).toNat p shapes → TSeq o tg data t st p → p ≤ t →
      t - p + 2 ≤ fuel →
      ∃ k, k ≤ shapes.length ∧
        (st.iterAll o tg fuel).2 = (shapes.take k).map ROut.shape ++ (if k < shapes.length then [ROut.err .io] else []) := by
  intro shapes
  induction shapes with
  | nil =>
    intro p st fuel hrec hst hpt hf
    refine ⟨0, Nat.le_refl _, ?_⟩
    have hle : (2 * st.header.fileLength).toNat ≤ p := hrec
    cases fuel with
    | zero => omega
    | succ f =>
      unfold RState.iterAll RState.iterNext
      have hwb : wordsToBytes st.header.fileLength = some (2 * st.header.fileLength) := by
        unfold wordsToBytes; rw [if_neg (by have := hst.flen; omega)]
      simp only [hst.noIndex, hwb, hst.pos, Option.getD_some]
      rw [if_pos hle]
      rfl
  | cons s ss ih =>
    intro p st fuel hrec hst hpt hf
    obtain ⟨hlt, w, rest, hread, hw, hcons, hrest⟩ := hrec
    cases fuel with
    | zero => omega
    | succ f =>
      have hwb : wordsToBytes st.header.fileLength = some (2 * st.header.fileLength) := by
        unfold wordsToBytes; rw [if_neg (by have := hst.flen; omega)]
      rw [drop_split data p t hpt ht] at hread
      by_cases hend : p + 8 + (2 * w).toNat ≤ t
      · -- the record lies wholly inside the retained bytes
        obtain ⟨r', hr', hb⟩ := (readOneShape_local o tg).2 _ _ _ _ hread (by
          simp only [List.length_drop]; omega)
        have hlr := congrArg List.length hr'
        simp only [List.length_append, List.length_drop] at hlr
        let st1 : RState := ⟨st.data, st.data.length - r'.length, st.header, st.index,
          st.currentPos.map (fun q => q + Const.recordHeaderSize + (2 * w).toNat), st.nextShape⟩
        have hnext : st.iterNext o tg = (st1, .shape s) := by
          unfold RState.iterNext
          simp only [hst.noIndex, hwb, hst.pos, Option.getD_some]
          rw [if_neg (by omega)]
          unfold RState.readHere
          simp only [hst.data, hst.src, hb]
          simp [st1, hst.data]
        have hlen1 : st.data.length - r'.length = p + 8 + (2 * w).toNat := by
          rw [hst.data, List.length_take]; omega
        have hst1 : TSeq o tg data t st1 (p + 8 + (2 * w).toNat) :=
          ⟨hst.data, hst.noIndex, by simp [st1, hst.pos, Const.recordHeaderSize], hlen1, hst.flen⟩
        obtain ⟨k, hk, hall⟩ := ih (p + 8 + (2 * w).toNat) st1 f hrest hst1 hend (by omega)
        refine ⟨k + 1, by simp; omega, ?_⟩
        unfold RState.iterAll
        rw [hnext]
        simp only [List.take_succ_cons, List.map_cons, List.cons_append, List.length_cons]
        rw [hall]
        have : (k + 1 < ss.length + 1) = (k < ss.length) := by simp
        simp only [this]
      · -- the record is cut: I/O error, and the iteration ends
        refine ⟨0, Nat.zero_le _, ?_⟩
        have hio : readOneShape o tg ((data.take t).drop p) = .err .io := by
          rcases readOneShape_stable o tg ((data.take t).drop p) (data.drop t) with h | h
          · exact h
          · rw [hread] at h
            cases hb : readOneShape o tg ((data.take t).drop p) with
            | ok a r' =>
              rw [hb] at h
              simp only [Res.extend, Res.ok.injEq] at h
              have hl := congrArg List.length h.2
              have h12 := readOneShape_c12 o tg _ _ _ hb
              simp only [List.length_append, List.length_drop, List.length_take] at hl h12
              omega
            | err e => rw [hb] at h; simp [Res.extend] at h
            | panic x => rw [hb] at h; simp [Res.extend] at h
        let st1 : RState := ⟨st.data, st.srcPos, st.header, st.index, none, st.nextShape⟩
        have hnext : st.iterNext o tg = (st1, .err .io) := by
          unfold RState.iterNext
          simp only [hst.noIndex, hwb, hst.pos, Option.getD_some]
          rw [if_neg (by omega)]
          unfold RState.readHere
          simp only [hst.data, hst.src, hio]
          simp [st1, hst.data, hst.src]
        unfold RState.iterAll
        rw [hnext]
        simp only [List.take_zero, List.map_nil, List.nil_append, List.length_cons, Nat.zero_lt_succ, if_true]
        have := iterAll_after_error o tg st1 hst.noIndex rfl f
        cases hx : st1.iterAll o tg f with
        | mk a b => rw [hx] at this; simp only at this; simp [this]

end Shp

/-
Failing and crashing destinations: whatever a fault plan does, what a destination holds afterwards
is the result of a PREFIX of the operations issued to it, the last one possibly cut (a write that
delivered only its first bytes).
-/
import Shp.Lemmas.History
namespace Shp

/-- the destination after the first `k` operations of `ops`, plus the first `cut` bytes of
operation `k` when that is a write -/
def Dst.applyPrefix (d : Dst) (ops : List IOOp) (k cut : Nat) : Dst :=
  let d' := (ops.take k).foldl Dst.apply d
  match ops[k]? with
  | some (.write bs) => d'.apply (.write (bs.take cut))
  | _ => d'

/-- a write of zero bytes changes nothing but (possibly) padding: never issued by the writer -/
theorem Dst.apply_write_nil (d : Dst) (h : d.pos ≤ d.data.length) : d.apply (.write []) = d := by
  cases d with | mk data pos =>
  simp only at h
  simp [Dst.apply, writeAt, zeros, Nat.sub_eq_zero_of_le h]

/-- one faulty step is a full step, or a cut write, and says so -/
theorem Dst.applyFaulty_ok (d : Dst) (f : Fault) (persistent : Bool) (op : IOOp)
    (h : (d.applyFaulty f persistent op).2.2 = false) : (d.applyFaulty f persistent op).1 = d.apply op := by
  cases op with
  | write bs =>
    cases f with
    | writeAfter n =>
      simp only [Dst.applyFaulty] at h ⊢
      split
      · rfl
      · rename_i hc; rw [if_neg hc] at h; cases h
    | none => rfl
    | seekAt k => rfl
    | flushAt k => rfl
  | flush =>
    cases f with
    | flushAt k =>
      cases k with
      | zero => simp [Dst.applyFaulty] at h
      | succ k => rfl
    | none => rfl
    | seekAt k => rfl
    | writeAfter k => rfl
  | seekStart n =>
    cases f with
    | seekAt k =>
      cases k with
      | zero => simp [Dst.applyFaulty] at h
      | succ k => rfl
    | none => rfl
    | flushAt k => rfl
    | writeAfter k => rfl
  | seekEnd =>
    cases f with
    | seekAt k =>
      cases k with
      | zero => simp [Dst.applyFaulty] at h
      | succ k => rfl
    | none => rfl
    | flushAt k => rfl
    | writeAfter k => rfl

theorem Dst.applyFaulty_failed (d : Dst) (f : Fault) (persistent : Bool) (op : IOOp)
    (h : (d.applyFaulty f persistent op).2.2 = true) :
    ((∀ bs, op ≠ .write bs) ∧ (d.applyFaulty f persistent op).1 = d) ∨
      ∃ bs n, op = .write bs ∧ (d.applyFaulty f persistent op).1 = d.apply (.write (bs.take n)) := by
  cases op with
  | write bs =>
    cases f with
    | writeAfter n =>
      simp only [Dst.applyFaulty] at h ⊢
      split
      · rename_i hc; rw [if_pos hc] at h; cases h
      · exact Or.inr ⟨bs, n, rfl, rfl⟩
    | none => simp [Dst.applyFaulty] at h
    | seekAt k => simp [Dst.applyFaulty] at h
    | flushAt k => simp [Dst.applyFaulty] at h
  | flush =>
    cases f with
    | flushAt k =>
      cases k with
      | zero => exact Or.inl ⟨fun bs hb => IOOp.noConfusion hb, rfl⟩
      | succ k => simp [Dst.applyFaulty] at h
    | none => simp [Dst.applyFaulty] at h
    | seekAt k => simp [Dst.applyFaulty] at h
    | writeAfter k => simp [Dst.applyFaulty] at h
  | seekStart n =>
    cases f with
    | seekAt k =>
      cases k with
      | zero => exact Or.inl ⟨fun bs hb => IOOp.noConfusion hb, rfl⟩
      | succ k => simp [Dst.applyFaulty] at h
    | none => simp [Dst.applyFaulty] at h
    | flushAt k => simp [Dst.applyFaulty] at h
    | writeAfter k => simp [Dst.applyFaulty] at h
  | seekEnd =>
    cases f with
    | seekAt k =>
      cases k with
      | zero => exact Or.inl ⟨fun bs hb => IOOp.noConfusion hb, rfl⟩
      | succ k => simp [Dst.applyFaulty] at h
    | none => simp [Dst.applyFaulty] at h
    | flushAt k => simp [Dst.applyFaulty] at h
    | writeAfter k => simp [Dst.applyFaulty] at h

theorem writeAt_inside (data : Bytes) (pos : Nat) (bs : Bytes) (h : pos ≤ data.length) :
    writeAt data pos bs = data.take pos ++ bs ++ data.drop (pos + bs.length) := by
  simp [writeAt, zeros, Nat.sub_eq_zero_of_le h]

theorem take_app3 (x y z : Bytes) : (x ++ y ++ z).take (x.length + y.length) = x ++ y := by
  rw [← List.length_append]; exact List.take_left

theorem drop_app3 (x y z : Bytes) (k : Nat) : (x ++ y ++ z).drop (x.length + y.length + k) = z.drop k := by
  rw [← List.length_append, ← List.drop_drop, List.drop_left]

/-- consecutive writes are one write of the concatenation: a destination that accepts fewer
bytes per call than offered receives identical output (the `write_all` loop) -/
theorem Dst.apply_write_append (d : Dst) (a b : Bytes) (h : d.pos ≤ d.data.length) :
    (d.apply (.write a)).apply (.write b) = d.apply (.write (a ++ b)) := by
  cases d with | mk data pos =>
  simp only at h
  have hl : (data.take pos).length = pos := by simp; omega
  have h1 : pos + a.length ≤ (writeAt data pos a).length := by
    rw [writeAt_inside data pos a h]; simp; omega
  simp only [Dst.apply, Dst.mk.injEq, List.length_append]
  refine ⟨?_, by omega⟩
  rw [writeAt_inside _ _ b h1, writeAt_inside data pos a h, writeAt_inside data pos (a ++ b) h]
  have e1 : (data.take pos ++ a ++ data.drop (pos + a.length)).take (pos + a.length) = data.take pos ++ a := by
    have := take_app3 (data.take pos) a (data.drop (pos + a.length)); rwa [hl] at this
  have e2 : (data.take pos ++ a ++ data.drop (pos + a.length)).drop (pos + a.length + b.length) =
      data.drop (pos + (a ++ b).length) := by
    have := drop_app3 (data.take pos) a (data.drop (pos + a.length)) b.length
    rw [hl] at this
    rw [this, List.drop_drop, List.length_append]
    congr 1; omega
  rw [e1, e2]
  simp only [List.append_assoc]

/-- any chunking of a byte string is delivered as that byte string -/
theorem Dst.apply_chunks (d : Dst) (chunks : List Bytes) (h : d.pos ≤ d.data.length) :
    (chunks.map IOOp.write).foldl Dst.apply d = d.apply (.write chunks.flatten) := by
  induction chunks generalizing d with
  | nil => simp [Dst.apply_write_nil d h]
  | cons c cs ih =>
    simp only [List.map_cons, List.foldl_cons, List.flatten_cons]
    have hpos : (d.apply (.write c)).pos ≤ (d.apply (.write c)).data.length := by
      cases d with | mk data pos =>
      simp only at h
      simp [Dst.apply, writeAt, zeros, Nat.sub_eq_zero_of_le h]
      omega
    rw [ih _ hpos, Dst.apply_write_append d c cs.flatten h]

/-- a fault plan run against ONE destination -/
def Dst.runFaulty (d : Dst) (f : Fault) (p : Bool) : List IOOp → Dst × Fault × Bool
  | [] => (d, f, false)
  | op :: rest =>
    let r := d.applyFaulty f p op
    if r.2.2 then (r.1, r.2.1, true) else r.1.runFaulty r.2.1 p rest

theorem Dst.applyPrefix_nil (d : Dst) (k cut : Nat) : d.applyPrefix [] k cut = d := by
  simp [Dst.applyPrefix]

theorem Dst.applyPrefix_cons_succ (d : Dst) (op : IOOp) (ops : List IOOp) (k cut : Nat) :
    d.applyPrefix (op :: ops) (k + 1) cut = (d.apply op).applyPrefix ops k cut := by
  simp [Dst.applyPrefix]

/-- whatever the fault plan, the destination ends up in the state after a prefix of its operations,
the last one possibly cut; when nothing failed, after all of them -/
theorem Dst.runFaulty_prefix (d : Dst) (f : Fault) (p : Bool) (ops : List IOOp) :
    ∃ k cut, (d.runFaulty f p ops).1 = d.applyPrefix ops k cut ∧
      ((d.runFaulty f p ops).2.2 = false → (d.runFaulty f p ops).1 = ops.foldl Dst.apply d) := by
  induction ops generalizing d f with
  | nil => exact ⟨0, 0, by simp [Dst.runFaulty, Dst.applyPrefix], fun _ => rfl⟩
  | cons op rest ih =>
    simp only [Dst.runFaulty]
    by_cases hf : (d.applyFaulty f p op).2.2 = true
    · rw [if_pos hf]
      simp only
      rcases Dst.applyFaulty_failed d f p op hf with ⟨hnw, h⟩ | ⟨bs, n, hop, h⟩
      · refine ⟨0, 0, ?_, fun hh => by cases hh⟩
        rw [h]
        cases op with
        | write bs => exact absurd rfl (hnw bs)
        | seekStart n => simp [Dst.applyPrefix]
        | seekEnd => simp [Dst.applyPrefix]
        | flush => simp [Dst.applyPrefix]
      · refine ⟨0, n, ?_, fun hh => by cases hh⟩
        rw [h, hop]
        simp [Dst.applyPrefix]
    · have hf' : (d.applyFaulty f p op).2.2 = false := by simpa using hf
      rw [if_neg hf]
      obtain ⟨k, cut, hk, hall⟩ := ih (d.applyFaulty f p op).1 (d.applyFaulty f p op).2.1
      rw [Dst.applyFaulty_ok d f p op hf'] at hk hall ⊢
      exact ⟨k + 1, cut, by rw [hk, Dst.applyPrefix_cons_succ], fun hh => by rw [hall hh]; rfl⟩

end Shp

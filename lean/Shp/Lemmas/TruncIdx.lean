/-
Index-driven iteration over a file in which SOME entries point at decodable records and the others
at something the decoder refuses (a record cut by truncation, garbage): every entry yields exactly
what reading at its offset gives, in index order — the entries are independent of each other.
Generalises `RInv.iterAll` (all entries decodable); used for truncated files in any layout (C13).
-/
import Shp.Lemmas.ReaderIdx
import Shp.Lemmas.Local
namespace Shp

/-- what entry `e` of `data` yields: a shape (the entry points at a decodable record whose declared
length is what the decoder consumed) or the decoder's refusal -/
def EntryOut (o : Orient) (tg : Target) (data : Bytes) (e : IndexEntry) (out : ROut) : Prop :=
  0 ≤ e.offset ∧
  ((∃ s, out = .shape s ∧ RecordAt o tg data e s) ∨
   (∃ err, out = .err err ∧ readOneShape o tg (data.drop (2 * e.offset).toNat) = .err err))

structure TInv (o : Orient) (tg : Target) (outs : List ROut) (st : RState) : Prop where
  idx : ∃ idx, st.index = some idx ∧ idx.length = outs.length ∧
    ∀ (i : Nat) (h1 : i < idx.length) (h2 : i < outs.length), EntryOut o tg st.data idx[i] outs[i]
  truthful : ∀ p, st.currentPos = some p → st.srcPos = p

theorem TInv.iterNext {o : Orient} {tg : Target} {outs : List ROut} {st : RState} (h : TInv o tg outs st)
    (hk : st.nextShape < outs.length) :
    ∃ st', st.iterNext o tg = (st', outs[st.nextShape]) ∧ TInv o tg outs st' ∧
      st'.nextShape = st.nextShape + 1 := by
  obtain ⟨idx, hidx, hlen, hent⟩ := h.idx
  have htruth := h.truthful
  obtain ⟨data, srcPos, header, index, currentPos, nextShape⟩ := st
  simp only at hidx hk hent htruth ⊢
  subst hidx
  have hk' : nextShape < idx.length := by omega
  obtain ⟨hoff, hcase⟩ := hent nextShape hk' hk
  unfold RState.iterNext
  simp only []
  have hget : idx[nextShape]? = some idx[nextShape] := List.getElem?_eq_getElem hk'
  rw [hget]
  simp only []
  have hwb : wordsToBytes idx[nextShape].offset = some (2 * idx[nextShape].offset) := by
    unfold wordsToBytes; rw [if_neg (by omega)]
  rw [hwb]
  simp only []
  have hpos : ∀ st2 : RState, st2.data = data → st2.index = some idx → st2.srcPos = (2 * idx[nextShape].offset).toNat →
      st2.currentPos = some (2 * idx[nextShape].offset).toNat → st2.nextShape = nextShape + 1 →
      ∃ st', st2.readHere o tg = (st', outs[nextShape]) ∧ TInv o tg outs st' ∧
        st'.nextShape = nextShape + 1 := by
    intro st2 hd hi hs hc hn
    unfold RState.readHere
    rw [hd, hs]
    rcases hcase with ⟨s, hout, _, w, rest, hread, hw, hcons⟩ | ⟨err, hout, hread⟩
    · rw [hread, hout]
      refine ⟨_, rfl, ⟨⟨idx, hi, hlen, ?_⟩, ?_⟩, hn⟩
      · intro i h1 h2; simpa [hd] using hent i h1 h2
      · intro p hp
        simp only [hc, Option.map_some, Option.some.injEq] at hp
        simp only [Const.recordHeaderSize] at hp
        simp only
        omega
    · rw [hread, hout]
      refine ⟨_, rfl, ⟨⟨idx, hi, hlen, ?_⟩, ?_⟩, hn⟩
      · intro i h1 h2; simpa [hd] using hent i h1 h2
      · intro p hp; simp at hp
  by_cases hc : currentPos = some (2 * idx[nextShape].offset).toNat
  · rw [if_pos hc]
    exact hpos _ rfl rfl (htruth _ hc) hc rfl
  · rw [if_neg hc]
    exact hpos _ rfl rfl rfl rfl rfl

theorem TInv.iterNext_end {o : Orient} {tg : Target} {outs : List ROut} {st : RState} (h : TInv o tg outs st)
    (hk : outs.length ≤ st.nextShape) : st.iterNext o tg = (st, .none) := by
  obtain ⟨idx, hidx, hlen, _⟩ := h.idx
  unfold RState.iterNext
  rw [hidx]
  simp only []
  have : idx[st.nextShape]? = none := List.getElem?_eq_none (by omega)
  rw [this]

/-- draining the iterator: every entry's own outcome, in index order -/
theorem TInv.iterAll {o : Orient} {tg : Target} {outs : List ROut} (hno : ∀ x ∈ outs, x ≠ ROut.none)
    (fuel : Nat) {st : RState} (h : TInv o tg outs st) :
    ∃ st', st.iterAll o tg fuel = (st', (outs.drop st.nextShape).take fuel) ∧
      TInv o tg outs st' ∧ st'.nextShape = min (st.nextShape + fuel) (max st.nextShape outs.length) := by
  induction fuel generalizing st with
  | zero =>
    refine ⟨st, by simp [RState.iterAll], h, ?_⟩
    simp only [Nat.add_zero]; omega
  | succ fuel ih =>
    by_cases hk : st.nextShape < outs.length
    · obtain ⟨st1, hnext, hinv1, hn1⟩ := h.iterNext hk
      obtain ⟨st2, hall, hinv2, hn2⟩ := ih hinv1
      refine ⟨st2, ?_, hinv2, ?_⟩
      · unfold RState.iterAll
        rw [hnext]
        have hne : outs[st.nextShape] ≠ ROut.none := hno _ (List.getElem_mem hk)
        have hdrop : outs.drop st.nextShape = outs[st.nextShape] :: outs.drop (st.nextShape + 1) :=
          (List.drop_eq_getElem_cons hk)
        rw [hdrop, List.take_succ_cons]
        cases hx : outs[st.nextShape] with
        | none => exact absurd hx hne
        | shape s => simp only [hall, hn1]
        | err e => simp only [hall, hn1]
        | unit => simp only [hall, hn1]
        | count n => simp only [hall, hn1]
        | panic s => simp only [hall, hn1]
      · rw [hn2, hn1]; omega
    · have hk' : outs.length ≤ st.nextShape := by omega
      refine ⟨st, ?_, h, ?_⟩
      · unfold RState.iterAll
        rw [h.iterNext_end hk']
        simp [List.drop_eq_nil_of_le hk']
      · omega

end Shp

/- Min/max folds with the IEEE comparison modelled on bit patterns (C05). -/
import Shp.Model.Construct
namespace Shp
namespace F64

theorem lt_iff_of_notNaN {a b : F64} (ha : a.isNaN = false) (hb : b.isNaN = false) : a.lt b = true ↔ a.key < b.key := by
  simp [lt, ha, hb]
theorem le_iff_of_notNaN {a b : F64} (ha : a.isNaN = false) (hb : b.isNaN = false) : a.le b = true ↔ a.key ≤ b.key := by
  simp [le, ha, hb]

theorem fmin_mem (a b : F64) : fmin a b = a ∨ fmin a b = b := by
  unfold fmin; split <;> simp
theorem fmax_mem (a b : F64) : fmax a b = a ∨ fmax a b = b := by
  unfold fmax; split <;> simp

theorem fmin_notNaN {a b : F64} (ha : a.isNaN = false) (hb : b.isNaN = false) : (fmin a b).isNaN = false := by
  rcases fmin_mem a b with h | h <;> rw [h] <;> assumption
theorem fmax_notNaN {a b : F64} (ha : a.isNaN = false) (hb : b.isNaN = false) : (fmax a b).isNaN = false := by
  rcases fmax_mem a b with h | h <;> rw [h] <;> assumption

theorem fmin_key {a b : F64} (ha : a.isNaN = false) (hb : b.isNaN = false) :
    (fmin a b).key = min a.key b.key := by
  unfold fmin
  by_cases h : a.lt b = true
  · rw [if_pos h]; have := (lt_iff_of_notNaN ha hb).mp h; omega
  · rw [if_neg h]
    have : ¬ a.key < b.key := fun hh => h ((lt_iff_of_notNaN ha hb).mpr hh)
    omega

theorem fmax_key {a b : F64} (ha : a.isNaN = false) (hb : b.isNaN = false) :
    (fmax a b).key = max a.key b.key := by
  unfold fmax
  by_cases h : b.lt a = true
  · rw [if_pos h]; have := (lt_iff_of_notNaN hb ha).mp h; omega
  · rw [if_neg h]
    have : ¬ b.key < a.key := fun hh => h ((lt_iff_of_notNaN hb ha).mpr hh)
    omega

end F64

/-- `v` is an exact minimum of `vals`: bit-identical to one of them and `≤` (IEEE) all of them -/
def IsMin (v : F64) (vals : List F64) : Prop := v ∈ vals ∧ ∀ x ∈ vals, v.le x = true
def IsMax (v : F64) (vals : List F64) : Prop := v ∈ vals ∧ ∀ x ∈ vals, x.le v = true

def NoNaN (vals : List F64) : Prop := ∀ x ∈ vals, x.isNaN = false

/-- left fold with `fmin acc x` (the order `shrink` uses): exact minimum of accumulator and list -/
theorem foldl_fmin_isMin (l : List F64) (a : F64) (h : NoNaN (a :: l)) :
    IsMin (l.foldl F64.fmin a) (a :: l) ∧ (l.foldl F64.fmin a).isNaN = false := by
  induction l generalizing a with
  | nil =>
    have ha := h a List.mem_cons_self
    exact ⟨⟨List.mem_cons_self, fun x hx => by
      simp only [List.mem_cons, List.mem_nil_iff, or_false] at hx; subst hx
      exact (F64.le_iff_of_notNaN ha ha).mpr (Int.le_refl _)⟩, ha⟩
  | cons b l ih =>
    have ha := h a List.mem_cons_self
    have hb := h b (List.mem_cons_of_mem _ List.mem_cons_self)
    have hm := F64.fmin_notNaN ha hb
    have ih' := ih (F64.fmin a b) (by
      intro x hx
      simp only [List.mem_cons] at hx
      rcases hx with rfl | hx
      · exact hm
      · exact h x (List.mem_cons_of_mem _ (List.mem_cons_of_mem _ hx)))
    obtain ⟨⟨hmem, hle⟩, hnn⟩ := ih'
    refine ⟨⟨?_, ?_⟩, hnn⟩
    · simp only [List.foldl_cons]
      simp only [List.mem_cons] at hmem ⊢
      rcases hmem with hmem | hmem
      · rcases F64.fmin_mem a b with h1 | h1
        · exact Or.inl (hmem.trans h1)
        · exact Or.inr (Or.inl (hmem.trans h1))
      · exact Or.inr (Or.inr hmem)
    · intro x hx
      simp only [List.foldl_cons]
      have hkey := F64.fmin_key ha hb
      have hr := hle (F64.fmin a b) List.mem_cons_self
      have hrk := (F64.le_iff_of_notNaN hnn hm).mp hr
      simp only [List.mem_cons] at hx
      rcases hx with rfl | rfl | hx
      · exact (F64.le_iff_of_notNaN hnn ha).mpr (by omega)
      · exact (F64.le_iff_of_notNaN hnn hb).mpr (by omega)
      · exact hle x (List.mem_cons_of_mem _ hx)

theorem foldl_fmax_isMax (l : List F64) (a : F64) (h : NoNaN (a :: l)) :
    IsMax (l.foldl F64.fmax a) (a :: l) ∧ (l.foldl F64.fmax a).isNaN = false := by
  induction l generalizing a with
  | nil =>
    have ha := h a List.mem_cons_self
    exact ⟨⟨List.mem_cons_self, fun x hx => by
      simp only [List.mem_cons, List.mem_nil_iff, or_false] at hx; subst hx
      exact (F64.le_iff_of_notNaN ha ha).mpr (Int.le_refl _)⟩, ha⟩
  | cons b l ih =>
    have ha := h a List.mem_cons_self
    have hb := h b (List.mem_cons_of_mem _ List.mem_cons_self)
    have hm := F64.fmax_notNaN ha hb
    have ih' := ih (F64.fmax a b) (by
      intro x hx
      simp only [List.mem_cons] at hx
      rcases hx with rfl | hx
      · exact hm
      · exact h x (List.mem_cons_of_mem _ (List.mem_cons_of_mem _ hx)))
    obtain ⟨⟨hmem, hle⟩, hnn⟩ := ih'
    refine ⟨⟨?_, ?_⟩, hnn⟩
    · simp only [List.foldl_cons]
      simp only [List.mem_cons] at hmem ⊢
      rcases hmem with hmem | hmem
      · rcases F64.fmax_mem a b with h1 | h1
        · exact Or.inl (hmem.trans h1)
        · exact Or.inr (Or.inl (hmem.trans h1))
      · exact Or.inr (Or.inr hmem)
    · intro x hx
      simp only [List.foldl_cons]
      have hkey := F64.fmax_key ha hb
      have hr := hle (F64.fmax a b) List.mem_cons_self
      have hrk := (F64.le_iff_of_notNaN hm hnn).mp hr
      simp only [List.mem_cons] at hx
      rcases hx with rfl | rfl | hx
      · exact (F64.le_iff_of_notNaN ha hnn).mpr (by omega)
      · exact (F64.le_iff_of_notNaN hb hnn).mpr (by omega)
      · exact hle x (List.mem_cons_of_mem _ hx)

/-- the coordinate-wise folds of `shrink` / `grow` are folds of the coordinates -/
theorem foldl_shrink_x (d : Dim) (pts : List Pt) (p : Pt) :
    (pts.foldl (Pt.shrink d) p).x = (pts.map (·.x)).foldl F64.fmin p.x := by
  induction pts generalizing p with
  | nil => rfl
  | cons q qs ih => simp only [List.foldl_cons, List.map_cons, ih]; rfl
theorem foldl_shrink_y (d : Dim) (pts : List Pt) (p : Pt) :
    (pts.foldl (Pt.shrink d) p).y = (pts.map (·.y)).foldl F64.fmin p.y := by
  induction pts generalizing p with
  | nil => rfl
  | cons q qs ih => simp only [List.foldl_cons, List.map_cons, ih]; rfl
theorem foldl_shrink_z (d : Dim) (hd : d.hasZ = true) (pts : List Pt) (p : Pt) :
    (pts.foldl (Pt.shrink d) p).z = (pts.map (·.z)).foldl F64.fmin p.z := by
  induction pts generalizing p with
  | nil => rfl
  | cons q qs ih => simp only [List.foldl_cons, List.map_cons, ih, Pt.shrink, hd, if_true]
theorem foldl_shrink_m (d : Dim) (hd : d.hasM = true) (pts : List Pt) (p : Pt) :
    (pts.foldl (Pt.shrink d) p).m = (pts.map (·.m)).foldl F64.fmin p.m := by
  induction pts generalizing p with
  | nil => rfl
  | cons q qs ih => simp only [List.foldl_cons, List.map_cons, ih, Pt.shrink, hd, if_true]
theorem foldl_grow_x (d : Dim) (pts : List Pt) (p : Pt) :
    (pts.foldl (Pt.grow d) p).x = (pts.map (·.x)).foldl F64.fmax p.x := by
  induction pts generalizing p with
  | nil => rfl
  | cons q qs ih => simp only [List.foldl_cons, List.map_cons, ih]; rfl
theorem foldl_grow_y (d : Dim) (pts : List Pt) (p : Pt) :
    (pts.foldl (Pt.grow d) p).y = (pts.map (·.y)).foldl F64.fmax p.y := by
  induction pts generalizing p with
  | nil => rfl
  | cons q qs ih => simp only [List.foldl_cons, List.map_cons, ih]; rfl
theorem foldl_grow_z (d : Dim) (hd : d.hasZ = true) (pts : List Pt) (p : Pt) :
    (pts.foldl (Pt.grow d) p).z = (pts.map (·.z)).foldl F64.fmax p.z := by
  induction pts generalizing p with
  | nil => rfl
  | cons q qs ih => simp only [List.foldl_cons, List.map_cons, ih, Pt.grow, hd, if_true]
theorem foldl_grow_m (d : Dim) (hd : d.hasM = true) (pts : List Pt) (p : Pt) :
    (pts.foldl (Pt.grow d) p).m = (pts.map (·.m)).foldl F64.fmax p.m := by
  induction pts generalizing p with
  | nil => rfl
  | cons q qs ih => simp only [List.foldl_cons, List.map_cons, ih, Pt.grow, hd, if_true]

/-- `from_points(first)` then `grow_from_points(rest…)` is one fold over all the vertices -/
theorem fromParts_eq (d : Dim) (p : Pt) (ps : List Pt) (rest : List (List Pt)) :
    BBox.fromParts d ((p :: ps) :: rest) =
      some ⟨(ps ++ rest.flatten).foldl (Pt.shrink d) p, (ps ++ rest.flatten).foldl (Pt.grow d) p⟩ := by
  unfold BBox.fromParts BBox.fromPoints
  simp only [Option.map_some, Option.some.injEq]
  generalize hb : BBox.growFromPoints d ⟨p, p⟩ ps = b0
  have h0 : b0 = ⟨ps.foldl (Pt.shrink d) p, ps.foldl (Pt.grow d) p⟩ := by rw [← hb]; rfl
  rw [h0]
  clear hb h0
  induction rest generalizing ps with
  | nil => simp
  | cons r rs ih =>
    simp only [List.foldl_cons, List.flatten_cons]
    have : BBox.growFromPoints d ⟨ps.foldl (Pt.shrink d) p, ps.foldl (Pt.grow d) p⟩ r =
        ⟨(ps ++ r).foldl (Pt.shrink d) p, (ps ++ r).foldl (Pt.grow d) p⟩ := by
      simp [BBox.growFromPoints, List.foldl_append]
    rw [this, ih (ps ++ r), List.append_assoc]

end Shp

/- The files the writer produces are addressable by their index, and open correctly. -/
import Shp.Lemmas.Frame
import Shp.Lemmas.ReaderIdx
namespace Shp

/-- what the whole list must satisfy for the format's `i32` fields to hold it -/
structure FileOK (tg : Target) (ss : List Shape) : Prop where
  homog : Homog ss
  sized : ∀ s ∈ ss, s.Sized
  nonnull : ∀ s ∈ ss, s ≠ .null
  accepts : ∀ s ∈ ss, tg.Accepts s.writeType
  total : 50 + totalWords ss < 2147483648

theorem recordsFrom_length (t : ShapeType) (k : Nat) (ss : List Shape) :
    (recordsFrom t k ss).length = 2 * totalWords ss := by
  induction ss generalizing k with
  | nil => rfl
  | cons s ss ih =>
    simp only [recordsFrom, List.length_append, C18.encRecord_length, ih, totalWords]
    omega

theorem length_le_totalWords (ss : List Shape) : 4 * ss.length ≤ totalWords ss := by
  induction ss with
  | nil => simp [totalWords]
  | cons s ss ih => simp only [totalWords, List.length_cons]; omega

/-- every index entry the writer emits points at the record it wrote there -/
theorem addressable_records (o : Orient) (tg : Target) (t : ShapeType) (ss : List Shape) (pre : Bytes) (k off : Nat)
    (hpre : pre.length = 2 * off)
    (hsz : ∀ s ∈ ss, s.Sized) (hnn : ∀ s ∈ ss, s ≠ .null) (hty : ∀ s ∈ ss, s.writeType = t)
    (hacc : ∀ s ∈ ss, tg.Accepts s.writeType) (hk : k + ss.length < 2147483648) :
    Addressable o tg (pre ++ recordsFrom t k ss) (indexEntriesFrom off ss) (ss.map (Shape.readBack o)) := by
  induction ss generalizing pre k off with
  | nil => exact ⟨rfl, fun i h1 _ => absurd h1 (by simp [indexEntriesFrom])⟩
  | cons s ss ih =>
    have hs := hsz s List.mem_cons_self
    have hts : s.writeType = t := hty s List.mem_cons_self
    have hrec := readOneShape_encRecord o tg (k : Int) s (recordsFrom t (k + 1) ss)
      (by unfold InI32; simp only [List.length_cons] at hk; omega) hs (hnn s List.mem_cons_self)
      (hacc s List.mem_cons_self)
    rw [hts] at hrec
    have ih' := ih (pre ++ encRecord k t s) (k + 1) (off + recordSizeWords s + 4)
      (by rw [List.length_append, C18.encRecord_length, hpre]; omega)
      (fun x hx => hsz x (List.mem_cons_of_mem _ hx)) (fun x hx => hnn x (List.mem_cons_of_mem _ hx))
      (fun x hx => hty x (List.mem_cons_of_mem _ hx)) (fun x hx => hacc x (List.mem_cons_of_mem _ hx))
      (by simp only [List.length_cons] at hk; omega)
    refine ⟨by simp, ?_⟩
    intro i h1 h2
    cases i with
    | zero =>
      simp only [indexEntriesFrom, List.getElem_cons_zero, List.map_cons]
      refine ⟨by simp, (recordSizeWords s : Int), recordsFrom t (k + 1) ss, ?_, by omega, ?_⟩
      · simp only [recordsFrom]
        have : (2 * ((off : Nat) : Int)).toNat = pre.length := by omega
        rw [this, List.drop_left]
        exact hrec
      · simp only [recordsFrom, List.length_append, C18.encRecord_length, hpre]
        omega
    | succ i =>
      simp only [indexEntriesFrom, List.getElem_cons_succ, List.map_cons]
      have := ih'.2 i (by simpa [indexEntriesFrom] using h1) (by simpa using h2)
      simp only [recordsFrom, ← List.append_assoc] at this ⊢
      exact this

theorem FileOK.types {tg : Target} {ss : List Shape} (h : FileOK tg ss) : ∀ s ∈ ss, s.writeType = fileTypeOf ss := by
  cases ss with
  | nil => simp
  | cons a as =>
    intro s hs
    simp only [List.mem_cons] at hs
    rcases hs with rfl | hs
    · rfl
    · exact h.homog.2 s hs

/-- the `.shp` written for `ss` is addressed by the `.shx` written for `ss` -/
theorem addressable_shpFile (o : Orient) (tg : Target) (ss : List Shape) (h : FileOK tg ss) :
    Addressable o tg (shpFile ss) (indexEntriesFrom 50 ss) (ss.map (Shape.readBack o)) := by
  have hl := length_le_totalWords ss
  have := h.total
  exact addressable_records o tg (fileTypeOf ss) ss (finalHeader ss).enc 1 50 (Header.enc_length _)
    h.sized h.nonnull h.types h.accepts (by omega)

theorem finalHeader_inI32 (ss : List Shape) (h : 50 + totalWords ss < 2147483648) :
    InI32 (finalHeader ss).fileLength ∧ InI32 (finalHeader ss).version := by
  unfold InI32 finalHeader; simp only; omega

/-- opening the written pair of files gives a reader in the invariant, cursor at the first record -/
theorem open_written (o : Orient) (tg : Target) (ss : List Shape) (h : FileOK tg ss) :
    ∃ st, RState.open (shpFile ss) (some (shxFile ss)) = .ok st ∧ RInv o tg (ss.map (Shape.readBack o)) st ∧
      st.nextShape = 0 ∧ st.header = finalHeader ss := by
  have hh := finalHeader_inI32 ss h.total
  have hhdr := readHeader_enc (finalHeader ss) hh.1 hh.2 (recordsFrom (fileTypeOf ss) 1 ss)
  unfold RState.open
  simp only [readIndexFile_shxFile ss h.total]
  have : readHeader (shpFile ss) = .ok (finalHeader ss) (recordsFrom (fileTypeOf ss) 1 ss) := hhdr
  rw [this]
  refine ⟨_, rfl, ⟨⟨indexEntriesFrom 50 ss, rfl, addressable_shpFile o tg ss h⟩, ?_⟩, rfl, rfl⟩
  intro p hp
  simp only [Option.some.injEq, Const.headerSize] at hp
  simp only [shpFile, List.length_append, Header.enc_length]
  omega

end Shp

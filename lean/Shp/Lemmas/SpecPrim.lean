/- The whitepaper codec's number encoders produce the same bytes as the model's (byteorder's). -/
import Shp.Spec.Esri
import Shp.Lemmas.Length
namespace Shp
open Spec

theorem u8_mod (n : Nat) : UInt8.ofNat (n % 256) = u8 n := by
  apply UInt8.toNat_inj.mp
  simp [u8]

theorem wrU32LE_eq (n : Nat) : wrU32LE n = encU32LE n := by
  unfold wrU32LE encU32LE
  simp only [u8_mod]

theorem wrU32BE_eq (n : Nat) : wrU32BE n = encU32BE n := by
  unfold wrU32BE
  rw [wrU32LE_eq]; rfl

theorem ofInt32_eq (i : Int) : ofInt32 i = ofI32 i := rfl

theorem wrI32LE_eq (i : Int) : wrI32LE i = encI32LE i := by
  unfold wrI32LE encI32LE; rw [wrU32LE_eq]; rfl
theorem wrI32BE_eq (i : Int) : wrI32BE i = encI32BE i := by
  unfold wrI32BE encI32BE; rw [wrU32BE_eq]; rfl

theorem u8_congr (a b : Nat) (h : a % 256 = b % 256) : u8 a = u8 b := by
  apply UInt8.toNat_inj.mp
  simp [u8, h]

theorem wrF64_eq (bits : Nat) : wrF64 bits = (F64.ofNat bits).enc := by
  unfold wrF64 F64.enc F64.ofNat encU64LE
  rw [wrU32LE_eq, wrU32LE_eq]
  unfold encU32LE
  simp only [List.cons_append, List.nil_append, UInt64.toNat_ofNat']
  simp only [List.cons.injEq, and_true]
  refine ⟨?_, ?_, ?_, ?_, ?_, ?_, ?_, ?_⟩ <;> apply u8_congr <;> omega

end Shp

/-
The writer's invariant: after any history of calls on healthy destinations the .shp is
`header(100 bytes) ++ records` and the .shx `header ++ entries`, positions at the end, and the
state's running header describes exactly the shapes accepted so far.
-/
import Shp.Props.C18
import Shp.Model.Writer
namespace Shp

/-! ### destinations -/
theorem zeros_length (n : Nat) : (zeros n).length = n := by simp [zeros]

theorem writeAt_end (data bs : Bytes) : writeAt data data.length bs = data ++ bs := by
  simp [writeAt, zeros]

theorem writeAt_start (hb hb' rest : Bytes) (h : hb.length = hb'.length) :
    writeAt (hb ++ rest) 0 hb' = hb' ++ rest := by
  simp [writeAt, zeros, ← h]

theorem writeAt_empty (bs : Bytes) : writeAt [] 0 bs = bs := by
  simp [writeAt, zeros]

theorem Header.enc_length (h : Header) : h.enc.length = 100 := by
  simp [Header.enc, zeros_length]

theorem IndexEntry.enc_length (e : IndexEntry) : e.enc.length = 8 := by simp [IndexEntry.enc]

/-! ### canonical file contents -/
def recordsFrom (t : ShapeType) (k : Nat) : List Shape → Bytes
  | [] => []
  | s :: ss => encRecord k t s ++ recordsFrom t (k + 1) ss

def totalWords : List Shape → Nat
  | [] => 0
  | s :: ss => recordSizeWords s + 4 + totalWords ss

def entriesFrom (off : Nat) : List Shape → Bytes
  | [] => []
  | s :: ss => IndexEntry.enc ⟨off, recordSizeWords s⟩ ++ entriesFrom (off + recordSizeWords s + 4) ss

theorem recordsFrom_append (t : ShapeType) (k : Nat) (ss : List Shape) (s : Shape) :
    recordsFrom t k (ss ++ [s]) = recordsFrom t k ss ++ encRecord (k + ss.length) t s := by
  induction ss generalizing k with
  | nil => simp [recordsFrom]
  | cons a as ih =>
    simp only [List.cons_append, recordsFrom, ih, List.append_assoc, List.length_cons]
    congr 3
    omega

theorem totalWords_append (ss : List Shape) (s : Shape) :
    totalWords (ss ++ [s]) = totalWords ss + (recordSizeWords s + 4) := by
  induction ss with
  | nil => simp [totalWords]
  | cons a as ih => simp only [List.cons_append, totalWords, ih]; omega

theorem entriesFrom_append (off : Nat) (ss : List Shape) (s : Shape) :
    entriesFrom off (ss ++ [s]) = entriesFrom off ss ++ IndexEntry.enc ⟨off + totalWords ss, recordSizeWords s⟩ := by
  induction ss generalizing off with
  | nil => simp [entriesFrom, totalWords]
  | cons a as ih =>
    simp only [List.cons_append, entriesFrom, ih, List.append_assoc, totalWords]
    congr 4
    omega

/-- the type of the file after the shapes `ss` were accepted -/
def fileTypeOf : List Shape → ShapeType
  | [] => .nullShape
  | s :: _ => s.writeType

/-- the running header box after the shapes `ss` -/
def boxOf : List Shape → BBox
  | [] => ⟨zeroPt, zeroPt⟩
  | s :: ss => (s :: ss).foldl (growFromShape s.writeType) sentinelBox

/-- the header `finalize` writes after the shapes `ss` -/
def finalHeader (ss : List Shape) : Header :=
  { fileLength := 50 + totalWords ss, bbox := finalizeBox (boxOf ss), shapeType := fileTypeOf ss, version := 1000 }

def finalShxHeader (ss : List Shape) : Header := { finalHeader ss with fileLength := 50 + 4 * ss.length }

/-- the complete files for the shapes `ss` -/
def shpFile (ss : List Shape) : Bytes := (finalHeader ss).enc ++ recordsFrom (fileTypeOf ss) 1 ss
def shxFile (ss : List Shape) : Bytes := (finalShxHeader ss).enc ++ entriesFrom 50 ss

/-- every shape has the type of the first one, which is a real (non-null) type -/
def Homog : List Shape → Prop
  | [] => True
  | s :: ss => s.writeType ≠ .nullShape ∧ ∀ x ∈ ss, x.writeType = s.writeType

structure WInv (w : World) (ss : List Shape) : Prop where
  homog : Homog ss
  recNum : w.st.recNum = ss.length + 1
  fileLength : w.st.header.fileLength = 50 + totalWords ss
  version : w.st.header.version = 1000
  shapeType : w.st.header.shapeType = fileTypeOf ss
  bbox : w.st.header.bbox = boxOf ss
  shp : ∃ hb : Bytes, (hb.length = 100 ∨ (hb = [] ∧ ss = [])) ∧
        w.shp.data = hb ++ recordsFrom (fileTypeOf ss) 1 ss ∧ w.shp.pos = w.shp.data.length
  shx : if w.st.hasShx then
          ∃ hb : Bytes, (hb.length = 100 ∨ (hb = [] ∧ ss = [])) ∧
            w.shx.data = hb ++ entriesFrom 50 ss ∧ w.shx.pos = w.shx.data.length
        else w.shx = Dst.empty
  clean : w.st.dirty = false → w.shp.data = shpFile ss ∧ (w.st.hasShx = true → w.shx.data = shxFile ss)

theorem WInv.init (hasShx : Bool) : WInv (World.init hasShx) [] := by
  constructor
  · trivial
  · rfl
  · rfl
  · rfl
  · rfl
  · rfl
  · exact ⟨[], Or.inr ⟨rfl, rfl⟩, rfl, rfl⟩
  · cases hasShx
    · simp [World.init, WState.init]
    · show ∃ hb : Bytes, _
      exact ⟨[], Or.inr ⟨rfl, rfl⟩, rfl, rfl⟩
  · intro h; simp [World.init, WState.init] at h

theorem Dst.apply_write_end (d : Dst) (bs : Bytes) (h : d.pos = d.data.length) :
    d.apply (.write bs) = ⟨d.data ++ bs, (d.data ++ bs).length⟩ := by
  simp [Dst.apply, h, writeAt_end]

/-- rewriting the 100 header bytes at offset 0 and seeking back to the end -/
theorem Dst.rewrite_header (d : Dst) (hb rest hdr : Bytes) (hd : d.data = hb ++ rest)
    (hh : hb.length = 100 ∨ (hb = [] ∧ rest = [])) (hl : hdr.length = 100) :
    (((d.apply (.seekStart 0)).apply (.write hdr)).apply .seekEnd).apply .flush =
      ⟨hdr ++ rest, (hdr ++ rest).length⟩ := by
  rcases hh with hh | ⟨rfl, rfl⟩
  · simp [Dst.apply, hd, writeAt_start hb hdr rest (by omega)]
  · simp [Dst.apply, hd, writeAt_empty]

theorem finalHeader_of_inv {w : World} {ss : List Shape} (h : WInv w ss) :
    ({ w.st.header with bbox := finalizeBox w.st.header.bbox } : Header) = finalHeader ss := by
  have h1 := h.fileLength; have h2 := h.version; have h3 := h.shapeType; have h4 := h.bbox
  cases hw : w.st.header with
  | mk fl bb st v =>
    rw [hw] at h1 h2 h3 h4
    simp only at h1 h2 h3 h4
    simp [finalHeader, h1, h2, h3, h4]

def hdrOf (st : WState) : Header := { st.header with bbox := finalizeBox st.header.bbox }
def shxHdrOf (st : WState) : Header :=
  { hdrOf st with fileLength := (Const.headerSize : Int) / 2 + ((st.recNum : Int) - 1) * 2 * 4 / 2 }

def rewriteHeader (d : Dst) (hdr : Bytes) : Dst :=
  (((d.apply (.seekStart 0)).apply (.write hdr)).apply .seekEnd).apply .flush

theorem call_finalize_clean (w : World) (hd : w.st.dirty = false) : w.call .finalize = (w, .ok ()) := by
  unfold World.call plan planFinalize
  simp [hd]

theorem call_finalize_dirty (w : World) (hd : w.st.dirty = true) :
    w.call .finalize =
      ({ st := { w.st with dirty := false }, shp := rewriteHeader w.shp (hdrOf w.st).enc,
         shx := if w.st.hasShx then rewriteHeader w.shx (shxHdrOf w.st).enc else w.shx }, .ok ()) := by
  unfold World.call plan planFinalize
  cases hx : w.st.hasShx <;>
    simp [hd, hx, World.applyOp, rewriteHeader, hdrOf, shxHdrOf]

theorem hdrOf_of_inv {w : World} {ss : List Shape} (h : WInv w ss) : hdrOf w.st = finalHeader ss :=
  finalHeader_of_inv h

theorem shxHdrOf_of_inv {w : World} {ss : List Shape} (h : WInv w ss) : shxHdrOf w.st = finalShxHeader ss := by
  unfold shxHdrOf
  rw [hdrOf_of_inv h]
  simp only [finalShxHeader, Const.headerSize, h.recNum]
  congr 1
  push_cast
  omega

theorem rewriteHeader_spec (d : Dst) (hb rest hdr : Bytes) (hd : d.data = hb ++ rest)
    (hh : hb.length = 100 ∨ (hb = [] ∧ rest = [])) (hl : hdr.length = 100) :
    rewriteHeader d hdr = ⟨hdr ++ rest, (hdr ++ rest).length⟩ :=
  Dst.rewrite_header d hb rest hdr hd hh hl

/-- `finalize` on healthy destinations: succeeds, keeps the invariant and leaves complete files -/
theorem WInv.finalize {w : World} {ss : List Shape} (h : WInv w ss) :
    (w.call .finalize).2 = .ok () ∧ WInv (w.call .finalize).1 ss ∧ (w.call .finalize).1.st.dirty = false ∧
    (w.call .finalize).1.st.hasShx = w.st.hasShx := by
  by_cases hd : w.st.dirty = false
  · rw [call_finalize_clean w hd]
    exact ⟨rfl, h, hd, rfl⟩
  · have hd' : w.st.dirty = true := by simpa using hd
    rw [call_finalize_dirty w hd']
    obtain ⟨hb, hhb, hdata, hpos⟩ := h.shp
    have hshp := rewriteHeader_spec w.shp hb (recordsFrom (fileTypeOf ss) 1 ss) (hdrOf w.st).enc hdata
      (by rcases hhb with hhb | ⟨h1, h2⟩
          · exact Or.inl hhb
          · right; subst h2; exact ⟨h1, rfl⟩)
      (Header.enc_length _)
    rw [hdrOf_of_inv h] at hshp
    refine ⟨rfl, ?_, rfl, rfl⟩
    refine ⟨h.homog, h.recNum, h.fileLength, h.version, h.shapeType, h.bbox, ?_, ?_, ?_⟩
    · exact ⟨(finalHeader ss).enc, Or.inl (Header.enc_length _), by rw [hdrOf_of_inv h, hshp], by rw [hdrOf_of_inv h, hshp]⟩
    · cases hx : w.st.hasShx
      · have hxe : w.shx = Dst.empty := by have := h.shx; rw [hx] at this; simpa using this
        simpa [hx] using hxe
      · have hxi := h.shx
        rw [hx] at hxi
        simp only [if_true] at hxi
        obtain ⟨xb, hxb, hxdata, hxpos⟩ := hxi
        have hshx := rewriteHeader_spec w.shx xb (entriesFrom 50 ss) (shxHdrOf w.st).enc hxdata
          (by rcases hxb with hxb | ⟨h1, h2⟩
              · exact Or.inl hxb
              · right; subst h2; exact ⟨h1, rfl⟩)
          (Header.enc_length _)
        rw [shxHdrOf_of_inv h] at hshx
        simp only [hx, if_true]
        exact ⟨(finalShxHeader ss).enc, Or.inl (Header.enc_length _), by rw [shxHdrOf_of_inv h, hshx], by rw [shxHdrOf_of_inv h, hshx]⟩
    · intro _
      refine ⟨by rw [hdrOf_of_inv h, hshp]; rfl, ?_⟩
      intro hx
      simp only at hx
      have hxi := h.shx
      rw [hx] at hxi
      simp only [if_true] at hxi
      obtain ⟨xb, hxb, hxdata, hxpos⟩ := hxi
      have hshx := rewriteHeader_spec w.shx xb (entriesFrom 50 ss) (shxHdrOf w.st).enc hxdata
        (by rcases hxb with hxb | ⟨h1, h2⟩
            · exact Or.inl hxb
            · right; subst h2; exact ⟨h1, rfl⟩)
        (Header.enc_length _)
      rw [shxHdrOf_of_inv h] at hshx
      simp only [hx, if_true]
      rw [shxHdrOf_of_inv h, hshx]; rfl

/-! ### write_shape -/
def firstHeader (st : WState) (s : Shape) : Header := { st.header with shapeType := s.writeType, bbox := sentinelBox }

def postWrite (st : WState) (hdr1 : Header) (s : Shape) : WState :=
  { st with header := { hdr1 with fileLength := hdr1.fileLength + recordSizeWords s + 4,
                                  bbox := growFromShape s.writeType hdr1.bbox s },
            recNum := st.recNum + 1, dirty := true }

theorem plan_write_first (st : WState) (s : Shape) (hn : st.header.shapeType = .nullShape) :
    planWriteShape st s = .ok
      { pre := { st with header := firstHeader st s },
        ops := [(.shp, .seekStart 0), (.shp, .write (firstHeader st s).enc)] ++
               (if st.hasShx then [(.shx, .seekStart 0), (.shx, .write (firstHeader st s).enc)] else []) ++
               [(.shp, .write (encRecord st.recNum s.writeType s))] ++
               (if st.hasShx then [(.shx, .write (IndexEntry.enc ⟨st.header.fileLength, recordSizeWords s⟩))] else []),
        post := postWrite st (firstHeader st s) s } := by
  unfold planWriteShape
  simp only [hn, decide_true, Bool.not_true, Bool.false_and, Bool.false_eq_true, if_false, if_true]
  rfl

theorem plan_write_next (st : WState) (s : Shape) (hn : st.header.shapeType ≠ .nullShape)
    (ht : st.header.shapeType = s.writeType) :
    planWriteShape st s = .ok
      { pre := st,
        ops := [(.shp, .write (encRecord st.recNum s.writeType s))] ++
               (if st.hasShx then [(.shx, .write (IndexEntry.enc ⟨st.header.fileLength, recordSizeWords s⟩))] else []),
        post := postWrite st st.header s } := by
  have hn' : ¬ s.writeType = .nullShape := ht ▸ hn
  unfold planWriteShape
  simp only [ht, hn', decide_false, decide_true, Bool.not_false, Bool.true_and, ne_eq, not_true_eq_false,
    Bool.false_eq_true, if_false, List.nil_append]
  simp only [postWrite, ht]

theorem plan_write_rejected (st : WState) (s : Shape) (hn : st.header.shapeType ≠ .nullShape)
    (ht : st.header.shapeType ≠ s.writeType) :
    planWriteShape st s = .error (.mismatch st.header.shapeType s.writeType) := by
  unfold planWriteShape
  simp only [hn, ht, decide_false, Bool.not_false, Bool.true_and, ne_eq, not_false_eq_true, decide_true, if_true]

theorem call_write_first (w : World) (s : Shape) (hn : w.st.header.shapeType = .nullShape) :
    w.call (.writeShape s) =
      ({ st := postWrite w.st (firstHeader w.st s) s,
         shp := ((w.shp.apply (.seekStart 0)).apply (.write (firstHeader w.st s).enc)).apply
                  (.write (encRecord w.st.recNum s.writeType s)),
         shx := if w.st.hasShx then
                  ((w.shx.apply (.seekStart 0)).apply (.write (firstHeader w.st s).enc)).apply
                    (.write (IndexEntry.enc ⟨w.st.header.fileLength, recordSizeWords s⟩))
                else w.shx }, .ok ()) := by
  have hp : plan w.st (.writeShape s) = planWriteShape w.st s := rfl
  unfold World.call
  rw [hp, plan_write_first w.st s hn]
  cases hx : w.st.hasShx <;>
    simp only [Bool.false_eq_true, if_false, if_true, List.append_nil, List.cons_append, List.nil_append,
      List.foldl_cons, List.foldl_nil, World.applyOp]

theorem call_write_next (w : World) (s : Shape) (hn : w.st.header.shapeType ≠ .nullShape)
    (ht : w.st.header.shapeType = s.writeType) :
    w.call (.writeShape s) =
      ({ st := postWrite w.st w.st.header s,
         shp := w.shp.apply (.write (encRecord w.st.recNum s.writeType s)),
         shx := if w.st.hasShx then
                  w.shx.apply (.write (IndexEntry.enc ⟨w.st.header.fileLength, recordSizeWords s⟩))
                else w.shx }, .ok ()) := by
  have hp : plan w.st (.writeShape s) = planWriteShape w.st s := rfl
  unfold World.call
  rw [hp, plan_write_next w.st s hn ht]
  cases hx : w.st.hasShx <;>
    simp only [Bool.false_eq_true, if_false, if_true, List.append_nil, List.cons_append, List.nil_append,
      List.foldl_cons, List.foldl_nil, World.applyOp]

theorem call_write_rejected (w : World) (s : Shape) (hn : w.st.header.shapeType ≠ .nullShape)
    (ht : w.st.header.shapeType ≠ s.writeType) :
    w.call (.writeShape s) = (w, .error (.mismatch w.st.header.shapeType s.writeType)) := by
  have hp : plan w.st (.writeShape s) = planWriteShape w.st s := rfl
  unfold World.call
  rw [hp, plan_write_rejected w.st s hn ht]

/-- header at offset 0 (over an earlier header or an empty destination), then a first chunk -/
theorem Dst.first_write (d : Dst) (hdr chunk : Bytes) (hh : d.data.length = 100 ∨ d.data = []) (hl : hdr.length = 100) :
    ((d.apply (.seekStart 0)).apply (.write hdr)).apply (.write chunk) =
      ⟨hdr ++ chunk, (hdr ++ chunk).length⟩ := by
  have h1 : writeAt d.data 0 hdr = hdr := by
    rcases hh with hh | hh
    · have := writeAt_start d.data hdr [] (by omega)
      simpa using this
    · rw [hh]; exact writeAt_empty hdr
  have h2 : (d.apply (.seekStart 0)).apply (.write hdr) = ⟨hdr, hdr.length⟩ := by
    simp [Dst.apply, h1]
  rw [h2, Dst.apply_write_end _ _ rfl]
theorem homog_append {ss : List Shape} {s : Shape} (h : Homog ss) (hs : s.writeType ≠ .nullShape)
    (ht : ss = [] ∨ fileTypeOf ss = s.writeType) : Homog (ss ++ [s]) := by
  cases ss with
  | nil => exact ⟨hs, by simp⟩
  | cons a as =>
    rcases ht with ht | ht
    · cases ht
    · show Homog (a :: (as ++ [s]))
      refine ⟨h.1, ?_⟩
      intro x hx
      simp only [List.mem_append, List.mem_singleton] at hx
      rcases hx with hx | rfl
      · exact h.2 x hx
      · exact ht.symm

theorem fileTypeOf_append (ss : List Shape) (s : Shape) (ht : ss = [] ∨ fileTypeOf ss = s.writeType) :
    fileTypeOf (ss ++ [s]) = s.writeType := by
  cases ss with
  | nil => rfl
  | cons a as =>
    rcases ht with ht | ht
    · cases ht
    · exact ht

theorem boxOf_append (ss : List Shape) (s : Shape) (ht : ss = [] ∨ fileTypeOf ss = s.writeType) :
    boxOf (ss ++ [s]) = growFromShape s.writeType (if ss = [] then sentinelBox else boxOf ss) s := by
  cases ss with
  | nil => rfl
  | cons a as =>
    rcases ht with ht | ht
    · cases ht
    · simp only [fileTypeOf] at ht
      simp [boxOf, List.foldl_append, ht]

/-- an accepted `write_shape` on healthy destinations appends one record and one index entry -/
theorem WInv.write {w : World} {ss : List Shape} (h : WInv w ss) (s : Shape)
    (hs : s.writeType ≠ .nullShape) (ht : ss = [] ∨ fileTypeOf ss = s.writeType) :
    (w.call (.writeShape s)).2 = .ok () ∧ WInv (w.call (.writeShape s)).1 (ss ++ [s]) ∧
    (w.call (.writeShape s)).1.st.hasShx = w.st.hasShx := by
  have hft := fileTypeOf_append ss s ht
  obtain ⟨hb, hhb, hdata, hpos⟩ := h.shp
  by_cases hnil : ss = []
  · -- first write: the header is (re)written at offset 0, then the record
    subst hnil
    have hn : w.st.header.shapeType = .nullShape := h.shapeType
    rw [call_write_first w s hn]
    have hlen : (firstHeader w.st s).enc.length = 100 := Header.enc_length _
    simp only [recordsFrom, List.append_nil] at hdata
    have hshp := Dst.first_write w.shp (firstHeader w.st s).enc (encRecord w.st.recNum s.writeType s)
      (by rcases hhb with hhb | ⟨h1, _⟩
          · left; rw [hdata]; exact hhb
          · right; rw [hdata]; exact h1) hlen
    refine ⟨rfl, ?_, rfl⟩
    refine ⟨homog_append h.homog hs ht, ?_, ?_, ?_, ?_, ?_, ?_, ?_, ?_⟩
    · show (postWrite w.st (firstHeader w.st s) s).recNum = _
      simp only [postWrite, h.recNum, List.nil_append, List.length_cons, List.length_nil]
    · show (postWrite w.st (firstHeader w.st s) s).header.fileLength = _
      simp only [postWrite, firstHeader, h.fileLength, totalWords, List.nil_append]; push_cast; omega
    · show (postWrite w.st (firstHeader w.st s) s).header.version = _
      simp only [postWrite, firstHeader, h.version]
    · show (postWrite w.st (firstHeader w.st s) s).header.shapeType = _
      simp only [postWrite, firstHeader, hft]
    · show (postWrite w.st (firstHeader w.st s) s).header.bbox = _
      simp only [postWrite, firstHeader, boxOf, List.nil_append, List.foldl_cons, List.foldl_nil]
    · refine ⟨(firstHeader w.st s).enc, Or.inl hlen, ?_, ?_⟩
      · show (((w.shp.apply _).apply _).apply _).data = _
        rw [hshp, hft]; simp only [recordsFrom, List.nil_append, List.append_nil, h.recNum, List.length_nil]
      · show (((w.shp.apply _).apply _).apply _).pos = (((w.shp.apply _).apply _).apply _).data.length
        rw [hshp]
    · show (if (postWrite w.st (firstHeader w.st s) s).hasShx then _ else _)
      cases hx : w.st.hasShx
      · have hxe : w.shx = Dst.empty := by have := h.shx; rw [hx] at this; simpa using this
        simp only [postWrite, hx, Bool.false_eq_true, if_false]; exact hxe
      · have hxi := h.shx
        rw [hx] at hxi
        simp only [if_true] at hxi
        obtain ⟨xb, hxb, hxdata, hxpos⟩ := hxi
        simp only [entriesFrom, List.append_nil] at hxdata
        have hshx := Dst.first_write w.shx (firstHeader w.st s).enc
          (IndexEntry.enc ⟨w.st.header.fileLength, recordSizeWords s⟩)
          (by rcases hxb with hxb | ⟨h1, _⟩
              · left; rw [hxdata]; exact hxb
              · right; rw [hxdata]; exact h1) hlen
        simp only [postWrite, hx, if_true]
        refine ⟨(firstHeader w.st s).enc, Or.inl hlen, ?_, ?_⟩
        · rw [hshx]; simp only [entriesFrom, List.nil_append, List.append_nil, h.fileLength, totalWords]; rfl
        · rw [hshx]
    · intro hc; simp [postWrite] at hc
  · -- a later write: appended at the end
    have ht' : fileTypeOf ss = s.writeType := by
      rcases ht with ht | ht
      · exact absurd ht hnil
      · exact ht
    have hnn : w.st.header.shapeType ≠ .nullShape := by rw [h.shapeType, ht']; exact hs
    have hty : w.st.header.shapeType = s.writeType := by rw [h.shapeType, ht']
    rw [call_write_next w s hnn hty]
    have hb100 : hb.length = 100 := by
      rcases hhb with hhb | ⟨_, h2⟩
      · exact hhb
      · exact absurd h2 hnil
    refine ⟨rfl, ?_, rfl⟩
    refine ⟨homog_append h.homog hs ht, ?_, ?_, ?_, ?_, ?_, ?_, ?_, ?_⟩
    · show (postWrite w.st w.st.header s).recNum = _
      simp [postWrite, h.recNum]
    · show (postWrite w.st w.st.header s).header.fileLength = _
      simp only [postWrite, h.fileLength, totalWords_append]; push_cast; omega
    · show (postWrite w.st w.st.header s).header.version = _
      simp only [postWrite, h.version]
    · show (postWrite w.st w.st.header s).header.shapeType = _
      simp only [postWrite, hft, hty]
    · show (postWrite w.st w.st.header s).header.bbox = _
      simp only [postWrite, boxOf_append ss s ht, hnil, if_false, h.bbox]
    · refine ⟨hb, Or.inl hb100, ?_, ?_⟩
      · show (w.shp.apply _).data = _
        rw [Dst.apply_write_end _ _ hpos, hdata, hft, ht', recordsFrom_append, h.recNum]
        simp only [List.append_assoc]
        congr 3
        push_cast; omega
      · show (w.shp.apply _).pos = (w.shp.apply _).data.length
        rw [Dst.apply_write_end _ _ hpos]
    · show (if (postWrite w.st w.st.header s).hasShx then _ else _)
      cases hx : w.st.hasShx
      · have hxe : w.shx = Dst.empty := by have := h.shx; rw [hx] at this; simpa using this
        simp only [postWrite, hx, Bool.false_eq_true, if_false]; exact hxe
      · have hxi := h.shx
        rw [hx] at hxi
        simp only [if_true] at hxi
        obtain ⟨xb, hxb, hxdata, hxpos⟩ := hxi
        have xb100 : xb.length = 100 := by
          rcases hxb with hxb | ⟨_, h2⟩
          · exact hxb
          · exact absurd h2 hnil
        simp only [postWrite, hx, if_true]
        refine ⟨xb, Or.inl xb100, ?_, ?_⟩
        · rw [Dst.apply_write_end _ _ hxpos, hxdata, entriesFrom_append, h.fileLength]
          simp only [List.append_assoc]
          congr 3
        · rw [Dst.apply_write_end _ _ hxpos]
    · intro hc; simp [postWrite] at hc


end Shp

/- Lengths of the encoders' outputs. -/
import Shp.Model.Encode
namespace Shp

theorem flatMap_length_const {α : Type} (f : α → Bytes) (k : Nat) (h : ∀ a, (f a).length = k) (l : List α) :
    (l.flatMap f).length = k * l.length := by
  induction l with
  | nil => simp
  | cons a as ih => simp [List.flatMap_cons, h, ih, Nat.mul_add]; omega

@[simp] theorem encXY_length (ps : List Pt) : (encXY ps).length = 16 * ps.length :=
  flatMap_length_const _ 16 (by intro p; simp) ps
@[simp] theorem encZs_length (ps : List Pt) : (encZs ps).length = 8 * ps.length :=
  flatMap_length_const _ 8 (by intro p; simp) ps
@[simp] theorem encMs_length (ps : List Pt) : (encMs ps).length = 8 * ps.length :=
  flatMap_length_const _ 8 (by intro p; simp) ps
@[simp] theorem encBBoxXY_length (b : BBox) : (encBBoxXY b).length = 32 := by simp [encBBoxXY]
@[simp] theorem encZRange_length (b : BBox) : (encZRange b).length = 16 := by simp [encZRange]
@[simp] theorem encMRange_length (b : BBox) : (encMRange b).length = 16 := by simp [encMRange]
@[simp] theorem encI32s_length (l : List Int) : (encI32s l).length = 4 * l.length :=
  flatMap_length_const _ 4 (by intro p; simp) l

theorem flatMap_parts_length (f : List Pt → Bytes) (k : Nat) (h : ∀ ps, (f ps).length = k * ps.length)
    (parts : List (List Pt)) : (parts.flatMap f).length = k * totalPoints parts := by
  induction parts with
  | nil => simp [totalPoints]
  | cons p ps ih =>
    simp only [List.flatMap_cons, List.length_append, h, ih, totalPoints, List.map_cons, List.sum_cons,
      Nat.mul_add]

@[simp] theorem flatMap_encXY_length (parts : List (List Pt)) :
    (parts.flatMap encXY).length = 16 * totalPoints parts := flatMap_parts_length _ 16 (by simp) parts
@[simp] theorem flatMap_encZs_length (parts : List (List Pt)) :
    (parts.flatMap encZs).length = 8 * totalPoints parts := flatMap_parts_length _ 8 (by simp) parts
@[simp] theorem flatMap_encMs_length (parts : List (List Pt)) :
    (parts.flatMap encMs).length = 8 * totalPoints parts := flatMap_parts_length _ 8 (by simp) parts

@[simp] theorem offsetsFrom_length (s : Nat) (l : List Nat) : (offsetsFrom s l).length = l.length := by
  induction l generalizing s with
  | nil => rfl
  | cons a as ih => simp [offsetsFrom, ih]

@[simp] theorem partOffsets_length (parts : List (List Pt)) : (partOffsets parts).length = parts.length := by
  simp [partOffsets]

theorem encZM_length (d : Dim) (b : BBox) (parts : List (List Pt)) :
    (encZM d b parts).length =
      (if d.hasZ then 16 + 8 * totalPoints parts else 0) + (if d.hasM then 16 + 8 * totalPoints parts else 0) := by
  unfold encZM
  cases d <;> simp only [Dim.hasZ, Dim.hasM, if_true, Bool.false_eq_true, if_false, List.length_append,
    encZRange_length, encMRange_length, flatMap_encZs_length, flatMap_encMs_length, List.length_nil]

@[simp] theorem totalPoints_singleton (ps : List Pt) : totalPoints [ps] = ps.length := by
  simp [totalPoints]

end Shp

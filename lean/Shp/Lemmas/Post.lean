/- Generic reasoning principles for decoders: post-conditions and absence of panics. -/
import Shp.Prim.Dec
namespace Shp
namespace Dec
variable {α β : Type}

theorem bind_ok {d : Dec α} {f : α → Dec β} {bs : Bytes} {b : β} {rest : Bytes}
    (h : Dec.bind d f bs = .ok b rest) : ∃ a r, d bs = .ok a r ∧ f a r = .ok b rest := by
  unfold Dec.bind at h
  cases hd : d bs with
  | ok a r => rw [hd] at h; exact ⟨a, r, rfl, h⟩
  | err e => rw [hd] at h; cases h
  | panic s => rw [hd] at h; cases h

theorem bind_of_ok {d : Dec α} {f : α → Dec β} {bs : Bytes} {a : α} {r : Bytes}
    (h : d bs = .ok a r) : Dec.bind d f bs = f a r := by
  unfold Dec.bind; rw [h]

/-- every value `d` can return satisfies `P` -/
def Post (d : Dec α) (P : α → Prop) : Prop := ∀ bs a rest, d bs = .ok a rest → P a

theorem Post.pure {a : α} {P : α → Prop} (h : P a) : Post (Dec.pure a) P := by
  intro bs a' rest he
  simp only [Dec.pure, Res.ok.injEq] at he
  exact he.1 ▸ h

theorem Post.fail {e : Err} {P : α → Prop} : Post (Dec.fail e : Dec α) P := by
  intro bs a rest he; simp [Dec.fail] at he

theorem Post.panic {s : String} {P : α → Prop} : Post (Dec.panic s : Dec α) P := by
  intro bs a rest he; simp [Dec.panic] at he

theorem Post.bind {d : Dec α} {f : α → Dec β} {P : β → Prop} (hf : ∀ a, Post (f a) P) :
    Post (Dec.bind d f) P := by
  intro bs b rest he
  obtain ⟨a, r, _, h2⟩ := bind_ok he
  exact hf a r b rest h2

/-- use what is known about the first decoder's value in the continuation -/
theorem Post.bind' {d : Dec α} {f : α → Dec β} {Q : α → Prop} {P : β → Prop}
    (hd : Post d Q) (hf : ∀ a, Q a → Post (f a) P) : Post (Dec.bind d f) P := by
  intro bs b rest he
  obtain ⟨a, r, h1, h2⟩ := bind_ok he
  exact hf a (hd bs a r h1) r b rest h2

theorem Post.ite {c : Prop} [Decidable c] {d1 d2 : Dec α} {P : α → Prop}
    (h1 : c → Post d1 P) (h2 : ¬c → Post d2 P) : Post (if c then d1 else d2) P := by
  split
  · exact h1 ‹_›
  · exact h2 ‹_›

theorem Post.mono {d : Dec α} {P Q : α → Prop} (h : Post d P) (hpq : ∀ a, P a → Q a) : Post d Q :=
  fun bs a rest he => hpq a (h bs a rest he)

theorem Post.true (d : Dec α) : Post d (fun _ => True) := fun _ _ _ _ => trivial

/-- `d` never panics, whatever the bytes -/
def NoPanic (d : Dec α) : Prop := ∀ bs, (d bs).isPanic = false

theorem NoPanic.pure (a : α) : NoPanic (Dec.pure a) := fun _ => rfl
theorem NoPanic.fail (e : Err) : NoPanic (Dec.fail e : Dec α) := fun _ => rfl

theorem NoPanic.bind' {d : Dec α} {f : α → Dec β} {Q : α → Prop}
    (hd : NoPanic d) (hq : Post d Q) (hf : ∀ a, Q a → NoPanic (f a)) : NoPanic (Dec.bind d f) := by
  intro bs
  unfold Dec.bind
  cases hdb : d bs with
  | ok a r => exact hf a (hq bs a r hdb) r
  | err e => rfl
  | panic s => have := hd bs; rw [hdb] at this; exact this

theorem NoPanic.bind {d : Dec α} {f : α → Dec β}
    (hd : NoPanic d) (hf : ∀ a, NoPanic (f a)) : NoPanic (Dec.bind d f) :=
  NoPanic.bind' hd (Post.true d) fun a _ => hf a

theorem NoPanic.ite {c : Prop} [Decidable c] {d1 d2 : Dec α}
    (h1 : c → NoPanic d1) (h2 : ¬c → NoPanic d2) : NoPanic (if c then d1 else d2) := by
  split
  · exact h1 ‹_›
  · exact h2 ‹_›

theorem NoPanic.take (n : Nat) : NoPanic (take n) := by
  intro bs; unfold Dec.take; split <;> rfl

theorem NoPanic.u32LE : NoPanic u32LE := by
  intro bs; unfold Dec.u32LE; split <;> rfl
theorem NoPanic.u32BE : NoPanic u32BE := by
  intro bs; unfold Dec.u32BE; split <;> rfl
theorem NoPanic.i32LE : NoPanic i32LE := by
  intro bs; unfold Dec.i32LE; have := NoPanic.u32LE bs; cases h : Dec.u32LE bs <;> simp_all [Res.map, Res.isPanic]
theorem NoPanic.i32BE : NoPanic i32BE := by
  intro bs; unfold Dec.i32BE; have := NoPanic.u32BE bs; cases h : Dec.u32BE bs <;> simp_all [Res.map, Res.isPanic]
theorem NoPanic.f64 : NoPanic f64 := by
  intro bs; unfold Dec.f64; split <;> rfl

theorem NoPanic.repeatN (n : Nat) {d : Dec α} (hd : NoPanic d) : NoPanic (repeatN n d) := by
  induction n with
  | zero => exact NoPanic.pure _
  | succ n ih =>
    unfold Dec.repeatN
    exact NoPanic.bind hd fun a => NoPanic.bind ih fun as => NoPanic.pure _

theorem NoPanic.mapM' {f : α → Dec β} (hf : ∀ a, NoPanic (f a)) (l : List α) : NoPanic (mapM' f l) := by
  induction l with
  | nil => exact NoPanic.pure _
  | cons a as ih =>
    unfold Dec.mapM'
    exact NoPanic.bind (hf a) fun b => NoPanic.bind ih fun bs => NoPanic.pure _

/-- values read as `i32` are in the `i32` range -/
theorem Post.i32LE : Post i32LE InI32 := by
  intro bs a rest h
  unfold Dec.i32LE Dec.u32LE at h
  split at h <;> simp [Res.map] at h
  obtain ⟨h1, _⟩ := h
  subst h1
  exact toI32_inI32 _ (decU32LE_lt _ _ _ _)

theorem Post.i32BE : Post i32BE InI32 := by
  intro bs a rest h
  unfold Dec.i32BE Dec.u32BE at h
  split at h <;> simp [Res.map] at h
  obtain ⟨h1, _⟩ := h
  subst h1
  exact toI32_inI32 _ (decU32LE_lt _ _ _ _)

end Dec
end Shp

/- Framed records, headers and index files: the decoders invert the writer's encoders. -/
import Shp.Lemmas.Record
import Shp.Lemmas.History
namespace Shp
open Dec

theorem ShapeType.code_inI32 (t : ShapeType) : InI32 t.code := by cases t <;> decide

theorem readShapeType_enc (t : ShapeType) (r : Bytes) : readShapeType (encI32LE t.code ++ r) = .ok t r := by
  unfold readShapeType
  rw [bind_exact (i32LE_enc _ t.code_inI32)]
  have : ShapeType.ofCode t.code = some t := by cases t <;> decide
  simp [this, Dec.pure]

theorem dispatch_snd (t : ShapeType) (h : t ≠ .nullShape) : (dispatch t).2 = some t := by
  cases t <;> first | rfl | exact absurd rfl h

/-- what a read is asked to produce accepts records of type `t` -/
def Target.Accepts : Target → ShapeType → Prop
  | .generic, _ => True
  | .typed t', t => t' = t

/-- MAIN (framed record): one record written by `write_shape` is read back, by the generic
reader or by the reader of its own type, as the normalised shape; exactly its bytes are consumed. -/
theorem readOneShape_encRecord (o : Orient) (tg : Target) (num : Int) (s : Shape) (r : Bytes)
    (hn : InI32 num) (hs : s.Sized) (hnull : s ≠ .null) (htg : tg.Accepts s.writeType) :
    readOneShape o tg (encRecord num s.writeType s ++ r) = .ok ((recordSizeWords s : Int), s.readBack o) r := by
  have hw := C18.record_words s
  have hlen := C18.encodeContent_length s
  unfold Shape.Sized at hs
  unfold readOneShape encRecord
  simp only [List.append_assoc]
  rw [bind_exact (i32BE_enc num hn)]
  rw [bind_exact (i32BE_enc _ (by unfold InI32; omega))]
  have hwb : wordsToBytes (recordSizeWords s : Int) = some (2 * (recordSizeWords s : Int)) := by
    unfold wordsToBytes; rw [if_neg (by omega)]
  rw [hwb]
  simp only []
  rw [if_neg (by omega)]
  have hsz : (2 * (recordSizeWords s : Int)) - 4 = (s.sizeInBytes : Int) := by omega
  have hsub : subTypeCode (2 * (recordSizeWords s : Int)) = Dec.pure (s.sizeInBytes : Int) := by
    unfold subTypeCode
    rw [hsz, if_pos (by unfold InI32; omega)]
  have hne := s.writeType_ne_null hnull
  have hcontent := readContentOf_encodeContent o s hs r
  cases tg with
  | generic =>
    simp only [readTarget, readShape]
    rw [bind_of_ok (show Dec.bind _ _ _ = _ from by
      rw [bind_exact (readShapeType_enc s.writeType), hsub]
      show Dec.bind (Dec.pure _) _ _ = _
      unfold Dec.bind Dec.pure
      simp only [dispatch_snd _ hne]
      exact hcontent)]
    rfl
  | typed t' =>
    have : t' = s.writeType := htg
    subst this
    simp only [readTarget, readShapeAs]
    rw [bind_of_ok (show Dec.bind _ _ _ = _ from by
      rw [bind_exact (readShapeType_enc s.writeType), hsub]
      show Dec.bind (Dec.pure _) _ _ = _
      unfold Dec.bind Dec.pure
      simp only [if_true]
      exact hcontent)]
    rfl

theorem readHeader_enc (h : Header) (hfl : InI32 h.fileLength) (hv : InI32 h.version) (r : Bytes) :
    readHeader (h.enc ++ r) = .ok h r := by
  unfold readHeader Header.enc
  simp only [List.append_assoc]
  rw [bind_exact (i32BE_enc _ (by decide))]
  rw [if_neg (by simp)]
  have hz : (zeros 20).length = 20 := zeros_length 20
  rw [bind_exact (show ∀ r, take 20 (zeros 20 ++ r) = .ok (zeros 20) r from fun r => by
    have := take_append (zeros 20) r; rwa [hz] at this)]
  rw [bind_exact (i32BE_enc _ hfl), bind_exact (i32LE_enc _ hv), bind_exact (readShapeType_enc _)]
  rw [bind_exact (f64_enc _), bind_exact (f64_enc _), bind_exact (f64_enc _), bind_exact (f64_enc _),
    bind_exact (f64_enc _), bind_exact (f64_enc _), bind_exact (f64_enc _), bind_exact (f64_enc _)]
  rfl

/-- the index entries `write_shape` emits for the shapes `ss`, first record at word `off` -/
def indexEntriesFrom (off : Nat) : List Shape → List IndexEntry
  | [] => []
  | s :: ss => ⟨off, recordSizeWords s⟩ :: indexEntriesFrom (off + recordSizeWords s + 4) ss

theorem entriesFrom_eq (off : Nat) (ss : List Shape) :
    entriesFrom off ss = (indexEntriesFrom off ss).flatMap IndexEntry.enc := by
  induction ss generalizing off with
  | nil => rfl
  | cons s ss ih => simp [entriesFrom, indexEntriesFrom, ih]

@[simp] theorem indexEntriesFrom_length (off : Nat) (ss : List Shape) : (indexEntriesFrom off ss).length = ss.length := by
  induction ss generalizing off with
  | nil => rfl
  | cons s ss ih => simp [indexEntriesFrom, ih]

theorem indexEntriesFrom_inI32 (off : Nat) (ss : List Shape) (hb : off + totalWords ss < 2147483648) :
    ∀ e ∈ indexEntriesFrom off ss, InI32 e.offset ∧ InI32 e.recordSize := by
  induction ss generalizing off with
  | nil => simp [indexEntriesFrom]
  | cons s ss ih =>
    simp only [totalWords] at hb
    intro e he
    simp only [indexEntriesFrom, List.mem_cons] at he
    rcases he with rfl | he
    · unfold InI32; simp only; omega
    · exact ih _ (by omega) e he

theorem readIndexEntry_enc (e : IndexEntry) (h : InI32 e.offset ∧ InI32 e.recordSize) (r : Bytes) :
    readIndexEntry (e.enc ++ r) = .ok e r := by
  unfold readIndexEntry IndexEntry.enc
  rw [List.append_assoc, bind_exact (i32BE_enc _ h.1), bind_exact (i32BE_enc _ h.2)]
  rfl

/-- the whole `.shx` written for `ss` is parsed back into exactly its entries -/
theorem readIndexFile_shxFile (ss : List Shape) (hb : 50 + totalWords ss < 2147483648) :
    readIndexFile (shxFile ss) = .ok (indexEntriesFrom 50 ss) [] := by
  have hlen4 : ss.length * 4 ≤ totalWords ss := by
    induction ss with
    | nil => simp [totalWords]
    | cons s ss ih =>
      simp only [totalWords, List.length_cons] at hb ⊢
      have := ih (by omega); omega
  unfold readIndexFile shxFile
  rw [bind_exact (readHeader_enc (finalShxHeader ss) (by unfold InI32 finalShxHeader; simp only; omega)
    (by unfold InI32; simp [finalShxHeader, finalHeader]))]
  have hwb : wordsToBytes (finalShxHeader ss).fileLength = some (2 * (50 + 4 * (ss.length : Int))) := by
    unfold wordsToBytes finalShxHeader
    simp only
    rw [if_neg (by omega)]
  rw [hwb]
  simp only []
  have hn : ((if 2 * (50 + 4 * (ss.length : Int)) < (Const.headerSize : Int) then 0
      else 2 * (50 + 4 * (ss.length : Int)) - (Const.headerSize : Int)) / (Const.indexRecordSize : Int)).toNat = ss.length := by
    have hlt : ¬ (2 * (50 + 4 * (ss.length : Int)) < (Const.headerSize : Int)) := by
      simp only [Const.headerSize]; omega
    rw [if_neg hlt]
    simp only [Const.headerSize, Const.indexRecordSize]
    omega
  rw [hn, entriesFrom_eq]
  have := repeatN_exact readIndexEntry IndexEntry.enc (indexEntriesFrom 50 ss)
    (fun e he r => readIndexEntry_enc e (indexEntriesFrom_inI32 50 ss hb e he) r) []
  rw [indexEntriesFrom_length, List.append_nil] at this
  exact this

end Shp

/-
Every content decoder inverts its encoder and consumes exactly what the encoder emitted
(`Exact`), for all shapes within the format's `i32` limits.
-/
import Shp.Lemmas.Codec
import Shp.Model.Norm
namespace Shp
open Dec

def xyOnly (p : Pt) : Pt := { Pt.default with x := p.x, y := p.y }

theorem readXYPt_enc (p : Pt) (r : Bytes) : readXYPt (p.x.enc ++ p.y.enc ++ r) = .ok (xyOnly p) r := by
  unfold readXYPt
  rw [List.append_assoc, bind_exact (f64_enc p.x), bind_exact (f64_enc p.y)]
  rfl

theorem readCounted_nat {α : Type} (n : Nat) (d : Dec α) : readCounted (n : Int) d = repeatN n d := by
  unfold readCounted
  have : ¬ ((n : Int) < 0) := by omega
  simp [this]

theorem readXYVec_enc (ps : List Pt) (r : Bytes) :
    readXYVec ps.length (encXY ps ++ r) = .ok (ps.map xyOnly) r := by
  unfold readXYVec
  rw [readCounted_nat]
  exact repeatN_exact_map readXYPt (fun p => p.x.enc ++ p.y.enc) xyOnly ps (fun a r => readXYPt_enc a r) r

theorem readBBoxXY_enc (b : BBox) (r : Bytes) :
    readBBoxXY (encBBoxXY b ++ r) = .ok ⟨xyOnly b.min, xyOnly b.max⟩ r := by
  unfold readBBoxXY encBBoxXY
  simp only [List.append_assoc]
  rw [bind_exact (f64_enc _), bind_exact (f64_enc _), bind_exact (f64_enc _), bind_exact (f64_enc _)]
  rfl

theorem readZsInto_enc (hh : Pt → Pt) (ps : List Pt) (r : Bytes) :
    readZsInto (ps.map hh) (encZs ps ++ r) = .ok (ps.map fun p => { hh p with z := p.z }) r := by
  unfold readZsInto encZs
  exact mapM'_exact_map _ hh (fun p => p.z.enc) _ ps (fun a r => by rw [bind_exact (f64_enc a.z)]; rfl) r

theorem readMsInto_enc (hh : Pt → Pt) (ps : List Pt) (r : Bytes) :
    readMsInto (ps.map hh) (encMs ps ++ r) = .ok (ps.map fun p => { hh p with m := p.m.maxNoData }) r := by
  unfold readMsInto encMs
  exact mapM'_exact_map _ hh (fun p => p.m.enc) _ ps (fun a r => by rw [bind_exact (f64_enc a.m)]; rfl) r

theorem readZs_enc (hh : Pt → Pt) (b' b : BBox) (parts : List (List Pt)) (r : Bytes) :
    readZs b' (parts.map (List.map hh)) (encZRange b ++ (parts.flatMap encZs ++ r)) =
      .ok (⟨{ b'.min with z := b.min.z }, { b'.max with z := b.max.z }⟩,
           parts.map (List.map fun p => { hh p with z := p.z })) r := by
  unfold readZs encZRange
  simp only [List.append_assoc]
  rw [bind_exact (f64_enc _), bind_exact (f64_enc _)]
  rw [bind_of_ok (mapM'_exact_map readZsInto (List.map hh) encZs (List.map fun p => { hh p with z := p.z }) parts
    (fun a r => readZsInto_enc hh a r) r)]
  rfl

theorem readMs_enc (hh : Pt → Pt) (b' b : BBox) (parts : List (List Pt)) (r : Bytes) :
    readMs b' (parts.map (List.map hh)) (encMRange b ++ (parts.flatMap encMs ++ r)) =
      .ok (⟨{ b'.min with m := b.min.m }, { b'.max with m := b.max.m }⟩,
           parts.map (List.map fun p => { hh p with m := p.m.maxNoData })) r := by
  unfold readMs encMRange
  simp only [List.append_assoc]
  rw [bind_exact (f64_enc _), bind_exact (f64_enc _)]
  rw [bind_of_ok (mapM'_exact_map readMsInto (List.map hh) encMs (List.map fun p => { hh p with m := p.m.maxNoData }) parts
    (fun a r => readMsInto_enc hh a r) r)]
  rfl

/-- Z/M blocks with an optional M block (`mPresent = false`: the layout other producers may emit) -/
def encZMopt (d : Dim) (mPresent : Bool) (b : BBox) (parts : List (List Pt)) : Bytes :=
  (if d.hasZ then encZRange b ++ parts.flatMap encZs else []) ++
  (if d.hasM && mPresent then encMRange b ++ parts.flatMap encMs else [])

theorem encZM_eq (d : Dim) (b : BBox) (parts : List (List Pt)) : encZM d b parts = encZMopt d true b parts := by
  unfold encZM encZMopt; simp

theorem Pt.readBackOpt_true (d : Dim) (p : Pt) : p.readBackOpt d true = p.readBack d := by
  simp [Pt.readBackOpt, Pt.readBack]
theorem Pt.readBackOpt_true' (d : Dim) : Pt.readBackOpt d true = Pt.readBack d :=
  funext (Pt.readBackOpt_true d)
theorem BBox.readRawOpt_true (d : Dim) (b : BBox) : b.readRawOpt d true = b.readRaw d := by
  simp [BBox.readRawOpt, BBox.readRaw, Pt.readRawOpt, Pt.readRaw]

theorem readZM_enc (d : Dim) (mPresent : Bool) (b : BBox) (parts : List (List Pt)) (r : Bytes) :
    readZM d mPresent ⟨xyOnly b.min, xyOnly b.max⟩ (parts.map (List.map xyOnly)) (encZMopt d mPresent b parts ++ r) =
      .ok (b.readRawOpt d mPresent, parts.map (List.map (Pt.readBackOpt d mPresent))) r := by
  unfold readZM encZMopt
  cases d <;> cases mPresent <;>
    simp only [Dim.hasZ, Dim.hasM, Bool.false_eq_true, if_false, if_true, Bool.and_true, Bool.and_false, Bool.false_and,
      List.nil_append, List.append_nil, List.append_assoc]
  -- xy
  · rfl
  · rfl
  -- xym
  · rfl
  · rw [bind_of_ok (show Dec.pure _ _ = Res.ok _ _ from rfl)]
    simp only []
    rw [readMs_enc xyOnly]
    simp [BBox.readRawOpt, Pt.readRawOpt, Pt.readBackOpt, xyOnly, Pt.default, Dim.hasZ, Dim.hasM]
  -- xyzm
  · rw [bind_of_ok (readZs_enc xyOnly _ b parts r)]
    simp [Dec.pure, BBox.readRawOpt, Pt.readRawOpt, Pt.readBackOpt, xyOnly, Pt.default, Dim.hasZ, Dim.hasM]
  · rw [bind_of_ok (readZs_enc xyOnly _ b parts _)]
    simp only []
    rw [readMs_enc (fun p => { xyOnly p with z := p.z })]
    simp [BBox.readRawOpt, Pt.readRawOpt, Pt.readBackOpt, xyOnly, Pt.default, Dim.hasZ, Dim.hasM]

/-- part offsets written as running sums are turned back into the part lengths -/
theorem readPartsXY_offsets (parts : List (List Pt)) (s : Nat) (r : Bytes)
    (hb : s + totalPoints parts < 2147483648) :
    readPartsXY (partBounds ((s + totalPoints parts : Nat) : Int) ((offsetsFrom s (parts.map List.length)).map Int.ofNat))
        (parts.flatMap encXY ++ r) = .ok (parts.map (List.map xyOnly)) r := by
  induction parts generalizing s with
  | nil => rfl
  | cons p ps ih =>
    have htot : totalPoints (p :: ps) = p.length + totalPoints ps := by simp [totalPoints]
    rw [htot] at hb ⊢
    cases ps with
    | nil =>
      simp only [List.map_cons, List.map_nil, offsetsFrom, partBounds, readPartsXY, Dec.mapM', List.flatMap_cons,
        List.flatMap_nil, List.append_nil, totalPoints, List.sum_nil, Nat.add_zero, Int.ofNat_eq_natCast]
      have hn : ((s + p.length : Nat) : Int) - (s : Int) = (p.length : Int) := by omega
      rw [hn]
      have hc : ¬ ((p.length : Int) < 0 ∨ (2147483648 : Int) ≤ (p.length : Int)) := by
        simp only [totalPoints, List.map_nil, List.sum_nil] at hb; omega
      rw [if_neg hc, bind_of_ok (readXYVec_enc p r)]
      rfl
    | cons q qs =>
      have htot2 : totalPoints (q :: qs) = q.length + totalPoints qs := by simp [totalPoints]
      have ih' := ih (s + p.length) (by omega)
      simp only [List.map_cons, offsetsFrom, partBounds, List.flatMap_cons, List.append_assoc,
        Int.ofNat_eq_natCast] at ih' ⊢
      unfold readPartsXY at ih' ⊢
      simp only [Dec.mapM']
      have hn : ((s + p.length : Nat) : Int) - (s : Int) = (p.length : Int) := by omega
      rw [hn]
      have hc : ¬ ((p.length : Int) < 0 ∨ (2147483648 : Int) ≤ (p.length : Int)) := by omega
      rw [if_neg hc, bind_of_ok (readXYVec_enc p _)]
      have e1 : s + (p.length + totalPoints (q :: qs)) = s + p.length + totalPoints (q :: qs) := by omega
      rw [e1]
      simp only [List.map_cons, offsetsFrom, partBounds, Int.ofNat_eq_natCast] at ih'
      rw [bind_of_ok ih']
      rfl

theorem partOffsets_inI32 (parts : List (List Pt)) (s : Nat) (hb : s + totalPoints parts < 2147483648) :
    ∀ o ∈ (offsetsFrom s (parts.map List.length)).map Int.ofNat, InI32 o := by
  induction parts generalizing s with
  | nil => simp [offsetsFrom]
  | cons p ps ih =>
    have htot : totalPoints (p :: ps) = p.length + totalPoints ps := by simp [totalPoints]
    rw [htot] at hb
    intro o ho
    simp only [List.map_cons, offsetsFrom, List.mem_cons] at ho
    rcases ho with rfl | ho
    · unfold InI32; simp only [Int.ofNat_eq_natCast]; omega
    · exact ih (s + p.length) (by omega) o ho

theorem readI32s_enc (l : List Int) (h : ∀ i ∈ l, InI32 i) (r : Bytes) :
    readCounted (l.length : Int) i32LE (encI32s l ++ r) = .ok l r := by
  rw [readCounted_nat]
  exact repeatN_exact i32LE encI32LE l (fun a ha r => i32LE_enc a (h a ha) r) r

theorem readMultiPartHeader_enc (b : BBox) (parts : List (List Pt)) (r : Bytes)
    (hb : totalPoints parts < 2147483648) (hp : parts.length < 2147483648) :
    readMultiPartHeader (encBBoxXY b ++ (encI32LE parts.length ++ (encI32LE (totalPoints parts) ++
        (encI32s ((partOffsets parts).map Int.ofNat) ++ r)))) =
      .ok ⟨⟨xyOnly b.min, xyOnly b.max⟩, parts.length, totalPoints parts, (partOffsets parts).map Int.ofNat⟩ r := by
  unfold readMultiPartHeader
  rw [bind_exact (readBBoxXY_enc b)]
  rw [bind_exact (i32LE_enc _ (by unfold InI32; omega))]
  rw [bind_exact (i32LE_enc _ (by unfold InI32; omega))]
  have hlen : ((partOffsets parts).map Int.ofNat).length = parts.length := by simp
  have := readI32s_enc ((partOffsets parts).map Int.ofNat) (partOffsets_inI32 parts 0 (by omega)) r
  rw [hlen] at this
  rw [bind_of_ok this]
  rfl

/-- multi-part content with an optional M block -/
def encMultiPartOpt (d : Dim) (mPresent : Bool) (b : BBox) (parts : List (List Pt)) : Bytes :=
  encBBoxXY b ++ encI32LE parts.length ++ encI32LE (totalPoints parts) ++
  encI32s ((partOffsets parts).map Int.ofNat) ++ parts.flatMap encXY ++ encZMopt d mPresent b parts

theorem encMultiPart_eq (d : Dim) (b : BBox) (parts : List (List Pt)) :
    encMultiPart d b parts = encMultiPartOpt d true b parts := by
  unfold encMultiPart encMultiPartOpt; rw [encZM_eq]

theorem encZMopt_length (d : Dim) (m : Bool) (b : BBox) (parts : List (List Pt)) :
    (encZMopt d m b parts).length =
      (if d.hasZ then 16 + 8 * totalPoints parts else 0) + (if d.hasM && m then 16 + 8 * totalPoints parts else 0) := by
  unfold encZMopt
  cases d <;> cases m <;> simp only [Dim.hasZ, Dim.hasM, if_true, Bool.false_eq_true, if_false, List.length_append,
    encZRange_length, encMRange_length, flatMap_encZs_length, flatMap_encMs_length, List.length_nil, Bool.and_true,
    Bool.and_false, Bool.and_self]

theorem encMultiPartOpt_length (d : Dim) (m : Bool) (b : BBox) (parts : List (List Pt)) :
    (encMultiPartOpt d m b parts).length =
      40 + 4 * parts.length + 16 * totalPoints parts +
      ((if d.hasZ then 16 + 8 * totalPoints parts else 0) + (if d.hasM && m then 16 + 8 * totalPoints parts else 0)) := by
  unfold encMultiPartOpt
  simp only [List.length_append, encBBoxXY_length, encI32LE_length, encI32s_length, List.length_map,
    partOffsets_length, flatMap_encXY_length, encZMopt_length]

/-- the polyline reader inverts the multi-part encoder, with or without the optional M block -/
theorem readPolylineContent_enc (d : Dim) (m : Bool) (b : BBox) (parts : List (List Pt)) (r : Bytes)
    (hb : totalPoints parts < 2147483648) (hp : parts.length < 2147483648) :
    readPolylineContent d ((encMultiPartOpt d m b parts).length : Int) (encMultiPartOpt d m b parts ++ r) =
      .ok (b.readRawOpt d m, parts.map (List.map (Pt.readBackOpt d m))) r := by
  rw [encMultiPartOpt_length]
  unfold readPolylineContent encMultiPartOpt
  simp only [List.append_assoc]
  rw [bind_of_ok (readMultiPartHeader_enc b parts _ hb hp)]
  simp only []
  have hx := readPartsXY_offsets parts 0 (encZMopt d m b parts ++ r) (by omega)
  simp only [Nat.zero_add] at hx
  have hpo : partOffsets parts = offsetsFrom 0 (parts.map List.length) := rfl
  rw [hpo]
  cases d <;> cases m <;>
    simp only [recordSizes, polylineType, sizeOfRecordTerm, SizeTerm.eval, Dim.hasZ, Dim.hasM, Bool.false_eq_true,
      if_false, if_true, Bool.and_true, Bool.and_false, Bool.and_self] <;>
    (rw [if_neg (by push_cast; omega), bind_of_ok hx])
  case xy.false =>
    rw [show readZM Dim.xy (decide _) = readZM Dim.xy false from by unfold readZM; simp [Dim.hasM]]
    exact readZM_enc .xy false b parts r
  case xy.true =>
    rw [show readZM Dim.xy (decide _) = readZM Dim.xy true from by unfold readZM; simp [Dim.hasM]]
    exact readZM_enc .xy true b parts r
  case xym.false =>
    rw [decide_eq_false (by push_cast; omega)]; exact readZM_enc .xym false b parts r
  case xym.true =>
    rw [decide_eq_true (by push_cast; omega)]; exact readZM_enc .xym true b parts r
  case xyzm.false =>
    rw [decide_eq_false (by push_cast; omega)]; exact readZM_enc .xyzm false b parts r
  case xyzm.true =>
    rw [decide_eq_true (by push_cast; omega)]; exact readZM_enc .xyzm true b parts r

/-- multipoint content with an optional M block -/
def encMultipointOpt (d : Dim) (m : Bool) (b : BBox) (pts : List Pt) : Bytes :=
  encBBoxXY b ++ encI32LE pts.length ++ encXY pts ++ encZMopt d m b [pts]

theorem encMultipoint_eq (d : Dim) (b : BBox) (pts : List Pt) :
    encMultipoint d b pts = encMultipointOpt d true b pts := by
  unfold encMultipoint encMultipointOpt; rw [encZM_eq]

theorem encMultipointOpt_length (d : Dim) (m : Bool) (b : BBox) (pts : List Pt) :
    (encMultipointOpt d m b pts).length =
      36 + 16 * pts.length +
      ((if d.hasZ then 16 + 8 * pts.length else 0) + (if d.hasM && m then 16 + 8 * pts.length else 0)) := by
  unfold encMultipointOpt
  simp only [List.length_append, encBBoxXY_length, encI32LE_length, encXY_length, encZMopt_length,
    totalPoints_singleton]

theorem readMultipointContent_enc (d : Dim) (m : Bool) (b : BBox) (pts : List Pt) (r : Bytes)
    (hb : pts.length < 2147483648) :
    readMultipointContent d ((encMultipointOpt d m b pts).length : Int) (encMultipointOpt d m b pts ++ r) =
      .ok (.multipoint d (b.readRawOpt d m) (pts.map (Pt.readBackOpt d m))) r := by
  rw [encMultipointOpt_length]
  unfold readMultipointContent encMultipointOpt
  simp only [List.append_assoc]
  rw [bind_exact (readBBoxXY_enc b), bind_exact (i32LE_enc _ (by unfold InI32; omega))]
  have hx := readXYVec_enc pts (encZMopt d m b [pts] ++ r)
  have hzm : ∀ d m, readZM d m ⟨xyOnly b.min, xyOnly b.max⟩ [pts.map xyOnly] (encZMopt d m b [pts] ++ r) =
      .ok (b.readRawOpt d m, [pts.map (Pt.readBackOpt d m)]) r := by
    intro d m
    have := readZM_enc d m b [pts] r
    simpa only [List.map_cons, List.map_nil] using this
  cases d <;> cases m <;>
    simp only [recordSizes, multipointType, sizeOfRecordTerm, SizeTerm.eval, Dim.hasZ, Dim.hasM, Bool.false_eq_true,
      if_false, if_true, Bool.and_true, Bool.and_false, Bool.and_self] <;>
    (rw [if_neg (by push_cast; omega), bind_of_ok hx])
  case xy.false =>
    rw [show readZM Dim.xy (decide _) = readZM Dim.xy false from by unfold readZM; simp [Dim.hasM]]
    rw [bind_of_ok (hzm .xy false)]; simp [Dec.pure]
  case xy.true =>
    rw [show readZM Dim.xy (decide _) = readZM Dim.xy true from by unfold readZM; simp [Dim.hasM]]
    rw [bind_of_ok (hzm .xy true)]; simp [Dec.pure]
  case xym.false =>
    rw [decide_eq_false (by push_cast; omega), bind_of_ok (hzm .xym false)]; simp [Dec.pure]
  case xym.true =>
    rw [decide_eq_true (by push_cast; omega), bind_of_ok (hzm .xym true)]; simp [Dec.pure]
  case xyzm.false =>
    rw [decide_eq_false (by push_cast; omega), bind_of_ok (hzm .xyzm false)]; simp [Dec.pure]
  case xyzm.true =>
    rw [decide_eq_true (by push_cast; omega), bind_of_ok (hzm .xyzm true)]; simp [Dec.pure]

/-- multipatch content with an optional M block -/
def encMultipatchOpt (m : Bool) (b : BBox) (patches : List (PatchKind × List Pt)) : Bytes :=
  encBBoxXY b ++ encI32LE patches.length ++ encI32LE (totalPoints (patches.map (·.2))) ++
  encI32s ((partOffsets (patches.map (·.2))).map Int.ofNat) ++ encI32s (patches.map (·.1.code)) ++
  (patches.map (·.2)).flatMap encXY ++ encZMopt .xyzm m b (patches.map (·.2))

theorem encMultipatch_eq (b : BBox) (patches : List (PatchKind × List Pt)) :
    encMultipatch b patches = encMultipatchOpt true b patches := by
  unfold encMultipatch encMultipatchOpt encZMopt
  simp [Dim.hasZ, Dim.hasM]

theorem encMultipatchOpt_length (m : Bool) (b : BBox) (patches : List (PatchKind × List Pt)) :
    (encMultipatchOpt m b patches).length =
      56 + 8 * patches.length + 24 * totalPoints (patches.map (·.2)) +
      (if m then 16 + 8 * totalPoints (patches.map (·.2)) else 0) := by
  unfold encMultipatchOpt
  cases m <;>
  simp only [List.length_append, encBBoxXY_length, encI32LE_length, encI32s_length, List.length_map,
    partOffsets_length, flatMap_encXY_length, encZMopt_length, Dim.hasZ, Dim.hasM, if_true, Bool.and_true,
    Bool.and_false, Bool.false_eq_true, if_false] <;> omega

/-- every patch kind written is read back as itself (generated tables, complete enumeration) -/
theorem patchKind_roundtrip (k : PatchKind) : (PatchKind.ofCode k.code).map PatchKind.readAs = some k := by
  cases k <;> decide

theorem patchKind_code_inI32 (k : PatchKind) : InI32 k.code := by cases k <;> decide

theorem readPatchKind_enc (k : PatchKind) (r : Bytes) : readPatchKind (encI32LE k.code ++ r) = .ok k r := by
  unfold readPatchKind
  rw [bind_exact (i32LE_enc _ (patchKind_code_inI32 k))]
  have := patchKind_roundtrip k
  cases h : PatchKind.ofCode k.code with
  | none => rw [h] at this; cases this
  | some k' =>
    rw [h] at this
    simp only [Option.map_some, Option.some.injEq] at this
    simp [Dec.pure, this]

theorem zip_fst_map {α β γ : Type} (l : List (α × β)) (f : β → γ) :
    (l.map (fun x => x.1)).zip (l.map (f ∘ fun x => x.2)) = l.map fun p => (p.1, f p.2) := by
  induction l with
  | nil => rfl
  | cons a as ih =>
    simp only [List.map_cons, List.zip_cons_cons, ih, Function.comp]

theorem readMultipatchContent_enc (m : Bool) (b : BBox) (patches : List (PatchKind × List Pt)) (r : Bytes)
    (hb : totalPoints (patches.map (·.2)) < 2147483648) (hp : patches.length < 2147483648) :
    readMultipatchContent ((encMultipatchOpt m b patches).length : Int) (encMultipatchOpt m b patches ++ r) =
      .ok (.multipatch (b.readRawOpt .xyzm m) (patches.map fun p => (p.1, p.2.map (Pt.readBackOpt .xyzm m)))) r := by
  rw [encMultipatchOpt_length]
  unfold readMultipatchContent encMultipatchOpt
  simp only [List.append_assoc]
  have hlen : (patches.map (·.2)).length = patches.length := by simp
  have hh := readMultiPartHeader_enc b (patches.map (·.2))
    (encI32s (patches.map (·.1.code)) ++ ((patches.map (·.2)).flatMap encXY ++ (encZMopt .xyzm m b (patches.map (·.2)) ++ r)))
    hb (by omega)
  rw [hlen] at hh
  rw [bind_of_ok hh]
  simp only []
  have hk : readCounted (patches.length : Int) readPatchKind
      (encI32s (patches.map (·.1.code)) ++ ((patches.map (·.2)).flatMap encXY ++ (encZMopt .xyzm m b (patches.map (·.2)) ++ r))) =
      .ok (patches.map (·.1)) ((patches.map (·.2)).flatMap encXY ++ (encZMopt .xyzm m b (patches.map (·.2)) ++ r)) := by
    rw [readCounted_nat]
    have := repeatN_exact_map readPatchKind (fun p : PatchKind × List Pt => encI32LE p.1.code) (·.1) patches
      (fun a r => readPatchKind_enc a.1 r)
      ((patches.map (·.2)).flatMap encXY ++ (encZMopt .xyzm m b (patches.map (·.2)) ++ r))
    simpa [encI32s, List.flatMap_map] using this
  have hx := readPartsXY_offsets (patches.map (·.2)) 0 (encZMopt .xyzm m b (patches.map (·.2)) ++ r) (by omega)
  simp only [Nat.zero_add] at hx
  have hpo : partOffsets (patches.map (·.2)) = offsetsFrom 0 ((patches.map (·.2)).map List.length) := rfl
  rw [hpo]
  cases m <;>
    simp only [recordSizes, sizeOfRecordTerm, SizeTerm.eval, Bool.false_eq_true, if_false, if_true] <;>
    (rw [if_neg (by push_cast; omega), bind_of_ok hk, bind_of_ok hx])
  case false =>
    rw [decide_eq_false (by push_cast; omega), bind_of_ok (readZM_enc .xyzm false b _ r)]
    simp [Dec.pure, zip_fst_map]
  case true =>
    rw [decide_eq_true (by push_cast; omega), bind_of_ok (readZM_enc .xyzm true b _ r)]
    simp [Dec.pure, zip_fst_map]

end Shp

/-
A torn header write: the first `c` bytes of the new header over the old one.  The header parser looks
only at the file code and the shape type code for validity, and a big-endian length field torn
between an old value and a larger new one is never smaller than the old one.
-/
import Shp.Lemmas.Crash
namespace Shp
open Dec

/-- a slice of a mixture is the mixture of the slices -/
theorem slice_mix (x y : Bytes) (c a b : Nat) (hxy : x.length = y.length) (hc : c ≤ x.length) :
    ((x.take c ++ y.drop c).drop a).take b =
      ((x.drop a).take b).take (c - a) ++ ((y.drop a).take b).drop (c - a) := by
  rw [List.drop_append, List.length_take, Nat.min_eq_left hc, List.drop_take, List.drop_drop,
    List.take_append, List.take_take, List.take_take, List.length_take, List.length_drop,
    List.drop_take, List.drop_drop]
  congr 1
  · congr 1; omega
  · have e1 : c + (a - c) = a + (c - a) := by omega
    have e2 : b - min (c - a) (x.length - a) = b - (c - a) := by omega
    rw [e1, e2]

/-- where both have the same slice, so has any mixture of them -/
theorem slice_mix_same (x y : Bytes) (c a b : Nat) (hxy : x.length = y.length) (hc : c ≤ x.length)
    (hs : (x.drop a).take b = (y.drop a).take b) :
    ((x.take c ++ y.drop c).drop a).take b = (x.drop a).take b := by
  rw [slice_mix x y c a b hxy hc, ← hs, List.take_append_drop]

theorem bind_of_ok {α β : Type} {d : Dec α} {f : α → Dec β} {bs r : Bytes} {a : α} (h : d bs = .ok a r) :
    Dec.bind d f bs = f a r := by
  unfold Dec.bind; rw [h]

theorem split4 (bs : Bytes) (h : 4 ≤ bs.length) : ∃ b0 b1 b2 b3 r, bs = b0 :: b1 :: b2 :: b3 :: r := by
  match bs, h with
  | b0 :: b1 :: b2 :: b3 :: r, _ => exact ⟨b0, b1, b2, b3, r, rfl⟩

theorem split8 (bs : Bytes) (h : 8 ≤ bs.length) :
    ∃ b0 b1 b2 b3 b4 b5 b6 b7 r, bs = b0 :: b1 :: b2 :: b3 :: b4 :: b5 :: b6 :: b7 :: r := by
  match bs, h with
  | b0 :: b1 :: b2 :: b3 :: b4 :: b5 :: b6 :: b7 :: r, _ => exact ⟨b0, b1, b2, b3, b4, b5, b6, b7, r, rfl⟩

theorem i32BE_total (bs : Bytes) (h : 4 ≤ bs.length) : ∃ v, i32BE bs = .ok v (bs.drop 4) := by
  obtain ⟨b0, b1, b2, b3, r, rfl⟩ := split4 bs h
  exact ⟨_, rfl⟩
theorem i32LE_total (bs : Bytes) (h : 4 ≤ bs.length) : ∃ v, i32LE bs = .ok v (bs.drop 4) := by
  obtain ⟨b0, b1, b2, b3, r, rfl⟩ := split4 bs h
  exact ⟨_, rfl⟩
theorem f64_total (bs : Bytes) (h : 8 ≤ bs.length) : ∃ v, f64 bs = .ok v (bs.drop 8) := by
  obtain ⟨b0, b1, b2, b3, b4, b5, b6, b7, r, rfl⟩ := split8 bs h
  exact ⟨_, rfl⟩

/-- the value `i32BE` reads depends on the first four bytes only -/
theorem i32BE_congr (bs bs' : Bytes) (h : 4 ≤ bs.length) (h' : 4 ≤ bs'.length) (he : bs.take 4 = bs'.take 4)
    (v : Int) (hv : i32BE bs = .ok v (bs.drop 4)) : i32BE bs' = .ok v (bs'.drop 4) := by
  obtain ⟨b0, b1, b2, b3, r, rfl⟩ := split4 bs h
  obtain ⟨c0, c1, c2, c3, r', rfl⟩ := split4 bs' h'
  simp only [List.take_succ_cons, List.take_zero, List.cons.injEq, and_true] at he
  obtain ⟨rfl, rfl, rfl, rfl⟩ := he
  simp only [Dec.i32BE, Dec.u32BE, Res.map, List.drop_succ_cons, List.drop_zero] at hv ⊢
  simp only [Res.ok.injEq, and_true] at hv ⊢
  exact hv

/-- the header parser accepts ANY 100 bytes that start with the file code and carry a known shape
type code; the length it reports is whatever bytes 24..28 hold -/
theorem readHeader_total (bs : Bytes) (hl : 100 ≤ bs.length)
    (hcode : i32BE bs = .ok Const.fileCode (bs.drop 4))
    (t : ShapeType) (ht : readShapeType (bs.drop 32) = .ok t (bs.drop 36)) :
    ∃ h, readHeader bs = .ok h (bs.drop 100) ∧ i32BE (bs.drop 24) = .ok h.fileLength (bs.drop 28) := by
  unfold readHeader
  rw [bind_of_ok hcode]
  simp only [ne_eq, not_true_eq_false, if_false]
  have htake : Dec.take 20 (bs.drop 4) = .ok ((bs.drop 4).take 20) (bs.drop 24) := by
    unfold Dec.take; rw [if_pos (by rw [List.length_drop]; omega), List.drop_drop]
  rw [bind_of_ok htake]
  obtain ⟨len, hlen⟩ := i32BE_total (bs.drop 24) (by rw [List.length_drop]; omega)
  rw [List.drop_drop] at hlen
  rw [bind_of_ok hlen]
  obtain ⟨ver, hver⟩ := i32LE_total (bs.drop 28) (by rw [List.length_drop]; omega)
  rw [List.drop_drop] at hver
  rw [bind_of_ok hver, bind_of_ok ht]
  obtain ⟨v1, h1⟩ := f64_total (bs.drop 36) (by rw [List.length_drop]; omega)
  rw [List.drop_drop] at h1
  obtain ⟨v2, h2⟩ := f64_total (bs.drop 44) (by rw [List.length_drop]; omega)
  rw [List.drop_drop] at h2
  obtain ⟨v3, h3⟩ := f64_total (bs.drop 52) (by rw [List.length_drop]; omega)
  rw [List.drop_drop] at h3
  obtain ⟨v4, h4⟩ := f64_total (bs.drop 60) (by rw [List.length_drop]; omega)
  rw [List.drop_drop] at h4
  obtain ⟨v5, h5⟩ := f64_total (bs.drop 68) (by rw [List.length_drop]; omega)
  rw [List.drop_drop] at h5
  obtain ⟨v6, h6⟩ := f64_total (bs.drop 76) (by rw [List.length_drop]; omega)
  rw [List.drop_drop] at h6
  obtain ⟨v7, h7⟩ := f64_total (bs.drop 84) (by rw [List.length_drop]; omega)
  rw [List.drop_drop] at h7
  obtain ⟨v8, h8⟩ := f64_total (bs.drop 92) (by rw [List.length_drop]; omega)
  rw [List.drop_drop] at h8
  rw [bind_of_ok h1, bind_of_ok h2, bind_of_ok h3, bind_of_ok h4, bind_of_ok h5, bind_of_ok h6, bind_of_ok h7,
    bind_of_ok h8]
  exact ⟨_, rfl, hlen⟩

theorem readShapeType_congr (bs bs' : Bytes) (h : 4 ≤ bs.length) (h' : 4 ≤ bs'.length) (he : bs.take 4 = bs'.take 4)
    (t : ShapeType) (hv : readShapeType bs = .ok t (bs.drop 4)) : readShapeType bs' = .ok t (bs'.drop 4) := by
  obtain ⟨b0, b1, b2, b3, r, rfl⟩ := split4 bs h
  obtain ⟨c0, c1, c2, c3, r', rfl⟩ := split4 bs' h'
  simp only [List.take_succ_cons, List.take_zero, List.cons.injEq, and_true] at he
  obtain ⟨rfl, rfl, rfl, rfl⟩ := he
  unfold readShapeType Dec.bind at hv ⊢
  simp only [Dec.i32LE, Dec.u32LE, Res.map, List.drop_succ_cons, List.drop_zero] at hv ⊢
  cases hc : ShapeType.ofCode (toI32 (decU32LE b0 b1 b2 b3)) with
  | none => rw [hc] at hv; simp [Dec.fail] at hv
  | some t' =>
    rw [hc] at hv
    simp only [Dec.pure, Res.ok.injEq, and_true] at hv ⊢
    exact hv

/-- a big-endian length field torn between an old value and a larger new one holds a value that is
not smaller than the old one (and still a non-negative `i32`) -/
theorem torn_len (l1 l2 : Int) (h0 : 0 ≤ l1) (h12 : l1 ≤ l2) (h2 : l2 < 2147483648) (j : Nat) (r : Bytes) :
    ∃ v : Int, l1 ≤ v ∧ v < 2147483648 ∧
      i32BE (((encI32BE l2).take j ++ (encI32BE l1).drop j) ++ r) = .ok v r := by
  obtain ⟨n1, rfl⟩ : ∃ n : Nat, l1 = n := ⟨l1.toNat, by omega⟩
  obtain ⟨n2, rfl⟩ : ∃ n : Nat, l2 = n := ⟨l2.toNat, by omega⟩
  have e1 : ofI32 (n1 : Int) = n1 := by unfold ofI32; omega
  have e2 : ofI32 (n2 : Int) = n2 := by unfold ofI32; omega
  have h12' : n1 ≤ n2 := by omega
  have h2' : n2 < 2147483648 := by omega
  simp only [encI32BE, encU32BE, e1, e2]
  match j with
  | 0 =>
    refine ⟨(n1 : Int), by omega, by omega, ?_⟩
    simp only [List.take_zero, List.drop_zero, List.nil_append, List.cons_append, Dec.i32BE, Dec.u32BE, Res.map,
      decU32BE, decU32LE, u8_toNat, Res.ok.injEq, and_true, toI32]
    split <;> omega
  | 1 =>
    refine ⟨((n2 / 16777216 % 256 * 16777216 + n1 % 16777216 : Nat) : Int), by omega, by omega, ?_⟩
    simp only [List.take_succ_cons, List.take_zero, List.drop_succ_cons, List.drop_zero, List.nil_append, List.cons_append,
      Dec.i32BE, Dec.u32BE, Res.map, decU32BE, decU32LE, u8_toNat, Res.ok.injEq, and_true, toI32]
    split <;> omega
  | 2 =>
    refine ⟨((n2 / 65536 % 65536 * 65536 + n1 % 65536 : Nat) : Int), by omega, by omega, ?_⟩
    simp only [List.take_succ_cons, List.take_zero, List.drop_succ_cons, List.drop_zero, List.nil_append, List.cons_append,
      Dec.i32BE, Dec.u32BE, Res.map, decU32BE, decU32LE, u8_toNat, Res.ok.injEq, and_true, toI32]
    split <;> omega
  | 3 =>
    refine ⟨((n2 / 256 % 16777216 * 256 + n1 % 256 : Nat) : Int), by omega, by omega, ?_⟩
    simp only [List.take_succ_cons, List.take_zero, List.drop_succ_cons, List.drop_zero, List.nil_append, List.cons_append,
      Dec.i32BE, Dec.u32BE, Res.map, decU32BE, decU32LE, u8_toNat, Res.ok.injEq, and_true, toI32]
    split <;> omega
  | j + 4 =>
    refine ⟨(n2 : Int), by omega, by omega, ?_⟩
    simp only [List.take_succ_cons, List.take_nil, List.drop_succ_cons, List.drop_nil, List.append_nil, List.cons_append,
      List.nil_append, Dec.i32BE, Dec.u32BE, Res.map, decU32BE, decU32LE, u8_toNat, Res.ok.injEq, and_true, toI32]
    split <;> omega

theorem mid_slice (pre mid post : Bytes) (k : Nat) (hk : pre.length = k) :
    ((pre ++ (mid ++ post)).drop k).take mid.length = mid := by
  rw [List.drop_left' hk]; exact List.take_left' rfl

theorem Header.enc_code (h : Header) : (h.enc.drop 0).take 4 = encI32BE Const.fileCode := by
  have : h.enc = [] ++ (encI32BE Const.fileCode ++ (zeros 20 ++ encI32BE h.fileLength ++ encI32LE h.version ++
      encI32LE h.shapeType.code ++
      h.bbox.min.x.enc ++ h.bbox.min.y.enc ++ h.bbox.max.x.enc ++ h.bbox.max.y.enc ++
      h.bbox.min.z.enc ++ h.bbox.max.z.enc ++ h.bbox.min.m.enc ++ h.bbox.max.m.enc)) := by
    simp only [Header.enc, List.append_assoc, List.nil_append]
  rw [this]
  exact mid_slice [] (encI32BE Const.fileCode) _ 0 rfl

theorem Header.enc_len (h : Header) : (h.enc.drop 24).take 4 = encI32BE h.fileLength := by
  have : h.enc = (encI32BE Const.fileCode ++ zeros 20) ++ (encI32BE h.fileLength ++ (encI32LE h.version ++
      encI32LE h.shapeType.code ++
      h.bbox.min.x.enc ++ h.bbox.min.y.enc ++ h.bbox.max.x.enc ++ h.bbox.max.y.enc ++
      h.bbox.min.z.enc ++ h.bbox.max.z.enc ++ h.bbox.min.m.enc ++ h.bbox.max.m.enc)) := by
    simp only [Header.enc, List.append_assoc]
  rw [this]
  exact mid_slice (encI32BE Const.fileCode ++ zeros 20) (encI32BE h.fileLength) _ 24 (by simp [zeros])

theorem Header.enc_type (h : Header) : (h.enc.drop 32).take 4 = encI32LE h.shapeType.code := by
  have : h.enc = (encI32BE Const.fileCode ++ zeros 20 ++ encI32BE h.fileLength ++ encI32LE h.version) ++
      (encI32LE h.shapeType.code ++
      (h.bbox.min.x.enc ++ h.bbox.min.y.enc ++ h.bbox.max.x.enc ++ h.bbox.max.y.enc ++
      h.bbox.min.z.enc ++ h.bbox.max.z.enc ++ h.bbox.min.m.enc ++ h.bbox.max.m.enc)) := by
    simp only [Header.enc, List.append_assoc]
  rw [this]
  exact mid_slice (encI32BE Const.fileCode ++ zeros 20 ++ encI32BE h.fileLength ++ encI32LE h.version) (encI32LE h.shapeType.code) _ 32 (by simp [zeros])

/-- MAIN (torn header): the first `c` bytes of a new header written over an old one of the same
version and shape type, with a length at least the old one: whatever `c`, what results still parses
as a header, and the length it declares is at least the old one -/
theorem torn_header (h1 h2 : Header) (ht : h1.shapeType = h2.shapeType)
    (h0 : 0 ≤ h1.fileLength) (h12 : h1.fileLength ≤ h2.fileLength) (h2' : h2.fileLength < 2147483648)
    (c : Nat) (hc : c ≤ 100) (rest : Bytes) :
    ∃ h, readHeader ((h2.enc.take c ++ h1.enc.drop c) ++ rest) = .ok h rest ∧
      h1.fileLength ≤ h.fileLength ∧ h.fileLength < 2147483648 := by
  have hl1 := Header.enc_length h1
  have hl2 := Header.enc_length h2
  have hmixlen : (h2.enc.take c ++ h1.enc.drop c).length = 100 := by
    simp only [List.length_append, List.length_take, List.length_drop, hl1, hl2]; omega
  have hd100 : ((h2.enc.take c ++ h1.enc.drop c) ++ rest).drop 100 = rest := List.drop_left' hmixlen
  -- slices of the mixture
  have sl : ∀ a b, a + b ≤ 100 → (((h2.enc.take c ++ h1.enc.drop c) ++ rest).drop a).take b =
      ((h2.enc.take c ++ h1.enc.drop c).drop a).take b := by
    intro a b hab
    rw [List.drop_append, List.take_append_of_le_length (by rw [List.length_drop, hmixlen]; omega)]
  have sl1 : ∀ a b, a + b ≤ 100 → ((h1.enc ++ rest).drop a).take b = (h1.enc.drop a).take b := by
    intro a b hab
    rw [List.drop_append, List.take_append_of_le_length (by rw [List.length_drop, hl1]; omega)]
  have hcode1 : i32BE (h1.enc ++ rest) = .ok Const.fileCode ((h1.enc ++ rest).drop 4) := by
    have : h1.enc ++ rest = encI32BE Const.fileCode ++ (h1.enc ++ rest).drop 4 := by
      have := sl1 0 4 (by omega)
      rw [Header.enc_code, List.drop_zero] at this
      rw [← this, List.take_append_drop]
    have hx := i32BE_enc Const.fileCode (by decide) ((h1.enc ++ rest).drop 4)
    rw [← this] at hx
    exact hx
  have hcode : i32BE ((h2.enc.take c ++ h1.enc.drop c) ++ rest) =
      .ok Const.fileCode (((h2.enc.take c ++ h1.enc.drop c) ++ rest).drop 4) := by
    apply i32BE_congr (h1.enc ++ rest) _ (by simp [hl1]; omega) (by rw [List.length_append, hmixlen]; omega) _ _ hcode1
    have e1 := sl1 0 4 (by omega)
    have e2 := sl 0 4 (by omega)
    have e3 := slice_mix_same h2.enc h1.enc c 0 4 (by rw [hl1, hl2]) (by omega)
      (by rw [Header.enc_code, Header.enc_code])
    have a := Header.enc_code h1
    have b := Header.enc_code h2
    simp only [List.drop_zero] at e1 e2 e3 a b
    rw [e1, e2, e3, a, b]
  have htype1 : readShapeType ((h1.enc ++ rest).drop 32) = .ok h1.shapeType (((h1.enc ++ rest).drop 32).drop 4) := by
    have : (h1.enc ++ rest).drop 32 = encI32LE h1.shapeType.code ++ ((h1.enc ++ rest).drop 32).drop 4 := by
      have := sl1 32 4 (by omega)
      rw [Header.enc_type] at this
      rw [← this, List.take_append_drop]
    have hx := readShapeType_enc h1.shapeType (((h1.enc ++ rest).drop 32).drop 4)
    rw [← this] at hx
    exact hx
  have htype : readShapeType (((h2.enc.take c ++ h1.enc.drop c) ++ rest).drop 32) =
      .ok h1.shapeType (((h2.enc.take c ++ h1.enc.drop c) ++ rest).drop 36) := by
    have := readShapeType_congr ((h1.enc ++ rest).drop 32) (((h2.enc.take c ++ h1.enc.drop c) ++ rest).drop 32)
      (by simp [hl1]; omega) (by rw [List.length_drop, List.length_append, hmixlen]; omega)
      (by rw [sl1 32 4 (by omega), sl 32 4 (by omega),
            slice_mix_same h2.enc h1.enc c 32 4 (by rw [hl1, hl2]) (by omega)
              (by rw [Header.enc_type, Header.enc_type, ht]),
            Header.enc_type, Header.enc_type, ht])
      h1.shapeType htype1
    rw [List.drop_drop] at this
    exact this
  obtain ⟨h, hread, hlenf⟩ := readHeader_total _ (by rw [List.length_append, hmixlen]; omega) hcode h1.shapeType htype
  rw [hd100] at hread
  refine ⟨h, hread, ?_⟩
  -- the length field
  have hslice := sl 24 4 (by omega)
  rw [slice_mix h2.enc h1.enc c 24 4 (by rw [hl1, hl2]) (by omega), Header.enc_len, Header.enc_len] at hslice
  obtain ⟨v, hv1, hv2, hv3⟩ := torn_len h1.fileLength h2.fileLength h0 h12 h2' (c - 24)
    ((((h2.enc.take c ++ h1.enc.drop c) ++ rest).drop 24).drop 4)
  rw [← hslice, List.take_append_drop] at hv3
  rw [hv3] at hlenf
  simp only [Res.ok.injEq] at hlenf
  rw [← hlenf.1]
  exact ⟨hv1, hv2⟩

end Shp

/-
Reading a crashed pair of files through the index: the index holds the first entries the writer
emitted, the .shp a byte-prefix of the record stream.  Every entry then leads to the record that was
written for it, or to an I/O error; never to another shape.
-/
import Shp.Lemmas.FileRead
import Shp.Lemmas.StableAll
import Shp.Props.C13
import Shp.Props.C04
namespace Shp
open Dec

/-- position by position, an output is the shape written at that position or an I/O error -/
def Faithful : List Shape → List ROut → Prop
  | _, [] => True
  | [], _ :: _ => False
  | s :: ss, out :: outs => (out = .shape s ∨ out = .err .io) ∧ Faithful ss outs

/-- the reader invariant for a crashed pair: every index entry leads to its record or to an error -/
structure CInv (o : Orient) (tg : Target) (shapes : List Shape) (st : RState) : Prop where
  idx : ∃ idx, st.index = some idx ∧ idx.length ≤ shapes.length ∧
    ∀ (i : Nat) (h1 : i < idx.length) (h2 : i < shapes.length),
      RecordAt o tg st.data idx[i] shapes[i] ∨
      (0 ≤ idx[i].offset ∧ readOneShape o tg (st.data.drop (2 * idx[i].offset).toNat) = .err .io)
  truthful : ∀ p, st.currentPos = some p → st.srcPos = p

theorem CInv.iterNext {o : Orient} {tg : Target} {shapes : List Shape} {st : RState} (h : CInv o tg shapes st)
    (idx : List IndexEntry) (hidx : st.index = some idx) (hk : st.nextShape < idx.length) (hk2 : st.nextShape < shapes.length) :
    ∃ st' out, st.iterNext o tg = (st', out) ∧ (out = .shape shapes[st.nextShape] ∨ out = .err .io) ∧
      CInv o tg shapes st' ∧ st'.nextShape = st.nextShape + 1 ∧ st'.index = some idx := by
  obtain ⟨idx', hidx', hlen, haddr⟩ := h.idx
  have htruth := h.truthful
  obtain ⟨data, srcPos, header, index, currentPos, nextShape⟩ := st
  simp only at hidx hidx' hk hk2 haddr htruth ⊢
  subst hidx
  simp only [Option.some.injEq] at hidx'
  subst hidx'
  unfold RState.iterNext
  simp only []
  have hget : idx[nextShape]? = some idx[nextShape] := List.getElem?_eq_getElem hk
  rw [hget]
  simp only []
  have hoff : 0 ≤ idx[nextShape].offset := by
    rcases haddr nextShape hk hk2 with h | h
    · exact h.1
    · exact h.1
  have hwb : wordsToBytes idx[nextShape].offset = some (2 * idx[nextShape].offset) := by
    unfold wordsToBytes; rw [if_neg (by omega)]
  rw [hwb]
  simp only []
  have hpos : ∀ st2 : RState, st2.data = data → st2.index = some idx → st2.srcPos = (2 * idx[nextShape].offset).toNat →
      st2.currentPos = some (2 * idx[nextShape].offset).toNat → st2.nextShape = nextShape + 1 →
      ∃ st' out, st2.readHere o tg = (st', out) ∧ (out = .shape shapes[nextShape] ∨ out = .err .io) ∧
        CInv o tg shapes st' ∧ st'.nextShape = nextShape + 1 ∧ st'.index = some idx := by
    intro st2 hd hi hs hc hn
    rcases haddr nextShape hk hk2 with ⟨_, w, rest, hread, hw, hcons⟩ | ⟨_, herr⟩
    · unfold RState.readHere
      rw [hd, hs, hread]
      refine ⟨_, _, rfl, Or.inl rfl, ⟨⟨idx, hi, hlen, ?_⟩, ?_⟩, hn, hi⟩
      · simpa [hd] using haddr
      · intro p hp
        simp only [hc, Option.map_some, Option.some.injEq] at hp
        simp only [Const.recordHeaderSize] at hp
        simp only
        omega
    · unfold RState.readHere
      rw [hd, hs, herr]
      refine ⟨_, _, rfl, Or.inr rfl, ⟨⟨idx, hi, hlen, ?_⟩, ?_⟩, hn, hi⟩
      · simpa [hd] using haddr
      · intro p hp; cases hp
  by_cases hc : currentPos = some (2 * idx[nextShape].offset).toNat
  · rw [if_pos hc]
    exact hpos _ rfl rfl (htruth _ hc) hc rfl
  · rw [if_neg hc]
    exact hpos _ rfl rfl rfl rfl rfl

/-- draining an index-driven iterator over a crashed pair: position by position the shape written
there, or an I/O error -/
theorem CInv.iterAll {o : Orient} {tg : Target} {shapes : List Shape} (fuel : Nat) {st : RState}
    (h : CInv o tg shapes st) : Faithful (shapes.drop st.nextShape) (st.iterAll o tg fuel).2 := by
  induction fuel generalizing st with
  | zero => simp [RState.iterAll, Faithful]
  | succ fuel ih =>
    obtain ⟨idx, hidx, hlen, haddr⟩ := h.idx
    by_cases hk : st.nextShape < idx.length
    · have hk2 : st.nextShape < shapes.length := by omega
      obtain ⟨st', out, hnext, hout, hinv, hn, _⟩ := h.iterNext idx hidx hk hk2
      have ih' := ih hinv
      rw [hn] at ih'
      have hdrop : shapes.drop st.nextShape = shapes[st.nextShape] :: shapes.drop (st.nextShape + 1) :=
        List.drop_eq_getElem_cons hk2
      rw [hdrop]
      unfold RState.iterAll
      rw [hnext]
      rcases hout with rfl | rfl
      · exact ⟨Or.inl rfl, ih'⟩
      · exact ⟨Or.inr rfl, ih'⟩
    · have : st.iterNext o tg = (st, .none) := by
        unfold RState.iterNext
        rw [hidx]
        simp only []
        have : idx[st.nextShape]? = none := List.getElem?_eq_none (by omega)
        rw [this]
      unfold RState.iterAll
      rw [this]
      simp [Faithful]

/-- `read_nth_shape(i)` on a crashed pair: the shape written at `i`, an error, or `None` -/
theorem CInv.readNth {o : Orient} {tg : Target} {shapes : List Shape} {st : RState} (h : CInv o tg shapes st)
    (i : Nat) :
    (st.readNth o tg i).2 = .none ∨ (st.readNth o tg i).2 = .err .io ∨
    (∃ hi : i < shapes.length, (st.readNth o tg i).2 = .shape shapes[i]) := by
  obtain ⟨idx, hidx, hlen, haddr⟩ := h.idx
  obtain ⟨data, srcPos, header, index, currentPos, nextShape⟩ := st
  simp only at hidx haddr ⊢
  subst hidx
  unfold RState.readNth
  simp only []
  by_cases hi : idx.length ≤ i
  · rw [if_pos hi]; exact Or.inl rfl
  · rw [if_neg hi]
    have hk : i < idx.length := by omega
    have hk2 : i < shapes.length := by omega
    have hget : idx[i]? = some idx[i] := List.getElem?_eq_getElem hk
    have hoff : 0 ≤ idx[i].offset := by
      rcases haddr i hk hk2 with h | h
      · exact h.1
      · exact h.1
    have hwb : wordsToBytes idx[i].offset = some (2 * idx[i].offset) := by
      unfold wordsToBytes; rw [if_neg (by omega)]
    unfold RState.seek
    simp only [hget, hwb]
    rcases haddr i hk hk2 with ⟨_, w, rest, hread, _, _⟩ | ⟨_, herr⟩
    · rw [hread]; exact Or.inr (Or.inr ⟨hk2, rfl⟩)
    · rw [herr]; exact Or.inr (Or.inl rfl)

/-- the records from position `i` on start at the byte offset the index records for `i` -/
theorem recordsFrom_drop (t : ShapeType) (k : Nat) (ss : List Shape) (i : Nat) :
    (recordsFrom t k ss).drop (2 * totalWords (ss.take i)) = recordsFrom t (k + i) (ss.drop i) := by
  induction ss generalizing k i with
  | nil => simp [recordsFrom, totalWords]
  | cons s ss ih =>
    cases i with
    | zero => simp [totalWords]
    | succ i =>
      simp only [List.take_succ_cons, totalWords, recordsFrom, List.drop_succ_cons]
      have e : 2 * (recordSizeWords s + 4 + totalWords (ss.take i)) =
          (encRecord (k : Int) t s).length + 2 * totalWords (ss.take i) := by
        rw [C18.encRecord_length]; omega
      rw [e, ← List.drop_drop, List.drop_left, ih (k + 1) i]
      congr 1
      omega

theorem totalWords_take_le (ss : List Shape) (i : Nat) : totalWords (ss.take i) ≤ totalWords ss := by
  induction ss generalizing i with
  | nil => simp [totalWords]
  | cons s ss ih =>
    cases i with
    | zero => simp [totalWords]
    | succ i => simp only [List.take_succ_cons, totalWords]; have := ih i; omega

theorem totalWords_take_succ (ss : List Shape) (i : Nat) (hi : i < ss.length) :
    totalWords (ss.take (i + 1)) = totalWords (ss.take i) + recordSizeWords ss[i] + 4 := by
  induction ss generalizing i with
  | nil => simp at hi
  | cons s ss ih =>
    cases i with
    | zero => simp [totalWords]
    | succ i =>
      simp only [List.take_succ_cons, totalWords, List.getElem_cons_succ]
      rw [ih i (by simpa using hi)]
      omega

/-- a crashed pair: the .shp is a header-sized region followed by the first `n` bytes of the record
stream, the index holds the first `N` entries.  Every entry leads to its record or to an I/O error. -/
theorem crashed_addr (o : Orient) (tg : Target) (t : ShapeType) (ss : List Shape) (hb : Bytes) (n N : Nat)
    (hb100 : hb.length = 100)
    (hsz : ∀ s ∈ ss, s.Sized) (hnn : ∀ s ∈ ss, s ≠ .null) (hty : ∀ s ∈ ss, s.writeType = t)
    (hacc : ∀ s ∈ ss, tg.Accepts s.writeType) (htot : 50 + totalWords ss < 2147483648)
    (i : Nat) (h1 : i < ((indexEntriesFrom 50 ss).take N).length) (h2 : i < (ss.map (Shape.readBack o)).length) :
    RecordAt o tg (hb ++ (recordsFrom t 1 ss).take n) ((indexEntriesFrom 50 ss).take N)[i] (ss.map (Shape.readBack o))[i] ∨
    (0 ≤ ((indexEntriesFrom 50 ss).take N)[i].offset ∧
      readOneShape o tg ((hb ++ (recordsFrom t 1 ss).take n).drop (2 * ((indexEntriesFrom 50 ss).take N)[i].offset).toNat) = .err .io) := by
  have hi : i < ss.length := by simpa using h2
  have hentry : ((indexEntriesFrom 50 ss).take N)[i] = ⟨50 + totalWords (ss.take i), recordSizeWords ss[i]⟩ := by
    rw [List.getElem_take]; exact C04.entry_value 50 ss i hi
  rw [hentry]
  simp only [List.getElem_map]
  have hstart : (2 * (((50 + totalWords (ss.take i) : Nat)) : Int)).toNat = hb.length + 2 * totalWords (ss.take i) := by
    rw [hb100]; omega
  have hstart' : (2 * ((50 : Int) + ((totalWords (ss.take i) : Nat) : Int))).toNat = hb.length + 2 * totalWords (ss.take i) := by
    rw [hb100]; omega
  have hl := length_le_totalWords ss
  have htl := totalWords_take_le ss i
  have hs := hsz ss[i] (List.getElem_mem hi)
  have hts : ss[i].writeType = t := hty ss[i] (List.getElem_mem hi)
  have hnum : InI32 ((1 + i : Nat) : Int) := by unfold InI32; omega
  have hL := C18.encRecord_length ((1 + i : Nat) : Int) t ss[i]
  have hdrop : (hb ++ (recordsFrom t 1 ss).take n).drop (hb.length + 2 * totalWords (ss.take i)) =
      (encRecord ((1 + i : Nat) : Int) t ss[i] ++ recordsFrom t (1 + i + 1) (ss.drop (i + 1))).take (n - 2 * totalWords (ss.take i)) := by
    rw [List.drop_append, List.drop_of_length_le (by omega), List.nil_append, Nat.add_sub_cancel_left,
      List.drop_take, recordsFrom_drop, List.drop_eq_getElem_cons hi]
    rfl
  by_cases hfit : 8 + 2 * recordSizeWords ss[i] ≤ n - 2 * totalWords (ss.take i)
  · left
    have hdrop2 : (hb ++ (recordsFrom t 1 ss).take n).drop (hb.length + 2 * totalWords (ss.take i)) =
        encRecord ((1 + i : Nat) : Int) t ss[i] ++
          (recordsFrom t (1 + i + 1) (ss.drop (i + 1))).take (n - 2 * totalWords (ss.take i) - (8 + 2 * recordSizeWords ss[i])) := by
      rw [hdrop, List.take_append, hL, List.take_of_length_le (by rw [hL]; omega)]
    refine ⟨by simp only; omega, (recordSizeWords ss[i] : Int),
      (recordsFrom t (1 + i + 1) (ss.drop (i + 1))).take (n - 2 * totalWords (ss.take i) - (8 + 2 * recordSizeWords ss[i])), ?_, by omega, ?_⟩
    · rw [hstart', hdrop2]
      have := readOneShape_encRecord o tg ((1 + i : Nat) : Int) ss[i]
        ((recordsFrom t (1 + i + 1) (ss.drop (i + 1))).take (n - 2 * totalWords (ss.take i) - (8 + 2 * recordSizeWords ss[i])))
        hnum hs (hnn _ (List.getElem_mem hi)) (hacc _ (List.getElem_mem hi))
      rw [hts] at this
      exact this
    · have hlen := congrArg List.length hdrop2
      simp only [List.length_drop, List.length_append, hL] at hlen
      rw [hstart']
      simp only [List.length_append]
      omega
  · right
    refine ⟨by omega, ?_⟩
    rw [hstart', hdrop, List.take_append_of_le_length (by rw [hL]; omega)]
    have := C13.truncated_record o tg ((1 + i : Nat) : Int) ss[i] (n - 2 * totalWords (ss.take i)) hnum hs
      (hnn _ (List.getElem_mem hi)) (hacc _ (List.getElem_mem hi)) (by rw [hts, hL]; omega)
    rw [hts] at this
    exact this

namespace Dec
variable {α β : Type}
/-- what a decoder leaves is a suffix of what it was given -/
def Tail (d : Dec α) : Prop := ∀ bs a rest, d bs = .ok a rest → ∃ n, rest = bs.drop n

theorem Tail.pure (a : α) : Tail (Dec.pure a) := by
  intro bs a' rest h; simp only [Dec.pure, Res.ok.injEq] at h; exact ⟨0, by rw [h.2]; rfl⟩
theorem Tail.fail (e : Err) : Tail (Dec.fail e : Dec α) := by
  intro bs a rest h; simp [Dec.fail] at h
theorem Tail.bind {d : Dec α} {f : α → Dec β} (hd : Tail d) (hf : ∀ a, Tail (f a)) : Tail (Dec.bind d f) := by
  intro bs b rest h
  obtain ⟨a, r, h1, h2⟩ := bind_ok h
  obtain ⟨n, hn⟩ := hd bs a r h1
  obtain ⟨m, hm⟩ := hf a r b rest h2
  exact ⟨n + m, by rw [hm, hn, List.drop_drop]⟩
theorem Tail.ite {c : Prop} [Decidable c] {d1 d2 : Dec α} (h1 : Tail d1) (h2 : Tail d2) :
    Tail (if c then d1 else d2) := by
  split
  · exact h1
  · exact h2
theorem Tail.take (n : Nat) : Tail (take n) := by
  intro bs a rest h
  unfold Dec.take at h
  split at h <;> simp at h
  exact ⟨n, h.2.symm⟩
theorem Tail.u32LE : Tail u32LE := by
  intro bs a rest h; unfold Dec.u32LE at h; split at h <;> simp at h; obtain ⟨_, rfl⟩ := h; exact ⟨4, rfl⟩
theorem Tail.u32BE : Tail u32BE := by
  intro bs a rest h; unfold Dec.u32BE at h; split at h <;> simp at h; obtain ⟨_, rfl⟩ := h; exact ⟨4, rfl⟩
theorem Tail.i32LE : Tail i32LE := by
  intro bs a rest h
  unfold Dec.i32LE at h
  cases hu : Dec.u32LE bs with
  | ok n r => rw [hu] at h; simp [Res.map] at h; obtain ⟨_, rfl⟩ := h; exact Tail.u32LE bs n r hu
  | err e => rw [hu] at h; simp [Res.map] at h
  | panic s => rw [hu] at h; simp [Res.map] at h
theorem Tail.i32BE : Tail i32BE := by
  intro bs a rest h
  unfold Dec.i32BE at h
  cases hu : Dec.u32BE bs with
  | ok n r => rw [hu] at h; simp [Res.map] at h; obtain ⟨_, rfl⟩ := h; exact Tail.u32BE bs n r hu
  | err e => rw [hu] at h; simp [Res.map] at h
  | panic s => rw [hu] at h; simp [Res.map] at h
theorem Tail.f64 : Tail f64 := by
  intro bs a rest h; unfold Dec.f64 at h; split at h <;> simp at h; obtain ⟨_, rfl⟩ := h; exact ⟨8, rfl⟩
end Dec

theorem readShapeType_tail : Tail readShapeType := by
  unfold readShapeType
  exact Tail.bind Tail.i32LE fun c => by
    cases ShapeType.ofCode c
    · exact Tail.fail _
    · exact Tail.pure _

theorem readHeader_tail : Tail readHeader :=
  Tail.bind Tail.i32BE fun _ => Tail.ite (Tail.fail _)
    (Tail.bind (Tail.take _) fun _ => Tail.bind Tail.i32BE fun _ => Tail.bind Tail.i32LE fun _ =>
     Tail.bind readShapeType_tail fun _ =>
     Tail.bind Tail.f64 fun _ => Tail.bind Tail.f64 fun _ => Tail.bind Tail.f64 fun _ =>
     Tail.bind Tail.f64 fun _ => Tail.bind Tail.f64 fun _ => Tail.bind Tail.f64 fun _ =>
     Tail.bind Tail.f64 fun _ => Tail.bind Tail.f64 fun _ => Tail.pure _)

/-- a header occupies exactly the first 100 bytes -/
theorem readHeader_rest (bs : Bytes) (h : Header) (rest : Bytes) (he : readHeader bs = .ok h rest) :
    rest = bs.drop 100 := by
  obtain ⟨n, hn⟩ := readHeader_tail bs h rest he
  have hl := readHeader_consumes bs h rest he
  by_cases hle : n ≤ bs.length
  · have : n = 100 := by rw [hn, List.length_drop] at hl; omega
    rw [hn, this]
  · have hr : rest = [] := by rw [hn]; exact List.drop_of_length_le (by omega)
    rw [hr] at hl ⊢
    simp only [List.length_nil] at hl
    exact (List.drop_of_length_le (by omega)).symm

/-- parsing `N` entries off a byte-prefix of the entries the writer emitted gives the first `N` -/
theorem repeatN_entries_take (es : List IndexEntry) (hes : ∀ e ∈ es, InI32 e.offset ∧ InI32 e.recordSize)
    (N m : Nat) (idx : List IndexEntry) (r : Bytes)
    (h : repeatN N readIndexEntry ((es.flatMap IndexEntry.enc).take m) = .ok idx r) :
    idx = es.take N ∧ N ≤ es.length := by
  induction N generalizing es m idx r with
  | zero =>
    simp only [repeatN, Dec.pure, Res.ok.injEq] at h
    exact ⟨by rw [← h.1]; simp, by omega⟩
  | succ N ih =>
    unfold repeatN at h
    cases es with
    | nil =>
      simp only [List.flatMap_nil, List.take_nil] at h
      have : readIndexEntry [] = .err .io := by unfold readIndexEntry Dec.bind Dec.i32BE Dec.u32BE; rfl
      simp only [Dec.bind, this] at h
      cases h
    | cons e es =>
      simp only [List.flatMap_cons] at h
      by_cases hm : 8 ≤ m
      · rw [List.take_append, List.take_of_length_le (by rw [IndexEntry.enc_length]; omega), IndexEntry.enc_length,
          bind_exact (fun r => readIndexEntry_enc e (hes e List.mem_cons_self) r)] at h
        obtain ⟨idx', r', h1, h2⟩ := bind_ok h
        obtain ⟨hi, hn⟩ := ih es (fun x hx => hes x (List.mem_cons_of_mem _ hx)) (m - 8) idx' r' h1
        simp only [Dec.pure, Res.ok.injEq] at h2
        exact ⟨by rw [← h2.1, hi]; simp, by simp only [List.length_cons]; omega⟩
      · rw [List.take_append_of_le_length (by rw [IndexEntry.enc_length]; omega)] at h
        have herr : readIndexEntry (e.enc.take m) = .err .io := by
          apply strict_prefix_io (enc := IndexEntry.enc) (a := e) readIndexEntry_stable
            (fun r => readIndexEntry_enc e (hes e List.mem_cons_self) r) _ (e.enc.drop m) (List.take_append_drop m _)
          intro hd
          have := congrArg List.length hd
          simp only [List.length_drop, IndexEntry.enc_length, List.length_nil] at this
          omega
        simp only [Dec.bind, herr] at h
        cases h

end Shp

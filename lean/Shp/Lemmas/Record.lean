/- Record-level round trip: content of every shape type, then a framed record. -/
import Shp.Lemmas.Exact
import Shp.Props.C18
namespace Shp
open Dec

theorem Shape.sized_counts (s : Shape) (hs : s.Sized) : s.numParts < 2147483648 ∧ s.numPoints < 2147483648 := by
  unfold Shape.Sized Shape.sizeInBytes at hs
  cases s with
  | null => simp [Shape.numParts, Shape.numPoints, Shape.parts]
  | point d p => simp [Shape.numParts, Shape.numPoints, Shape.parts]
  | multipoint d b pts =>
    cases d <;> simp [sizeInBytesTerm, Shape.shapetype, Shape.variant, Variant.shapetype, Shape.numParts,
      Shape.numPoints, Shape.parts] at hs ⊢ <;> omega
  | polyline d b parts =>
    cases d <;> simp [sizeInBytesTerm, Shape.shapetype, Shape.variant, Variant.shapetype, Shape.numParts,
      Shape.numPoints, Shape.parts] at hs ⊢ <;> omega
  | polygon d b rings =>
    cases d <;> simp [sizeInBytesTerm, Shape.shapetype, Shape.variant, Variant.shapetype, Shape.numParts,
      Shape.numPoints, Shape.parts] at hs ⊢ <;> omega
  | multipatch b patches =>
    simp [sizeInBytesTerm, Shape.shapetype, Shape.variant, Variant.shapetype, Shape.numParts,
      Shape.numPoints, Shape.parts] at hs ⊢
    omega

theorem readPointContent_enc (d : Dim) (p : Pt) (r : Bytes) :
    readPointContent d ((encPoint d p).length : Int) (encPoint d p ++ r) = .ok (.point d (p.readRaw d)) r := by
  cases d <;> simp only [encPoint, Dim.hasZ, Dim.hasM, Bool.false_eq_true, if_false, if_true, List.append_nil,
    List.length_append, F64.enc_length, List.append_assoc, readPointContent]
  · rw [if_pos (by rfl), bind_exact (f64_enc _), bind_exact (f64_enc _)]
    simp [Dec.pure, Pt.readRaw, Pt.default, Dim.hasZ, Dim.hasM]
  · rw [if_pos (by rfl), bind_exact (f64_enc _), bind_exact (f64_enc _), bind_exact (f64_enc _)]
    simp [Dec.pure, Pt.readRaw, Pt.default, Dim.hasZ, Dim.hasM]
  · rw [if_neg (by decide), if_pos (by rfl), bind_exact (f64_enc _), bind_exact (f64_enc _), bind_exact (f64_enc _),
      bind_exact (f64_enc _)]
    simp [Dec.pure, Pt.readRaw, Dim.hasZ, Dim.hasM]

/-- MAIN (record content): the reader of a shape's own type, given the announced size, returns
the shape as normalised on read and consumes exactly the emitted bytes. -/
theorem readContentOf_encodeContent (o : Orient) (s : Shape) (hs : s.Sized) (r : Bytes) :
    readContentOf o s.writeType (s.sizeInBytes : Int) (s.encodeContent ++ r) = .ok (s.readBack o) r := by
  have hc := s.sized_counts hs
  rw [← C18.encodeContent_length]
  cases s with
  | null => rfl
  | point d p =>
    cases d
    · simpa only [Shape.writeType, Shape.variant, Variant.concreteType, Option.getD_some, readContentOf,
        Shape.encodeContent, Shape.readBack] using readPointContent_enc .xy p r
    · simpa only [Shape.writeType, Shape.variant, Variant.concreteType, Option.getD_some, readContentOf,
        Shape.encodeContent, Shape.readBack] using readPointContent_enc .xym p r
    · simpa only [Shape.writeType, Shape.variant, Variant.concreteType, Option.getD_some, readContentOf,
        Shape.encodeContent, Shape.readBack] using readPointContent_enc .xyzm p r
  | multipoint d b pts =>
    have hb : pts.length < 2147483648 := by
      simpa [Shape.numPoints, Shape.parts] using hc.2
    have := readMultipointContent_enc d true b pts r hb
    simp only [Shape.encodeContent, encMultipoint_eq]
    cases d <;> simpa only [Shape.writeType, Shape.variant, Variant.concreteType, Option.getD_some, readContentOf,
      Shape.readBack, BBox.readRawOpt_true, Pt.readBackOpt_true'] using this
  | polyline d b parts =>
    have hb : totalPoints parts < 2147483648 := by simpa [Shape.numPoints, Shape.parts, totalPoints] using hc.2
    have hp : parts.length < 2147483648 := by simpa [Shape.numParts, Shape.parts] using hc.1
    have := readPolylineContent_enc d true b parts r hb hp
    simp only [BBox.readRawOpt_true, Pt.readBackOpt_true', ← encMultiPart_eq] at this
    simp only [Shape.encodeContent]
    cases d <;> simp only [Shape.writeType, Shape.variant, Variant.concreteType, Option.getD_some, readContentOf] <;>
      rw [bind_of_ok this] <;> rfl
  | polygon d b rings =>
    have hb : totalPoints (rings.map (·.2)) < 2147483648 := by simpa [Shape.numPoints, Shape.parts, totalPoints] using hc.2
    have hp : (rings.map (·.2)).length < 2147483648 := by simpa [Shape.numParts, Shape.parts] using hc.1
    have := readPolylineContent_enc d true b (rings.map (·.2)) r hb hp
    simp only [BBox.readRawOpt_true, Pt.readBackOpt_true', ← encMultiPart_eq] at this
    simp only [Shape.encodeContent]
    cases d <;> simp only [Shape.writeType, Shape.variant, Variant.concreteType, Option.getD_some, readContentOf] <;>
      rw [bind_of_ok this] <;> simp [Dec.pure, Shape.readBack, List.map_map, Function.comp]
  | multipatch b patches =>
    have hb : totalPoints (patches.map (·.2)) < 2147483648 := by simpa [Shape.numPoints, Shape.parts, totalPoints] using hc.2
    have hp : patches.length < 2147483648 := by simpa [Shape.numParts, Shape.parts] using hc.1
    have := readMultipatchContent_enc true b patches r hb hp
    simp only [BBox.readRawOpt_true, Pt.readBackOpt_true', ← encMultipatch_eq] at this
    simpa only [Shape.encodeContent, Shape.writeType, Shape.variant, Variant.concreteType, Option.getD_some,
      readContentOf, Shape.readBack] using this

end Shp

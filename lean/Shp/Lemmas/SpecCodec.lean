/-
The independent whitepaper codec of `Shp.Spec` is a codec: its strict decoder inverts its encoder
on every strict file value (decoder side of C02's refinement).
-/
import Shp.Spec.Esri
namespace Shp.Spec

/-! ### numbers -/
theorem ofNat_toNat_mod (n : Nat) : (UInt8.ofNat (n % 256)).toNat = n % 256 := by simp

theorem rdU32LE_wr (n : Nat) (h : n < 4294967296) (r : Bytes) : rdU32LE (wrU32LE n ++ r) = some (n, r) := by
  unfold wrU32LE rdU32LE
  simp only [List.cons_append, List.nil_append, ofNat_toNat_mod, Option.some.injEq, Prod.mk.injEq, and_true]
  omega

theorem rdU32BE_wr (n : Nat) (h : n < 4294967296) (r : Bytes) : rdU32BE (wrU32BE n ++ r) = some (n, r) := by
  unfold wrU32BE wrU32LE rdU32BE
  simp only [List.reverse_cons, List.reverse_nil, List.nil_append, List.cons_append, ofNat_toNat_mod,
    Option.some.injEq, Prod.mk.injEq, and_true]
  omega

def InI32 (i : Int) : Prop := -2147483648 ≤ i ∧ i < 2147483648

theorem asI32_ofInt32 (i : Int) (h : InI32 i) : asI32 (ofInt32 i) = i := by
  unfold InI32 at h; unfold asI32 ofInt32; split <;> omega

theorem ofInt32_lt (i : Int) : ofInt32 i < 4294967296 := by unfold ofInt32; omega

theorem rdI32LE_wr (i : Int) (h : InI32 i) (r : Bytes) : rdI32LE (wrI32LE i ++ r) = some (i, r) := by
  unfold rdI32LE wrI32LE
  rw [rdU32LE_wr _ (ofInt32_lt i)]
  simp [asI32_ofInt32 i h]

theorem rdI32BE_wr (i : Int) (h : InI32 i) (r : Bytes) : rdI32BE (wrI32BE i ++ r) = some (i, r) := by
  unfold rdI32BE wrI32BE
  rw [rdU32BE_wr _ (ofInt32_lt i)]
  simp [asI32_ofInt32 i h]

theorem rdF64_wr (b : Nat) (h : b < 18446744073709551616) (r : Bytes) : rdF64 (wrF64 b ++ r) = some (b, r) := by
  unfold rdF64 wrF64
  rw [List.append_assoc, rdU32LE_wr _ (by omega)]
  simp only [Option.bind_eq_bind, Option.bind_some]
  rw [rdU32LE_wr _ (by omega)]
  simp only [Option.bind_some, Option.pure_def, Option.some.injEq, Prod.mk.injEq, and_true]
  omega

@[simp] theorem wrU32LE_length (n : Nat) : (wrU32LE n).length = 4 := rfl
@[simp] theorem wrU32BE_length (n : Nat) : (wrU32BE n).length = 4 := rfl
@[simp] theorem wrI32LE_length (i : Int) : (wrI32LE i).length = 4 := rfl
@[simp] theorem wrI32BE_length (i : Int) : (wrI32BE i).length = 4 := rfl
@[simp] theorem wrF64_length (b : Nat) : (wrF64 b).length = 8 := rfl

/-! ### sequences -/
theorem rdMany_flatMap {α : Type} (rd : Bytes → Option (α × Bytes)) (wr : α → Bytes) (l : List α)
    (h : ∀ a ∈ l, ∀ r, rd (wr a ++ r) = some (a, r)) (r : Bytes) :
    rdMany rd l.length (l.flatMap wr ++ r) = some (l, r) := by
  induction l with
  | nil => simp [rdMany]
  | cons a as ih =>
    simp only [List.length_cons, rdMany, List.flatMap_cons, List.append_assoc]
    rw [h a List.mem_cons_self]
    simp only [Option.bind_eq_bind, Option.bind_some]
    rw [ih (fun x hx => h x (List.mem_cons_of_mem _ hx))]
    rfl

theorem flatMap_len {α : Type} (f : α → Bytes) (k : Nat) (h : ∀ a, (f a).length = k) (l : List α) :
    (l.flatMap f).length = k * l.length := by
  induction l with
  | nil => simp
  | cons a as ih => simp [List.flatMap_cons, h, ih, Nat.mul_add]; omega

end Shp.Spec

namespace Shp.Spec

/-! ### vertices -/
def Ok64 (b : Nat) : Prop := b < 18446744073709551616
def V.Ok (v : V) : Prop := Ok64 v.x ∧ Ok64 v.y ∧ Ok64 v.z ∧ Ok64 v.m
/-- a vertex without the coordinates its type does not have -/
def V.canon (hasZ hasM : Bool) (v : V) : V :=
  { x := v.x, y := v.y, z := if hasZ then v.z else 0, m := if hasM then v.m else 0 }
def V.xy (v : V) : V := { x := v.x, y := v.y }

theorem zipZM_canon (hasZ hasM : Bool) (vs : List V) :
    zipZM (vs.map V.xy) (if hasZ then vs.map (·.z) else []) (if hasM then vs.map (·.m) else []) =
      vs.map (V.canon hasZ hasM) := by
  unfold zipZM
  apply List.ext_getElem
  · simp
  · intro i h1 h2
    have hi : i < vs.length := by simpa using h2
    simp only [List.getElem_map, List.getElem_zipIdx, Nat.zero_add, V.canon, V.xy]
    cases hasZ <;> cases hasM <;> simp [List.getD_eq_getElem?_getD, hi]

/-- the (x, y) pair reader of `decVerts`, in the form `simp only [Option.bind_eq_bind, Option.pure_def]` leaves it -/
def rdXY : Bytes → Option (V × Bytes) := fun b =>
  (rdF64 b).bind fun __x => (rdF64 __x.snd).bind fun __x_1 => some (({ x := __x.fst, y := __x_1.fst } : V), __x_1.snd)

theorem rd_xy (vs : List V) (h : ∀ v ∈ vs, v.Ok) (r : Bytes) :
    rdMany rdXY vs.length (vs.flatMap (fun v => wrF64 v.x ++ wrF64 v.y) ++ r) = some (vs.map V.xy, r) := by
  have := rdMany_flatMap rdXY (fun v => wrF64 v.x ++ wrF64 v.y) (vs.map V.xy) (by
      intro a ha r
      simp only [List.mem_map] at ha
      obtain ⟨v, hv, rfl⟩ := ha
      have := h v hv
      simp only [V.xy, List.append_assoc, rdXY]
      rw [rdF64_wr _ this.1]
      simp only [Option.bind_some]
      rw [rdF64_wr _ this.2.1]
      rfl) r
  simpa [List.flatMap_map, V.xy] using this

theorem rd_col (f : V → Nat) (vs : List V) (h : ∀ v ∈ vs, Ok64 (f v)) (r : Bytes) :
    rdMany rdF64 vs.length (vs.flatMap (fun v => wrF64 (f v)) ++ r) = some (vs.map f, r) := by
  have := rdMany_flatMap rdF64 wrF64 (vs.map f) (by
      intro a ha r
      simp only [List.mem_map] at ha
      obtain ⟨v, hv, rfl⟩ := ha
      exact rdF64_wr _ (h v hv) r) r
  simpa [List.flatMap_map] using this

end Shp.Spec

namespace Shp.Spec

theorem decVerts_enc (hasZ hasM : Bool) (hzm : hasZ = true → hasM = true) (r : Rec)
    (hv : ∀ v ∈ r.parts.flatten, v.Ok)
    (hz : Ok64 r.zRange.1 ∧ Ok64 r.zRange.2) (hm : Ok64 r.mRange.1 ∧ Ok64 r.mRange.2) :
    decVerts hasZ hasM r.parts.flatten.length (encVerts hasZ hasM true r) =
      some ((r.parts.flatten).map (V.canon hasZ hasM), (if hasZ then r.zRange else (0, 0)),
        (if hasM then r.mRange else (0, 0)), hasM) := by
  have hzs : ∀ v ∈ r.parts.flatten, Ok64 v.z := fun v h => (hv v h).2.2.1
  have hms : ∀ v ∈ r.parts.flatten, Ok64 v.m := fun v h => (hv v h).2.2.2
  unfold decVerts encVerts
  simp only [Option.bind_eq_bind, Option.pure_def]
  generalize r.parts.flatten = vs at *
  have hcan := zipZM_canon hasZ hasM vs
  change (rdMany rdXY vs.length _).bind _ = _
  cases hasZ <;> cases hasM
  · -- no Z, no M
    simp only [Bool.false_eq_true, if_false, Bool.and_true, List.append_nil] at hcan ⊢
    have h1 := rd_xy vs hv []
    rw [List.append_nil] at h1
    simp only [h1, Option.bind_some, List.isEmpty_nil, if_true, hcan]
  · -- M only
    simp only [Bool.false_eq_true, if_false, if_true, Bool.and_true, List.append_nil, List.nil_append,
      List.append_assoc] at hcan ⊢
    rw [rd_xy vs hv]
    simp only [Option.bind_some]
    have hne : (wrF64 r.mRange.1 ++ (wrF64 r.mRange.2 ++ (vs.flatMap fun v => wrF64 v.m))).isEmpty = false := rfl
    rw [hne]
    simp only [Bool.false_eq_true, if_false, Bool.not_true]
    rw [rdF64_wr _ hm.1]
    simp only [Option.bind_some]
    rw [rdF64_wr _ hm.2]
    simp only [Option.bind_some]
    have h3 := rd_col (·.m) vs hms []
    rw [List.append_nil] at h3
    simp only [h3, Option.bind_some, List.isEmpty_nil, Bool.not_true, Bool.false_eq_true, if_false, hcan]
  · exact absurd (hzm rfl) (by decide)
  · -- Z and M
    simp only [if_true, Bool.and_true, List.append_assoc] at hcan ⊢
    rw [rd_xy vs hv]
    simp only [Option.bind_some]
    rw [rdF64_wr _ hz.1]
    simp only [Option.bind_some]
    rw [rdF64_wr _ hz.2]
    simp only [Option.bind_some]
    rw [rd_col (·.z) vs hzs]
    simp only [Option.bind_some]
    have hne : (wrF64 r.mRange.1 ++ (wrF64 r.mRange.2 ++ (vs.flatMap fun v => wrF64 v.m))).isEmpty = false := rfl
    rw [hne]
    simp only [Bool.false_eq_true, if_false, Bool.not_true]
    rw [rdF64_wr _ hm.1]
    simp only [Option.bind_some]
    rw [rdF64_wr _ hm.2]
    simp only [Option.bind_some]
    have h3 := rd_col (·.m) vs hms []
    rw [List.append_nil] at h3
    simp only [h3, Option.bind_some, List.isEmpty_nil, Bool.not_true, Bool.false_eq_true, if_false, hcan]

end Shp.Spec

namespace Shp.Spec

/-! ### parts -/
theorem total_cons (p : List V) (ps : List (List V)) : total (p :: ps) = p.length + total ps := by
  simp [total]

theorem splitParts_offsets (s : Nat) (parts : List (List V)) :
    splitParts (offsetsOf s parts) (s + total parts) parts.flatten = some parts := by
  induction parts generalizing s with
  | nil => simp [offsetsOf, splitParts]
  | cons p ps ih =>
    cases ps with
    | nil =>
      simp only [offsetsOf, splitParts, total_cons, List.flatten_cons, List.flatten_nil, List.append_nil]
      have : total ([] : List (List V)) = 0 := rfl
      rw [this, if_pos (by omega)]
    | cons q rest =>
      have := ih (s + p.length)
      simp only [offsetsOf, total_cons, List.flatten_cons] at this ⊢
      simp only [splitParts]
      rw [if_pos (by omega)]
      have h1 : s + p.length - s = p.length := by omega
      rw [h1, List.drop_left, List.take_left]
      have h2 : s + (p.length + (q.length + total rest)) = s + p.length + (q.length + total rest) := by omega
      rw [h2, this]
      rfl

theorem offsetsOf_length (s : Nat) (parts : List (List V)) : (offsetsOf s parts).length = parts.length := by
  induction parts generalizing s with
  | nil => rfl
  | cons p ps ih => simp [offsetsOf, ih]

theorem offsetsOf_le (s : Nat) (parts : List (List V)) : ∀ o ∈ offsetsOf s parts, o ≤ s + total parts := by
  induction parts generalizing s with
  | nil => simp [offsetsOf]
  | cons p ps ih =>
    intro o ho
    simp only [offsetsOf, List.mem_cons] at ho
    rw [total_cons]
    rcases ho with rfl | ho
    · omega
    · have := ih _ o ho; omega

theorem offsetsOf_head (parts : List (List V)) : ((offsetsOf 0 parts).head?).any (· ≠ 0) = false := by
  cases parts <;> simp [offsetsOf]

theorem total_flatten (parts : List (List V)) : parts.flatten.length = total parts := by
  simp [total, List.length_flatten]

end Shp.Spec

/- Decoders only ever consume input: what is left is never longer than what was given, and a
successfully read record consumed at least its 8-byte header and its 4-byte type code. -/
import Shp.Lemmas.Post
import Shp.Model.Header
namespace Shp
open Dec

namespace Dec
variable {α β : Type}

/-- every success of `d` consumed at least `n` bytes -/
def Consumes (d : Dec α) (n : Nat) : Prop := ∀ bs a rest, d bs = .ok a rest → rest.length + n ≤ bs.length

theorem Consumes.pure (a : α) : Consumes (Dec.pure a) 0 := by
  intro bs a' rest h; simp only [Dec.pure, Res.ok.injEq] at h; rw [h.2]; omega
theorem Consumes.fail (e : Err) (n : Nat) : Consumes (Dec.fail e : Dec α) n := by
  intro bs a rest h; simp [Dec.fail] at h
theorem Consumes.panic (s : String) (n : Nat) : Consumes (Dec.panic s : Dec α) n := by
  intro bs a rest h; simp [Dec.panic] at h
theorem Consumes.weaken {d : Dec α} {n m : Nat} (h : Consumes d n) (hm : m ≤ n) : Consumes d m := by
  intro bs a rest he; have := h bs a rest he; omega
theorem Consumes.bind {d : Dec α} {f : α → Dec β} {n m : Nat} (hd : Consumes d n) (hf : ∀ a, Consumes (f a) m) :
    Consumes (Dec.bind d f) (n + m) := by
  intro bs b rest h
  obtain ⟨a, r, h1, h2⟩ := bind_ok h
  have := hd bs a r h1
  have := hf a r b rest h2
  omega
theorem Consumes.bind0 {d : Dec α} {f : α → Dec β} (hd : Consumes d 0) (hf : ∀ a, Consumes (f a) 0) :
    Consumes (Dec.bind d f) 0 := Consumes.bind hd hf
theorem Consumes.ite {c : Prop} [Decidable c] {d1 d2 : Dec α} {n : Nat} (h1 : Consumes d1 n) (h2 : Consumes d2 n) :
    Consumes (if c then d1 else d2) n := by
  split
  · exact h1
  · exact h2
theorem Consumes.take (n : Nat) : Consumes (take n) n := by
  intro bs a rest h
  unfold Dec.take at h
  split at h <;> simp at h
  obtain ⟨_, rfl⟩ := h
  simp; omega
theorem Consumes.u32LE : Consumes u32LE 4 := by
  intro bs a rest h; unfold Dec.u32LE at h; split at h <;> simp at h; obtain ⟨_, rfl⟩ := h; simp
theorem Consumes.u32BE : Consumes u32BE 4 := by
  intro bs a rest h; unfold Dec.u32BE at h; split at h <;> simp at h; obtain ⟨_, rfl⟩ := h; simp
theorem Consumes.i32LE : Consumes i32LE 4 := by
  intro bs a rest h
  unfold Dec.i32LE at h
  cases hu : Dec.u32LE bs with
  | ok n r => rw [hu] at h; simp [Res.map] at h; obtain ⟨_, rfl⟩ := h; exact Consumes.u32LE bs n r hu
  | err e => rw [hu] at h; simp [Res.map] at h
  | panic s => rw [hu] at h; simp [Res.map] at h
theorem Consumes.i32BE : Consumes i32BE 4 := by
  intro bs a rest h
  unfold Dec.i32BE at h
  cases hu : Dec.u32BE bs with
  | ok n r => rw [hu] at h; simp [Res.map] at h; obtain ⟨_, rfl⟩ := h; exact Consumes.u32BE bs n r hu
  | err e => rw [hu] at h; simp [Res.map] at h
  | panic s => rw [hu] at h; simp [Res.map] at h
theorem Consumes.f64 : Consumes f64 8 := by
  intro bs a rest h; unfold Dec.f64 at h; split at h <;> simp at h; obtain ⟨_, rfl⟩ := h; simp
theorem Consumes.repeatN (n : Nat) {d : Dec α} (hd : Consumes d 0) : Consumes (repeatN n d) 0 := by
  induction n with
  | zero => exact Consumes.pure _
  | succ n ih => unfold Dec.repeatN; exact Consumes.bind0 hd fun a => Consumes.bind0 ih fun as => Consumes.pure _
theorem Consumes.mapM' {f : α → Dec β} (hf : ∀ a, Consumes (f a) 0) (l : List α) : Consumes (mapM' f l) 0 := by
  induction l with
  | nil => exact Consumes.pure _
  | cons a as ih => unfold Dec.mapM'; exact Consumes.bind0 (hf a) fun b => Consumes.bind0 ih fun bs => Consumes.pure _
end Dec

theorem c0_f64 : Consumes f64 0 := Consumes.f64.weaken (by omega)
theorem c0_i32LE : Consumes i32LE 0 := Consumes.i32LE.weaken (by omega)
theorem c0_i32BE : Consumes i32BE 0 := Consumes.i32BE.weaken (by omega)

theorem readXYPt_c0 : Consumes readXYPt 0 := Consumes.bind0 c0_f64 fun _ => Consumes.bind0 c0_f64 fun _ => Consumes.pure _
theorem readCounted_c0 {α : Type} (n : Int) {d : Dec α} (hd : Consumes d 0) : Consumes (readCounted n d) 0 := by
  unfold readCounted; exact Consumes.ite (Consumes.fail _ _) (Consumes.repeatN _ hd)
theorem readBBoxXY_c0 : Consumes readBBoxXY 0 :=
  Consumes.bind0 c0_f64 fun _ => Consumes.bind0 c0_f64 fun _ => Consumes.bind0 c0_f64 fun _ => Consumes.bind0 c0_f64 fun _ => Consumes.pure _
theorem readZs_c0 (b : BBox) (parts : List (List Pt)) : Consumes (readZs b parts) 0 :=
  Consumes.bind0 c0_f64 fun _ => Consumes.bind0 c0_f64 fun _ =>
  Consumes.bind0 (Consumes.mapM' (fun pts => Consumes.mapM' (fun _ => Consumes.bind0 c0_f64 fun _ => Consumes.pure _) pts) parts) fun _ => Consumes.pure _
theorem readMs_c0 (b : BBox) (parts : List (List Pt)) : Consumes (readMs b parts) 0 :=
  Consumes.bind0 c0_f64 fun _ => Consumes.bind0 c0_f64 fun _ =>
  Consumes.bind0 (Consumes.mapM' (fun pts => Consumes.mapM' (fun _ => Consumes.bind0 c0_f64 fun _ => Consumes.pure _) pts) parts) fun _ => Consumes.pure _
theorem readZM_c0 (d : Dim) (m : Bool) (b : BBox) (parts : List (List Pt)) : Consumes (readZM d m b parts) 0 := by
  unfold readZM
  exact Consumes.bind0 (Consumes.ite (readZs_c0 _ _) (Consumes.pure _)) fun r => Consumes.ite (readMs_c0 _ _) (Consumes.pure _)
theorem readPartsXY_c0 (bounds : List (Int × Int)) : Consumes (readPartsXY bounds) 0 :=
  Consumes.mapM' (fun _ => Consumes.ite (Consumes.fail _ _) (readCounted_c0 _ readXYPt_c0)) bounds
theorem readMultiPartHeader_c0 : Consumes readMultiPartHeader 0 :=
  Consumes.bind0 readBBoxXY_c0 fun _ => Consumes.bind0 c0_i32LE fun _ => Consumes.bind0 c0_i32LE fun _ =>
  Consumes.bind0 (readCounted_c0 _ c0_i32LE) fun _ => Consumes.pure _
theorem readPolylineContent_c0 (d : Dim) (rs : Int) : Consumes (readPolylineContent d rs) 0 :=
  Consumes.bind0 readMultiPartHeader_c0 fun _ =>
    Consumes.ite (Consumes.fail _ _) (Consumes.bind0 (readPartsXY_c0 _) fun _ => readZM_c0 _ _ _ _)
theorem readPatchKind_c0 : Consumes readPatchKind 0 :=
  Consumes.bind0 c0_i32LE fun c => by
    cases PatchKind.ofCode c
    · exact Consumes.fail _ _
    · exact Consumes.pure _
theorem readMultipatchContent_c0 (rs : Int) : Consumes (readMultipatchContent rs) 0 :=
  Consumes.bind0 readMultiPartHeader_c0 fun _ =>
    Consumes.ite (Consumes.fail _ _) (Consumes.bind0 (readCounted_c0 _ readPatchKind_c0) fun _ =>
      Consumes.bind0 (readPartsXY_c0 _) fun _ => Consumes.bind0 (readZM_c0 _ _ _ _) fun _ => Consumes.pure _)
theorem readMultipointContent_c0 (d : Dim) (rs : Int) : Consumes (readMultipointContent d rs) 0 :=
  Consumes.bind0 readBBoxXY_c0 fun _ => Consumes.bind0 c0_i32LE fun _ =>
    Consumes.ite (Consumes.fail _ _) (Consumes.bind0 (readCounted_c0 _ readXYPt_c0) fun _ =>
      Consumes.bind0 (readZM_c0 _ _ _ _) fun _ => Consumes.pure _)
theorem readPointContent_c0 (d : Dim) (rs : Int) : Consumes (readPointContent d rs) 0 := by
  cases d <;> unfold readPointContent
  · exact Consumes.ite (Consumes.bind0 c0_f64 fun _ => Consumes.bind0 c0_f64 fun _ => Consumes.pure _) (Consumes.fail _ _)
  · exact Consumes.ite (Consumes.bind0 c0_f64 fun _ => Consumes.bind0 c0_f64 fun _ => Consumes.bind0 c0_f64 fun _ =>
      Consumes.pure _) (Consumes.fail _ _)
  · exact Consumes.ite (Consumes.bind0 c0_f64 fun _ => Consumes.bind0 c0_f64 fun _ => Consumes.bind0 c0_f64 fun _ =>
      Consumes.pure _)
      (Consumes.ite (Consumes.bind0 c0_f64 fun _ => Consumes.bind0 c0_f64 fun _ => Consumes.bind0 c0_f64 fun _ =>
        Consumes.bind0 c0_f64 fun _ => Consumes.pure _) (Consumes.fail _ _))
theorem readContentOf_c0 (o : Orient) (t : ShapeType) (rs : Int) : Consumes (readContentOf o t rs) 0 := by
  cases t <;> simp only [readContentOf]
  case nullShape => exact Consumes.pure _
  case point | pointM | pointZ => exact readPointContent_c0 _ _
  case multipoint | multipointM | multipointZ => exact readMultipointContent_c0 _ _
  case polyline | polylineM | polylineZ | polygon | polygonM | polygonZ =>
    exact Consumes.bind0 (readPolylineContent_c0 _ _) fun _ => Consumes.pure _
  case multipatch => exact readMultipatchContent_c0 _

theorem readShapeType_c4 : Consumes readShapeType 4 := by
  have : Consumes readShapeType (4 + 0) := Consumes.bind Consumes.i32LE fun c => by
    cases ShapeType.ofCode c
    · exact Consumes.fail _ _
    · exact Consumes.pure _
  simpa using this

theorem subTypeCode_c0 (rs : Int) : Consumes (subTypeCode rs) 0 := by
  unfold subTypeCode; exact Consumes.ite (Consumes.pure _) (Consumes.panic _ _)

theorem readTarget_c4 (o : Orient) (tg : Target) (rs : Int) : Consumes (readTarget o tg rs) 4 := by
  cases tg with
  | generic =>
    have : Consumes (readShape o rs) (4 + 0) := Consumes.bind readShapeType_c4 fun t =>
      Consumes.bind0 (subTypeCode_c0 rs) fun rs' => by
        cases (dispatch t).2
        · exact Consumes.pure _
        · exact readContentOf_c0 _ _ _
    simpa [readTarget] using this
  | typed S =>
    have : Consumes (readShapeAs o S rs) (4 + 0) := Consumes.bind readShapeType_c4 fun _ =>
      Consumes.bind0 (subTypeCode_c0 rs) fun _ => Consumes.ite (readContentOf_c0 _ _ _) (Consumes.fail _ _)
    simpa [readTarget] using this

/-- a successfully read record consumed at least 12 bytes -/
theorem readOneShape_c12 (o : Orient) (tg : Target) : Consumes (readOneShape o tg) 12 := by
  have : Consumes (readOneShape o tg) (4 + (4 + 4)) := Consumes.bind Consumes.i32BE fun _ =>
    Consumes.bind Consumes.i32BE fun w => by
      cases hw : wordsToBytes w with
      | none => exact Consumes.fail _ _
      | some b =>
        simp only []
        exact Consumes.ite (Consumes.fail _ _) (by
          have : Consumes (Dec.bind (readTarget o tg b) fun s => Dec.pure (w, s)) (4 + 0) :=
            Consumes.bind (readTarget_c4 o tg b) fun _ => Consumes.pure _
          simpa using this)
  simpa using this

end Shp

/- Writer histories on healthy destinations: the invariant lifted to every call sequence. -/
import Shp.Lemmas.Writer
namespace Shp

theorem Shape.writeType_ne_null (s : Shape) (h : s ≠ .null) : s.writeType ≠ .nullShape := by
  cases s with
  | null => exact absurd rfl h
  | point d p => cases d <;> simp [Shape.writeType, Shape.variant, Variant.concreteType]
  | multipoint d b p => cases d <;> simp [Shape.writeType, Shape.variant, Variant.concreteType]
  | polyline d b p => cases d <;> simp [Shape.writeType, Shape.variant, Variant.concreteType]
  | polygon d b p => cases d <;> simp [Shape.writeType, Shape.variant, Variant.concreteType]
  | multipatch b p => simp [Shape.writeType, Shape.variant, Variant.concreteType]

/-- does the writer accept this shape after having accepted `ss`? -/
def accepts (ss : List Shape) (s : Shape) : Prop := ss = [] ∨ fileTypeOf ss = s.writeType
instance (ss : List Shape) (s : Shape) : Decidable (accepts ss s) := by unfold accepts; infer_instance

/-- the shapes accepted so far, after one more call -/
def acceptStep (ss : List Shape) : WCall → List Shape
  | .finalize => ss
  | .writeShape s => if accepts ss s then ss ++ [s] else ss

def acceptedOf (cs : List WCall) : List Shape := cs.foldl acceptStep []

/-- the calls of a history that are not rejected writes -/
def keptFrom (ss : List Shape) : List WCall → List WCall
  | [] => []
  | .finalize :: cs => .finalize :: keptFrom ss cs
  | .writeShape s :: cs => if accepts ss s then .writeShape s :: keptFrom (ss ++ [s]) cs else keptFrom ss cs

def NonNullCalls (cs : List WCall) : Prop := ∀ c ∈ cs, c ≠ .writeShape .null

theorem WInv.call {w : World} {ss : List Shape} (h : WInv w ss) (c : WCall) (hc : c ≠ .writeShape .null) :
    WInv (w.call c).1 (acceptStep ss c) ∧ (w.call c).1.st.hasShx = w.st.hasShx := by
  cases c with
  | finalize => exact ⟨(h.finalize).2.1, (h.finalize).2.2.2⟩
  | writeShape s =>
    have hs : s.writeType ≠ .nullShape := s.writeType_ne_null (fun e => hc (by rw [e]))
    by_cases ha : accepts ss s
    · simp only [acceptStep, ha, if_true]
      exact ⟨(h.write s hs ha).2.1, (h.write s hs ha).2.2⟩
    · simp only [acceptStep, ha, if_false]
      have hne : ss ≠ [] := fun e => ha (Or.inl e)
      have hty : fileTypeOf ss ≠ s.writeType := fun e => ha (Or.inr e)
      have hnn : w.st.header.shapeType ≠ .nullShape := by
        rw [h.shapeType]
        cases ss with
        | nil => exact absurd rfl hne
        | cons a as => exact h.homog.1
      rw [call_write_rejected w s hnn (by rw [h.shapeType]; exact hty)]
      exact ⟨h, rfl⟩

theorem WInv.run {w : World} {ss : List Shape} (h : WInv w ss) (cs : List WCall) (hc : NonNullCalls cs) :
    WInv (w.run cs) (cs.foldl acceptStep ss) ∧ (w.run cs).st.hasShx = w.st.hasShx := by
  induction cs generalizing w ss with
  | nil => exact ⟨h, rfl⟩
  | cons c cs ih =>
    have h1 := h.call c (hc c List.mem_cons_self)
    have h2 := ih h1.1 (fun x hx => hc x (List.mem_cons_of_mem _ hx))
    simp only [World.run, List.foldl_cons] at h2 ⊢
    exact ⟨h2.1, h2.2.trans h1.2⟩

/-- after `drop` the destinations hold the complete files of the accepted shapes -/
theorem WInv.drop {w : World} {ss : List Shape} (h : WInv w ss) :
    w.drop.shp.data = shpFile ss ∧ (w.st.hasShx = true → w.drop.shx.data = shxFile ss) ∧
    (w.st.hasShx = false → w.drop.shx.data = []) := by
  have hf := h.finalize
  have hclean := hf.2.1.clean hf.2.2.1
  refine ⟨hclean.1, ?_, ?_⟩
  · intro hx; exact hclean.2 (hf.2.2.2.trans hx)
  · intro hx
    have := hf.2.1.shx
    rw [hf.2.2.2, hx] at this
    simp only [Bool.false_eq_true, if_false] at this
    show (w.call .finalize).1.shx.data = []
    rw [this]; rfl

end Shp

/-
`WritableShape::write_to` and `size_in_bytes` of every shape type
(src/record/{point,multipoint,polyline,polygon,multipatch,io}.rs).
-/
import Shp.Model.Shape
namespace Shp

def encXY (ps : List Pt) : Bytes := ps.flatMap fun p => p.x.enc ++ p.y.enc
def encZs (ps : List Pt) : Bytes := ps.flatMap fun p => p.z.enc
def encMs (ps : List Pt) : Bytes := ps.flatMap fun p => p.m.enc
def encBBoxXY (b : BBox) : Bytes := b.min.x.enc ++ b.min.y.enc ++ b.max.x.enc ++ b.max.y.enc
def encZRange (b : BBox) : Bytes := b.min.z.enc ++ b.max.z.enc
def encMRange (b : BBox) : Bytes := b.min.m.enc ++ b.max.m.enc

/-- `write_parts_array`: running sum of the part lengths, starting at `start` -/
def offsetsFrom (start : Nat) : List Nat → List Nat
  | [] => []
  | l :: ls => start :: offsetsFrom (start + l) ls

def partOffsets (parts : List (List Pt)) : List Nat := offsetsFrom 0 (parts.map List.length)

def totalPoints (parts : List (List Pt)) : Nat := (parts.map List.length).sum

def encI32s (l : List Int) : Bytes := l.flatMap encI32LE

/-- Z block (range + values) when the dimension has Z, M block when it has M -/
def encZM (d : Dim) (b : BBox) (parts : List (List Pt)) : Bytes :=
  (if d.hasZ then encZRange b ++ parts.flatMap encZs else []) ++
  (if d.hasM then encMRange b ++ parts.flatMap encMs else [])

/-- `write_point_shape` / `write_point_m_shape` / `write_point_z_shape` -/
def encMultiPart (d : Dim) (b : BBox) (parts : List (List Pt)) : Bytes :=
  encBBoxXY b ++ encI32LE parts.length ++ encI32LE (totalPoints parts) ++
  encI32s ((partOffsets parts).map Int.ofNat) ++ parts.flatMap encXY ++ encZM d b parts

def encPoint (d : Dim) (p : Pt) : Bytes :=
  p.x.enc ++ p.y.enc ++ (if d.hasZ then p.z.enc else []) ++ (if d.hasM then p.m.enc else [])

def encMultipoint (d : Dim) (b : BBox) (pts : List Pt) : Bytes :=
  encBBoxXY b ++ encI32LE pts.length ++ encXY pts ++ encZM d b [pts]

def encMultipatch (b : BBox) (patches : List (PatchKind × List Pt)) : Bytes :=
  let parts := patches.map (·.2)
  encBBoxXY b ++ encI32LE parts.length ++ encI32LE (totalPoints parts) ++
  encI32s ((partOffsets parts).map Int.ofNat) ++ encI32s (patches.map (·.1.code)) ++
  parts.flatMap encXY ++ encZRange b ++ parts.flatMap encZs ++ encMRange b ++ parts.flatMap encMs

namespace Shape

/-- `write_to` (record content after the type code) -/
def encodeContent : Shape → Bytes
  | null => []
  | point d p => encPoint d p
  | multipoint d b pts => encMultipoint d b pts
  | polyline d b parts => encMultiPart d b parts
  | polygon d b rings => encMultiPart d b (rings.map (·.2))
  | multipatch b patches => encMultipatch b patches

/-- `size_in_bytes`, from the generated affine term of the shape's type -/
def sizeInBytes (s : Shape) : Nat :=
  let t := sizeInBytesTerm s.shapetype
  t.c0 + t.cParts * s.numParts + t.cPoints * s.numPoints

end Shape

/-- `RecordHeader::write_to` + type code + content, as `ShapeWriter::write_shape` emits them -/
def recordSizeWords (s : Shape) : Nat := (s.sizeInBytes + 4) / 2

def encRecord (num : Int) (fileType : ShapeType) (s : Shape) : Bytes :=
  encI32BE num ++ encI32BE (recordSizeWords s) ++ encI32LE fileType.code ++ s.encodeContent

end Shp

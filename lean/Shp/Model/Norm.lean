/-
What reading back a written shape yields (the read-side normalisation of C01):
coordinates a dimension lacks are defaults, measures of multi-vertex shapes go through
`f64::max(m, NO_DATA)`, ring roles are recomputed from the vertex order.
-/
import Shp.Model.Reader
namespace Shp

namespace Pt
/-- a vertex of a multi-vertex shape of dimension `d`, as read back -/
def readBack (d : Dim) (p : Pt) : Pt :=
  { x := p.x, y := p.y, z := if d.hasZ then p.z else F64.zero,
    m := if d.hasM then p.m.maxNoData else F64.noData }
/-- a single point shape (or a box corner) as read back: no normalisation of the measure -/
def readRaw (d : Dim) (p : Pt) : Pt :=
  { x := p.x, y := p.y, z := if d.hasZ then p.z else F64.zero, m := if d.hasM then p.m else F64.noData }
end Pt

def BBox.readRaw (d : Dim) (b : BBox) : BBox := ⟨b.min.readRaw d, b.max.readRaw d⟩

namespace Shape
def readBack (o : Orient) : Shape → Shape
  | null => null
  | point d p => point d (p.readRaw d)
  | multipoint d b pts => multipoint d (b.readRaw d) (pts.map (Pt.readBack d))
  | polyline d b parts => polyline d (b.readRaw d) (parts.map (List.map (Pt.readBack d)))
  | polygon d b rings =>
    polygon d (b.readRaw d) (rings.map fun r => (roleOf o (r.2.map (Pt.readBack d)), r.2.map (Pt.readBack d)))
  | multipatch b patches =>
    multipatch (b.readRaw .xyzm) (patches.map fun p => (p.1, p.2.map (Pt.readBack .xyzm)))

/-- the size guard the format forces: the record (type code + content) fits the `i32` the
reader doubles the word count into -/
def Sized (s : Shape) : Prop := s.sizeInBytes + 4 < 2147483648
instance (s : Shape) : Decidable s.Sized := by unfold Sized; infer_instance

/-- coordinates the type lacks hold the defaults (true of everything the constructors and the
readers produce from typed Rust values) -/
def Canon : Shape → Prop
  | null => True
  | point d p => p.Canon d
  | multipoint d b pts => b.Canon d ∧ ∀ p ∈ pts, p.Canon d
  | polyline d b parts => b.Canon d ∧ ∀ ps ∈ parts, ∀ p ∈ ps, p.Canon d
  | polygon d b rings => b.Canon d ∧ ∀ r ∈ rings, ∀ p ∈ r.2, p.Canon d
  | multipatch _ _ => True
end Shape

/-- a vertex read back when the M block may be absent -/
def Pt.readBackOpt (d : Dim) (mPresent : Bool) (p : Pt) : Pt :=
  { x := p.x, y := p.y, z := if d.hasZ then p.z else F64.zero,
    m := if d.hasM && mPresent then p.m.maxNoData else F64.noData }
def Pt.readRawOpt (d : Dim) (mPresent : Bool) (p : Pt) : Pt :=
  { x := p.x, y := p.y, z := if d.hasZ then p.z else F64.zero,
    m := if d.hasM && mPresent then p.m else F64.noData }
def BBox.readRawOpt (d : Dim) (mPresent : Bool) (b : BBox) : BBox := ⟨b.min.readRawOpt d mPresent, b.max.readRawOpt d mPresent⟩


end Shp

/-
`ReadableShape::read_from` / `ConcreteReadableShape::read_shape_content` of every shape type
and the helpers of src/record/io.rs, with the integer arithmetic the Rust code performs on
values read from the file (sites that could panic are explicit `Dec.panic`s).
-/
import Shp.Model.Encode
namespace Shp
open Dec (take repeatN mapM' f64 i32LE i32BE u32LE u32BE)

/-- `ring_type_from_points_ordering(points) == InnerRing`, i.e. "computed signed area < 0".
The only floating-point *arithmetic* in the crate; kept abstract. -/
abbrev Orient := List Pt → Bool

/-- `PolygonRing::from(points)` -/
def roleOf (o : Orient) (pts : List Pt) : Role := if o pts then .inner else .outer

/-- `vec_for_count_from_file` + the `for _ in 0..count` loop: a negative count is an
`InvalidData` I/O error -/
def readCounted {α : Type} (count : Int) (d : Dec α) : Dec (List α) :=
  if count < 0 then Dec.fail .io else repeatN count.toNat d

/-- one `x, y` pair into a defaulted point (`read_xy_in_vec_of`) -/
def readXYPt : Dec Pt :=
  Dec.bind f64 fun x => Dec.bind f64 fun y => Dec.pure { Pt.default with x := x, y := y }

def readXYVec (n : Int) : Dec (List Pt) := readCounted n readXYPt

/-- `bbox_read_xy_from` on a defaulted box -/
def readBBoxXY : Dec BBox :=
  Dec.bind f64 fun minx => Dec.bind f64 fun miny => Dec.bind f64 fun maxx => Dec.bind f64 fun maxy =>
  Dec.pure ⟨{ Pt.default with x := minx, y := miny }, { Pt.default with x := maxx, y := maxy }⟩

/-- `read_zs_into` for one part -/
def readZsInto (pts : List Pt) : Dec (List Pt) := mapM' (fun p => Dec.bind f64 fun z => Dec.pure { p with z := z }) pts
/-- `read_ms_into` for one part: `f64::max(value, NO_DATA)` -/
def readMsInto (pts : List Pt) : Dec (List Pt) :=
  mapM' (fun p => Dec.bind f64 fun m => Dec.pure { p with m := m.maxNoData }) pts

/-- `read_zs`: Z range, then the Z of every point of every part -/
def readZs (b : BBox) (parts : List (List Pt)) : Dec (BBox × List (List Pt)) :=
  Dec.bind f64 fun zmin => Dec.bind f64 fun zmax => Dec.bind (mapM' readZsInto parts) fun parts' =>
  Dec.pure (⟨{ b.min with z := zmin }, { b.max with z := zmax }⟩, parts')

/-- `read_ms` -/
def readMs (b : BBox) (parts : List (List Pt)) : Dec (BBox × List (List Pt)) :=
  Dec.bind f64 fun mmin => Dec.bind f64 fun mmax => Dec.bind (mapM' readMsInto parts) fun parts' =>
  Dec.pure (⟨{ b.min with m := mmin }, { b.max with m := mmax }⟩, parts')

/-- Z block when the type has Z, then M block when the type has M and the record carries it -/
def readZM (d : Dim) (mUsed : Bool) (b : BBox) (parts : List (List Pt)) : Dec (BBox × List (List Pt)) :=
  Dec.bind (if d.hasZ then readZs b parts else Dec.pure (b, parts)) fun r =>
  if d.hasM && mUsed then readMs r.1 r.2 else Dec.pure r

/-- `PartIndexIter`: (start, end) of every part; the last part ends at `numPoints` -/
def partBounds (numPoints : Int) : List Int → List (Int × Int)
  | [] => []
  | [s] => [(s, numPoints)]
  | s :: e :: rest => (s, e) :: partBounds numPoints (e :: rest)

/-- `MultiPartShapeReader::read_xy`: `end.checked_sub(start)`, negative or overflowing lengths
are an `InvalidData` I/O error -/
def readPartsXY (bounds : List (Int × Int)) : Dec (List (List Pt)) :=
  mapM' (fun (se : Int × Int) =>
    let n := se.2 - se.1
    if n < 0 ∨ 2147483648 ≤ n then Dec.fail .io else readXYVec n) bounds

structure MultiPartHeader where
  bbox : BBox
  numParts : Int
  numPoints : Int
  partsArray : List Int

/-- `MultiPartShapeReader::new` -/
def readMultiPartHeader : Dec MultiPartHeader :=
  Dec.bind readBBoxXY fun bbox => Dec.bind i32LE fun numParts => Dec.bind i32LE fun numPoints =>
  Dec.bind (readCounted numParts i32LE) fun partsArray => Dec.pure ⟨bbox, numParts, numPoints, partsArray⟩

/-- the two record sizes a reader accepts: without and with the optional M block
(`size_of_record(.., false / true)`, computed in `i64`) -/
def recordSizes (t : ShapeType) (numParts numPoints : Int) : Int × Int :=
  let without := (sizeOfRecordTerm t).1.eval numParts numPoints
  (without, without + (sizeOfRecordTerm t).2.eval numParts numPoints)

/-- `Polyline*/::read_shape_content` (also the first half of the polygon readers) -/
def readPolylineContent (d : Dim) (recSize : Int) : Dec (BBox × List (List Pt)) :=
  Dec.bind readMultiPartHeader fun h =>
  let sz := recordSizes (polylineType d) h.numParts h.numPoints
  if recSize ≠ sz.2 ∧ recSize ≠ sz.1 then Dec.fail .recSize else
  Dec.bind (readPartsXY (partBounds h.numPoints h.partsArray)) fun parts =>
  readZM d (recSize = sz.2) h.bbox parts

/-- `PatchType::read_from` -/
def readPatchKind : Dec PatchKind :=
  Dec.bind i32LE fun c => match PatchKind.ofCode c with
    | some k => Dec.pure k.readAs
    | none => Dec.fail (.patchType c)

/-- `Multipatch::read_shape_content` -/
def readMultipatchContent (recSize : Int) : Dec Shape :=
  Dec.bind readMultiPartHeader fun h =>
  let sz := recordSizes .multipatch h.numParts h.numPoints
  if recSize ≠ sz.2 ∧ recSize ≠ sz.1 then Dec.fail .recSize else
  Dec.bind (readCounted h.numParts readPatchKind) fun kinds =>
  Dec.bind (readPartsXY (partBounds h.numPoints h.partsArray)) fun parts =>
  Dec.bind (readZM .xyzm (recSize = sz.2) h.bbox parts) fun r =>
  Dec.pure (.multipatch r.1 (kinds.zip r.2))

/-- `Multipoint*/::read_shape_content` -/
def readMultipointContent (d : Dim) (recSize : Int) : Dec Shape :=
  Dec.bind readBBoxXY fun bbox => Dec.bind i32LE fun numPoints =>
  let sz := recordSizes (multipointType d) 0 numPoints
  if recSize ≠ sz.2 ∧ recSize ≠ sz.1 then Dec.fail .recSize else
  Dec.bind (readXYVec numPoints) fun pts =>
  Dec.bind (readZM d (recSize = sz.2) bbox [pts]) fun r =>
  Dec.pure (.multipoint d r.1 r.2.flatten)

/-- `Point/PointM/PointZ::read_shape_content` -/
def readPointContent (d : Dim) (recSize : Int) : Dec Shape :=
  match d with
  | .xy => if recSize = 16 then Dec.bind f64 fun x => Dec.bind f64 fun y => Dec.pure (.point .xy { Pt.default with x := x, y := y })
           else Dec.fail .recSize
  | .xym => if recSize = 24 then Dec.bind f64 fun x => Dec.bind f64 fun y => Dec.bind f64 fun m =>
              Dec.pure (.point .xym { Pt.default with x := x, y := y, m := m })
            else Dec.fail .recSize
  | .xyzm =>
    if recSize = 24 then Dec.bind f64 fun x => Dec.bind f64 fun y => Dec.bind f64 fun z =>
      Dec.pure (.point .xyzm { Pt.default with x := x, y := y, z := z })
    else if recSize = 32 then Dec.bind f64 fun x => Dec.bind f64 fun y => Dec.bind f64 fun z => Dec.bind f64 fun m =>
      Dec.pure (.point .xyzm ⟨x, y, z, m⟩)
    else Dec.fail .recSize

/-- the reader of a concrete type, keyed by its `HasShapeType` -/
def readContentOf (o : Orient) (t : ShapeType) (recSize : Int) : Dec Shape :=
  match t with
  | .nullShape => Dec.pure .null
  | .point => readPointContent .xy recSize
  | .pointM => readPointContent .xym recSize
  | .pointZ => readPointContent .xyzm recSize
  | .multipoint => readMultipointContent .xy recSize
  | .multipointM => readMultipointContent .xym recSize
  | .multipointZ => readMultipointContent .xyzm recSize
  | .polyline => Dec.bind (readPolylineContent .xy recSize) fun r => Dec.pure (.polyline .xy r.1 r.2)
  | .polylineM => Dec.bind (readPolylineContent .xym recSize) fun r => Dec.pure (.polyline .xym r.1 r.2)
  | .polylineZ => Dec.bind (readPolylineContent .xyzm recSize) fun r => Dec.pure (.polyline .xyzm r.1 r.2)
  | .polygon => Dec.bind (readPolylineContent .xy recSize) fun r => Dec.pure (.polygon .xy r.1 (r.2.map fun p => (roleOf o p, p)))
  | .polygonM => Dec.bind (readPolylineContent .xym recSize) fun r => Dec.pure (.polygon .xym r.1 (r.2.map fun p => (roleOf o p, p)))
  | .polygonZ => Dec.bind (readPolylineContent .xyzm recSize) fun r => Dec.pure (.polygon .xyzm r.1 (r.2.map fun p => (roleOf o p, p)))
  | .multipatch => readMultipatchContent recSize

/-- `ShapeType::read_from` -/
def readShapeType : Dec ShapeType :=
  Dec.bind i32LE fun c => match ShapeType.ofCode c with
    | some t => Dec.pure t
    | none => Dec.fail (.shapeType c)

/-- `record_size -= size_of::<i32>() as i32` (an `i32` subtraction: overflow would panic) -/
def subTypeCode (recordSize : Int) : Dec Int :=
  if InI32 (recordSize - 4) then Dec.pure (recordSize - 4) else Dec.panic "record_size -= 4 overflows i32"

/-- `impl ReadableShape for Shape`: dispatch on the record's type code -/
def readShape (o : Orient) (recordSize : Int) : Dec Shape :=
  Dec.bind readShapeType fun t => Dec.bind (subTypeCode recordSize) fun rs =>
  match (dispatch t).2 with
  | some r => readContentOf o r rs
  | none => Dec.pure .null

/-- `impl<S: ConcreteReadableShape> ReadableShape for S`: the type code is checked first -/
def readShapeAs (o : Orient) (requested : ShapeType) (recordSize : Int) : Dec Shape :=
  Dec.bind readShapeType fun t => Dec.bind (subTypeCode recordSize) fun rs =>
  if t = requested then readContentOf o requested rs else Dec.fail (.mismatch requested t)

/-- what a read is asked to produce: the generic `Shape` or one concrete type -/
inductive Target where
  | generic
  | typed (t : ShapeType)
  deriving DecidableEq, Repr

def readTarget (o : Orient) : Target → Int → Dec Shape
  | .generic, rs => readShape o rs
  | .typed t, rs => readShapeAs o t rs

/-- `words_to_bytes` -/
def wordsToBytes (w : Int) : Option Int := if w < 0 then none else some (2 * w)

/-- `read_one_shape_as`: record header, checked size, then the shape; returns the header's
declared content length in words too -/
def readOneShape (o : Orient) (tg : Target) : Dec (Int × Shape) :=
  Dec.bind i32BE fun _recNum => Dec.bind i32BE fun sizeWords =>
  match wordsToBytes sizeWords with
  | none => Dec.fail .recSize
  | some bytes => if 2147483648 ≤ bytes then Dec.fail .recSize else
    Dec.bind (readTarget o tg bytes) fun s => Dec.pure (sizeWords, s)

end Shp

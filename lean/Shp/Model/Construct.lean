/-
Public constructors: `GenericMultipoint::new`, `GenericPolyline::{new, with_parts}`,
`GenericPolygon::{new, with_rings}`, `Multipatch::{new, with_parts}` and the box folds of
src/record/{bbox,traits}.rs.  `none` = the Rust constructor panics (index out of bounds on an
empty list, or the explicit `assert!`).
-/
import Shp.Model.Header
namespace Shp

namespace Pt
/-- `ShrinkablePoint::shrink` for the point type of dimension `d` -/
def shrink (d : Dim) (a b : Pt) : Pt :=
  { x := F64.fmin a.x b.x, y := F64.fmin a.y b.y,
    z := if d.hasZ then F64.fmin a.z b.z else a.z,
    m := if d.hasM then F64.fmin a.m b.m else a.m }
/-- `GrowablePoint::grow` -/
def grow (d : Dim) (a b : Pt) : Pt :=
  { x := F64.fmax a.x b.x, y := F64.fmax a.y b.y,
    z := if d.hasZ then F64.fmax a.z b.z else a.z,
    m := if d.hasM then F64.fmax a.m b.m else a.m }
/-- derived `PartialEq` of `Point` / `PointM` / `PointZ` (IEEE `==` field by field) -/
def peq (d : Dim) (a b : Pt) : Bool :=
  a.x.feq b.x && a.y.feq b.y && (!d.hasZ || a.z.feq b.z) && (!d.hasM || a.m.feq b.m)
end Pt

namespace BBox
/-- `GenericBBox::grow_from_points` -/
def growFromPoints (d : Dim) (b : BBox) (pts : List Pt) : BBox :=
  ⟨pts.foldl (Pt.shrink d) b.min, pts.foldl (Pt.grow d) b.max⟩
/-- `GenericBBox::from_points` (`points[0]` panics on an empty slice) -/
def fromPoints (d : Dim) : List Pt → Option BBox
  | [] => none
  | p :: ps => some (growFromPoints d ⟨p, p⟩ ps)
/-- `from_points(first)` then `grow_from_points` for the others: the shared shape of
`from_parts`, `Polygon::with_rings` and `Multipatch::with_parts` -/
def fromParts (d : Dim) : List (List Pt) → Option BBox
  | [] => none
  | p :: ps => (fromPoints d p).map fun b => ps.foldl (growFromPoints d) b
end BBox

/-- `is_part_closed` -/
def isClosed (d : Dim) (pts : List Pt) : Bool :=
  match pts.head?, pts.getLast? with
  | some f, some l => Pt.peq d f l
  | _, _ => false

/-- `close_points_if_not_already` -/
def closePoints (d : Dim) (pts : List Pt) : List Pt :=
  if isClosed d pts then pts else
  match pts.head? with
  | some p => pts ++ [p]
  | none => pts

/-- `PolygonRing::correctly_order_points` -/
def orderPoints (o : Orient) (role : Role) (pts : List Pt) : List Pt :=
  if roleOf o pts = role then pts else pts.reverse

/-- `PolygonRing::close_and_reorder` -/
def closeAndReorder (o : Orient) (d : Dim) (r : Role × List Pt) : Role × List Pt :=
  (r.1, orderPoints o r.1 (closePoints d r.2))

namespace Shape
def mkMultipoint (d : Dim) (pts : List Pt) : Option Shape :=
  (BBox.fromPoints d pts).map fun b => .multipoint d b pts

def mkPolyline (d : Dim) (pts : List Pt) : Option Shape :=
  if pts.length < 2 then none else (BBox.fromPoints d pts).map fun b => .polyline d b [pts]

def mkPolylineParts (d : Dim) (parts : List (List Pt)) : Option Shape :=
  if parts.any (fun p => p.length < 2) then none else
  (BBox.fromParts d parts).map fun b => .polyline d b parts

def mkPolygonRings (o : Orient) (d : Dim) (rings : List (Role × List Pt)) : Option Shape :=
  let rings' := rings.map (closeAndReorder o d)
  (BBox.fromParts d (rings'.map (·.2))).map fun b => .polygon d b rings'

/-- `GenericPolygon::new`: `close_and_reorder` then `with_rings(vec![ring])` (which does it again) -/
def mkPolygon (o : Orient) (d : Dim) (ring : Role × List Pt) : Option Shape :=
  mkPolygonRings o d [closeAndReorder o d ring]

def closePatch (p : PatchKind × List Pt) : PatchKind × List Pt :=
  if p.1.closes then (p.1, closePoints .xyzm p.2) else p

def mkMultipatchParts (patches : List (PatchKind × List Pt)) : Option Shape :=
  let ps := patches.map closePatch
  (BBox.fromParts .xyzm (ps.map (·.2))).map fun b => .multipatch b ps

def mkMultipatch (p : PatchKind × List Pt) : Option Shape := mkMultipatchParts [p]
end Shape

end Shp

/-
Shapes of `shapefile::record`, one universal point type with a dimension tag
(`Point` = xy, `PointM` = xym, `PointZ` = xyzm).  Coordinates a dimension lacks hold
the Rust `Default` of the larger types (`z = 0.0`, `m = NO_DATA`), which is what the
readers leave there.
-/
import Shp.Prim.Dec
namespace Shp

structure Pt where
  x : F64
  y : F64
  z : F64
  m : F64
  deriving DecidableEq, Repr, Inhabited

inductive Dim where
  | xy | xym | xyzm
  deriving DecidableEq, Repr, Inhabited

namespace Dim
def hasZ : Dim → Bool
  | xyzm => true
  | _ => false
def hasM : Dim → Bool
  | xy => false
  | _ => true
def all : List Dim := [xy, xym, xyzm]
end Dim

namespace Pt
/-- `Default::default()` of `PointM` / `PointZ` (and `Point`, ignoring the absent fields) -/
def default : Pt := ⟨F64.zero, F64.zero, F64.zero, F64.noData⟩
/-- a point has no information in coordinates its dimension lacks -/
def Canon (d : Dim) (p : Pt) : Prop :=
  (d.hasZ = false → p.z = F64.zero) ∧ (d.hasM = false → p.m = F64.noData)
instance (d : Dim) (p : Pt) : Decidable (Canon d p) := by unfold Canon; infer_instance
end Pt

structure BBox where
  min : Pt
  max : Pt
  deriving DecidableEq, Repr, Inhabited

namespace BBox
/-- `GenericBBox::<P>::default()` -/
def default : BBox := ⟨Pt.default, Pt.default⟩
def Canon (d : Dim) (b : BBox) : Prop := b.min.Canon d ∧ b.max.Canon d
instance (d : Dim) (b : BBox) : Decidable (Canon d b) := by unfold Canon; infer_instance
end BBox

/-- `PolygonRing::Outer / Inner` -/
inductive Role where
  | outer | inner
  deriving DecidableEq, Repr, Inhabited

inductive Shape where
  | null
  | point (d : Dim) (p : Pt)
  | multipoint (d : Dim) (bbox : BBox) (pts : List Pt)
  | polyline (d : Dim) (bbox : BBox) (parts : List (List Pt))
  | polygon (d : Dim) (bbox : BBox) (rings : List (Role × List Pt))
  | multipatch (bbox : BBox) (patches : List (PatchKind × List Pt))
  deriving DecidableEq, Repr, Inhabited

namespace Shape

/-- which `enum Shape` variant a model shape is -/
def variant : Shape → Variant
  | null => .nullShape
  | point .xy _ => .point
  | point .xym _ => .pointM
  | point .xyzm _ => .pointZ
  | multipoint .xy _ _ => .multipoint
  | multipoint .xym _ _ => .multipointM
  | multipoint .xyzm _ _ => .multipointZ
  | polyline .xy _ _ => .polyline
  | polyline .xym _ _ => .polylineM
  | polyline .xyzm _ _ => .polylineZ
  | polygon .xy _ _ => .polygon
  | polygon .xym _ _ => .polygonM
  | polygon .xyzm _ _ => .polygonZ
  | multipatch _ _ => .multipatch

/-- `Shape::shapetype()` (through the generated table) -/
def shapetype (s : Shape) : ShapeType := s.variant.shapetype

/-- the point lists of a multi-part shape, in file order -/
def parts : Shape → List (List Pt)
  | polyline _ _ ps => ps
  | polygon _ _ rs => rs.map (·.2)
  | multipatch _ ps => ps.map (·.2)
  | multipoint _ _ pts => [pts]
  | point _ p => [[p]]
  | null => []

def dim : Shape → Dim
  | point d _ => d
  | multipoint d _ _ => d
  | polyline d _ _ => d
  | polygon d _ _ => d
  | multipatch _ _ => .xyzm
  | null => .xy

def numParts (s : Shape) : Nat := s.parts.length
def numPoints (s : Shape) : Nat := (s.parts.map List.length).sum

end Shape

def pointType : Dim → ShapeType
  | .xy => .point | .xym => .pointM | .xyzm => .pointZ
def multipointType : Dim → ShapeType
  | .xy => .multipoint | .xym => .multipointM | .xyzm => .multipointZ
def polylineType : Dim → ShapeType
  | .xy => .polyline | .xym => .polylineM | .xyzm => .polylineZ
def polygonType : Dim → ShapeType
  | .xy => .polygon | .xym => .polygonM | .xyzm => .polygonZ

end Shp

/-
`ShapeReader` / `ShapeIterator` (src/reader.rs) as a state machine over a seekable byte source.
-/
import Shp.Model.Writer
namespace Shp

/-- `ShapeReader`'s fields and its source.  `srcPos` is where the source really is;
`currentPos` is the reader's own book-keeping (`none` = `UNKNOWN_POS`). -/
structure RState where
  data : Bytes
  srcPos : Nat
  header : Header
  index : Option (List IndexEntry)
  currentPos : Option Nat
  nextShape : Nat
  deriving Repr, Inhabited

inductive ROut where
  | none                      -- `None`
  | shape (s : Shape)         -- `Some(Ok(shape))`
  | err (e : Err)             -- `Some(Err(e))` / `Err(e)`
  | unit                      -- `Ok(())`
  | count (n : Nat)
  | panic (site : String)
  deriving DecidableEq, Repr, Inhabited

/-- `ShapeReader::new` / `with_shx` (the `.shx` is read first) -/
def RState.open (shp : Bytes) (shx : Option Bytes) : Except ROut RState :=
  let idx : Except ROut (Option (List IndexEntry)) :=
    match shx with
    | Option.none => .ok Option.none
    | some bs => match readIndexFile bs with
      | .ok es _ => .ok (some es)
      | .err e => .error (.err e)
      | .panic s => .error (.panic s)
  match idx with
  | .error e => .error e
  | .ok index =>
    match readHeader shp with
    | .ok h rest => .ok { data := shp, srcPos := shp.length - rest.length, header := h, index := index,
                          currentPos := some Const.headerSize, nextShape := 0 }
    | .err e => .error (.err e)
    | .panic s => .error (.panic s)

/-- read one record at the source position (`read_one_shape_as`) and update the book-keeping
as `ShapeIterator::next` does -/
def RState.readHere (o : Orient) (tg : Target) (st : RState) : RState × ROut :=
  match readOneShape o tg (st.data.drop st.srcPos) with
  | .ok (words, s) rest =>
    ({ st with srcPos := st.data.length - rest.length,
               currentPos := st.currentPos.map fun p => p + Const.recordHeaderSize + (2 * words).toNat },
     .shape s)
  | .err e => ({ st with currentPos := Option.none }, .err e)
  | .panic s => (st, .panic s)

/-- `ShapeIterator::next` -/
def RState.iterNext (o : Orient) (tg : Target) (st : RState) : RState × ROut :=
  match st.index with
  | some idx =>
    match idx[st.nextShape]? with
    | Option.none => (st, .none)
    | some e =>
      let st1 := { st with nextShape := st.nextShape + 1 }
      match wordsToBytes e.offset with
      | Option.none => (st1, .err .recSize)
      | some start =>
        let st2 := if st1.currentPos = some start.toNat then st1
                   else { st1 with srcPos := start.toNat, currentPos := some start.toNat }
        st2.readHere o tg
  | Option.none =>
    let fileLength := ((wordsToBytes st.header.fileLength).getD 0).toNat
    match st.currentPos with
    | Option.none => (st, .none)
    | some p => if fileLength ≤ p then (st, .none) else st.readHere o tg

/-- `ShapeReader::seek` -/
def RState.seek (st : RState) (k : Nat) : RState × ROut :=
  match st.index with
  | Option.none => (st, .err .noIndex)
  | some idx =>
    match idx[k]? with
    | some e =>
      match wordsToBytes e.offset with
      | Option.none => (st, .err .recSize)
      | some start => ({ st with srcPos := start.toNat, currentPos := some start.toNat, nextShape := min k idx.length }, .unit)
    | Option.none => ({ st with srcPos := st.data.length, currentPos := some st.data.length, nextShape := min k idx.length }, .unit)

/-- `ShapeReader::read_nth_shape_as` -/
def RState.readNth (o : Orient) (tg : Target) (st : RState) (i : Nat) : RState × ROut :=
  match st.index with
  | Option.none => (st, .err .noIndex)
  | some idx =>
    if idx.length ≤ i then (st, .none) else
    match st.seek i with
    | (st1, .unit) =>
      let st2 := { st1 with currentPos := Option.none, nextShape := 0 }
      match readOneShape o tg (st2.data.drop st2.srcPos) with
      | .ok (_, s) _ => ({ st2 with srcPos := Const.headerSize, currentPos := some Const.headerSize }, .shape s)
      | .err e => (st2, .err e)
      | .panic s => (st2, .panic s)
    | (st1, out) => (st1, out)

/-- `ShapeReader::shape_count` -/
def RState.shapeCount (st : RState) : ROut :=
  match st.index with
  | some idx => .count idx.length
  | Option.none => .err .noIndex

/-- `size_hint()` of a freshly created iterator -/
def RState.sizeHint (st : RState) : Option Nat :=
  match st.index with
  | some idx => some (idx.length - st.nextShape)
  | Option.none => Option.none

/-- drain an iterator; `fuel` bounds the number of `next` calls (every call consumes an index
entry or at least 12 source bytes, or ends the iteration: see `Props/C07`) -/
def RState.iterAll (o : Orient) (tg : Target) (fuel : Nat) (st : RState) : RState × List ROut :=
  match fuel with
  | 0 => (st, [])
  | fuel + 1 =>
    match st.iterNext o tg with
    | (st1, .none) => (st1, [])
    | (st1, out) =>
      let (st2, outs) := st1.iterAll o tg fuel
      (st2, out :: outs)

/-- enough fuel for any iteration over `st` -/
def RState.fuel (st : RState) : Nat :=
  st.data.length + (match st.index with | some idx => idx.length | Option.none => 0) + 2

/-- `ShapeReader::read` / `read_as`: collect, stopping at the first error -/
def collectShapes : List ROut → Except ROut (List Shape)
  | [] => .ok []
  | .shape s :: rest => (collectShapes rest).map (s :: ·)
  | e :: _ => .error e

/-- the operations a caller can apply to a reader, in any order -/
inductive ROp where
  | iter (j : Nat)      -- create an iterator and pull (up to) `j` items from it
  | nth (i : Nat)       -- `read_nth_shape(i)`
  | seek (k : Nat)      -- `seek(k)`
  | count               -- `shape_count()`
  | hint                -- `size_hint()` of a fresh iterator
  deriving DecidableEq, Repr, Inhabited

inductive RRes where
  | items (l : List ROut)
  | one (r : ROut)
  | hintRes (h : Option Nat)
  deriving Repr

def RState.step (o : Orient) (tg : Target) (st : RState) : ROp → RState × RRes
  | .iter j => let r := st.iterAll o tg j; (r.1, .items r.2)
  | .nth i => let r := st.readNth o tg i; (r.1, .one r.2)
  | .seek k => let r := st.seek k; (r.1, .one r.2)
  | .count => (st, .one st.shapeCount)
  | .hint => (st, .hintRes st.sizeHint)

def RState.run (o : Orient) (tg : Target) (st : RState) : List ROp → RState × List RRes
  | [] => (st, [])
  | op :: ops =>
    let r := st.step o tg op
    let rs := r.1.run o tg ops
    (rs.1, r.2 :: rs.2)

/-- open a reader and read everything (`ShapeReader::new(..)?.read()` and friends) -/
def readAll (o : Orient) (tg : Target) (shp : Bytes) (shx : Option Bytes) : Except ROut (List Shape) :=
  match RState.open shp shx with
  | .error e => .error e
  | .ok st => collectShapes (st.iterAll o tg st.fuel).2

end Shp

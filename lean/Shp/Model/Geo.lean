/-
The `geo-types` feature: `From` / `TryFrom` between shapefile shapes and geo-types geometries
(src/record/{point,multipoint,polyline,polygon,multipatch,mod}.rs) and the geo-traits view of
points (src/geo_traits_impl.rs).  geo-types' own constructors are MODELLED from its 0.7.20 source
(`Polygon::new` / `interiors_push` close each ring: `LineString::close`).
A geo-types coordinate is a `Pt` whose Z and M are the defaults.
-/
import Shp.Model.Construct
namespace Shp

/-- `Coord::from(point)` and back: only X and Y travel -/
def toXY (p : Pt) : Pt := { Pt.default with x := p.x, y := p.y }

/-- `LineString::close` (first == last by IEEE `==`; an empty line string counts as closed) -/
def closeLS (l : List Pt) : List Pt := closePoints .xy l

structure GPoly where
  ext : List Pt
  ints : List (List Pt)
  deriving DecidableEq, Repr, Inhabited

/-- `geo_types::Polygon::new` -/
def GPoly.new (ext : List Pt) (ints : List (List Pt)) : GPoly := ⟨closeLS ext, ints.map closeLS⟩
/-- `Polygon::interiors_push` -/
def GPoly.pushInterior (p : GPoly) (l : List Pt) : GPoly := { p with ints := p.ints ++ [closeLS l] }

inductive Geom where
  | point (p : Pt)
  | line (a b : Pt)
  | lineString (l : List Pt)
  | multiPoint (l : List Pt)
  | multiLineString (ls : List (List Pt))
  | polygon (p : GPoly)
  | multiPolygon (ps : List GPoly)
  | collection
  | rect
  | triangle
  deriving DecidableEq, Repr, Inhabited

/-- result of a conversion: a value, the conversion's `Err`, or a panic -/
inductive Conv (α : Type) where
  | ok (a : α)
  | err
  | panic
  deriving DecidableEq, Repr

/-- the ring loop shared by `From<GenericPolygon> for MultiPolygon` and
`TryFrom<Multipatch> for MultiPolygon`: an outer ring opens a polygon, inner rings attach to the
polygon opened last (or stand alone with an empty exterior when there is none) -/
def groupRings : List (Role × List Pt) → Option GPoly → List GPoly → List GPoly
  | [], last, acc => match last with
    | some p => acc ++ [p]
    | none => acc
  | (.outer, pts) :: rest, last, acc =>
    let acc' := match last with
      | some p => acc ++ [p]
      | none => acc
    groupRings rest (some (GPoly.new pts [])) acc'
  | (.inner, pts) :: rest, last, acc =>
    match last with
    | some p => groupRings rest (some (p.pushInterior pts)) acc
    | none => groupRings rest none (acc ++ [GPoly.new [] [pts]])

/-- which patch kinds act as outer / inner rings in the multipatch conversion -/
def patchRole : PatchKind → Option Role
  | .outerRing | .firstRing => some .outer
  | .innerRing | .ring => some .inner
  | .triangleStrip | .triangleFan => none

/-- `TryFrom<Shape> for geo_types::Geometry<f64>` -/
def shapeToGeom : Shape → Conv Geom
  | .null => .err
  | .point _ p => .ok (.point (toXY p))
  | .multipoint _ _ pts => .ok (.multiPoint (pts.map toXY))
  | .polyline _ _ parts => .ok (.multiLineString (parts.map (List.map toXY)))
  | .polygon _ _ rings => .ok (.multiPolygon (groupRings (rings.map fun r => (r.1, r.2.map toXY)) none []))
  | .multipatch _ patches =>
    if patches.any (fun p => (patchRole p.1).isNone) then .err
    else .ok (.multiPolygon (groupRings (patches.map fun p => ((patchRole p.1).getD .inner, p.2.map toXY)) none []))

def optShape : Option Shape → Conv Shape
  | some s => .ok s
  | none => .panic

/-- rings of `GenericPolygon::from(geo_types::Polygon)`: exterior as Outer, interiors as Inner,
through `with_rings` -/
def ringsOfGPoly (o : Orient) (p : GPoly) : List (Role × List Pt) :=
  ((Role.outer, p.ext) :: p.ints.map fun i => (Role.inner, i)).map (closeAndReorder o .xy)

/-- `TryFrom<geo_types::Geometry<f64>> for Shape` (always a 2-D shape) -/
def geomToShape (o : Orient) : Geom → Conv Shape
  | .point p => .ok (.point .xy (toXY p))
  | .line a b => optShape (Shape.mkPolyline .xy [toXY a, toXY b])
  | .lineString l => optShape (Shape.mkPolyline .xy (l.map toXY))
  | .multiPoint l => optShape (Shape.mkMultipoint .xy (l.map toXY))
  | .multiLineString ls => optShape (Shape.mkPolylineParts .xy (ls.map (List.map toXY)))
  | .polygon p =>
    optShape (Shape.mkPolygonRings o .xy ((Role.outer, p.ext.map toXY) :: p.ints.map fun i => (Role.inner, i.map toXY)))
  | .multiPolygon ps =>
    -- each polygon goes through `with_rings` (it panics on an empty exterior), then all rings again
    if ps.any (fun p => p.ext.isEmpty) then .panic
    else optShape (Shape.mkPolygonRings o .xy
      (ps.flatMap fun p => ringsOfGPoly o ⟨p.ext.map toXY, p.ints.map (List.map toXY)⟩))
  | .collection | .rect | .triangle => .err

/-! ### geo-traits view of the three point types -/

/-- `PointTrait::dim().size()` -/
def dimCount (d : Dim) (p : Pt) : Nat :=
  match d with
  | .xy => 2
  | .xym => if p.m.le F64.noData then 2 else 3
  | .xyzm => if p.m.le F64.noData then 3 else 4

/-- `CoordTrait::nth_or_panic` (`none` = panic) -/
def nthOrPanic (d : Dim) (p : Pt) (i : Nat) : Option F64 :=
  match d, i with
  | _, 0 => some p.x
  | _, 1 => some p.y
  | .xym, 2 => some p.m
  | .xyzm, 2 => some p.z
  | .xyzm, 3 => if p.m.le F64.noData then none else some p.m
  | _, _ => none

end Shp

/- `header::Header` (src/header.rs) and `ShapeIndex` / `read_index_file` (src/reader.rs). -/
import Shp.Model.Decode
namespace Shp
open Dec (take repeatN mapM' f64 i32LE i32BE u32LE u32BE)

structure Header where
  fileLength : Int        -- in 16-bit words
  bbox : BBox             -- `BBoxZ`
  shapeType : ShapeType
  version : Int
  deriving DecidableEq, Repr, Inhabited

def zeroPt : Pt := ⟨F64.zero, F64.zero, F64.zero, F64.zero⟩

/-- `Header::default()` -/
def Header.default : Header :=
  { fileLength := Const.headerSize / 2, bbox := ⟨zeroPt, zeroPt⟩, shapeType := .nullShape, version := Const.version }

def zeros (n : Nat) : Bytes := List.replicate n 0

/-- `Header::write_to` -/
def Header.enc (h : Header) : Bytes :=
  encI32BE Const.fileCode ++ zeros 20 ++ encI32BE h.fileLength ++ encI32LE h.version ++
  encI32LE h.shapeType.code ++
  h.bbox.min.x.enc ++ h.bbox.min.y.enc ++ h.bbox.max.x.enc ++ h.bbox.max.y.enc ++
  h.bbox.min.z.enc ++ h.bbox.max.z.enc ++ h.bbox.min.m.enc ++ h.bbox.max.m.enc

/-- `Header::read_from` -/
def readHeader : Dec Header :=
  Dec.bind i32BE fun code =>
  if code ≠ Const.fileCode then Dec.fail (.fileCode code) else
  Dec.bind (take 20) fun _ => Dec.bind i32BE fun len => Dec.bind i32LE fun version =>
  Dec.bind readShapeType fun t =>
  Dec.bind f64 fun minx => Dec.bind f64 fun miny => Dec.bind f64 fun maxx => Dec.bind f64 fun maxy =>
  Dec.bind f64 fun minz => Dec.bind f64 fun maxz => Dec.bind f64 fun minm => Dec.bind f64 fun maxm =>
  Dec.pure (Header.mk len ⟨⟨minx, miny, minz, minm⟩, ⟨maxx, maxy, maxz, maxm⟩⟩ t version)

/-- one `.shx` entry: offset and content length, both in words -/
structure IndexEntry where
  offset : Int
  recordSize : Int
  deriving DecidableEq, Repr, Inhabited

def IndexEntry.enc (e : IndexEntry) : Bytes := encI32BE e.offset ++ encI32BE e.recordSize

def readIndexEntry : Dec IndexEntry :=
  Dec.bind i32BE fun off => Dec.bind i32BE fun sz => Dec.pure ⟨off, sz⟩

/-- `read_index_file` -/
def readIndexFile : Dec (List IndexEntry) :=
  Dec.bind readHeader fun h =>
  match wordsToBytes h.fileLength with
  | none => Dec.fail .recSize
  | some bytes =>
    let indexSize := if bytes < Const.headerSize then 0 else bytes - Const.headerSize
    repeatN (indexSize / Const.indexRecordSize).toNat readIndexEntry

end Shp

/-
`shapefile::Writer` (src/writer.rs:311-319): a shape writer plus a dbase table writer.
dbase is MODELLED, not verified: a row is either accepted (its row count goes up by one) or
rejected with an error (dbase 0.6.1 rejects a row with a missing field or a value of the wrong
field type; it may already have emitted part of the row's bytes, which this model does not track).
-/
import Shp.Model.Writer
namespace Shp

structure PWorld where
  w : World
  rows : Nat
  deriving Repr, Inhabited

def PWorld.init : PWorld := ⟨World.init true, 0⟩

/-- `write_shape_and_record`: `write_shape(shape)?; write_record(record)?` -/
def PWorld.call (pw : PWorld) (s : Shape) (rowOk : Bool) : PWorld × Except Err Unit :=
  match pw.w.call (.writeShape s) with
  | (w', .error e) => (⟨w', pw.rows⟩, .error e)
  | (w', .ok _) => if rowOk then (⟨w', pw.rows + 1⟩, .ok ()) else (⟨w', pw.rows⟩, .error .dbase)

def PWorld.run (pw : PWorld) : List (Shape × Bool) → PWorld
  | [] => pw
  | (s, ok) :: rest => ((pw.call s ok).1).run rest

/-- `ShapeRecordIterator`: one shape, then one row, until either side ends -/
def zipRead {α β : Type} : List α → List β → List (α × β)
  | a :: as, b :: bs => (a, b) :: zipRead as bs
  | _, _ => []

end Shp

/-
`ShapeWriter` (src/writer.rs) as a state machine over two seekable destinations.

Every API call issues a deterministic sequence of I/O operations that depends only on the
writer's state (the writer never reads its destinations back).  A call is therefore modelled
as a *plan*: the state change made before any I/O, the operations, and the state change made
once all of them succeeded.  Executing a plan against destinations that may fail is in
`runPlan`: a failure aborts the call with the pre-I/O state change applied and the later
operations not issued, exactly the effect of `?` in the Rust code.
-/
import Shp.Model.Construct
namespace Shp

/-- the two destinations of a `ShapeWriter` -/
inductive DestId where
  | shp | shx
  deriving DecidableEq, Repr, Inhabited

/-- one call on a `Write + Seek` destination -/
inductive IOOp where
  | write (bs : Bytes)      -- `write_all`
  | seekStart (n : Nat)     -- `seek(SeekFrom::Start(n))`
  | seekEnd                 -- `seek(SeekFrom::End(0))`
  | flush
  deriving DecidableEq, Repr, Inhabited

/-- a seekable byte sink (`Cursor<Vec<u8>>`, a file) -/
structure Dst where
  data : Bytes
  pos : Nat
  deriving DecidableEq, Repr, Inhabited

def Dst.empty : Dst := ⟨[], 0⟩

/-- overwrite/extend `data` with `bs` at `pos` (zero-filling a gap, as `Cursor` and files do) -/
def writeAt (data : Bytes) (pos : Nat) (bs : Bytes) : Bytes :=
  let padded := data ++ zeros (pos - data.length)
  padded.take pos ++ bs ++ padded.drop (pos + bs.length)

def Dst.apply (d : Dst) : IOOp → Dst
  | .write bs => ⟨writeAt d.data d.pos bs, d.pos + bs.length⟩
  | .seekStart n => { d with pos := n }
  | .seekEnd => { d with pos := d.data.length }
  | .flush => d

def Dst.applyAll (d : Dst) (ops : List IOOp) : Dst := ops.foldl Dst.apply d

/-- `ShapeWriter`'s fields -/
structure WState where
  hasShx : Bool
  header : Header
  recNum : Nat
  dirty : Bool
  deriving DecidableEq, Repr, Inhabited

/-- `ShapeWriter::new` / `with_shx` -/
def WState.init (hasShx : Bool) : WState := ⟨hasShx, Header.default, 1, true⟩

inductive WCall where
  | writeShape (s : Shape)
  | finalize
  deriving DecidableEq, Repr, Inhabited

structure Plan where
  pre : WState
  ops : List (DestId × IOOp)
  post : WState
  deriving Repr

/-- `EsriShape::{x,y,z,m}_range` as (min, max) points -/
def Shape.ranges : Shape → Pt × Pt
  | .point d p =>
    let z := if d.hasZ then p.z else F64.zero
    let m := if d.hasM then (if p.m.isNoData then F64.zero else p.m) else F64.zero
    (⟨p.x, p.y, z, m⟩, ⟨p.x, p.y, z, m⟩)
  | .multipoint d b _ | .polyline d b _ | .polygon d b _ =>
    (⟨b.min.x, b.min.y, if d.hasZ then b.min.z else F64.zero, if d.hasM then b.min.m else F64.zero⟩,
     ⟨b.max.x, b.max.y, if d.hasZ then b.max.z else F64.zero, if d.hasM then b.max.m else F64.zero⟩)
  | .multipatch b _ => (b.min, b.max)
  | .null => (zeroPt, zeroPt)

/-- `BBoxZ::grow_from_shape` -/
def growFromShape (t : ShapeType) (b : BBox) (s : Shape) : BBox :=
  let (lo, hi) := s.ranges
  { min := { x := F64.fmin lo.x b.min.x, y := F64.fmin lo.y b.min.y,
             z := if t.hasZ then F64.fmin lo.z b.min.z else b.min.z,
             m := if t.hasM then F64.fmin lo.m b.min.m else b.min.m },
    max := { x := F64.fmax hi.x b.max.x, y := F64.fmax hi.y b.max.y,
             z := if t.hasZ then F64.fmax hi.z b.max.z else b.max.z,
             m := if t.hasM then F64.fmax hi.m b.max.m else b.max.m } }

def sentinelBox : BBox :=
  ⟨⟨F64.sentinelMin, F64.sentinelMin, F64.sentinelMin, F64.sentinelMin⟩,
   ⟨F64.sentinelMax, F64.sentinelMax, F64.sentinelMax, F64.sentinelMax⟩⟩

/-- the type a shape value is written as (`S::shapetype()` of its concrete Rust type) -/
def Shape.writeType (s : Shape) : ShapeType := (s.variant.concreteType).getD .nullShape

/-- `ShapeWriter::write_shape` -/
def planWriteShape (st : WState) (s : Shape) : Except Err Plan :=
  let t := s.writeType
  let first := st.header.shapeType = .nullShape
  if !first && st.header.shapeType ≠ t then .error (.mismatch st.header.shapeType t) else
  let hdr1 : Header := if first then { st.header with shapeType := t, bbox := sentinelBox } else st.header
  let pre := { st with header := hdr1 }
  let hdrOps : List (DestId × IOOp) :=
    if first then
      [(.shp, .seekStart 0), (.shp, .write hdr1.enc)] ++
      (if st.hasShx then [(.shx, .seekStart 0), (.shx, .write hdr1.enc)] else [])
    else []
  let words := recordSizeWords s
  let recOps : List (DestId × IOOp) := [(.shp, .write (encRecord st.recNum hdr1.shapeType s))]
  let idxOps : List (DestId × IOOp) :=
    if st.hasShx then [(.shx, .write (IndexEntry.enc ⟨hdr1.fileLength, words⟩))] else []
  let hdr2 : Header := { hdr1 with fileLength := hdr1.fileLength + words + 4,
                                   bbox := growFromShape t hdr1.bbox s }
  .ok { pre := pre, ops := hdrOps ++ recOps ++ idxOps,
        post := { pre with header := hdr2, recNum := st.recNum + 1, dirty := true } }

/-- the sentinel replacement at the start of `finalize` -/
def finalizeBox (b : BBox) : BBox :=
  let b1 : BBox := if b.max.m.feq F64.sentinelMax && b.min.m.feq F64.sentinelMin
    then ⟨{ b.min with m := F64.zero }, { b.max with m := F64.zero }⟩ else b
  if b1.max.z.feq F64.sentinelMax && b1.min.z.feq F64.sentinelMin
    then ⟨{ b1.min with z := F64.zero }, { b1.max with z := F64.zero }⟩ else b1

/-- `ShapeWriter::finalize` (the header written is a copy of the state's header with the
untouched sentinels replaced; the state's own header is left alone) -/
def planFinalize (st : WState) : Plan :=
  if !st.dirty then { pre := st, ops := [], post := st } else
  let hdr := { st.header with bbox := finalizeBox st.header.bbox }
  let shxHdr := { hdr with fileLength := Const.headerSize / 2 + (st.recNum - 1) * 2 * 4 / 2 }
  { pre := st,
    ops := [(.shp, .seekStart 0), (.shp, .write hdr.enc), (.shp, .seekEnd), (.shp, .flush)] ++
           (if st.hasShx then [(.shx, .seekStart 0), (.shx, .write shxHdr.enc), (.shx, .seekEnd), (.shx, .flush)] else []),
    post := { st with dirty := false } }

def plan (st : WState) : WCall → Except Err Plan
  | .writeShape s => planWriteShape st s
  | .finalize => .ok (planFinalize st)

/-- the whole world of a writer: its state and its two destinations -/
structure World where
  st : WState
  shp : Dst
  shx : Dst
  deriving DecidableEq, Repr, Inhabited

def World.init (hasShx : Bool) : World := ⟨WState.init hasShx, Dst.empty, Dst.empty⟩

def World.applyOp (w : World) : DestId × IOOp → World
  | (.shp, op) => { w with shp := w.shp.apply op }
  | (.shx, op) => { w with shx := w.shx.apply op }

/-- a call on healthy destinations -/
def World.call (w : World) (c : WCall) : World × Except Err Unit :=
  match plan w.st c with
  | .error e => (w, .error e)
  | .ok p => ({ (p.ops.foldl World.applyOp w) with st := p.post }, .ok ())

/-- `Drop for ShapeWriter`: `let _ = self.finalize()` -/
def World.drop (w : World) : World := (w.call .finalize).1

def World.run (w : World) (cs : List WCall) : World := cs.foldl (fun w c => (w.call c).1) w

/-- the files a writer leaves behind after writing `ss` and being dropped -/
def writeFiles (hasShx : Bool) (ss : List Shape) : Bytes × Bytes :=
  let w := ((World.init hasShx).run (ss.map .writeShape)).drop
  (w.shp.data, w.shx.data)

/-! ### Faulty destinations (C11, C12) -/

/-- where a destination fails: after accepting `n` more bytes, at its `n`-th seek, at its `n`-th
flush (counted from 0, from now) -/
inductive Fault where
  | none
  | writeAfter (bytes : Nat)
  | seekAt (k : Nat)
  | flushAt (k : Nat)
  deriving DecidableEq, Repr, Inhabited

/-- apply one op to a destination under a fault plan: the new destination, the remaining fault
plan, and whether the op failed.  A failing write still delivers the bytes accepted before the
failure (`write_all` over a sink that accepts a prefix). -/
def Dst.applyFaulty (d : Dst) (f : Fault) (persistent : Bool) : IOOp → Dst × Fault × Bool
  | .write bs =>
    match f with
    | .writeAfter n =>
      if bs.length ≤ n ∧ ¬ (bs.length = 0 ∧ n = 0) then (d.apply (.write bs), .writeAfter (n - bs.length), false)
      else (d.apply (.write (bs.take n)), if persistent then .writeAfter 0 else .none, true)
    | f => (d.apply (.write bs), f, false)
  | .flush =>
    match f with
    | .flushAt 0 => (d, if persistent then .flushAt 0 else .none, true)
    | .flushAt (k + 1) => (d, .flushAt k, false)
    | f => (d, f, false)
  | op =>
    match f with
    | .seekAt 0 => (d, if persistent then .seekAt 0 else .none, true)
    | .seekAt (k + 1) => (d.apply op, .seekAt k, false)
    | f => (d.apply op, f, false)

structure FWorld where
  w : World
  shpFault : Fault
  shxFault : Fault
  persistent : Bool
  deriving Repr, Inhabited

/-- run the ops of a plan until one fails -/
def FWorld.runOps (fw : FWorld) : List (DestId × IOOp) → FWorld × Bool
  | [] => (fw, false)
  | (.shp, op) :: rest =>
    let (d, f, failed) := fw.w.shp.applyFaulty fw.shpFault fw.persistent op
    let fw' := { fw with w := { fw.w with shp := d }, shpFault := f }
    if failed then (fw', true) else fw'.runOps rest
  | (.shx, op) :: rest =>
    let (d, f, failed) := fw.w.shx.applyFaulty fw.shxFault fw.persistent op
    let fw' := { fw with w := { fw.w with shx := d }, shxFault := f }
    if failed then (fw', true) else fw'.runOps rest

def FWorld.call (fw : FWorld) (c : WCall) : FWorld × Except Err Unit :=
  match plan fw.w.st c with
  | .error e => (fw, .error e)
  | .ok p =>
    let (fw', failed) := fw.runOps p.ops
    if failed then ({ fw' with w := { fw'.w with st := p.pre } }, .error .io)
    else ({ fw' with w := { fw'.w with st := p.post } }, .ok ())

end Shp

/-
`shapefile::Reader` (src/reader.rs:565-660): a shape reader plus a dbase reader.
dbase is MODELLED, not verified (dbase-0.6.1 src/reading.rs): the table holds `rows` rows; the
position of its source is a row index; `seek(k)` sets it without any bound check; a record iterator
yields the row at the position and advances, until it has yielded as many rows as the table holds
(its counter restarts at 0 for every new iterator) or the source ends.  A row is represented by its
index in the table.
-/
import Shp.Model.Reader
namespace Shp

structure PReader where
  rs : RState
  rowPos : Nat
  rows : Nat
  deriving Repr, Inhabited

inductive POut where
  | pair (s : Shape) (row : Nat)   -- `Some(Ok((shape, record)))`
  | err (e : Err)                  -- `Some(Err(e))`
  | panic (site : String)
  deriving DecidableEq, Repr, Inhabited

/-- `Reader::seek`: `shape_reader.seek(index)?; dbase_reader.seek(index)?` -/
def PReader.seek (pr : PReader) (k : Nat) : PReader × ROut :=
  match pr.rs.seek k with
  | (rs', .unit) => ({ pr with rs := rs', rowPos := k }, .unit)
  | (rs', out) => ({ pr with rs := rs' }, out)

/-- one `next()` of a `ShapeRecordIterator`: the shape first, then the row; `cnt` is the number of
rows this iterator has yielded so far -/
def PReader.nextPair (o : Orient) (tg : Target) (pr : PReader) (cnt : Nat) : PReader × Option POut × Nat :=
  match pr.rs.iterNext o tg with
  | (rs', .none) => ({ pr with rs := rs' }, none, cnt)
  | (rs', .err e) => ({ pr with rs := rs' }, some (.err e), cnt)
  | (rs', .shape s) =>
    if cnt < pr.rows ∧ pr.rowPos < pr.rows then
      ({ pr with rs := rs', rowPos := pr.rowPos + 1 }, some (.pair s pr.rowPos), cnt + 1)
    else ({ pr with rs := rs' }, none, cnt)
  | (rs', .panic m) => ({ pr with rs := rs' }, some (.panic m), cnt)
  | (rs', _) => ({ pr with rs := rs' }, some (.panic "unexpected"), cnt)

/-- pull up to `j` items from one `iter_shapes_and_records()` iterator -/
def PReader.iterPairs (o : Orient) (tg : Target) : Nat → Nat → PReader → PReader × List POut
  | 0, _, pr => (pr, [])
  | j + 1, cnt, pr =>
    match pr.nextPair o tg cnt with
    | (pr', none, _) => (pr', [])
    | (pr', some out, cnt') =>
      let r := PReader.iterPairs o tg j cnt' pr'
      (r.1, out :: r.2)

inductive PROp where
  | iter (j : Nat)
  | seek (k : Nat)
  deriving DecidableEq, Repr, Inhabited

inductive PRRes where
  | items (l : List POut)
  | one (r : ROut)
  deriving Repr

def PReader.step (o : Orient) (tg : Target) (pr : PReader) : PROp → PReader × PRRes
  | .iter j => let r := pr.iterPairs o tg j 0; (r.1, .items r.2)
  | .seek k => let r := pr.seek k; (r.1, .one r.2)

def PReader.run (o : Orient) (tg : Target) (pr : PReader) : List PROp → PReader × List PRRes
  | [] => (pr, [])
  | op :: ops =>
    let r := pr.step o tg op
    let rs := r.1.run o tg ops
    (rs.1, r.2 :: rs.2)

end Shp

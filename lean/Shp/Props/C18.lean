/-
C18 — a shape's announced byte size equals what its serialisation emits.
`sizeInBytes` is built from the affine terms GENERATED from every `size_in_bytes` body on this run.
-/
import Shp.Lemmas.Length
namespace Shp.C18
open Shp

/-- announced size = emitted size, for EVERY shape of every type (any number of parts and points) -/
theorem encodeContent_length (s : Shape) : s.encodeContent.length = s.sizeInBytes := by
  cases s with
  | null => rfl
  | point d p =>
    cases d <;> simp [-List.length_flatMap, Shape.encodeContent, encPoint, Shape.sizeInBytes, sizeInBytesTerm, Shape.shapetype,
      Shape.variant, Variant.shapetype, Dim.hasZ, Dim.hasM]
  | multipoint d b pts =>
    cases d <;> simp [-List.length_flatMap, Shape.encodeContent, encMultipoint, encZM_length, Shape.sizeInBytes, sizeInBytesTerm,
      Shape.shapetype, Shape.variant, Variant.shapetype, Dim.hasZ, Dim.hasM, Shape.numParts, Shape.numPoints,
      Shape.parts] <;> omega
  | polyline d b parts =>
    cases d <;> simp [-List.length_flatMap, Shape.encodeContent, encMultiPart, encZM_length, Shape.sizeInBytes, sizeInBytesTerm,
      Shape.shapetype, Shape.variant, Variant.shapetype, Dim.hasZ, Dim.hasM, Shape.numParts, Shape.numPoints,
      Shape.parts, totalPoints] <;> omega
  | polygon d b rings =>
    cases d <;> simp [-List.length_flatMap, Shape.encodeContent, encMultiPart, encZM_length, Shape.sizeInBytes, sizeInBytesTerm,
      Shape.shapetype, Shape.variant, Variant.shapetype, Dim.hasZ, Dim.hasM, Shape.numParts, Shape.numPoints,
      Shape.parts, totalPoints] <;> omega
  | multipatch b patches =>
    simp [-List.length_flatMap, Shape.encodeContent, encMultipatch, Shape.sizeInBytes, sizeInBytesTerm,
      Shape.shapetype, Shape.variant, Variant.shapetype, Shape.numParts, Shape.numPoints,
      Shape.parts, totalPoints]
    omega

/-- the size plus the 4-byte type code is a whole number of 16-bit words -/
theorem size_plus_code_even (s : Shape) : (s.sizeInBytes + 4) % 2 = 0 := by
  cases s with
  | null => rfl
  | point d p =>
    cases d <;> simp [Shape.sizeInBytes, sizeInBytesTerm, Shape.shapetype, Shape.variant, Variant.shapetype,
      Shape.numParts, Shape.numPoints, Shape.parts]
  | multipoint d b pts =>
    cases d <;> simp [Shape.sizeInBytes, sizeInBytesTerm, Shape.shapetype, Shape.variant, Variant.shapetype] <;> omega
  | polyline d b parts =>
    cases d <;> simp [Shape.sizeInBytes, sizeInBytesTerm, Shape.shapetype, Shape.variant, Variant.shapetype] <;> omega
  | polygon d b rings =>
    cases d <;> simp [Shape.sizeInBytes, sizeInBytesTerm, Shape.shapetype, Shape.variant, Variant.shapetype] <;> omega
  | multipatch b patches =>
    simp [Shape.sizeInBytes, sizeInBytesTerm, Shape.shapetype, Shape.variant, Variant.shapetype]; omega

/-- the content length stored in the record header, in words, is exactly type code + content -/
theorem record_words (s : Shape) : 2 * recordSizeWords s = 4 + s.encodeContent.length := by
  have := size_plus_code_even s
  rw [encodeContent_length]
  unfold recordSizeWords
  omega

/-- a whole record is 8 bytes of header plus the announced content length -/
theorem encRecord_length (num : Int) (t : ShapeType) (s : Shape) :
    (encRecord num t s).length = 8 + 2 * recordSizeWords s := by
  simp [encRecord, record_words]
  omega

/-- non-vacuity: a two-part PolylineM with 2 + 3 points announces 56 + 4·2 + 24·5 bytes -/
example : (Shape.polyline .xym BBox.default [[Pt.default, Pt.default], [Pt.default, Pt.default, Pt.default]]).sizeInBytes = 184 := by
  decide

end Shp.C18

/-
C02 — every written .shp is a well-formed ESRI shapefile.
Refinement: the bytes the model writer leaves are EXACTLY the bytes the independent whitepaper
encoder (`Shp.Spec.encodeFile`, written from the ESRI description) emits for the geometry handed
to the writer; plus the framing facts stated directly.  (That the independent strict DECODER
recovers that geometry from the REAL writer's bytes is executed on every run: the oracle.)
-/
import Shp.Lemmas.SpecBridge
import Shp.Props.C04
namespace Shp.C02
open Shp Spec

def bits (f : F64) : Nat := f.bits.toNat

/-- the geometry handed to the writer, as a whitepaper record -/
def specRec (num : Int) (s : Shape) : Rec :=
  match s with
  | .null => { number := num, typeCode := 0 }
  | .point _ p => { number := num, typeCode := s.writeType.code.toNat, parts := [[p.toV]] }
  | .multipoint _ b _ | .polyline _ b _ | .polygon _ b _ =>
    { number := num, typeCode := s.writeType.code.toNat,
      box := [bits b.min.x, bits b.min.y, bits b.max.x, bits b.max.y],
      zRange := (bits b.min.z, bits b.max.z), mRange := (bits b.min.m, bits b.max.m),
      parts := s.parts.map (List.map Pt.toV) }
  | .multipatch b patches =>
    { number := num, typeCode := 31,
      box := [bits b.min.x, bits b.min.y, bits b.max.x, bits b.max.y],
      zRange := (bits b.min.z, bits b.max.z), mRange := (bits b.min.m, bits b.max.m),
      parts := s.parts.map (List.map Pt.toV), kinds := patches.map fun p => p.1.code.toNat }

theorem pparts_specRec (parts : List (List Pt)) : (parts.map (List.map Pt.toV)).map (List.map V.toPt) = parts := by
  simp [List.map_map, Function.comp_def, Pt.toV_toPt]

theorem bbox_of_bits (b : BBox) :
    (⟨⟨F64.ofNat (bits b.min.x), F64.ofNat (bits b.min.y), F64.ofNat (bits b.min.z), F64.ofNat (bits b.min.m)⟩,
      ⟨F64.ofNat (bits b.max.x), F64.ofNat (bits b.max.y), F64.ofNat (bits b.max.z), F64.ofNat (bits b.max.m)⟩⟩ : BBox) = b := by
  cases b with | mk mn mx => cases mn; cases mx; simp [bits, F64.ofNat_toNat]

/-- record content: whitepaper encoder on the geometry = type code ++ the writer's content bytes -/
theorem encContent_specRec (num : Int) (s : Shape) :
    encContent (specRec num s) = encI32LE s.writeType.code ++ s.encodeContent := by
  cases s with
  | null => simp [specRec, encContent, typeInfo, wrI32LE_eq, Shape.writeType, Shape.variant, Variant.concreteType,
      ShapeType.code, Shape.encodeContent]
  | point d p =>
    cases d <;>
      simp [specRec, encContent, typeInfo, wrI32LE_eq, wrF64_eq, Shape.writeType, Shape.variant,
        Variant.concreteType, ShapeType.code, Shape.encodeContent, encPoint, Dim.hasZ, Dim.hasM, Pt.toV, F64.ofNat_toNat]
  | multipoint d b pts =>
    have hb : (specRec num (.multipoint d b pts)).bbox = b := by simp [specRec, Rec.bbox, bbox_of_bits]
    cases d
    · have := encContent_multipoint (specRec num (.multipoint .xy b pts)) false false rfl rfl (pts.map Pt.toV) rfl (by simp)
      rw [hb] at this
      simpa [dimOf, specRec, Shape.writeType, Shape.variant, Variant.concreteType, ShapeType.code,
        Shape.encodeContent, encMultipoint_eq, List.map_map, Function.comp_def, Pt.toV_toPt] using this
    · have := encContent_multipoint (specRec num (.multipoint .xym b pts)) false true rfl rfl (pts.map Pt.toV) rfl (by simp)
      rw [hb] at this
      simpa [dimOf, specRec, Shape.writeType, Shape.variant, Variant.concreteType, ShapeType.code,
        Shape.encodeContent, encMultipoint_eq, List.map_map, Function.comp_def, Pt.toV_toPt] using this
    · have := encContent_multipoint (specRec num (.multipoint .xyzm b pts)) true true rfl rfl (pts.map Pt.toV) rfl (by simp)
      rw [hb] at this
      simpa [dimOf, specRec, Shape.writeType, Shape.variant, Variant.concreteType, ShapeType.code,
        Shape.encodeContent, encMultipoint_eq, List.map_map, Function.comp_def, Pt.toV_toPt] using this
  | polyline d b parts =>
    have hb : (specRec num (.polyline d b parts)).bbox = b := by simp [specRec, Rec.bbox, bbox_of_bits]
    have hp : (specRec num (.polyline d b parts)).pparts = parts := by
      simp only [specRec, Rec.pparts, Shape.parts]; exact pparts_specRec parts
    cases d
    · have := encContent_multipart (specRec num (.polyline .xy b parts)) false false 3 rfl (Or.inl rfl) rfl (by simp)
      rw [hb, hp] at this
      simpa [dimOf, specRec, Shape.writeType, Shape.variant, Variant.concreteType, ShapeType.code,
        Shape.encodeContent, encMultiPart_eq] using this
    · have := encContent_multipart (specRec num (.polyline .xym b parts)) false true 3 rfl (Or.inl rfl) rfl (by simp)
      rw [hb, hp] at this
      simpa [dimOf, specRec, Shape.writeType, Shape.variant, Variant.concreteType, ShapeType.code,
        Shape.encodeContent, encMultiPart_eq] using this
    · have := encContent_multipart (specRec num (.polyline .xyzm b parts)) true true 3 rfl (Or.inl rfl) rfl (by simp)
      rw [hb, hp] at this
      simpa [dimOf, specRec, Shape.writeType, Shape.variant, Variant.concreteType, ShapeType.code,
        Shape.encodeContent, encMultiPart_eq] using this
  | polygon d b rings =>
    have hb : (specRec num (.polygon d b rings)).bbox = b := by simp [specRec, Rec.bbox, bbox_of_bits]
    have hp : (specRec num (.polygon d b rings)).pparts = rings.map (·.2) := by
      simp only [specRec, Rec.pparts, Shape.parts]; exact pparts_specRec _
    cases d
    · have := encContent_multipart (specRec num (.polygon .xy b rings)) false false 4 rfl (Or.inr rfl) rfl (by simp)
      rw [hb, hp] at this
      simpa [dimOf, specRec, Shape.writeType, Shape.variant, Variant.concreteType, ShapeType.code,
        Shape.encodeContent, encMultiPart_eq] using this
    · have := encContent_multipart (specRec num (.polygon .xym b rings)) false true 4 rfl (Or.inr rfl) rfl (by simp)
      rw [hb, hp] at this
      simpa [dimOf, specRec, Shape.writeType, Shape.variant, Variant.concreteType, ShapeType.code,
        Shape.encodeContent, encMultiPart_eq] using this
    · have := encContent_multipart (specRec num (.polygon .xyzm b rings)) true true 4 rfl (Or.inr rfl) rfl (by simp)
      rw [hb, hp] at this
      simpa [dimOf, specRec, Shape.writeType, Shape.variant, Variant.concreteType, ShapeType.code,
        Shape.encodeContent, encMultiPart_eq] using this
  | multipatch b patches =>
    have hb : (specRec num (.multipatch b patches)).bbox = b := by simp [specRec, Rec.bbox, bbox_of_bits]
    have hp : (specRec num (.multipatch b patches)).pparts = patches.map (·.2) := by
      simp only [specRec, Rec.pparts, Shape.parts]; exact pparts_specRec _
    have hk : (specRec num (.multipatch b patches)).kinds.map (fun (k : Nat) => (k : Int)) = patches.map (·.1.code) := by
      simp only [specRec, List.map_map]
      apply List.map_congr_left
      intro p _
      have : 0 ≤ p.1.code := by cases p.1 <;> decide
      simp only [Function.comp_apply]; omega
    have := encContent_multipatch (specRec num (.multipatch b patches)) rfl rfl
    rw [this, hb, hp, hk]
    simp only [Shape.writeType, Shape.variant, Variant.concreteType, Option.getD_some, ShapeType.code,
      Shape.encodeContent, encMultipatch_eq, encMultipatchOpt, List.append_assoc, List.length_map]
    rfl

/-- a framed record: whitepaper framing of the geometry = the writer's record bytes -/
theorem encRecord_specRec (num : Int) (s : Shape) :
    Spec.encRecord (specRec num s) = Shp.encRecord num s.writeType s := by
  have hnum : (specRec num s).number = num := by cases s <;> rfl
  unfold Spec.encRecord Shp.encRecord
  rw [encContent_specRec, hnum]
  simp only [wrI32BE_eq, List.length_append, encI32LE_length, C18.encodeContent_length, List.append_assoc]
  congr 2
  unfold recordSizeWords
  congr 1
  have := C18.size_plus_code_even s
  push_cast
  omega

def specRecs (k : Nat) : List Shape → List Rec
  | [] => []
  | s :: ss => specRec k s :: specRecs (k + 1) ss

theorem recordsFrom_spec (t : ShapeType) (k : Nat) (ss : List Shape) (hty : ∀ s ∈ ss, s.writeType = t) :
    recordsFrom t k ss = (specRecs k ss).flatMap Spec.encRecord := by
  induction ss generalizing k with
  | nil => rfl
  | cons s ss ih =>
    have := hty s List.mem_cons_self
    simp only [recordsFrom, specRecs, List.flatMap_cons, encRecord_specRec, this]
    rw [ih (k + 1) (fun x hx => hty x (List.mem_cons_of_mem _ hx))]

/-- the whitepaper file value for the geometry handed to the writer -/
def specFile (ss : List Shape) : File :=
  let h := finalHeader ss
  { typeCode := (fileTypeOf ss).code.toNat,
    box := [bits h.bbox.min.x, bits h.bbox.min.y, bits h.bbox.max.x, bits h.bbox.max.y,
            bits h.bbox.min.z, bits h.bbox.max.z, bits h.bbox.min.m, bits h.bbox.max.m],
    records := specRecs 1 ss }

/-- MAIN: the .shp the writer leaves behind is, byte for byte, the whitepaper encoding of the
shapes handed to it: records numbered 1..n in order, nothing before, between or after them. -/
theorem written_shp_is_whitepaper_encoding (ss : List Shape) (h : Homog ss) :
    shpFile ss = encodeFile (specFile ss) := by
  have hty : ∀ s ∈ ss, s.writeType = fileTypeOf ss := by
    cases ss with
    | nil => simp
    | cons a as =>
      intro s hs
      simp only [List.mem_cons] at hs
      rcases hs with rfl | hs
      · rfl
      · exact h.2 s hs
  unfold shpFile encodeFile specFile
  simp only [List.append_nil]
  rw [← recordsFrom_spec _ 1 ss hty]
  congr 1
  unfold encHeader Header.enc finalHeader
  have hcode : (((fileTypeOf ss).code.toNat : Nat) : Int) = (fileTypeOf ss).code := by
    have : 0 ≤ (fileTypeOf ss).code := by cases fileTypeOf ss <;> decide
    omega
  have hlen : (((100 + (recordsFrom (fileTypeOf ss) 1 ss).length) / 2 : Nat) : Int) = 50 + (totalWords ss : Int) := by
    rw [recordsFrom_length]; omega
  simp only [wrI32BE_eq, wrI32LE_eq, wrF64_eq, zeros, List.flatMap_cons, List.flatMap_nil, List.append_nil,
    List.append_assoc, hcode, hlen, bits, F64.ofNat_toNat, Const.fileCode]
  rfl

/-! ### the framing facts, stated directly -/

/-- the header's length field (16-bit words) is the real byte length -/
theorem header_length_field (ss : List Shape) :
    2 * (finalHeader ss).fileLength = ((shpFile ss).length : Int) := by
  simp only [shpFile, List.length_append, Header.enc_length, recordsFrom_length, finalHeader]
  push_cast; omega

/-- file code 9994, five zero words, version 1000 and the type of the shapes -/
theorem header_fixed_fields (ss : List Shape) :
    (shpFile ss).take 24 = encI32BE 9994 ++ zeros 20 ∧
    ((shpFile ss).drop 28).take 8 = encI32LE 1000 ++ encI32LE (fileTypeOf ss).code := by
  unfold shpFile Header.enc finalHeader
  constructor <;> simp [zeros, Const.fileCode, encI32BE, encI32LE, encU32BE, encU32LE]

/-- every record's content-length field is its real content length, and the content starts with
the file's type code -/
theorem record_framing (num : Int) (t : ShapeType) (s : Shape) :
    ∃ content, Shp.encRecord num t s = encI32BE num ++ encI32BE ((content.length / 2 : Nat) : Int) ++ content ∧
      content = encI32LE t.code ++ s.encodeContent ∧ content.length % 2 = 0 := by
  refine ⟨encI32LE t.code ++ s.encodeContent, ?_, rfl, ?_⟩
  · unfold Shp.encRecord recordSizeWords
    simp only [List.length_append, encI32LE_length, C18.encodeContent_length, List.append_assoc]
    congr 3
    omega
  · have := C18.size_plus_code_even s
    simp only [List.length_append, encI32LE_length, C18.encodeContent_length]; omega

/-- non-vacuity -/
example : Homog [Shape.point .xyzm Pt.default, Shape.point .xyzm Pt.default] :=
  ⟨by decide, by intro x hx; simp at hx; subst hx; rfl⟩

end Shp.C02

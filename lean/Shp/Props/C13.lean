/-
C13 — truncated or failing sources give errors and only genuine shapes.
Everything follows from two facts proved for every decoder of the model: it reads its source
sequentially (`Stable`) and it inverts the writer's encoder exactly (`Exact`); so a strict prefix
of an encoding is an I/O error, never a value.
-/
import Shp.Lemmas.ShortRead
import Shp.Lemmas.TruncIdx
import Shp.Lemmas.TruncSeq
import Shp.Lemmas.Shrinks
import Shp.Lemmas.ReadAll
import Shp.Lemmas.ReadAll
import Shp.Lemmas.StableAll
namespace Shp.C13
open Shp Dec

/-- a header cut anywhere is an I/O error -/
theorem truncated_header (h : Header) (hfl : InI32 h.fileLength) (hv : InI32 h.version) (t : Nat) (ht : t < 100) :
    readHeader (h.enc.take t) = .err .io := by
  apply strict_prefix_io (enc := Header.enc) (a := h) readHeader_stable (fun r => readHeader_enc h hfl hv r)
    (h.enc.take t) (h.enc.drop t) (List.take_append_drop t h.enc)
  intro hd
  have := congrArg List.length hd
  simp [Header.enc_length] at this
  omega

/-- a record cut anywhere (even right at its start) is an I/O error, never a shape -/
theorem truncated_record (o : Orient) (tg : Target) (num : Int) (s : Shape) (c : Nat)
    (hn : InI32 num) (hs : s.Sized) (hnull : s ≠ .null) (htg : tg.Accepts s.writeType)
    (hc : c < (encRecord num s.writeType s).length) :
    readOneShape o tg ((encRecord num s.writeType s).take c) = .err .io := by
  apply strict_prefix_io (enc := fun (_ : Int × Shape) => encRecord num s.writeType s)
    (a := ((recordSizeWords s : Int), s.readBack o)) (readOneShape_stable o tg)
    (fun r => readOneShape_encRecord o tg num s r hn hs hnull htg)
    _ ((encRecord num s.writeType s).drop c) (List.take_append_drop c _)
  intro hd
  have := congrArg List.length hd
  simp at this
  omega

/-- an index cut anywhere is an I/O error at open -/
theorem truncated_index (ss : List Shape) (hb : 50 + totalWords ss < 2147483648) (t : Nat) (ht : t < (shxFile ss).length) :
    readIndexFile ((shxFile ss).take t) = .err .io := by
  have hex : ∀ r, readIndexFile (shxFile ss ++ r) = .ok (indexEntriesFrom 50 ss) r := by
    intro r
    have h0 := readIndexFile_shxFile ss hb
    rcases readIndexFile_stable (shxFile ss) r with h | h
    · rw [h0] at h; cases h
    · rw [h, h0]; simp [Res.extend]
  apply strict_prefix_io (enc := fun (_ : List IndexEntry) => shxFile ss) (a := indexEntriesFrom 50 ss)
    readIndexFile_stable hex _ ((shxFile ss).drop t) (List.take_append_drop t _)
  intro hd
  have := congrArg List.length hd
  simp at this
  omega

theorem open_truncated_index (shp : Bytes) (ss : List Shape) (hb : 50 + totalWords ss < 2147483648) (t : Nat)
    (ht : t < (shxFile ss).length) : RState.open shp (some ((shxFile ss).take t)) = .error (.err .io) := by
  unfold RState.open
  simp only [truncated_index ss hb t ht]

/-- how many of the records `ss` lie wholly inside the first `avail` bytes of their stream -/
def wholeCount : List Shape → Nat → Nat
  | [], _ => 0
  | s :: ss, avail =>
    let l := 8 + 2 * recordSizeWords s
    if l ≤ avail then 1 + wholeCount ss (avail - l) else 0

/-- MAIN (sequential reading of a truncated stream): exactly the records wholly contained in the
retained bytes are returned, each equal to the original, then the cut record is reported as an
I/O error and the iteration ends.  No other outcome, whatever the truncation point. -/
theorem truncated_stream (o : Orient) (tg : Target) (t : ShapeType) (ss : List Shape) (k avail fuel : Nat)
    (st : RState)
    (hsz : ∀ s ∈ ss, s.Sized) (hnn : ∀ s ∈ ss, s ≠ .null) (hty : ∀ s ∈ ss, s.writeType = t)
    (hacc : ∀ s ∈ ss, tg.Accepts s.writeType) (hk : k + ss.length < 2147483648)
    (havail : avail ≤ (recordsFrom t k ss).length)
    (hidx : st.index = none) (hpos : st.currentPos = some st.srcPos) (hfl0 : 0 ≤ st.header.fileLength)
    (hflen : (2 * st.header.fileLength).toNat = st.srcPos + (recordsFrom t k ss).length)
    (hdata : st.data.drop st.srcPos = (recordsFrom t k ss).take avail) (hlen : st.srcPos ≤ st.data.length)
    (hfuel : ss.length + 1 ≤ fuel) :
    (st.iterAll o tg fuel).2 =
      ((ss.take (wholeCount ss avail)).map fun s => ROut.shape (s.readBack o)) ++
      (if avail < (recordsFrom t k ss).length then [ROut.err .io] else []) := by
  induction ss generalizing k avail fuel st with
  | nil =>
    simp only [recordsFrom, List.length_nil] at havail hflen
    obtain ⟨fuel', rfl⟩ : ∃ f, fuel = f + 1 := ⟨fuel - 1, by omega⟩
    have hnext : st.iterNext o tg = (st, .none) := by
      unfold RState.iterNext
      rw [hidx]
      simp only
      have hwb : wordsToBytes st.header.fileLength = some (2 * st.header.fileLength) := by
        unfold wordsToBytes; rw [if_neg (by omega)]
      rw [hwb, hpos]
      simp only [Option.getD_some]
      rw [if_pos (by omega)]
    unfold RState.iterAll
    rw [hnext]
    simp [wholeCount, recordsFrom]
  | cons s ss ih =>
    obtain ⟨fuel', rfl⟩ : ∃ f, fuel = f + 1 := ⟨fuel - 1, by simp only [List.length_cons] at hfuel; omega⟩
    have hs := hsz s List.mem_cons_self
    have hts : s.writeType = t := hty s List.mem_cons_self
    have hL := C18.encRecord_length (k : Int) t s
    have htot : (recordsFrom t k (s :: ss)).length = (8 + 2 * recordSizeWords s) + (recordsFrom t (k + 1) ss).length := by
      simp only [recordsFrom, List.length_append, hL]
    have hwb : wordsToBytes st.header.fileLength = some (2 * st.header.fileLength) := by
      unfold wordsToBytes; rw [if_neg (by omega)]
    have hnum : InI32 (k : Int) := by unfold InI32; simp only [List.length_cons] at hk; omega
    by_cases hfit : 8 + 2 * recordSizeWords s ≤ avail
    · -- the record is whole: it is returned and the iteration moves on
      have hdrop : st.data.drop st.srcPos = encRecord k t s ++ (recordsFrom t (k + 1) ss).take (avail - (8 + 2 * recordSizeWords s)) := by
        rw [hdata]
        simp only [recordsFrom]
        rw [List.take_append, List.take_of_length_le (by rw [hL]; omega), hL]
      have hrec := readOneShape_encRecord o tg (k : Int) s ((recordsFrom t (k + 1) ss).take (avail - (8 + 2 * recordSizeWords s)))
        hnum hs (hnn s List.mem_cons_self) (hacc s List.mem_cons_self)
      rw [hts] at hrec
      have hnext : ∃ st1, st.iterNext o tg = (st1, .shape (s.readBack o)) ∧ st1.index = none ∧
          st1.currentPos = some st1.srcPos ∧ st1.header = st.header ∧ st1.data = st.data ∧
          st1.srcPos = st.srcPos + (8 + 2 * recordSizeWords s) := by
        unfold RState.iterNext
        rw [hidx]
        simp only
        rw [hwb, hpos]
        simp only [Option.getD_some]
        rw [if_neg (by rw [hflen, htot]; omega)]
        unfold RState.readHere
        rw [hdrop, hrec]
        have hrl : ((recordsFrom t (k + 1) ss).take (avail - (8 + 2 * recordSizeWords s))).length =
            st.data.length - st.srcPos - (8 + 2 * recordSizeWords s) := by
          have := congrArg List.length hdrop
          simp only [List.length_drop, List.length_append, hL] at this
          omega
        refine ⟨_, rfl, hidx, ?_, rfl, rfl, ?_⟩
        · simp only [hpos, Option.map_some, Const.recordHeaderSize, Option.some.injEq]; rw [hrl]
          have := congrArg List.length hdrop
          simp only [List.length_drop, List.length_append, hL] at this
          omega
        · simp only; rw [hrl]
          have := congrArg List.length hdrop
          simp only [List.length_drop, List.length_append, hL] at this
          omega
      obtain ⟨st1, hn1, hi1, hp1, hh1, hd1, hs1⟩ := hnext
      have ih' := ih (k + 1) (avail - (8 + 2 * recordSizeWords s)) fuel' st1
        (fun x hx => hsz x (List.mem_cons_of_mem _ hx)) (fun x hx => hnn x (List.mem_cons_of_mem _ hx))
        (fun x hx => hty x (List.mem_cons_of_mem _ hx)) (fun x hx => hacc x (List.mem_cons_of_mem _ hx))
        (by simp only [List.length_cons] at hk; omega) (by rw [htot] at havail; omega) hi1 hp1 (by rw [hh1]; exact hfl0)
        (by rw [hh1, hflen, htot, hs1]; omega)
        (by
          rw [hd1, hs1, ← List.drop_drop, hdrop, List.drop_left' (by rw [hL])])
        (by
          rw [hd1, hs1]
          have := congrArg List.length hdrop
          simp only [List.length_drop, List.length_append, hL] at this
          omega)
        (by simp only [List.length_cons] at hfuel; omega)
      unfold RState.iterAll
      rw [hn1]
      simp only [ih', wholeCount, hfit, if_true, List.take_succ_cons, List.map_cons, List.cons_append, htot]
      congr 2
      have : 1 + wholeCount ss (avail - (8 + 2 * recordSizeWords s)) = wholeCount ss (avail - (8 + 2 * recordSizeWords s)) + 1 := by omega
      rw [this, List.take_succ_cons, List.map_cons]
      by_cases hlt : avail < 8 + 2 * recordSizeWords s + (recordsFrom t (k + 1) ss).length
      · rw [if_pos hlt, if_pos (by omega)]; rfl
      · rw [if_neg hlt, if_neg (by omega)]; rfl
    · -- the record is cut: an I/O error, then the iteration ends
      have hcut : avail < (encRecord (k : Int) t s).length := by rw [hL]; omega
      have hdrop : st.data.drop st.srcPos = (encRecord k t s).take avail := by
        rw [hdata]
        simp only [recordsFrom]
        rw [List.take_append_of_le_length (by omega)]
      have herr := truncated_record o tg (k : Int) s avail hnum hs (hnn s List.mem_cons_self)
        (hacc s List.mem_cons_self) (by rw [hts]; exact hcut)
      rw [hts] at herr
      have hnext : st.iterNext o tg = ({ st with currentPos := none }, .err .io) := by
        unfold RState.iterNext
        rw [hidx]
        simp only
        rw [hwb, hpos]
        simp only [Option.getD_some]
        rw [if_neg (by rw [hflen, htot]; omega)]
        unfold RState.readHere
        rw [hdrop, herr]
        simp only [hidx]
      have hend : ∀ f, (RState.iterAll o tg f { st with currentPos := none }).2 = [] := by
        intro f
        cases f with
        | zero => rfl
        | succ f =>
          unfold RState.iterAll
          have : RState.iterNext o tg { st with currentPos := none } = ({ st with currentPos := none }, .none) := by
            unfold RState.iterNext
            simp only [hidx]
          rw [this]
      unfold RState.iterAll
      rw [hnext]
      simp only [hend fuel', wholeCount, hfit, if_false, List.take_zero, List.map_nil, List.nil_append]
      rw [if_pos (by rw [htot]; omega)]

/-- MAIN (file level): a written `.shp` cut at ANY length `t >= 100`: the reader opens, yields
exactly the records wholly inside the retained bytes, then one I/O error for the cut record (none
if nothing was cut) and ends.  For `t < 100` opening itself reports the I/O error. -/
theorem truncated_file (o : Orient) (tg : Target) (ss : List Shape) (hok : FileOK tg ss) (t : Nat)
    (ht : 100 ≤ t) (ht2 : t ≤ (shpFile ss).length) :
    ∃ st, RState.open ((shpFile ss).take t) none = .ok st ∧
      (st.iterAll o tg (ss.length + 1)).2 =
        ((ss.take (wholeCount ss (t - 100))).map fun s => ROut.shape (s.readBack o)) ++
        (if t < (shpFile ss).length then [ROut.err .io] else []) := by
  have hh := finalHeader_inI32 ss hok.total
  have htake : (shpFile ss).take t = (finalHeader ss).enc ++ (recordsFrom (fileTypeOf ss) 1 ss).take (t - 100) := by
    unfold shpFile
    rw [List.take_append, List.take_of_length_le (by rw [Header.enc_length]; omega), Header.enc_length]
  have hhdr := readHeader_enc (finalHeader ss) hh.1 hh.2 ((recordsFrom (fileTypeOf ss) 1 ss).take (t - 100))
  have hlen : (shpFile ss).length = 100 + (recordsFrom (fileTypeOf ss) 1 ss).length := by
    simp [shpFile, Header.enc_length]
  have hl := length_le_totalWords ss
  have htot := hok.total
  unfold RState.open
  simp only []
  rw [htake, hhdr]
  refine ⟨_, rfl, ?_⟩
  have hsrc : ((finalHeader ss).enc ++ (recordsFrom (fileTypeOf ss) 1 ss).take (t - 100)).length -
      ((recordsFrom (fileTypeOf ss) 1 ss).take (t - 100)).length = 100 := by
    simp only [List.length_append, Header.enc_length]; omega
  have := truncated_stream o tg (fileTypeOf ss) ss 1 (t - 100) (ss.length + 1)
    { data := (finalHeader ss).enc ++ (recordsFrom (fileTypeOf ss) 1 ss).take (t - 100),
      srcPos := ((finalHeader ss).enc ++ (recordsFrom (fileTypeOf ss) 1 ss).take (t - 100)).length -
        ((recordsFrom (fileTypeOf ss) 1 ss).take (t - 100)).length,
      header := finalHeader ss, index := none, currentPos := some Const.headerSize, nextShape := 0 }
    hok.sized hok.nonnull hok.types hok.accepts (by omega) (by omega) rfl
    (by simp only [hsrc, Const.headerSize])
    (by simp only [finalHeader]; omega)
    (by show (2 * (finalHeader ss).fileLength).toNat = _ - _ + _; rw [hsrc, recordsFrom_length]; simp only [finalHeader]; omega)
    (by simp only [hsrc]; rw [List.drop_left' (Header.enc_length _)])
    (by show _ - _ ≤ _; rw [hsrc]; simp only [List.length_append, Header.enc_length]; omega)
    (Nat.le_refl _)
  rw [this, hlen]
  congr 1
  by_cases hlt : t - 100 < (recordsFrom (fileTypeOf ss) 1 ss).length
  · rw [if_pos hlt, if_pos (by omega)]
  · rw [if_neg hlt, if_neg (by omega)]

theorem truncated_file_header (ss : List Shape) (htot : 50 + totalWords ss < 2147483648) (t : Nat) (ht : t < 100) :
    RState.open ((shpFile ss).take t) none = .error (.err .io) := by
  have hh := finalHeader_inI32 ss htot
  have : (shpFile ss).take t = (finalHeader ss).enc.take t := by
    unfold shpFile; rw [List.take_append_of_le_length (by rw [Header.enc_length]; omega)]
  unfold RState.open
  simp only [this, truncated_header (finalHeader ss) hh.1 hh.2 t ht]

/-- non-vacuity: cutting a two-record stream in the middle of the second record keeps one record -/
example : wholeCount [Shape.point .xy Pt.default, Shape.point .xy Pt.default] 40 = 1 := by decide

/-! ### foreign layouts: a cut record is an I/O error whatever produced it -/

/-- for ANY decoder with the sequential-source discipline: if the run on the full input succeeded
and consumed more than the first `bs.length` bytes, the run on those bytes alone is an I/O error
(it cannot succeed, fail otherwise, or panic) -/
theorem cut_run_is_io {α : Type} (d : Dec α) (hd : Dec.Stable d) (bs ext : Bytes) (a : α) (rest : Bytes)
    (hfull : d (bs ++ ext) = .ok a rest) (hcons : rest.length < ext.length) : d bs = .err .io := by
  rcases hd bs ext with h | h
  · exact h
  · rw [hfull] at h
    cases hb : d bs with
    | ok a' r' =>
      rw [hb] at h
      simp only [Res.extend, Res.ok.injEq] at h
      have := congrArg List.length h.2
      simp only [List.length_append] at this
      omega
    | err e => rw [hb] at h; simp [Res.extend] at h
    | panic s => rw [hb] at h; simp [Res.extend] at h

/-- hence, for a record ANY index entry points at (whatever wrote it, wherever it sits): reading it
from a source cut strictly inside it yields the I/O error — never a shape, never another error -/
theorem cut_record_is_io (o : Orient) (tg : Target) (data : Bytes) (e : IndexEntry) (s : Shape)
    (hr : RecordAt o tg data e s) (t : Nat) (h1 : (2 * e.offset).toNat ≤ t)
    (h2 : ∀ w : Int, ∀ rest : Bytes, readOneShape o tg (data.drop (2 * e.offset).toNat) = .ok (w, s) rest →
      t < data.length - rest.length) :
    readOneShape o tg ((data.take t).drop (2 * e.offset).toNat) = .err .io := by
  obtain ⟨_, w, rest, hread, _, hlen⟩ := hr
  have ht := h2 w rest hread
  have hsplit : data.drop (2 * e.offset).toNat =
      (data.take t).drop (2 * e.offset).toNat ++ data.drop t := by
    have : data = data.take t ++ data.drop t := (List.take_append_drop t data).symm
    conv => lhs; rw [this]
    rw [List.drop_append_of_le_length (by rw [List.length_take]; omega)]
  rw [hsplit] at hread
  apply cut_run_is_io (readOneShape o tg) (readOneShape_stable o tg) _ _ _ _ hread
  simp only [List.length_drop]
  omega

/-! ### truncation of a file in ANY layout, read with its index -/

/-- what reading entry `e` of `data` gives (the decoder's own result, as a reader outcome) -/
def entryOut (o : Orient) (tg : Target) (data : Bytes) (e : IndexEntry) : ROut :=
  match readOneShape o tg (data.drop (2 * e.offset).toNat) with
  | .ok (_, s) _ => .shape s
  | .err e => .err e
  | .panic s => .panic s

/-- a record some index entry points at, seen through a source cut at ANY length `t`: it decodes to
the same shape (and is again a record the entry points at, in the cut source) or it is the I/O
error: nothing else — no other shape, no other error, no panic -/
theorem truncated_entry (o : Orient) (tg : Target) (data : Bytes) (e : IndexEntry) (s : Shape)
    (hr : RecordAt o tg data e s) (t : Nat) (ht : t ≤ data.length) :
    (entryOut o tg (data.take t) e = .shape s ∧ RecordAt o tg (data.take t) e s) ∨
    (entryOut o tg (data.take t) e = .err .io ∧
      readOneShape o tg ((data.take t).drop (2 * e.offset).toNat) = .err .io) := by
  obtain ⟨hoff, w, rest, hread, hw, hlen⟩ := hr
  let off := (2 * e.offset).toNat
  have hsplit : data.drop off = (data.take t).drop off ++ data.drop (max t off) := by
    by_cases hle : off ≤ t
    · have : data = data.take t ++ data.drop t := (List.take_append_drop t data).symm
      conv => lhs; rw [this]
      rw [List.drop_append_of_le_length (by rw [List.length_take]; omega), Nat.max_eq_left hle]
    · have h0 : (data.take t).drop off = [] := List.drop_eq_nil_of_le (by rw [List.length_take]; omega)
      rw [h0, List.nil_append, Nat.max_eq_right (by omega)]
  rcases readOneShape_stable o tg ((data.take t).drop off) (data.drop (max t off)) with hio | hext
  · right
    exact ⟨by simp only [entryOut]; rw [show (2 * e.offset).toNat = off from rfl, hio], hio⟩
  · left
    rw [← hsplit, hread] at hext
    cases hb : readOneShape o tg ((data.take t).drop off) with
    | ok a r' =>
      rw [hb] at hext
      simp only [Res.extend, Res.ok.injEq] at hext
      obtain ⟨ha, hr'⟩ := hext
      subst ha
      have h12 := readOneShape_c12 o tg _ _ _ hb
      have hlr := congrArg List.length hr'
      simp only [List.length_append, List.length_drop, List.length_take] at hlr h12
      refine ⟨by simp only [entryOut]; rw [show (2 * e.offset).toNat = off from rfl, hb], hoff, w, r', hb, hw, ?_⟩
      simp only [List.length_take]
      show off + 8 + (2 * w).toNat + r'.length = min t data.length
      have : (2 * e.offset).toNat = off := rfl
      omega
    | err e' => rw [hb] at hext; simp [Res.extend] at hext
    | panic s' => rw [hb] at hext; simp [Res.extend] at hext

/-- ... and when the record lies wholly inside the retained bytes it IS returned: the decoders look
at no byte they do not consume (`Local`) -/
theorem whole_record_survives (o : Orient) (tg : Target) (data : Bytes) (e : IndexEntry) (s : Shape)
    (w : Int) (rest : Bytes) (hoff : 0 ≤ e.offset)
    (hread : readOneShape o tg (data.drop (2 * e.offset).toNat) = .ok (w, s) rest) (hw : 0 ≤ w)
    (hlen : (2 * e.offset).toNat + 8 + (2 * w).toNat + rest.length = data.length)
    (t : Nat) (ht : t ≤ data.length) (hend : (2 * e.offset).toNat + 8 + (2 * w).toNat ≤ t) :
    entryOut o tg (data.take t) e = .shape s := by
  let off := (2 * e.offset).toNat
  have hsplit : data.drop off = (data.take t).drop off ++ data.drop t := by
    have : data = data.take t ++ data.drop t := (List.take_append_drop t data).symm
    conv => lhs; rw [this]
    rw [List.drop_append_of_le_length (by rw [List.length_take]; have : (2 * e.offset).toNat = off := rfl; omega)]
  rw [show (2 * e.offset).toNat = off from rfl, hsplit] at hread
  obtain ⟨r', _, hb⟩ := (readOneShape_local o tg).2 _ _ _ _ hread (by
    simp only [List.length_drop]; have : (2 * e.offset).toNat = off := rfl; omega)
  simp only [entryOut]
  rw [show (2 * e.offset).toNat = off from rfl, hb]

/-- MAIN (any layout): a .shp whose index entries all point at decodable records — stored in any
physical order, with any fillers — cut at ANY length `t` and read with its index: the reader opens
(given the header survives) and the iteration yields, for every index entry in index order, that
entry's own outcome: the record's shape, or the I/O error; never anything else, and the outcome of
one entry does not depend on the others -/
theorem truncated_any_layout (o : Orient) (tg : Target) (data shx : Bytes) (idx : List IndexEntry)
    (shapes : List Shape) (h : Header) (rest xr : Bytes) (t : Nat) (ht : t ≤ data.length)
    (hx : readIndexFile shx = .ok idx xr) (hh : readHeader (data.take t) = .ok h rest)
    (ha : Addressable o tg data idx shapes) :
    ∃ st, RState.open (data.take t) (some shx) = .ok st ∧
      (st.iterAll o tg st.fuel).2 = idx.map (entryOut o tg (data.take t)) ∧
      ∀ (i : Nat) (h1 : i < idx.length) (h2 : i < shapes.length),
        entryOut o tg (data.take t) idx[i] = .shape shapes[i] ∨ entryOut o tg (data.take t) idx[i] = .err .io := by
  obtain ⟨hlen, haddr⟩ := ha
  have hent : ∀ (i : Nat) (h1 : i < idx.length) (h2 : i < shapes.length),
      (entryOut o tg (data.take t) idx[i] = .shape shapes[i] ∧ RecordAt o tg (data.take t) idx[i] shapes[i]) ∨
      (entryOut o tg (data.take t) idx[i] = .err .io ∧
        readOneShape o tg ((data.take t).drop (2 * idx[i].offset).toNat) = .err .io) :=
    fun i h1 h2 => truncated_entry o tg data idx[i] shapes[i] (haddr i h1 h2) t ht
  unfold RState.open
  simp only [hx, hh]
  refine ⟨_, rfl, ?_, fun i h1 h2 => (hent i h1 h2).imp (·.1) (·.1)⟩
  let outs := idx.map (entryOut o tg (data.take t))
  have hinv : TInv o tg outs
      { data := data.take t, srcPos := (data.take t).length - rest.length, header := h, index := some idx,
        currentPos := some Const.headerSize, nextShape := 0 } := by
    refine ⟨⟨idx, rfl, by simp [outs], ?_⟩, ?_⟩
    · intro i h1 h2
      have h2' : i < shapes.length := by omega
      have hoff : 0 ≤ idx[i].offset := (haddr i h1 h2').1
      simp only [outs, List.getElem_map]
      rcases hent i h1 h2' with ⟨he, hr⟩ | ⟨he, hr⟩
      · exact ⟨hoff, Or.inl ⟨_, he, hr⟩⟩
      · exact ⟨hoff, Or.inr ⟨_, he, hr⟩⟩
    · intro p hp
      simp only [Option.some.injEq, Const.headerSize] at hp
      have := readHeader_consumes (data.take t) h rest hh
      simp only
      omega
  have hno : ∀ x ∈ outs, x ≠ ROut.none := by
    intro x hx
    simp only [outs, List.mem_map] at hx
    obtain ⟨e, _, rfl⟩ := hx
    simp only [entryOut]
    split <;> simp
  obtain ⟨st', hall, _, _⟩ := hinv.iterAll hno (RState.fuel _) 
  rw [hall]
  simp only [List.drop_zero]
  apply List.take_of_length_le
  simp only [outs, List.length_map, RState.fuel]
  omega

/-- the header of a file that opens also opens when the file is cut anywhere from byte 100 on -/
theorem header_survives_cut (data : Bytes) (h : Header) (rest : Bytes) (hh : readHeader data = .ok h rest)
    (t : Nat) (h100 : 100 ≤ t) (ht : t ≤ data.length) :
    ∃ rest', readHeader (data.take t) = .ok h rest' := by
  have hc := readHeader_consumes data h rest hh
  have hsplit : data = data.take t ++ data.drop t := (List.take_append_drop t data).symm
  rw [hsplit] at hh
  obtain ⟨r', _, hb⟩ := readHeader_local.2 _ _ _ _ hh (by simp only [List.length_drop]; omega)
  exact ⟨r', hb⟩

/-- MAIN (any layout), without the hypothesis on the cut file's header: for every `t` from 100 to
the file's length -/
theorem truncated_any_layout' (o : Orient) (tg : Target) (data shx : Bytes) (idx : List IndexEntry)
    (shapes : List Shape) (h : Header) (rest xr : Bytes) (t : Nat) (h100 : 100 ≤ t) (ht : t ≤ data.length)
    (hx : readIndexFile shx = .ok idx xr) (hh : readHeader data = .ok h rest)
    (ha : Addressable o tg data idx shapes) :
    ∃ st, RState.open (data.take t) (some shx) = .ok st ∧
      (st.iterAll o tg st.fuel).2 = idx.map (entryOut o tg (data.take t)) ∧
      ∀ (i : Nat) (h1 : i < idx.length) (h2 : i < shapes.length),
        entryOut o tg (data.take t) idx[i] = .shape shapes[i] ∨ entryOut o tg (data.take t) idx[i] = .err .io := by
  obtain ⟨rest', hh'⟩ := header_survives_cut data h rest hh t h100 ht
  exact truncated_any_layout o tg data shx idx shapes h rest' xr t ht hx hh' ha

/-- MAIN (any spec-conformant file, no index): a .shp whose records lie back to back behind the
header — whatever wrote it: optional M blocks absent, null records, any stored boxes and record
numbers — cut at ANY length from 100 bytes on and read sequentially: the reader opens and yields the
first `k` records, then (if records are missing) the I/O error for the cut record, and ends -/
theorem truncated_sequential_any_file (o : Orient) (tg : Target) (data : Bytes) (h : Header) (rest : Bytes)
    (shapes : List Shape) (hh : readHeader data = .ok h rest) (hfl : 0 ≤ h.fileLength)
    (hrec : SeqRecords o tg data (2 * h.fileLength).toNat 100 shapes)
    (t : Nat) (h100 : 100 ≤ t) (ht : t ≤ data.length) :
    ∃ st k, RState.open (data.take t) none = .ok st ∧ k ≤ shapes.length ∧
      (st.iterAll o tg st.fuel).2 =
        (shapes.take k).map ROut.shape ++ (if k < shapes.length then [ROut.err .io] else []) := by
  obtain ⟨rest', hh'⟩ := header_survives_cut data h rest hh t h100 ht
  have hc := readHeader_consumes (data.take t) h rest' hh'
  unfold RState.open
  simp only [hh']
  let st : RState := ⟨data.take t, (data.take t).length - rest'.length, h, none, some Const.headerSize, 0⟩
  have hst : TSeq o tg data t st 100 :=
    ⟨rfl, rfl, rfl, by simp only [st, List.length_take] at hc ⊢; omega, hfl⟩
  obtain ⟨k, hk, hall⟩ := truncated_sequential_any o tg data t ht shapes 100 st st.fuel hrec hst h100 (by
    simp only [st, RState.fuel, List.length_take]; omega)
  exact ⟨st, k, rfl, hk, hall⟩

end Shp.C13

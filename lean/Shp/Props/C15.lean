/-
C15 — reader results do not depend on what was called before.
A refinement: the concrete reader (source position, book-keeping, index cursor) simulates an
abstract cursor over the list of records, for EVERY sequence of operations.
-/
import Shp.Lemmas.FileRead
namespace Shp.C15
open Shp

/-- the abstract reader: a cursor `c` into the list of records -/
def absStep (shapes : List Shape) (c : Nat) : ROp → Nat × RRes
  | .iter j => (min (c + j) (max c shapes.length), .items (((shapes.drop c).take j).map ROut.shape))
  | .nth i => if h : i < shapes.length then (0, .one (.shape shapes[i])) else (c, .one .none)
  | .seek k => (min k shapes.length, .one .unit)
  | .count => (c, .one (.count shapes.length))
  | .hint => (c, .hintRes (some (shapes.length - c)))

def absRun (shapes : List Shape) (c : Nat) : List ROp → Nat × List RRes
  | [] => (c, [])
  | op :: ops =>
    let r := absStep shapes c op
    let rs := absRun shapes r.1 ops
    (rs.1, r.2 :: rs.2)

/-- one concrete step yields the abstract output and commutes with the abstraction `nextShape` -/
theorem step_refines {o : Orient} {tg : Target} {shapes : List Shape} {st : RState} (h : RInv o tg shapes st)
    (op : ROp) :
    (st.step o tg op).2 = (absStep shapes st.nextShape op).2 ∧
    RInv o tg shapes (st.step o tg op).1 ∧
    (st.step o tg op).1.nextShape = (absStep shapes st.nextShape op).1 := by
  cases op with
  | iter j =>
    obtain ⟨st', he, hinv, hn⟩ := h.iterAll j
    have key : st.step o tg (.iter j) = (st', .items (((shapes.drop st.nextShape).take j).map ROut.shape)) := by
      simp only [RState.step, he]
    rw [key]
    exact ⟨rfl, hinv, hn⟩
  | nth i =>
    by_cases hi : i < shapes.length
    · obtain ⟨st', he, hinv, hn⟩ := h.readNth i hi
      have key : st.step o tg (.nth i) = (st', .one (.shape shapes[i])) := by simp only [RState.step, he]
      have ka : absStep shapes st.nextShape (.nth i) = (0, .one (.shape shapes[i])) := by simp only [absStep, hi, dif_pos]
      rw [key, ka]
      exact ⟨rfl, hinv, hn⟩
    · have he := h.readNth_none i (by omega)
      have key : st.step o tg (.nth i) = (st, .one .none) := by simp only [RState.step, he]
      have ka : absStep shapes st.nextShape (.nth i) = (st.nextShape, .one .none) := by
        simp only [absStep, hi, dif_neg, not_false_eq_true]
      rw [key, ka]
      exact ⟨rfl, h, rfl⟩
  | seek k =>
    obtain ⟨st', he, hinv, hn⟩ := h.seek k
    have key : st.step o tg (.seek k) = (st', .one .unit) := by simp only [RState.step, he]
    rw [key]
    exact ⟨rfl, hinv, hn⟩
  | count =>
    have key : st.step o tg .count = (st, .one (.count shapes.length)) := by simp only [RState.step, h.shapeCount]
    rw [key]
    exact ⟨rfl, h, rfl⟩
  | hint =>
    obtain ⟨idx, hidx, hlen, _⟩ := h.idx
    have key : st.step o tg .hint = (st, .hintRes (some (shapes.length - st.nextShape))) := by
      simp only [RState.step, RState.sizeHint, hidx, hlen]
    rw [key]
    exact ⟨rfl, h, rfl⟩

/-- MAIN: for every operation sequence the concrete reader returns what the abstract cursor
returns; in particular random access at `i` returns record `i` whatever preceded it, the count
never changes, and an iteration yields exactly the records from the cursor's position on. -/
theorem run_refines {o : Orient} {tg : Target} {shapes : List Shape} (ops : List ROp) {st : RState}
    (h : RInv o tg shapes st) :
    (st.run o tg ops).2 = (absRun shapes st.nextShape ops).2 ∧ RInv o tg shapes (st.run o tg ops).1 := by
  induction ops generalizing st with
  | nil => exact ⟨rfl, h⟩
  | cons op ops ih =>
    obtain ⟨h1, h2, h3⟩ := step_refines h op
    obtain ⟨i1, i2⟩ := ih h2
    simp only [RState.run, absRun]
    rw [h1, i1, h3]
    exact ⟨rfl, i2⟩

/-- instantiated at the files the writer produces: any history on a reader opened on them -/
theorem written_files_history (o : Orient) (tg : Target) (ss : List Shape) (hok : FileOK tg ss) (ops : List ROp) :
    ∃ st, RState.open (shpFile ss) (some (shxFile ss)) = .ok st ∧
      (st.run o tg ops).2 = (absRun (ss.map (Shape.readBack o)) 0 ops).2 := by
  obtain ⟨st, hopen, hinv, hn, _⟩ := open_written o tg ss hok
  refine ⟨st, hopen, ?_⟩
  have := (run_refines ops hinv).1
  rw [hn] at this
  exact this

/-! the consequences the property names, read off the abstract machine -/

/-- a fresh iteration yields all records, and then ends -/
theorem abs_fresh_iteration (shapes : List Shape) (j : Nat) (hj : shapes.length ≤ j) :
    (absStep shapes 0 (.iter j)).2 = .items (shapes.map ROut.shape) ∧ (absStep shapes 0 (.iter j)).1 = shapes.length := by
  simp only [absStep, List.drop_zero, List.take_of_length_le hj]
  refine ⟨trivial, ?_⟩
  omega

/-- after `seek(k)` an iteration yields exactly the records from `k` on -/
theorem abs_seek_then_iterate (shapes : List Shape) (c k j : Nat) (hj : shapes.length ≤ j) :
    let c1 := (absStep shapes c (.seek k)).1
    (absStep shapes c1 (.iter j)).2 = .items ((shapes.drop k).map ROut.shape) := by
  intro c1
  simp only [c1, absStep]
  by_cases hk : k ≤ shapes.length
  · rw [Nat.min_eq_left hk, List.take_of_length_le (by simp; omega)]
  · rw [Nat.min_eq_right (by omega), List.drop_eq_nil_of_le (Nat.le_refl _)]
    rw [List.drop_eq_nil_of_le (by omega)]
    simp

/-- after a successful random access an iteration starts again from the first record -/
theorem abs_nth_then_iterate (shapes : List Shape) (c i j : Nat) (hi : i < shapes.length) (hj : shapes.length ≤ j) :
    let c1 := (absStep shapes c (.nth i)).1
    (absStep shapes c1 (.iter j)).2 = .items (shapes.map ROut.shape) := by
  intro c1
  simp only [c1, absStep, hi, dif_pos, List.drop_zero, List.take_of_length_le hj]

/-- a further iteration yields the records not yet consumed -/
theorem abs_iterate_twice (shapes : List Shape) (c j1 j2 : Nat) (hc : c ≤ shapes.length) (hj : shapes.length ≤ j2) :
    let c1 := (absStep shapes c (.iter j1)).1
    (absStep shapes c1 (.iter j2)).2 = .items ((shapes.drop (min (c + j1) shapes.length)).map ROut.shape) := by
  intro c1
  have : c1 = min (c + j1) shapes.length := by simp only [c1, absStep]; omega
  rw [this]
  simp only [absStep]
  rw [List.take_of_length_le (by simp; omega)]

/-- non-vacuity: the invariant is met by a concrete written pair of files -/
example : FileOK .generic [Shape.point .xy Pt.default, Shape.point .xy Pt.default] := by
  refine ⟨⟨by decide, by intro x hx; simp at hx; subst hx; rfl⟩, ?_, ?_, ?_, ?_⟩
  · intro s hs; simp at hs; subst hs; decide
  · intro s hs; simp at hs; subst hs; simp
  · intro s hs; trivial
  · decide

end Shp.C15

/-
C20, the other direction — a geo-types polygon converted to a shape and back is the same polygon,
same grouping, each ring kept or reversed as a whole.
-/
import Shp.Props.C20
import Shp.Props.C16
namespace Shp.C20
open Shp

/-- the same vertex sequence, or the whole sequence reversed -/
def UpToRev (a b : List Pt) : Prop := a = b ∨ a = b.reverse

/-- ring lists of the same length, ring by ring the same up to reversal -/
def RingsUpToRev : List (List Pt) → List (List Pt) → Prop
  | [], [] => True
  | a :: as, b :: bs => UpToRev a b ∧ RingsUpToRev as bs
  | _, _ => False

theorem isXY_reverse (l : List Pt) (h : ∀ p ∈ l, IsXY p) : ∀ p ∈ l.reverse, IsXY p := by
  intro p hp; exact h p (List.mem_reverse.mp hp)

/-- an outer ring followed by inner rings groups into ONE polygon: that exterior, those holes -/
theorem groupRings_one (e : List Pt) (inners : List (List Pt)) (last : GPoly) :
    groupRings (inners.map fun i => (Role.inner, i)) (some last) [] =
      [{ last with ints := last.ints ++ inners.map closeLS }] := by
  induction inners generalizing last with
  | nil => simp [groupRings]
  | cons i is ih =>
    simp only [List.map_cons, groupRings]
    rw [ih]
    simp [GPoly.pushInterior, List.append_assoc]

/-- what `close_and_reorder` does to a ring that is already closed: keeps it or reverses it -/
theorem closeAndReorder_closed_ring (o : Orient) (r : Role) (l : List Pt) (hc : isClosed .xy l = true) :
    (closeAndReorder o .xy (r, l)).1 = r ∧ UpToRev (closeAndReorder o .xy (r, l)).2 l := by
  obtain ⟨h1, h2⟩ := C16.closeAndReorder_spec o .xy (r, l)
  refine ⟨h1, ?_⟩
  simp only [C16.closePoints_of_closed .xy l hc] at h2
  exact h2

theorem car_eta (o : Orient) (r : Role) (l : List Pt) :
    closeAndReorder o .xy (r, l) = (r, (closeAndReorder o .xy (r, l)).2) :=
  Prod.ext (C16.closeAndReorder_spec o .xy (r, l)).1 rfl

theorem upToRev_isXY {a b : List Pt} (h : UpToRev a b) (hb : ∀ p ∈ b, IsXY p) : ∀ p ∈ a, IsXY p := by
  rcases h with rfl | rfl
  · exact hb
  · exact isXY_reverse b hb

theorem upToRev_closed {a b : List Pt} (h : UpToRev a b) (hb : isClosed .xy b = true) : isClosed .xy a = true := by
  rcases h with rfl | rfl
  · exact hb
  · rw [C16.isClosed_reverse]; exact hb

theorem upToRev_ne_nil {a b : List Pt} (h : UpToRev a b) (hb : b ≠ []) : a ≠ [] := by
  rcases h with rfl | rfl
  · exact hb
  · simpa using hb

theorem closeLS_of_closed (l : List Pt) (h : isClosed .xy l = true) : closeLS l = l :=
  C16.closePoints_of_closed .xy l h

/-- the holes after `close_and_reorder`: still holes, each kept or reversed, still 2-D and closed -/
theorem inner_rings_reordered (o : Orient) (l : List (List Pt))
    (hx : ∀ i ∈ l, ∀ q ∈ i, IsXY q) (hc : ∀ i ∈ l, isClosed .xy i = true) :
    ∃ ints', l.map (fun i => closeAndReorder o .xy (Role.inner, i)) = ints'.map (fun i => (Role.inner, i)) ∧
      RingsUpToRev ints' l ∧ (∀ i ∈ ints', ∀ q ∈ i, IsXY q) ∧ (∀ i ∈ ints', isClosed .xy i = true) := by
  induction l with
  | nil => exact ⟨[], rfl, trivial, fun _ h => absurd h (by simp), fun _ h => absurd h (by simp)⟩
  | cons i is ih =>
    have hu := (closeAndReorder_closed_ring o .inner i (hc i List.mem_cons_self)).2
    obtain ⟨t, ht, a, b, c⟩ := ih (fun x hx' => hx x (List.mem_cons_of_mem _ hx')) (fun x hx' => hc x (List.mem_cons_of_mem _ hx'))
    refine ⟨(closeAndReorder o .xy (Role.inner, i)).2 :: t, ?_, ⟨hu, a⟩, ?_, ?_⟩
    · simp only [List.map_cons, ht]
      rw [← car_eta o .inner i]
    · intro x hx'
      rcases List.mem_cons.mp hx' with rfl | hx'
      · exact upToRev_isXY hu (hx i List.mem_cons_self)
      · exact b x hx'
    · intro x hx'
      rcases List.mem_cons.mp hx' with rfl | hx'
      · exact upToRev_closed hu (hc i List.mem_cons_self)
      · exact c x hx'

theorem map_closeLS_of_closed (l : List (List Pt)) (hl : ∀ i ∈ l, isClosed .xy i = true) : l.map closeLS = l := by
  induction l with
  | nil => rfl
  | cons i is ih =>
    simp only [List.map_cons, closeLS_of_closed i (hl i List.mem_cons_self), ih (fun x hx => hl x (List.mem_cons_of_mem _ hx))]

/-- MAIN (geo → shape → geo, polygons): a geo-types polygon (rings closed, as `Polygon::new`
leaves them; a non-empty exterior) converted to a shape and back is ONE polygon with the same
exterior and the same holes, in the same order, each ring either kept or reversed as a whole;
no coordinate is lost, altered or moved to another ring -/
theorem geo_polygon_roundtrip (o : Orient) (p : GPoly) (hne : p.ext ≠ [])
    (hxe : ∀ q ∈ p.ext, IsXY q) (hxi : ∀ i ∈ p.ints, ∀ q ∈ i, IsXY q)
    (hce : isClosed .xy p.ext = true) (hci : ∀ i ∈ p.ints, isClosed .xy i = true) :
    ∃ s p', geomToShape o (.polygon p) = .ok s ∧ shapeToGeom s = .ok (.multiPolygon [p']) ∧
      UpToRev p'.ext p.ext ∧ RingsUpToRev p'.ints p.ints := by
  have hmapE : p.ext.map toXY = p.ext := map_toXY_of_isXY _ hxe
  have hmapI : (p.ints.map fun i => (Role.inner, i.map toXY)) = p.ints.map fun i => (Role.inner, i) := by
    apply List.map_congr_left
    intro i hi
    rw [map_toXY_of_isXY i (hxi i hi)]
  obtain ⟨e', hedef⟩ : ∃ x, x = (closeAndReorder o .xy (Role.outer, p.ext)).2 := ⟨_, rfl⟩
  have he' : UpToRev e' p.ext := by rw [hedef]; exact (closeAndReorder_closed_ring o .outer p.ext hce).2
  obtain ⟨ints', hintsdef, hru, hxi', hci'⟩ := inner_rings_reordered o p.ints hxi hci
  have hrings : ((Role.outer, p.ext) :: p.ints.map fun i => (Role.inner, i)).map (closeAndReorder o .xy) =
      (Role.outer, e') :: ints'.map fun i => (Role.inner, i) := by
    simp only [List.map_cons, List.map_map]
    rw [hedef, ← car_eta o .outer p.ext, ← hintsdef]
    rfl
  have hne' : e' ≠ [] := upToRev_ne_nil he' hne
  obtain ⟨q, qs, hq⟩ : ∃ q qs, e' = q :: qs := by
    cases he : e' with
    | nil => exact absurd he hne'
    | cons q qs => exact ⟨q, qs, rfl⟩
  have hshape : ∃ b, geomToShape o (.polygon p) = .ok (.polygon .xy b ((Role.outer, e') :: ints'.map fun i => (Role.inner, i))) := by
    simp only [geomToShape, hmapE, hmapI, Shape.mkPolygonRings, hrings, List.map_cons, BBox.fromParts, hq, BBox.fromPoints,
      Option.map_some, optShape]
    exact ⟨_, rfl⟩
  obtain ⟨b, hb⟩ := hshape
  refine ⟨_, ⟨e', ints'⟩, hb, ?_, he', hru⟩
  have hmapE' : e'.map toXY = e' := map_toXY_of_isXY _ (upToRev_isXY he' hxe)
  have hmapI' : (ints'.map fun i => (Role.inner, i)).map (fun r => (r.1, r.2.map toXY)) = ints'.map fun i => (Role.inner, i) := by
    simp only [List.map_map]
    apply List.map_congr_left
    intro i hi
    simp only [Function.comp]
    rw [map_toXY_of_isXY i (hxi' i hi)]
  simp only [shapeToGeom, List.map_cons, hmapE', hmapI', groupRings]
  rw [groupRings_one e' ints']
  simp only [GPoly.new, List.map_nil, List.nil_append, closeLS_of_closed e' (upToRev_closed he' hce),
    map_closeLS_of_closed ints' hci']

/-- non-vacuity: a closed triangle of 2-D points -/
example : isClosed .xy [⟨F64.zero, F64.zero, F64.zero, F64.noData⟩, ⟨F64.zero, F64.zero, F64.zero, F64.noData⟩] = true := by decide

end Shp.C20

/-
C20, the other direction — a geo-types polygon converted to a shape and back is the same polygon,
same grouping, each ring kept or reversed as a whole.
-/
import Shp.Props.C20
import Shp.Props.C16
namespace Shp.C20
open Shp

/-- the same vertex sequence, or the whole sequence reversed -/
def UpToRev (a b : List Pt) : Prop := a = b ∨ a = b.reverse

/-- ring lists of the same length, ring by ring the same up to reversal -/
def RingsUpToRev : List (List Pt) → List (List Pt) → Prop
  | [], [] => True
  | a :: as, b :: bs => UpToRev a b ∧ RingsUpToRev as bs
  | _, _ => False

theorem isXY_reverse (l : List Pt) (h : ∀ p ∈ l, IsXY p) : ∀ p ∈ l.reverse, IsXY p := by
  intro p hp; exact h p (List.mem_reverse.mp hp)

/-- an outer ring followed by inner rings groups into ONE polygon: that exterior, those holes -/
theorem groupRings_one (e : List Pt) (inners : List (List Pt)) (last : GPoly) :
    groupRings (inners.map fun i => (Role.inner, i)) (some last) [] =
      [{ last with ints := last.ints ++ inners.map closeLS }] := by
  induction inners generalizing last with
  | nil => simp [groupRings]
  | cons i is ih =>
    simp only [List.map_cons, groupRings]
    rw [ih]
    simp [GPoly.pushInterior, List.append_assoc]

/-- what `close_and_reorder` does to a ring that is already closed: keeps it or reverses it -/
theorem closeAndReorder_closed_ring (o : Orient) (r : Role) (l : List Pt) (hc : isClosed .xy l = true) :
    (closeAndReorder o .xy (r, l)).1 = r ∧ UpToRev (closeAndReorder o .xy (r, l)).2 l := by
  obtain ⟨h1, h2⟩ := C16.closeAndReorder_spec o .xy (r, l)
  refine ⟨h1, ?_⟩
  simp only [C16.closePoints_of_closed .xy l hc] at h2
  exact h2

theorem car_eta (o : Orient) (r : Role) (l : List Pt) :
    closeAndReorder o .xy (r, l) = (r, (closeAndReorder o .xy (r, l)).2) :=
  Prod.ext (C16.closeAndReorder_spec o .xy (r, l)).1 rfl

theorem upToRev_isXY {a b : List Pt} (h : UpToRev a b) (hb : ∀ p ∈ b, IsXY p) : ∀ p ∈ a, IsXY p := by
  rcases h with rfl | rfl
  · exact hb
  · exact isXY_reverse b hb

theorem upToRev_closed {a b : List Pt} (h : UpToRev a b) (hb : isClosed .xy b = true) : isClosed .xy a = true := by
  rcases h with rfl | rfl
  · exact hb
  · rw [C16.isClosed_reverse]; exact hb

theorem upToRev_ne_nil {a b : List Pt} (h : UpToRev a b) (hb : b ≠ []) : a ≠ [] := by
  rcases h with rfl | rfl
  · exact hb
  · simpa using hb

theorem closeLS_of_closed (l : List Pt) (h : isClosed .xy l = true) : closeLS l = l :=
  C16.closePoints_of_closed .xy l h

/-- the holes after `close_and_reorder`: still holes, each kept or reversed, still 2-D and closed -/
theorem inner_rings_reordered (o : Orient) (l : List (List Pt))
    (hx : ∀ i ∈ l, ∀ q ∈ i, IsXY q) (hc : ∀ i ∈ l, isClosed .xy i = true) :
    ∃ ints', l.map (fun i => closeAndReorder o .xy (Role.inner, i)) = ints'.map (fun i => (Role.inner, i)) ∧
      RingsUpToRev ints' l ∧ (∀ i ∈ ints', ∀ q ∈ i, IsXY q) ∧ (∀ i ∈ ints', isClosed .xy i = true) := by
  induction l with
  | nil => exact ⟨[], rfl, trivial, fun _ h => absurd h (by simp), fun _ h => absurd h (by simp)⟩
  | cons i is ih =>
    have hu := (closeAndReorder_closed_ring o .inner i (hc i List.mem_cons_self)).2
    obtain ⟨t, ht, a, b, c⟩ := ih (fun x hx' => hx x (List.mem_cons_of_mem _ hx')) (fun x hx' => hc x (List.mem_cons_of_mem _ hx'))
    refine ⟨(closeAndReorder o .xy (Role.inner, i)).2 :: t, ?_, ⟨hu, a⟩, ?_, ?_⟩
    · simp only [List.map_cons, ht]
      rw [← car_eta o .inner i]
    · intro x hx'
      rcases List.mem_cons.mp hx' with rfl | hx'
      · exact upToRev_isXY hu (hx i List.mem_cons_self)
      · exact b x hx'
    · intro x hx'
      rcases List.mem_cons.mp hx' with rfl | hx'
      · exact upToRev_closed hu (hc i List.mem_cons_self)
      · exact c x hx'

theorem map_closeLS_of_closed (l : List (List Pt)) (hl : ∀ i ∈ l, isClosed .xy i = true) : l.map closeLS = l := by
  induction l with
  | nil => rfl
  | cons i is ih =>
    simp only [List.map_cons, closeLS_of_closed i (hl i List.mem_cons_self), ih (fun x hx => hl x (List.mem_cons_of_mem _ hx))]

/-- MAIN (geo → shape → geo, polygons): a geo-types polygon (rings closed, as `Polygon::new`
leaves them; a non-empty exterior) converted to a shape and back is ONE polygon with the same
exterior and the same holes, in the same order, each ring either kept or reversed as a whole;
no coordinate is lost, altered or moved to another ring -/
theorem geo_polygon_roundtrip (o : Orient) (p : GPoly) (hne : p.ext ≠ [])
    (hxe : ∀ q ∈ p.ext, IsXY q) (hxi : ∀ i ∈ p.ints, ∀ q ∈ i, IsXY q)
    (hce : isClosed .xy p.ext = true) (hci : ∀ i ∈ p.ints, isClosed .xy i = true) :
    ∃ s p', geomToShape o (.polygon p) = .ok s ∧ shapeToGeom s = .ok (.multiPolygon [p']) ∧
      UpToRev p'.ext p.ext ∧ RingsUpToRev p'.ints p.ints := by
  have hmapE : p.ext.map toXY = p.ext := map_toXY_of_isXY _ hxe
  have hmapI : (p.ints.map fun i => (Role.inner, i.map toXY)) = p.ints.map fun i => (Role.inner, i) := by
    apply List.map_congr_left
    intro i hi
    rw [map_toXY_of_isXY i (hxi i hi)]
  obtain ⟨e', hedef⟩ : ∃ x, x = (closeAndReorder o .xy (Role.outer, p.ext)).2 := ⟨_, rfl⟩
  have he' : UpToRev e' p.ext := by rw [hedef]; exact (closeAndReorder_closed_ring o .outer p.ext hce).2
  obtain ⟨ints', hintsdef, hru, hxi', hci'⟩ := inner_rings_reordered o p.ints hxi hci
  have hrings : ((Role.outer, p.ext) :: p.ints.map fun i => (Role.inner, i)).map (closeAndReorder o .xy) =
      (Role.outer, e') :: ints'.map fun i => (Role.inner, i) := by
    simp only [List.map_cons, List.map_map]
    rw [hedef, ← car_eta o .outer p.ext, ← hintsdef]
    rfl
  have hne' : e' ≠ [] := upToRev_ne_nil he' hne
  obtain ⟨q, qs, hq⟩ : ∃ q qs, e' = q :: qs := by
    cases he : e' with
    | nil => exact absurd he hne'
    | cons q qs => exact ⟨q, qs, rfl⟩
  have hshape : ∃ b, geomToShape o (.polygon p) = .ok (.polygon .xy b ((Role.outer, e') :: ints'.map fun i => (Role.inner, i))) := by
    simp only [geomToShape, hmapE, hmapI, Shape.mkPolygonRings, hrings, List.map_cons, BBox.fromParts, hq, BBox.fromPoints,
      Option.map_some, optShape]
    exact ⟨_, rfl⟩
  obtain ⟨b, hb⟩ := hshape
  refine ⟨_, ⟨e', ints'⟩, hb, ?_, he', hru⟩
  have hmapE' : e'.map toXY = e' := map_toXY_of_isXY _ (upToRev_isXY he' hxe)
  have hmapI' : (ints'.map fun i => (Role.inner, i)).map (fun r => (r.1, r.2.map toXY)) = ints'.map fun i => (Role.inner, i) := by
    simp only [List.map_map]
    apply List.map_congr_left
    intro i hi
    simp only [Function.comp]
    rw [map_toXY_of_isXY i (hxi' i hi)]
  simp only [shapeToGeom, List.map_cons, hmapE', hmapI', groupRings]
  rw [groupRings_one e' ints']
  simp only [GPoly.new, List.map_nil, List.nil_append, closeLS_of_closed e' (upToRev_closed he' hce),
    map_closeLS_of_closed ints' hci']

/-! ### geo → shape → geo for points and lines: "non-empty components" come back identically
(as the corresponding multi-geometry) -/

theorem map_map_toXY (ls : List (List Pt)) (h : ∀ l ∈ ls, ∀ p ∈ l, IsXY p) : ls.map (List.map toXY) = ls := by
  induction ls with
  | nil => rfl
  | cons a as ih =>
    simp only [List.map_cons, map_toXY_of_isXY a (h a List.mem_cons_self),
      ih (fun l hl => h l (List.mem_cons_of_mem _ hl))]

/-- a geo-types `Point` comes back as the same point -/
theorem geo_point_roundtrip (o : Orient) (p : Pt) (h : IsXY p) :
    ∃ s, geomToShape o (.point p) = .ok s ∧ shapeToGeom s = .ok (.point p) := by
  refine ⟨.point .xy (toXY p), rfl, ?_⟩
  simp [shapeToGeom, toXY_of_isXY p h]

/-- a non-empty `MultiPoint` comes back with the same points in the same order -/
theorem geo_multipoint_roundtrip (o : Orient) (pts : List Pt) (hne : pts ≠ []) (h : ∀ p ∈ pts, IsXY p) :
    ∃ s, geomToShape o (.multiPoint pts) = .ok s ∧ shapeToGeom s = .ok (.multiPoint pts) := by
  cases pts with
  | nil => exact absurd rfl hne
  | cons a as =>
    have hm : (a :: as).map toXY = a :: as := map_toXY_of_isXY _ h
    refine ⟨.multipoint .xy (BBox.growFromPoints .xy ⟨a, a⟩ as) (a :: as), ?_, ?_⟩
    · simp only [geomToShape, hm, Shape.mkMultipoint, BBox.fromPoints, Option.map_some, optShape]
    · simp only [shapeToGeom, hm]

/-- a `MultiLineString` whose lines have at least two points comes back with the same lines, the same
points, in the same order -/
theorem geo_multilinestring_roundtrip (o : Orient) (ls : List (List Pt)) (hne : ls ≠ [])
    (h2 : ∀ l ∈ ls, 2 ≤ l.length) (h : ∀ l ∈ ls, ∀ p ∈ l, IsXY p) :
    ∃ s, geomToShape o (.multiLineString ls) = .ok s ∧ shapeToGeom s = .ok (.multiLineString ls) := by
  have hm : ls.map (List.map toXY) = ls := map_map_toXY ls h
  have hany : (ls.any fun p => decide (p.length < 2)) = false := by
    rw [List.any_eq_false]
    intro l hl
    have := h2 l hl
    simp only [decide_eq_true_eq]
    omega
  -- the first line is not empty, so the box exists
  obtain ⟨l0, rest, rfl⟩ : ∃ a b, ls = a :: b := by
    cases ls with
    | nil => exact absurd rfl hne
    | cons a b => exact ⟨a, b, rfl⟩
  obtain ⟨q, qs, rfl⟩ : ∃ q qs, l0 = q :: qs := by
    have := h2 l0 List.mem_cons_self
    cases l0 with
    | nil => simp at this
    | cons q qs => exact ⟨q, qs, rfl⟩
  refine ⟨.polyline .xy (rest.foldl (BBox.growFromPoints .xy) (BBox.growFromPoints .xy ⟨q, q⟩ qs)) ((q :: qs) :: rest), ?_, ?_⟩
  · simp only [geomToShape, hm, Shape.mkPolylineParts, hany, Bool.false_eq_true, if_false, BBox.fromParts, BBox.fromPoints,
      Option.map_some, optShape]
  · simp only [shapeToGeom, hm]

/-- a `LineString` with at least two points comes back as the one-line `MultiLineString` -/
theorem geo_linestring_roundtrip (o : Orient) (l : List Pt) (h2 : 2 ≤ l.length) (h : ∀ p ∈ l, IsXY p) :
    ∃ s, geomToShape o (.lineString l) = .ok s ∧ shapeToGeom s = .ok (.multiLineString [l]) := by
  have hm : l.map toXY = l := map_toXY_of_isXY l h
  obtain ⟨q, qs, rfl⟩ : ∃ q qs, l = q :: qs := by
    cases l with
    | nil => simp at h2
    | cons q qs => exact ⟨q, qs, rfl⟩
  refine ⟨.polyline .xy (BBox.growFromPoints .xy ⟨q, q⟩ qs) [q :: qs], ?_, ?_⟩
  · simp only [geomToShape, hm, Shape.mkPolyline, BBox.fromPoints, Option.map_some, optShape]
    rw [if_neg (by omega)]
  · simp only [shapeToGeom, List.map_cons, List.map_nil, hm]

/-- a `Line` (two points) becomes the one-part, two-vertex polyline and comes back as the one-line
`MultiLineString` of its end points -/
theorem geo_line_roundtrip (o : Orient) (a b : Pt) (ha : IsXY a) (hb : IsXY b) :
    ∃ s, geomToShape o (.line a b) = .ok s ∧ s.parts = [[a, b]] ∧
      shapeToGeom s = .ok (.multiLineString [[a, b]]) := by
  refine ⟨.polyline .xy (BBox.growFromPoints .xy ⟨a, a⟩ [b]) [[a, b]], ?_, rfl, ?_⟩
  · simp only [geomToShape, toXY_of_isXY a ha, toXY_of_isXY b hb, Shape.mkPolyline, BBox.fromPoints,
      Option.map_some, optShape]
    rw [if_neg (by simp)]
  · simp only [shapeToGeom, List.map_cons, List.map_nil, toXY_of_isXY a ha, toXY_of_isXY b hb]

/-! ### geo → shape → geo for multi-polygons -/

/-- a geo polygon as the conversions see it: 2-D coordinates, closed rings, a non-empty exterior -/
structure GoodPoly (p : GPoly) : Prop where
  ne : p.ext ≠ []
  xe : ∀ q ∈ p.ext, IsXY q
  xi : ∀ i ∈ p.ints, ∀ q ∈ i, IsXY q
  ce : isClosed .xy p.ext = true
  ci : ∀ i ∈ p.ints, isClosed .xy i = true

def PolyUpToRev (a b : GPoly) : Prop := UpToRev a.ext b.ext ∧ RingsUpToRev a.ints b.ints

def PolysUpToRev : List GPoly → List GPoly → Prop
  | [], [] => True
  | a :: as, b :: bs => PolyUpToRev a b ∧ PolysUpToRev as bs
  | _, _ => False

theorem upToRev_trans {a b c : List Pt} (h1 : UpToRev a b) (h2 : UpToRev b c) : UpToRev a c := by
  rcases h1 with rfl | rfl <;> rcases h2 with rfl | rfl
  · exact Or.inl rfl
  · exact Or.inr rfl
  · exact Or.inr rfl
  · exact Or.inl (by simp)

theorem ringsUpToRev_trans : ∀ {a b c : List (List Pt)}, RingsUpToRev a b → RingsUpToRev b c → RingsUpToRev a c
  | [], [], [], _, _ => trivial
  | _ :: _, _ :: _, _ :: _, ⟨h1, t1⟩, ⟨h2, t2⟩ => ⟨upToRev_trans h1 h2, ringsUpToRev_trans t1 t2⟩
  | [], [], _ :: _, _, h => h.elim
  | [], _ :: _, _, h, _ => h.elim
  | _ :: _, [], _, h, _ => h.elim
  | _ :: _, _ :: _, [], _, h => h.elim

theorem polysUpToRev_trans : ∀ {a b c : List GPoly}, PolysUpToRev a b → PolysUpToRev b c → PolysUpToRev a c
  | [], [], [], _, _ => trivial
  | _ :: _, _ :: _, _ :: _, ⟨⟨e1, i1⟩, t1⟩, ⟨⟨e2, i2⟩, t2⟩ =>
    ⟨⟨upToRev_trans e1 e2, ringsUpToRev_trans i1 i2⟩, polysUpToRev_trans t1 t2⟩
  | [], [], _ :: _, _, h => h.elim
  | [], _ :: _, _, h, _ => h.elim
  | _ :: _, [], _, h, _ => h.elim
  | _ :: _, _ :: _, [], _, h => h.elim

/-- the rings of a polygon as a flat role list -/
def flatRings (p : GPoly) : List (Role × List Pt) := (Role.outer, p.ext) :: p.ints.map fun i => (Role.inner, i)

/-- `close_and_reorder` over the rings of a good polygon: the rings of a good polygon again, each
ring kept or reversed -/
theorem poly_rings_reordered (o : Orient) (p : GPoly) (hg : GoodPoly p) :
    ∃ p', (flatRings p).map (closeAndReorder o .xy) = flatRings p' ∧ PolyUpToRev p' p ∧ GoodPoly p' := by
  obtain ⟨ints', hintsdef, hru, hxi', hci'⟩ := inner_rings_reordered o p.ints hg.xi hg.ci
  have he' := (closeAndReorder_closed_ring o .outer p.ext hg.ce).2
  refine ⟨⟨(closeAndReorder o .xy (Role.outer, p.ext)).2, ints'⟩, ?_, ⟨he', hru⟩,
    ⟨upToRev_ne_nil he' hg.ne, upToRev_isXY he' hg.xe, hxi', upToRev_closed he' hg.ce, hci'⟩⟩
  simp only [flatRings, List.map_cons, List.map_map]
  rw [← car_eta o .outer p.ext, ← hintsdef]
  rfl

theorem polys_rings_reordered (o : Orient) (ps : List GPoly) (hg : ∀ p ∈ ps, GoodPoly p) :
    ∃ ps', (ps.flatMap flatRings).map (closeAndReorder o .xy) = ps'.flatMap flatRings ∧ PolysUpToRev ps' ps ∧
      (∀ p ∈ ps', GoodPoly p) := by
  induction ps with
  | nil => exact ⟨[], rfl, trivial, fun _ h => absurd h (by simp)⟩
  | cons p ps ih =>
    obtain ⟨p', h1, h2, h3⟩ := poly_rings_reordered o p (hg p List.mem_cons_self)
    obtain ⟨ps', t1, t2, t3⟩ := ih (fun q hq => hg q (List.mem_cons_of_mem _ hq))
    refine ⟨p' :: ps', ?_, ⟨h2, t2⟩, ?_⟩
    · simp only [List.flatMap_cons, List.map_append, h1, t1]
    · intro q hq
      rcases List.mem_cons.mp hq with rfl | hq
      · exact h3
      · exact t3 q hq

/-- holes attach to the polygon opened last, whatever follows -/
theorem groupRings_inners (inners : List (List Pt)) (rest : List (Role × List Pt)) (last : GPoly) (acc : List GPoly) :
    groupRings ((inners.map fun i => (Role.inner, i)) ++ rest) (some last) acc =
      groupRings rest (some { last with ints := last.ints ++ inners.map closeLS }) acc := by
  induction inners generalizing last with
  | nil => simp
  | cons i is ih =>
    simp only [List.map_cons, List.cons_append, groupRings]
    rw [ih]
    simp [GPoly.pushInterior, List.append_assoc]

def normPoly (p : GPoly) : GPoly := ⟨closeLS p.ext, p.ints.map closeLS⟩

theorem groupRings_polys (qs : List GPoly) (last : Option GPoly) (acc : List GPoly) :
    groupRings (qs.flatMap flatRings) last acc = acc ++ last.toList ++ qs.map normPoly := by
  induction qs generalizing last acc with
  | nil => cases last <;> simp [groupRings]
  | cons q qs ih =>
    simp only [List.flatMap_cons, flatRings, List.cons_append, groupRings]
    rw [groupRings_inners, ih]
    cases last <;> simp [GPoly.new, normPoly, List.append_assoc]

theorem normPoly_good (p : GPoly) (hg : GoodPoly p) : normPoly p = p := by
  cases p with
  | mk e is =>
    simp only [normPoly, closeLS_of_closed e hg.ce, map_closeLS_of_closed is hg.ci]

theorem flatRings_toXY (p : GPoly) (hg : GoodPoly p) :
    (flatRings p).map (fun r => (r.1, r.2.map toXY)) = flatRings p := by
  simp only [flatRings, List.map_cons, List.map_map, map_toXY_of_isXY _ hg.xe]
  congr 1
  apply List.map_congr_left
  intro i hi
  simp only [Function.comp, map_toXY_of_isXY i (hg.xi i hi)]

/-- MAIN (geo → shape → geo, multi-polygons): a geo-types `MultiPolygon` of good polygons (at least
one) converted to a shape and back is the same list of polygons: same count, same order, each with
its own exterior and its own holes, every ring kept or reversed as a whole -/
theorem geo_multipolygon_roundtrip (o : Orient) (ps : List GPoly) (hne : ps ≠ []) (hg : ∀ p ∈ ps, GoodPoly p) :
    ∃ s ps', geomToShape o (.multiPolygon ps) = .ok s ∧ shapeToGeom s = .ok (.multiPolygon ps') ∧
      PolysUpToRev ps' ps := by
  -- `with_rings` per polygon
  have hany : (ps.any fun p => p.ext.isEmpty) = false := by
    rw [List.any_eq_false]
    intro p hp
    have := (hg p hp).ne
    cases hpe : p.ext with
    | nil => exact absurd hpe this
    | cons a b => simp
  have hfirst : ps.flatMap (fun p => ringsOfGPoly o ⟨p.ext.map toXY, p.ints.map (List.map toXY)⟩) =
      (ps.flatMap flatRings).map (closeAndReorder o .xy) := by
    clear hne hany
    induction ps with
    | nil => rfl
    | cons p ps ih =>
      have hp := hg p List.mem_cons_self
      simp only [List.flatMap_cons, List.map_append, ih (fun q hq => hg q (List.mem_cons_of_mem _ hq))]
      congr 1
      simp only [ringsOfGPoly, flatRings, map_toXY_of_isXY _ hp.xe, map_map_toXY _ hp.xi]
  obtain ⟨ps1, h1, u1, g1⟩ := polys_rings_reordered o ps hg
  obtain ⟨ps2, h2, u2, g2⟩ := polys_rings_reordered o ps1 g1
  -- the first ring is not empty: the box exists
  obtain ⟨p0, prest, hps2⟩ : ∃ a b, ps2 = a :: b := by
    cases ps2 with
    | nil =>
      cases ps1 with
      | nil => cases ps with
        | nil => exact absurd rfl hne
        | cons _ _ => exact u1.elim
      | cons _ _ => exact u2.elim
    | cons a b => exact ⟨a, b, rfl⟩
  obtain ⟨q, qs, hq⟩ : ∃ q qs, p0.ext = q :: qs := by
    have := (g2 p0 (by rw [hps2]; exact List.mem_cons_self)).ne
    cases he : p0.ext with
    | nil => exact absurd he this
    | cons q qs => exact ⟨q, qs, rfl⟩
  have hshape : ∃ b, geomToShape o (.multiPolygon ps) = .ok (.polygon .xy b (ps2.flatMap flatRings)) := by
    simp only [geomToShape, hany, Bool.false_eq_true, if_false, hfirst, h1, Shape.mkPolygonRings, h2]
    rw [hps2]
    simp only [List.flatMap_cons, flatRings, List.cons_append, List.map_cons, BBox.fromParts, hq, BBox.fromPoints,
      Option.map_some, optShape]
    exact ⟨_, rfl⟩
  obtain ⟨b, hb⟩ := hshape
  refine ⟨_, ps2, hb, ?_, polysUpToRev_trans u2 u1⟩
  have hxy : (ps2.flatMap flatRings).map (fun r => (r.1, r.2.map toXY)) = ps2.flatMap flatRings := by
    clear hps2 hb h2 u2
    induction ps2 with
    | nil => rfl
    | cons p ps ih =>
      simp only [List.flatMap_cons, List.map_append, flatRings_toXY p (g2 p List.mem_cons_self),
        ih (fun q hq => g2 q (List.mem_cons_of_mem _ hq))]
  simp only [shapeToGeom, hxy, groupRings_polys, Option.toList, List.append_nil, List.nil_append]
  congr 2
  clear hps2 hb h2 u2 hxy
  induction ps2 with
  | nil => rfl
  | cons p ps ih =>
    simp only [List.map_cons, normPoly_good p (g2 p List.mem_cons_self), ih (fun q hq => g2 q (List.mem_cons_of_mem _ hq))]

/-- non-vacuity: a closed triangle of 2-D points -/
example : isClosed .xy [⟨F64.zero, F64.zero, F64.zero, F64.noData⟩, ⟨F64.zero, F64.zero, F64.zero, F64.noData⟩] = true := by decide

end Shp.C20

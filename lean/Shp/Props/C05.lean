/-
C05 — stored bounding boxes are exact: per shape and in the file header.
"Exact" = bit-identical to one of the values and IEEE-`<=` (resp. `>=`) all of them, for
non-NaN values including ±0, ±inf, the largest finite doubles: wherever the extreme sits.
-/
import Shp.Lemmas.Fold
import Shp.Lemmas.Writer
namespace Shp.C05
open Shp

/-- exactness of a box over the vertices `pts`, dimension by dimension (a dimension is only
claimed when none of its values is NaN) -/
structure BoxExact (d : Dim) (b : BBox) (pts : List Pt) : Prop where
  x : NoNaN (pts.map (·.x)) → IsMin b.min.x (pts.map (·.x)) ∧ IsMax b.max.x (pts.map (·.x))
  y : NoNaN (pts.map (·.y)) → IsMin b.min.y (pts.map (·.y)) ∧ IsMax b.max.y (pts.map (·.y))
  z : d.hasZ = true → NoNaN (pts.map (·.z)) → IsMin b.min.z (pts.map (·.z)) ∧ IsMax b.max.z (pts.map (·.z))
  m : d.hasM = true → NoNaN (pts.map (·.m)) → IsMin b.min.m (pts.map (·.m)) ∧ IsMax b.max.m (pts.map (·.m))

/-- MAIN (per shape): the box every constructor computes — first part, then the others, any
number of parts, the extreme anywhere — is exact over all vertices of all parts -/
theorem fromParts_exact (d : Dim) (parts : List (List Pt)) (b : BBox) (h : BBox.fromParts d parts = some b) :
    BoxExact d b parts.flatten := by
  match parts, h with
  | (p :: ps) :: rest, h =>
    rw [fromParts_eq] at h
    simp only [Option.some.injEq] at h
    subst h
    have hfl : ((p :: ps) :: rest).flatten = p :: (ps ++ rest.flatten) := by simp
    rw [hfl]
    constructor
    · intro hn
      simp only [foldl_shrink_x, foldl_grow_x, List.map_cons]
      exact ⟨(foldl_fmin_isMin _ _ (by simpa using hn)).1, (foldl_fmax_isMax _ _ (by simpa using hn)).1⟩
    · intro hn
      simp only [foldl_shrink_y, foldl_grow_y, List.map_cons]
      exact ⟨(foldl_fmin_isMin _ _ (by simpa using hn)).1, (foldl_fmax_isMax _ _ (by simpa using hn)).1⟩
    · intro hd hn
      simp only [foldl_shrink_z d hd, foldl_grow_z d hd, List.map_cons]
      exact ⟨(foldl_fmin_isMin _ _ (by simpa using hn)).1, (foldl_fmax_isMax _ _ (by simpa using hn)).1⟩
    · intro hd hn
      simp only [foldl_shrink_m d hd, foldl_grow_m d hd, List.map_cons]
      exact ⟨(foldl_fmin_isMin _ _ (by simpa using hn)).1, (foldl_fmax_isMax _ _ (by simpa using hn)).1⟩
  | [] :: rest, h => simp [BBox.fromParts, BBox.fromPoints] at h
  | [], h => simp [BBox.fromParts] at h

theorem fromPoints_exact (d : Dim) (pts : List Pt) (b : BBox) (h : BBox.fromPoints d pts = some b) :
    BoxExact d b pts := by
  have : BBox.fromParts d [pts] = some b := by simp [BBox.fromParts, h]
  simpa using fromParts_exact d [pts] b this

/-- every public constructor: the shape it returns carries the exact box of its FINAL vertices
(after rings were closed and reordered) -/
theorem constructors_exact (o : Orient) (d : Dim) :
    (∀ pts s, Shape.mkMultipoint d pts = some s → ∃ b, s = .multipoint d b pts ∧ BoxExact d b pts) ∧
    (∀ pts s, Shape.mkPolyline d pts = some s → ∃ b, s = .polyline d b [pts] ∧ BoxExact d b pts) ∧
    (∀ parts s, Shape.mkPolylineParts d parts = some s → ∃ b, s = .polyline d b parts ∧ BoxExact d b parts.flatten) ∧
    (∀ rings s, Shape.mkPolygonRings o d rings = some s →
        ∃ b rs, s = .polygon d b rs ∧ rs = rings.map (closeAndReorder o d) ∧ BoxExact d b (rs.map (·.2)).flatten) ∧
    (∀ patches s, Shape.mkMultipatchParts patches = some s →
        ∃ b ps, s = .multipatch b ps ∧ ps = patches.map Shape.closePatch ∧ BoxExact .xyzm b (ps.map (·.2)).flatten) := by
  refine ⟨?_, ?_, ?_, ?_, ?_⟩
  · intro pts s h
    unfold Shape.mkMultipoint at h
    cases hb : BBox.fromPoints d pts with
    | none => rw [hb] at h; cases h
    | some b => rw [hb] at h; simp only [Option.map_some, Option.some.injEq] at h; exact ⟨b, h.symm, fromPoints_exact d pts b hb⟩
  · intro pts s h
    unfold Shape.mkPolyline at h
    split at h
    · cases h
    · cases hb : BBox.fromPoints d pts with
      | none => rw [hb] at h; cases h
      | some b => rw [hb] at h; simp only [Option.map_some, Option.some.injEq] at h; exact ⟨b, h.symm, fromPoints_exact d pts b hb⟩
  · intro parts s h
    unfold Shape.mkPolylineParts at h
    split at h
    · cases h
    · cases hb : BBox.fromParts d parts with
      | none => rw [hb] at h; cases h
      | some b => rw [hb] at h; simp only [Option.map_some, Option.some.injEq] at h; exact ⟨b, h.symm, fromParts_exact d parts b hb⟩
  · intro rings s h
    unfold Shape.mkPolygonRings at h
    simp only at h
    cases hb : BBox.fromParts d ((rings.map (closeAndReorder o d)).map (·.2)) with
    | none => rw [hb] at h; cases h
    | some b =>
      rw [hb] at h; simp only [Option.map_some, Option.some.injEq] at h
      exact ⟨b, _, h.symm, rfl, fromParts_exact d _ b hb⟩
  · intro patches s h
    unfold Shape.mkMultipatchParts at h
    simp only at h
    cases hb : BBox.fromParts .xyzm ((patches.map Shape.closePatch).map (·.2)) with
    | none => rw [hb] at h; cases h
    | some b =>
      rw [hb] at h; simp only [Option.map_some, Option.some.injEq] at h
      exact ⟨b, _, h.symm, rfl, fromParts_exact .xyzm _ b hb⟩

/-! ### the file header -/

theorem posInf_notNaN : F64.posInf.isNaN = false := by decide
theorem negInf_notNaN : F64.negInf.isNaN = false := by decide
theorem sentinelMin_eq : F64.sentinelMin = F64.posInf := by decide
theorem sentinelMax_eq : F64.sentinelMax = F64.negInf := by decide

/-- nothing but +inf itself is `>=` +inf -/
theorem eq_posInf (x : F64) (hx : x.isNaN = false) (h : F64.posInf.le x = true) : x = F64.posInf := by
  have hk := (F64.le_iff_of_notNaN posInf_notNaN hx).mp h
  have hpk : F64.posInf.key = 9218868437227405312 := by decide
  rw [hpk] at hk
  unfold F64.isNaN at hx
  simp only [decide_eq_false_iff_not, Nat.not_lt] at hx
  unfold F64.key F64.sign F64.mag at hk
  unfold F64.mag at hx
  have hlt := x.bits.toNat_lt
  have : x.bits.toNat = 9218868437227405312 := by
    split at hk <;> simp only [decide_eq_true_eq] at * <;> omega
  cases x with | mk bits =>
  simp only at this
  have : bits = UInt64.ofNat 9218868437227405312 := by
    apply UInt64.toNat_inj.mp; rw [this]; rfl
  rw [this]; rfl

theorem eq_negInf (x : F64) (hx : x.isNaN = false) (h : x.le F64.negInf = true) : x = F64.negInf := by
  have hk := (F64.le_iff_of_notNaN hx negInf_notNaN).mp h
  have hpk : F64.negInf.key = -9218868437227405312 := by decide
  rw [hpk] at hk
  unfold F64.isNaN at hx
  simp only [decide_eq_false_iff_not, Nat.not_lt] at hx
  unfold F64.key F64.sign F64.mag at hk
  unfold F64.mag at hx
  have hlt := x.bits.toNat_lt
  have : x.bits.toNat = 18442240474082181120 := by
    split at hk <;> simp only [decide_eq_true_eq] at * <;> omega
  cases x with | mk bits =>
  simp only at this
  have : bits = UInt64.ofNat 18442240474082181120 := by
    apply UInt64.toNat_inj.mp; rw [this]; rfl
  rw [this]; rfl

/-- the running header range: `f64_min(shape's low, running)` from the +inf sentinel -/
theorem header_fold_min (vals : List F64) (hne : vals ≠ []) (hn : NoNaN vals) :
    IsMin (vals.foldl (fun acc v => F64.fmin v acc) F64.posInf) vals := by
  -- generalised over the accumulator
  have gen : ∀ (l : List F64) (a : F64), NoNaN (a :: l) →
      IsMin (l.foldl (fun acc v => F64.fmin v acc) a) (a :: l) ∧ (l.foldl (fun acc v => F64.fmin v acc) a).isNaN = false := by
    intro l
    induction l with
    | nil =>
      intro a h
      have ha := h a List.mem_cons_self
      exact ⟨⟨List.mem_cons_self, fun x hx => by
        simp only [List.mem_cons, List.mem_nil_iff, or_false] at hx; subst hx
        exact (F64.le_iff_of_notNaN ha ha).mpr (Int.le_refl _)⟩, ha⟩
    | cons b l ih =>
      intro a h
      have ha := h a List.mem_cons_self
      have hb := h b (List.mem_cons_of_mem _ List.mem_cons_self)
      have hm := F64.fmin_notNaN hb ha
      obtain ⟨⟨hmem, hle⟩, hnn⟩ := ih (F64.fmin b a) (by
        intro x hx
        simp only [List.mem_cons] at hx
        rcases hx with rfl | hx
        · exact hm
        · exact h x (List.mem_cons_of_mem _ (List.mem_cons_of_mem _ hx)))
      refine ⟨⟨?_, ?_⟩, hnn⟩
      · simp only [List.foldl_cons]
        simp only [List.mem_cons] at hmem ⊢
        rcases hmem with hmem | hmem
        · rcases F64.fmin_mem b a with h1 | h1
          · exact Or.inr (Or.inl (hmem.trans h1))
          · exact Or.inl (hmem.trans h1)
        · exact Or.inr (Or.inr hmem)
      · intro x hx
        simp only [List.foldl_cons]
        have hkey := F64.fmin_key hb ha
        have hr := hle (F64.fmin b a) List.mem_cons_self
        have hrk := (F64.le_iff_of_notNaN hnn hm).mp hr
        simp only [List.mem_cons] at hx
        rcases hx with rfl | rfl | hx
        · exact (F64.le_iff_of_notNaN hnn ha).mpr (by omega)
        · exact (F64.le_iff_of_notNaN hnn hb).mpr (by omega)
        · exact hle x (List.mem_cons_of_mem _ hx)
  obtain ⟨⟨hmem, hle⟩, hnn⟩ := gen vals F64.posInf (by
    intro x hx
    simp only [List.mem_cons] at hx
    rcases hx with rfl | hx
    · exact posInf_notNaN
    · exact hn x hx)
  refine ⟨?_, fun x hx => hle x (List.mem_cons_of_mem _ hx)⟩
  simp only [List.mem_cons] at hmem
  rcases hmem with hmem | hmem
  · -- the result is the sentinel: then every value is +inf, in particular the first one
    cases vals with
    | nil => exact absurd rfl hne
    | cons v vs =>
      have hv := hle v (List.mem_cons_of_mem _ List.mem_cons_self)
      rw [hmem] at hv
      have := eq_posInf v (hn v List.mem_cons_self) hv
      rw [hmem, ← this]
      exact List.mem_cons_self
  · exact hmem

theorem header_fold_max (vals : List F64) (hne : vals ≠ []) (hn : NoNaN vals) :
    IsMax (vals.foldl (fun acc v => F64.fmax v acc) F64.negInf) vals := by
  have gen : ∀ (l : List F64) (a : F64), NoNaN (a :: l) →
      IsMax (l.foldl (fun acc v => F64.fmax v acc) a) (a :: l) ∧ (l.foldl (fun acc v => F64.fmax v acc) a).isNaN = false := by
    intro l
    induction l with
    | nil =>
      intro a h
      have ha := h a List.mem_cons_self
      exact ⟨⟨List.mem_cons_self, fun x hx => by
        simp only [List.mem_cons, List.mem_nil_iff, or_false] at hx; subst hx
        exact (F64.le_iff_of_notNaN ha ha).mpr (Int.le_refl _)⟩, ha⟩
    | cons b l ih =>
      intro a h
      have ha := h a List.mem_cons_self
      have hb := h b (List.mem_cons_of_mem _ List.mem_cons_self)
      have hm := F64.fmax_notNaN hb ha
      obtain ⟨⟨hmem, hle⟩, hnn⟩ := ih (F64.fmax b a) (by
        intro x hx
        simp only [List.mem_cons] at hx
        rcases hx with rfl | hx
        · exact hm
        · exact h x (List.mem_cons_of_mem _ (List.mem_cons_of_mem _ hx)))
      refine ⟨⟨?_, ?_⟩, hnn⟩
      · simp only [List.foldl_cons]
        simp only [List.mem_cons] at hmem ⊢
        rcases hmem with hmem | hmem
        · rcases F64.fmax_mem b a with h1 | h1
          · exact Or.inr (Or.inl (hmem.trans h1))
          · exact Or.inl (hmem.trans h1)
        · exact Or.inr (Or.inr hmem)
      · intro x hx
        simp only [List.foldl_cons]
        have hkey := F64.fmax_key hb ha
        have hr := hle (F64.fmax b a) List.mem_cons_self
        have hrk := (F64.le_iff_of_notNaN hm hnn).mp hr
        simp only [List.mem_cons] at hx
        rcases hx with rfl | rfl | hx
        · exact (F64.le_iff_of_notNaN ha hnn).mpr (by omega)
        · exact (F64.le_iff_of_notNaN hb hnn).mpr (by omega)
        · exact hle x (List.mem_cons_of_mem _ hx)
  obtain ⟨⟨hmem, hle⟩, hnn⟩ := gen vals F64.negInf (by
    intro x hx
    simp only [List.mem_cons] at hx
    rcases hx with rfl | hx
    · exact negInf_notNaN
    · exact hn x hx)
  refine ⟨?_, fun x hx => hle x (List.mem_cons_of_mem _ hx)⟩
  simp only [List.mem_cons] at hmem
  rcases hmem with hmem | hmem
  · cases vals with
    | nil => exact absurd rfl hne
    | cons v vs =>
      have hv := hle v (List.mem_cons_of_mem _ List.mem_cons_self)
      rw [hmem] at hv
      have := eq_negInf v (hn v List.mem_cons_self) hv
      rw [hmem, ← this]
      exact List.mem_cons_self
  · exact hmem

/-- the header box after the shapes `ss`, coordinate by coordinate, as folds of the shapes' ranges -/
theorem foldl_grow_min_x (t : ShapeType) (ss : List Shape) (b : BBox) :
    (ss.foldl (growFromShape t) b).min.x = (ss.map (·.ranges.1.x)).foldl (fun acc v => F64.fmin v acc) b.min.x := by
  induction ss generalizing b with
  | nil => rfl
  | cons s ss ih => simp only [List.foldl_cons, List.map_cons, ih]; rfl
theorem foldl_grow_max_x (t : ShapeType) (ss : List Shape) (b : BBox) :
    (ss.foldl (growFromShape t) b).max.x = (ss.map (·.ranges.2.x)).foldl (fun acc v => F64.fmax v acc) b.max.x := by
  induction ss generalizing b with
  | nil => rfl
  | cons s ss ih => simp only [List.foldl_cons, List.map_cons, ih]; rfl
theorem foldl_grow_min_y (t : ShapeType) (ss : List Shape) (b : BBox) :
    (ss.foldl (growFromShape t) b).min.y = (ss.map (·.ranges.1.y)).foldl (fun acc v => F64.fmin v acc) b.min.y := by
  induction ss generalizing b with
  | nil => rfl
  | cons s ss ih => simp only [List.foldl_cons, List.map_cons, ih]; rfl
theorem foldl_grow_max_y (t : ShapeType) (ss : List Shape) (b : BBox) :
    (ss.foldl (growFromShape t) b).max.y = (ss.map (·.ranges.2.y)).foldl (fun acc v => F64.fmax v acc) b.max.y := by
  induction ss generalizing b with
  | nil => rfl
  | cons s ss ih => simp only [List.foldl_cons, List.map_cons, ih]; rfl
theorem foldl_grow_z (t : ShapeType) (ht : t.hasZ = true) (ss : List Shape) (b : BBox) :
    (ss.foldl (growFromShape t) b).min.z = (ss.map (·.ranges.1.z)).foldl (fun acc v => F64.fmin v acc) b.min.z ∧
    (ss.foldl (growFromShape t) b).max.z = (ss.map (·.ranges.2.z)).foldl (fun acc v => F64.fmax v acc) b.max.z := by
  induction ss generalizing b with
  | nil => exact ⟨rfl, rfl⟩
  | cons s ss ih =>
    simp only [List.foldl_cons, List.map_cons]
    have := ih (growFromShape t b s)
    simp only [growFromShape, ht, if_true] at this ⊢
    exact this
theorem foldl_grow_m (t : ShapeType) (ht : t.hasM = true) (ss : List Shape) (b : BBox) :
    (ss.foldl (growFromShape t) b).min.m = (ss.map (·.ranges.1.m)).foldl (fun acc v => F64.fmin v acc) b.min.m ∧
    (ss.foldl (growFromShape t) b).max.m = (ss.map (·.ranges.2.m)).foldl (fun acc v => F64.fmax v acc) b.max.m := by
  induction ss generalizing b with
  | nil => exact ⟨rfl, rfl⟩
  | cons s ss ih =>
    simp only [List.foldl_cons, List.map_cons]
    have := ih (growFromShape t b s)
    simp only [growFromShape, ht, if_true] at this ⊢
    exact this
theorem foldl_grow_z_untouched (t : ShapeType) (ht : t.hasZ = false) (ss : List Shape) (b : BBox) :
    (ss.foldl (growFromShape t) b).min.z = b.min.z ∧ (ss.foldl (growFromShape t) b).max.z = b.max.z := by
  induction ss generalizing b with
  | nil => exact ⟨rfl, rfl⟩
  | cons s ss ih =>
    simp only [List.foldl_cons]
    have := ih (growFromShape t b s)
    rw [this.1, this.2]
    simp [growFromShape, ht]
theorem foldl_grow_m_untouched (t : ShapeType) (ht : t.hasM = false) (ss : List Shape) (b : BBox) :
    (ss.foldl (growFromShape t) b).min.m = b.min.m ∧ (ss.foldl (growFromShape t) b).max.m = b.max.m := by
  induction ss generalizing b with
  | nil => exact ⟨rfl, rfl⟩
  | cons s ss ih =>
    simp only [List.foldl_cons]
    have := ih (growFromShape t b s)
    rw [this.1, this.2]
    simp [growFromShape, ht]

theorem finalizeBox_z (b : BBox) (h1 : b.min.z = F64.sentinelMin) (h2 : b.max.z = F64.sentinelMax) :
    (finalizeBox b).min.z = F64.zero ∧ (finalizeBox b).max.z = F64.zero := by
  have hfeq1 : F64.sentinelMax.feq F64.sentinelMax = true := by decide
  have hfeq2 : F64.sentinelMin.feq F64.sentinelMin = true := by decide
  unfold finalizeBox
  simp only
  split <;> simp [h1, h2, hfeq1, hfeq2]

theorem finalizeBox_m (b : BBox) (h1 : b.min.m = F64.sentinelMin) (h2 : b.max.m = F64.sentinelMax) :
    (finalizeBox b).min.m = F64.zero ∧ (finalizeBox b).max.m = F64.zero := by
  have hfeq1 : F64.sentinelMax.feq F64.sentinelMax = true := by decide
  have hfeq2 : F64.sentinelMin.feq F64.sentinelMin = true := by decide
  unfold finalizeBox
  simp only [h1, h2, hfeq1, hfeq2, Bool.and_self, if_true]
  split <;> exact ⟨rfl, rfl⟩

theorem finalizeBox_xy (b : BBox) : (finalizeBox b).min.x = b.min.x ∧ (finalizeBox b).min.y = b.min.y ∧
    (finalizeBox b).max.x = b.max.x ∧ (finalizeBox b).max.y = b.max.y := by
  unfold finalizeBox
  simp only
  split <;> split <;> exact ⟨rfl, rfl, rfl, rfl⟩

/-- MAIN (header, X and Y): after finalization the header's X/Y range is the exact extreme of
the written shapes' ranges, for any non-NaN values — ±inf included — whichever shape holds it -/
theorem header_xy_exact (s : Shape) (ss : List Shape)
    (hx : NoNaN ((s :: ss).map (·.ranges.1.x))) (hX : NoNaN ((s :: ss).map (·.ranges.2.x)))
    (hy : NoNaN ((s :: ss).map (·.ranges.1.y))) (hY : NoNaN ((s :: ss).map (·.ranges.2.y))) :
    let h := finalHeader (s :: ss)
    IsMin h.bbox.min.x ((s :: ss).map (·.ranges.1.x)) ∧ IsMax h.bbox.max.x ((s :: ss).map (·.ranges.2.x)) ∧
    IsMin h.bbox.min.y ((s :: ss).map (·.ranges.1.y)) ∧ IsMax h.bbox.max.y ((s :: ss).map (·.ranges.2.y)) := by
  intro h
  have hb : h.bbox = finalizeBox ((s :: ss).foldl (growFromShape s.writeType) sentinelBox) := rfl
  obtain ⟨e1, e2, e3, e4⟩ := finalizeBox_xy ((s :: ss).foldl (growFromShape s.writeType) sentinelBox)
  rw [hb, e1, e2, e3, e4, foldl_grow_min_x, foldl_grow_max_x, foldl_grow_min_y, foldl_grow_max_y]
  have s1 : sentinelBox.min.x = F64.posInf := sentinelMin_eq
  have s2 : sentinelBox.max.x = F64.negInf := sentinelMax_eq
  have s3 : sentinelBox.min.y = F64.posInf := sentinelMin_eq
  have s4 : sentinelBox.max.y = F64.negInf := sentinelMax_eq
  rw [s1, s2, s3, s4]
  exact ⟨header_fold_min _ (by simp) hx, header_fold_max _ (by simp) hX, header_fold_min _ (by simp) hy,
    header_fold_max _ (by simp) hY⟩

/-- header ranges of dimensions the file's type does not carry are 0; an empty file has an
all-zero box -/
theorem header_absent_dims (s : Shape) (ss : List Shape) :
    (s.writeType.hasZ = false → (finalHeader (s :: ss)).bbox.min.z = F64.zero ∧ (finalHeader (s :: ss)).bbox.max.z = F64.zero) ∧
    (s.writeType.hasM = false → (finalHeader (s :: ss)).bbox.min.m = F64.zero ∧ (finalHeader (s :: ss)).bbox.max.m = F64.zero) ∧
    (finalHeader []).bbox = ⟨zeroPt, zeroPt⟩ := by
  refine ⟨?_, ?_, ?_⟩
  · intro ht
    have := foldl_grow_z_untouched s.writeType ht (s :: ss) sentinelBox
    exact finalizeBox_z _ this.1 this.2
  · intro ht
    have := foldl_grow_m_untouched s.writeType ht (s :: ss) sentinelBox
    exact finalizeBox_m _ this.1 this.2
  · decide

/-- a genuine range cannot be mistaken for the untouched sentinels -/
theorem not_both_sentinels (lo hi : F64) (vals : List F64) (hne : vals ≠ []) (hn : NoNaN vals)
    (hmin : IsMin lo vals) (hmax : IsMax hi vals) :
    (hi.feq F64.sentinelMax && lo.feq F64.sentinelMin) = false := by
  cases vals with
  | nil => exact absurd rfl hne
  | cons v vs =>
    have hv := hn v List.mem_cons_self
    have hlo := hn lo hmin.1
    have hhi := hn hi hmax.1
    have k1 := (F64.le_iff_of_notNaN hlo hv).mp (hmin.2 v List.mem_cons_self)
    have k2 := (F64.le_iff_of_notNaN hv hhi).mp (hmax.2 v List.mem_cons_self)
    have ks1 : F64.sentinelMax.key = -9218868437227405312 := by decide
    have ks2 : F64.sentinelMin.key = 9218868437227405312 := by decide
    have n1 : F64.sentinelMax.isNaN = false := by decide
    have n2 : F64.sentinelMin.isNaN = false := by decide
    simp only [F64.feq, hlo, hhi, n1, n2, Bool.not_false, Bool.true_and, ks1, ks2, Bool.and_eq_false_iff,
      decide_eq_false_iff_not]
    omega

/-- Z range of Z-typed (and multipatch) files: exact over the shapes' Z ranges -/
theorem header_z_exact (s : Shape) (ss : List Shape) (ht : s.writeType.hasZ = true)
    (hz : NoNaN ((s :: ss).map (·.ranges.1.z))) (hZ : NoNaN ((s :: ss).map (·.ranges.2.z)))
    (hsame : ∃ vals, vals ≠ [] ∧ NoNaN vals ∧
      IsMin (((s :: ss).map (·.ranges.1.z)).foldl (fun acc v => F64.fmin v acc) F64.posInf) vals ∧
      IsMax (((s :: ss).map (·.ranges.2.z)).foldl (fun acc v => F64.fmax v acc) F64.negInf) vals) :
    let h := finalHeader (s :: ss)
    IsMin h.bbox.min.z ((s :: ss).map (·.ranges.1.z)) ∧ IsMax h.bbox.max.z ((s :: ss).map (·.ranges.2.z)) := by
  intro h
  have hb : h.bbox = finalizeBox ((s :: ss).foldl (growFromShape s.writeType) sentinelBox) := rfl
  obtain ⟨ez1, ez2⟩ := foldl_grow_z s.writeType ht (s :: ss) sentinelBox
  have s1 : sentinelBox.min.z = F64.posInf := sentinelMin_eq
  have s2 : sentinelBox.max.z = F64.negInf := sentinelMax_eq
  rw [s1] at ez1; rw [s2] at ez2
  obtain ⟨vals, hne, hnn, hmn, hmx⟩ := hsame
  have hns := not_both_sentinels _ _ vals hne hnn hmn hmx
  rw [← ez1, ← ez2] at hns
  have hfz : (finalizeBox ((s :: ss).foldl (growFromShape s.writeType) sentinelBox)).min.z =
        ((s :: ss).foldl (growFromShape s.writeType) sentinelBox).min.z ∧
      (finalizeBox ((s :: ss).foldl (growFromShape s.writeType) sentinelBox)).max.z =
        ((s :: ss).foldl (growFromShape s.writeType) sentinelBox).max.z := by
    generalize (s :: ss).foldl (growFromShape s.writeType) sentinelBox = b at hns
    unfold finalizeBox
    simp only
    split <;> simp [hns]
  rw [hb, hfz.1, hfz.2, ez1, ez2]
  exact ⟨header_fold_min _ (by simp) hz, header_fold_max _ (by simp) hZ⟩

/-- M range of M-carrying files (M and Z types): exact over the shapes' M ranges, whenever those
ranges are the extremes of a non-empty set of real (non-NaN) measures -/
theorem header_m_exact (s : Shape) (ss : List Shape) (ht : s.writeType.hasM = true)
    (hm : NoNaN ((s :: ss).map (·.ranges.1.m))) (hM : NoNaN ((s :: ss).map (·.ranges.2.m)))
    (hsame : ∃ vals, vals ≠ [] ∧ NoNaN vals ∧
      IsMin (((s :: ss).map (·.ranges.1.m)).foldl (fun acc v => F64.fmin v acc) F64.posInf) vals ∧
      IsMax (((s :: ss).map (·.ranges.2.m)).foldl (fun acc v => F64.fmax v acc) F64.negInf) vals) :
    let h := finalHeader (s :: ss)
    IsMin h.bbox.min.m ((s :: ss).map (·.ranges.1.m)) ∧ IsMax h.bbox.max.m ((s :: ss).map (·.ranges.2.m)) := by
  intro h
  have hb : h.bbox = finalizeBox ((s :: ss).foldl (growFromShape s.writeType) sentinelBox) := rfl
  obtain ⟨em1, em2⟩ := foldl_grow_m s.writeType ht (s :: ss) sentinelBox
  have s1 : sentinelBox.min.m = F64.posInf := sentinelMin_eq
  have s2 : sentinelBox.max.m = F64.negInf := sentinelMax_eq
  rw [s1] at em1; rw [s2] at em2
  obtain ⟨vals, hne, hnn, hmn, hmx⟩ := hsame
  have hns := not_both_sentinels _ _ vals hne hnn hmn hmx
  rw [← em1, ← em2] at hns
  have hfm : (finalizeBox ((s :: ss).foldl (growFromShape s.writeType) sentinelBox)).min.m =
        ((s :: ss).foldl (growFromShape s.writeType) sentinelBox).min.m ∧
      (finalizeBox ((s :: ss).foldl (growFromShape s.writeType) sentinelBox)).max.m =
        ((s :: ss).foldl (growFromShape s.writeType) sentinelBox).max.m := by
    generalize (s :: ss).foldl (growFromShape s.writeType) sentinelBox = b at hns
    unfold finalizeBox
    simp only [hns, Bool.false_eq_true, if_false]
    split <;> simp
  rw [hb, hfm.1, hfm.2, em1, em2]
  exact ⟨header_fold_min _ (by simp) hm, header_fold_max _ (by simp) hM⟩

/-- combining per-shape exactness with the header fold: the minimum of exact per-shape minima is
the exact minimum of all the values -/
theorem isMin_of_parts (mins : List F64) (groups : List (List F64)) (v : F64)
    (hlen : mins.length = groups.length)
    (hex : ∀ i (h1 : i < mins.length) (h2 : i < groups.length), IsMin mins[i] groups[i])
    (hv : IsMin v mins) (hnn : NoNaN (v :: groups.flatten)) : IsMin v groups.flatten := by
  obtain ⟨hmem, hle⟩ := hv
  obtain ⟨i, hi, hvi⟩ := List.getElem_of_mem hmem
  have hi2 : i < groups.length := by omega
  refine ⟨?_, ?_⟩
  · have := (hex i hi hi2).1
    rw [hvi] at this
    exact List.mem_flatten.mpr ⟨groups[i], List.getElem_mem hi2, this⟩
  · intro x hx
    obtain ⟨g, hg, hxg⟩ := List.mem_flatten.mp hx
    obtain ⟨j, hj, hgj⟩ := List.getElem_of_mem hg
    have hj1 : j < mins.length := by omega
    have h1 := hle mins[j] (List.getElem_mem hj1)
    have h2 := (hex j hj1 hj).2 x (by rw [hgj]; exact hxg)
    have hnv := hnn v List.mem_cons_self
    have hnx := hnn x (List.mem_cons_of_mem _ hx)
    have hnm : mins[j].isNaN = false := by
      have := (hex j hj1 hj).1
      exact hnn _ (List.mem_cons_of_mem _ (List.mem_flatten.mpr ⟨groups[j], List.getElem_mem hj, this⟩))
    have k1 := (F64.le_iff_of_notNaN hnv hnm).mp h1
    have k2 := (F64.le_iff_of_notNaN hnm hnx).mp h2
    exact (F64.le_iff_of_notNaN hnv hnx).mpr (by omega)

/-- non-vacuity: a box whose minimum is +inf in X (the case the finite sentinels got wrong) -/
example : IsMin F64.posInf [F64.posInf] ∧ NoNaN [F64.posInf] :=
  ⟨⟨List.mem_cons_self, fun x hx => by simp at hx; subst hx; decide⟩, fun x hx => by simp at hx; subst hx; decide⟩

end Shp.C05

/-
C20 — geo-types conversions preserve coordinates, order and ring nesting.
-/
import Shp.Model.Geo
import Shp.Props.C16
namespace Shp.C20
open Shp

/-- a 2-D point as the crate's `Point` holds it -/
def IsXY (p : Pt) : Prop := p.z = F64.zero ∧ p.m = F64.noData

theorem toXY_of_isXY (p : Pt) (h : IsXY p) : toXY p = p := by
  cases p; simp [IsXY] at h; simp [toXY, Pt.default, h.1, h.2]

theorem map_toXY_of_isXY (l : List Pt) (h : ∀ p ∈ l, IsXY p) : l.map toXY = l := by
  induction l with
  | nil => rfl
  | cons a as ih =>
    simp only [List.map_cons, toXY_of_isXY a (h a List.mem_cons_self),
      ih (fun p hp => h p (List.mem_cons_of_mem _ hp))]

/-- every X/Y pair, in order, for any dimension: only X and Y travel, bit-identically -/
theorem toXY_xy (p : Pt) : (toXY p).x = p.x ∧ (toXY p).y = p.y := ⟨rfl, rfl⟩

/-! ### shape → geo → shape is the identity on 2-D points, multipoints and polylines -/

theorem roundtrip_point (o : Orient) (p : Pt) (h : IsXY p) :
    (match shapeToGeom (.point .xy p) with | .ok g => geomToShape o g | _ => .err) = .ok (.point .xy p) := by
  simp [shapeToGeom, geomToShape, toXY_of_isXY p h, toXY_of_isXY (toXY p) (by simp [toXY, IsXY, Pt.default])]

theorem roundtrip_multipoint (o : Orient) (pts : List Pt) (s : Shape) (h : ∀ p ∈ pts, IsXY p)
    (hs : Shape.mkMultipoint .xy pts = some s) :
    (match shapeToGeom s with | .ok g => geomToShape o g | _ => .err) = .ok s := by
  unfold Shape.mkMultipoint at hs
  cases hb : BBox.fromPoints .xy pts with
  | none => rw [hb] at hs; cases hs
  | some b =>
    rw [hb] at hs
    simp only [Option.map_some, Option.some.injEq] at hs
    subst hs
    simp only [shapeToGeom, geomToShape, List.map_map]
    have : pts.map (toXY ∘ toXY) = pts := by
      rw [← List.map_map, map_toXY_of_isXY pts h, map_toXY_of_isXY pts h]
    rw [this]
    simp [Shape.mkMultipoint, hb, optShape]

theorem roundtrip_polyline (o : Orient) (parts : List (List Pt)) (s : Shape) (h : ∀ ps ∈ parts, ∀ p ∈ ps, IsXY p)
    (hs : Shape.mkPolylineParts .xy parts = some s) :
    (match shapeToGeom s with | .ok g => geomToShape o g | _ => .err) = .ok s := by
  have hparts : parts.map (List.map toXY) = parts := by
    clear hs
    induction parts with
    | nil => rfl
    | cons a as ih =>
      simp only [List.map_cons, map_toXY_of_isXY a (h a List.mem_cons_self),
        ih (fun ps hps => h ps (List.mem_cons_of_mem _ hps))]
  have hs' := hs
  unfold Shape.mkPolylineParts at hs
  split at hs
  · cases hs
  · cases hb : BBox.fromParts .xy parts with
    | none => rw [hb] at hs; cases hs
    | some b =>
      rw [hb] at hs
      simp only [Option.map_some, Option.some.injEq] at hs
      subst hs
      simp only [shapeToGeom, geomToShape, List.map_map]
      have : parts.map (List.map toXY ∘ List.map toXY) = parts := by
        rw [← List.map_map, hparts, hparts]
      rw [this, hs']
      rfl

/-! ### polygons: grouping of holes under outers -/

/-- the rings a list of geo polygons stands for: exterior as Outer, then its holes as Inner -/
def ungroup (ps : List GPoly) : List (Role × List Pt) :=
  ps.flatMap fun p => (Role.outer, p.ext) :: p.ints.map fun i => (Role.inner, i)

def AllClosed (rings : List (Role × List Pt)) : Prop := ∀ r ∈ rings, closeLS r.2 = r.2

theorem ungroup_append (a b : List GPoly) : ungroup (a ++ b) = ungroup a ++ ungroup b := by
  simp [ungroup]

/-- the loop invariant: what has been emitted plus the polygon still open stands for exactly the
rings consumed so far -/
theorem groupRings_spec (rings : List (Role × List Pt)) (last : GPoly) (acc : List GPoly) (hc : AllClosed rings) :
    ungroup (groupRings rings (some last) acc) = ungroup acc ++ ungroup [last] ++ rings := by
  induction rings generalizing last acc with
  | nil => simp [groupRings, ungroup_append]
  | cons r rest ih =>
    obtain ⟨role, pts⟩ := r
    have hcl : closeLS pts = pts := hc (role, pts) List.mem_cons_self
    have hrest : AllClosed rest := fun x hx => hc x (List.mem_cons_of_mem _ hx)
    cases role with
    | outer =>
      simp only [groupRings]
      rw [ih (GPoly.new pts []) (acc ++ [last]) hrest, ungroup_append]
      simp [ungroup, GPoly.new, hcl]
    | inner =>
      simp only [groupRings]
      rw [ih (last.pushInterior pts) acc hrest]
      simp [ungroup, GPoly.pushInterior, hcl]

/-- MAIN (nesting): for an outer-first polygon whose rings are closed (as every constructed or
read polygon's are), each outer ring opens a geo polygon and the following inner rings become its
holes: the grouping stands for exactly the original ring list, coordinates and order untouched -/
theorem polygon_nesting (first : List Pt) (rest : List (Role × List Pt)) (hc : AllClosed ((.outer, first) :: rest)) :
    ungroup (groupRings ((.outer, first) :: rest) none []) = (.outer, first) :: rest := by
  have hcl : closeLS first = first := hc (.outer, first) List.mem_cons_self
  simp only [groupRings]
  rw [groupRings_spec rest (GPoly.new first []) [] (fun x hx => hc x (List.mem_cons_of_mem _ hx))]
  simp [ungroup, GPoly.new, hcl]

/-! ### refusals: an error, not a panic, not a silently different geometry -/

theorem refusals (o : Orient) :
    shapeToGeom .null = .err ∧
    geomToShape o .collection = .err ∧ geomToShape o .rect = .err ∧ geomToShape o .triangle = .err ∧
    (∀ b patches, (∃ p ∈ patches, p.1 = PatchKind.triangleStrip ∨ p.1 = PatchKind.triangleFan) →
      shapeToGeom (.multipatch b patches) = .err) := by
  refine ⟨rfl, rfl, rfl, rfl, ?_⟩
  intro b patches ⟨p, hp, hk⟩
  simp only [shapeToGeom]
  have : patches.any (fun p => (patchRole p.1).isNone) = true := by
    rw [List.any_eq_true]
    refine ⟨p, hp, ?_⟩
    rcases hk with hk | hk <;> rw [hk] <;> rfl
  rw [if_pos this]

/-- ring-only multipatches convert (to the grouping of their rings) -/
theorem ring_multipatch_converts (b : BBox) (patches : List (PatchKind × List Pt))
    (h : ∀ p ∈ patches, (patchRole p.1).isSome) : ∃ g, shapeToGeom (.multipatch b patches) = .ok g := by
  simp only [shapeToGeom]
  have : patches.any (fun p => (patchRole p.1).isNone) = false := by
    rw [List.any_eq_false]
    intro p hp
    have := h p hp
    cases hr : patchRole p.1 <;> simp_all
  rw [if_neg (by simp [this])]
  exact ⟨_, rfl⟩

/-! ### geo-traits: every coordinate below the reported dimension count can be read -/

/-- for EVERY bit pattern of the measure (no-data, below the threshold, NaN, ±inf): an index below
`dim()` never panics and returns the matching field -/
theorem nth_below_dim (d : Dim) (p : Pt) (i : Nat) (hi : i < dimCount d p) :
    ∃ v, nthOrPanic d p i = some v ∧
      v = (match d, i with
           | _, 0 => p.x | _, 1 => p.y | .xym, _ => p.m | .xyzm, 2 => p.z | _, _ => p.m) := by
  cases d
  · -- Point
    simp only [dimCount] at hi
    have : i = 0 ∨ i = 1 := by omega
    rcases this with rfl | rfl <;> exact ⟨_, rfl, rfl⟩
  · -- PointM
    simp only [dimCount] at hi
    by_cases hm : p.m.le F64.noData = true
    · rw [if_pos hm] at hi
      have : i = 0 ∨ i = 1 := by omega
      rcases this with rfl | rfl <;> exact ⟨_, rfl, rfl⟩
    · rw [if_neg hm] at hi
      have : i = 0 ∨ i = 1 ∨ i = 2 := by omega
      rcases this with rfl | rfl | rfl <;> exact ⟨_, rfl, rfl⟩
  · -- PointZ
    simp only [dimCount] at hi
    by_cases hm : p.m.le F64.noData = true
    · rw [if_pos hm] at hi
      have : i = 0 ∨ i = 1 ∨ i = 2 := by omega
      rcases this with rfl | rfl | rfl <;> exact ⟨_, rfl, rfl⟩
    · rw [if_neg hm] at hi
      have : i = 0 ∨ i = 1 ∨ i = 2 ∨ i = 3 := by omega
      rcases this with rfl | rfl | rfl | rfl
      · exact ⟨_, rfl, rfl⟩
      · exact ⟨_, rfl, rfl⟩
      · exact ⟨_, rfl, rfl⟩
      · refine ⟨p.m, ?_, rfl⟩
        simp only [nthOrPanic]
        rw [if_neg hm]

/-- non-vacuity: a PointZ whose measure is NaN reports four dimensions, all readable -/
example : dimCount .xyzm ⟨F64.zero, F64.zero, F64.zero, F64.ofNat 0x7ff8000000000000⟩ = 4 := by decide

end Shp.C20

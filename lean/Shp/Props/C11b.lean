/-
C11, last sentence — everything written before the last finalize that completed on the .shp
remains readable from it, wherever a later crash hits (including inside a later header rewrite).
-/
import Shp.Props.C11
import Shp.Lemmas.Torn
namespace Shp.C11
open Shp Dec

/-- MAIN (reader side): the stream holds the records of `ss1` whole (then anything: more records,
a cut record, nothing) and the header's declared length covers them: a sequential reader yields the
shapes of `ss1`, in order, each equal to the original as read back, before anything else. -/
theorem durable_stream (o : Orient) (tg : Target) (t : ShapeType) (ss1 ss2 : List Shape) (k avail fuel : Nat)
    (st : RState)
    (hsz : ∀ s ∈ ss1, s.Sized) (hnn : ∀ s ∈ ss1, s ≠ .null) (hty : ∀ s ∈ ss1, s.writeType = t)
    (hacc : ∀ s ∈ ss1, tg.Accepts s.writeType) (hk : k + ss1.length < 2147483648)
    (hidx : st.index = none) (hpos : st.currentPos = some st.srcPos)
    (hdata : st.data.drop st.srcPos = (recordsFrom t k (ss1 ++ ss2)).take avail)
    (hwhole : 2 * totalWords ss1 ≤ avail)
    (hdecl : st.srcPos + 2 * totalWords ss1 ≤ ((wordsToBytes st.header.fileLength).getD 0).toNat)
    (hfuel : ss1.length ≤ fuel) :
    ∃ rest, (st.iterAll o tg fuel).2 = ss1.map (fun s => ROut.shape (s.readBack o)) ++ rest := by
  induction ss1 generalizing k avail fuel st with
  | nil => exact ⟨(st.iterAll o tg fuel).2, by simp⟩
  | cons s ss ih =>
    obtain ⟨fuel', rfl⟩ : ∃ f, fuel = f + 1 := ⟨fuel - 1, by simp only [List.length_cons] at hfuel; omega⟩
    have hs := hsz s List.mem_cons_self
    have hts : s.writeType = t := hty s List.mem_cons_self
    have hL := C18.encRecord_length (k : Int) t s
    have hnum : InI32 (k : Int) := by unfold InI32; simp only [List.length_cons] at hk; omega
    simp only [totalWords] at hwhole hdecl
    have hstop : ¬ ((wordsToBytes st.header.fileLength).getD 0).toNat ≤ st.srcPos := by omega
    have hdrop : st.data.drop st.srcPos = encRecord k t s ++ (recordsFrom t (k + 1) (ss ++ ss2)).take (avail - (8 + 2 * recordSizeWords s)) := by
      rw [hdata]
      simp only [List.cons_append, recordsFrom]
      rw [List.take_append, List.take_of_length_le (by rw [hL]; omega), hL]
    have hrec := readOneShape_encRecord o tg (k : Int) s ((recordsFrom t (k + 1) (ss ++ ss2)).take (avail - (8 + 2 * recordSizeWords s)))
      hnum hs (hnn s List.mem_cons_self) (hacc s List.mem_cons_self)
    rw [hts] at hrec
    have hcl := congrArg List.length hdrop
    simp only [List.length_drop, List.length_append, hL] at hcl
    have hnext : ∃ st1, st.iterNext o tg = (st1, .shape (s.readBack o)) ∧ st1.index = none ∧
        st1.currentPos = some st1.srcPos ∧ st1.data = st.data ∧ st1.header = st.header ∧
        st1.srcPos = st.srcPos + (8 + 2 * recordSizeWords s) := by
      unfold RState.iterNext
      rw [hidx]
      simp only [hpos]
      rw [if_neg hstop]
      unfold RState.readHere
      rw [hdrop, hrec]
      refine ⟨_, rfl, hidx, ?_, rfl, rfl, ?_⟩
      · simp only [hpos, Option.map_some, Const.recordHeaderSize, Option.some.injEq]; omega
      · simp only; omega
    obtain ⟨st1, hn1, hi1, hp1, hd1, hh1, hs1⟩ := hnext
    obtain ⟨rest, hrest⟩ := ih (k + 1) (avail - (8 + 2 * recordSizeWords s)) fuel' st1
      (fun x hx => hsz x (List.mem_cons_of_mem _ hx)) (fun x hx => hnn x (List.mem_cons_of_mem _ hx))
      (fun x hx => hty x (List.mem_cons_of_mem _ hx)) (fun x hx => hacc x (List.mem_cons_of_mem _ hx))
      (by simp only [List.length_cons] at hk; omega) hi1 hp1
      (by rw [hd1, hs1, ← List.drop_drop, hdrop, List.drop_left' (by rw [hL])])
      (by omega) (by rw [hh1, hs1]; omega) (by simp only [List.length_cons] at hfuel; omega)
    refine ⟨rest, ?_⟩
    unfold RState.iterAll
    rw [hn1]
    simp only [hrest, List.map_cons, List.cons_append]

/-! ### writer side: what the header region can hold after a finalize has committed `ss1` -/

theorem totalWords_app (a b : List Shape) : totalWords (a ++ b) = totalWords a + totalWords b := by
  induction a with
  | nil => simp [totalWords]
  | cons x xs ih => simp only [List.cons_append, totalWords, ih]; omega

theorem fileTypeOf_app (a b : List Shape) (h : a ≠ []) : fileTypeOf (a ++ b) = fileTypeOf a := by
  cases a with
  | nil => exact absurd rfl h
  | cons x xs => rfl

/-- a header region through which the shapes of `ss1` stay reachable: it parses, and the length it
declares covers their records -/
def Good (ss1 : List Shape) (hb : Bytes) : Prop :=
  hb.length = 100 ∧ ∀ rest, ∃ h, readHeader (hb ++ rest) = .ok h rest ∧
    ((50 + totalWords ss1 : Nat) : Int) ≤ h.fileLength ∧ h.fileLength < 2147483648

theorem good_final (ss1 a : List Shape) (hb : 50 + totalWords (ss1 ++ a) < 2147483648) :
    Good ss1 (finalHeader (ss1 ++ a)).enc := by
  refine ⟨Header.enc_length _, fun rest => ⟨finalHeader (ss1 ++ a), ?_, ?_, ?_⟩⟩
  · have hh := finalHeader_inI32 (ss1 ++ a) hb
    exact readHeader_enc _ hh.1 hh.2 rest
  · simp only [finalHeader, totalWords_app]; omega
  · simp only [finalHeader]; omega

theorem good_torn (ss1 a b : List Shape) (hne : ss1 ≠ []) (hb : 50 + totalWords (ss1 ++ a ++ b) < 2147483648)
    (c : Nat) (hc : c ≤ 100) :
    Good ss1 ((finalHeader (ss1 ++ a ++ b)).enc.take c ++ (finalHeader (ss1 ++ a)).enc.drop c) := by
  have hta := totalWords_app (ss1 ++ a) b
  have hta1 := totalWords_app ss1 a
  refine ⟨by simp only [List.length_append, List.length_take, List.length_drop, Header.enc_length]; omega, fun rest => ?_⟩
  obtain ⟨h, hr, h1, h2⟩ := torn_header (finalHeader (ss1 ++ a)) (finalHeader (ss1 ++ a ++ b))
    (by simp only [finalHeader]
        rw [List.append_assoc, fileTypeOf_app ss1 (a ++ b) hne, fileTypeOf_app ss1 a hne])
    (by simp only [finalHeader]; omega) (by simp only [finalHeader]; omega) (by simp only [finalHeader]; omega)
    c hc rest
  refine ⟨h, hr, ?_, h2⟩
  simp only [finalHeader] at h1
  omega

/-- the writer after a finalize that committed `ss1`: its usual invariant, and the header region
holds the complete header written by the last finalize, for some list between `ss1` and now -/
structure DInv (ss1 : List Shape) (w : World) (ss : List Shape) : Prop where
  inv : WInv w ss
  hdr : ∃ a b, ss = ss1 ++ a ++ b ∧
    w.shp.data = (finalHeader (ss1 ++ a)).enc ++ recordsFrom (fileTypeOf ss1) 1 (ss1 ++ a ++ b)

theorem DInv.ofFinalize {w : World} {ss1 : List Shape} (h : WInv w ss1) (hne : ss1 ≠ []) :
    DInv ss1 (w.call .finalize).1 ss1 := by
  obtain ⟨_, hinv, hclean, _⟩ := h.finalize
  refine ⟨hinv, [], [], by simp, ?_⟩
  have := (hinv.clean hclean).1
  simpa [shpFile] using this

theorem DInv.call {ss1 : List Shape} (hne : ss1 ≠ []) {w : World} {ss : List Shape} (h : DInv ss1 w ss) (c : WCall)
    (hc : c ≠ .writeShape .null) : DInv ss1 (w.call c).1 (acceptStep ss c) := by
  have hnext := (h.inv.call c hc).1
  obtain ⟨a, b, hss, hdata⟩ := h.hdr
  have hssne : ss ≠ [] := by rw [hss]; simp [hne]
  cases c with
  | finalize =>
    refine ⟨hnext, a ++ b, [], by simp [acceptStep, hss], ?_⟩
    obtain ⟨_, hinv, hclean, _⟩ := h.inv.finalize
    have := (hinv.clean hclean).1
    rw [this, shpFile, hss]
    simp only [List.append_assoc, List.append_nil]
    rw [fileTypeOf_app ss1 (a ++ b) hne]
  | writeShape s =>
    have hs : s.writeType ≠ .nullShape := s.writeType_ne_null (fun e => hc (by rw [e]))
    by_cases ha : accepts ss s
    · have ht' : fileTypeOf ss = s.writeType := by
        rcases ha with ha | ha
        · exact absurd ha hssne
        · exact ha
      have hnn : w.st.header.shapeType ≠ .nullShape := by rw [h.inv.shapeType, ht']; exact hs
      have hty : w.st.header.shapeType = s.writeType := by rw [h.inv.shapeType, ht']
      have hacc : acceptStep ss (.writeShape s) = ss ++ [s] := by simp [acceptStep, ha]
      rw [hacc]
      rw [hacc] at hnext
      refine ⟨hnext, a, b ++ [s], by rw [hss]; simp, ?_⟩
      rw [call_write_next w s hnn hty]
      simp only
      obtain ⟨_, _, _, hpos⟩ := h.inv.shp
      rw [Dst.apply_write_end _ _ hpos, hdata]
      simp only
      have hft : fileTypeOf ss = fileTypeOf ss1 := by
        rw [hss, List.append_assoc]; exact fileTypeOf_app ss1 (a ++ b) hne
      have e : ss1 ++ a ++ (b ++ [s]) = ss ++ [s] := by rw [hss]; simp
      rw [e, recordsFrom_append, ← hss, h.inv.recNum, ← ht', hft, List.append_assoc]
      congr 3
      push_cast
      omega
    · have hacc : acceptStep ss (.writeShape s) = ss := by simp [acceptStep, ha]
      rw [hacc]
      rw [hacc] at hnext
      have hty : fileTypeOf ss ≠ s.writeType := fun e => ha (Or.inr e)
      have hnn : w.st.header.shapeType ≠ .nullShape := by
        rw [h.inv.shapeType]
        cases ss with
        | nil => exact absurd rfl hssne
        | cons x xs => exact h.inv.homog.1
      rw [call_write_rejected w s hnn (by rw [h.inv.shapeType]; exact hty)]
      exact ⟨h.inv, a, b, hss, hdata⟩

/-- what a crashed .shp looks like once `ss1` has been committed: a good header region, then a
byte-prefix of a record stream that starts with all the records of `ss1` -/
def Survives (ss1 : List Shape) (data : Bytes) : Prop :=
  ∃ HB n ss2, Good ss1 HB ∧ data = HB ++ (recordsFrom (fileTypeOf ss1) 1 (ss1 ++ ss2)).take n ∧
    2 * totalWords ss1 ≤ n

theorem DInv.survives {ss1 : List Shape} {w : World} {ss : List Shape} (h : DInv ss1 w ss)
    (hb : 50 + totalWords ss < 2147483648) : Survives ss1 w.shp.data := by
  obtain ⟨a, b, hss, hdata⟩ := h.hdr
  have hta := totalWords_app (ss1 ++ a) b
  have hta1 := totalWords_app ss1 a
  rw [hss] at hb
  refine ⟨(finalHeader (ss1 ++ a)).enc, (recordsFrom (fileTypeOf ss1) 1 (ss1 ++ (a ++ b))).length, a ++ b,
    good_final ss1 a (by omega), ?_, ?_⟩
  · rw [List.take_of_length_le (Nat.le_refl _), hdata, List.append_assoc]
  · rw [recordsFrom_length, totalWords_app]; omega

/-- a torn write of `new` at offset 0 over `old ++ rest` -/
theorem writeAt_torn (old new rest : Bytes) (c : Nat) (ho : old.length = 100) (hn : new.length = 100) (hc : c ≤ 100) :
    writeAt (old ++ rest) 0 (new.take c) = (new.take c ++ old.drop c) ++ rest := by
  simp only [writeAt, zeros, Nat.zero_sub, List.replicate_zero, List.append_nil, List.take_zero, List.nil_append,
    Nat.zero_add, List.length_take, hn, Nat.min_eq_left hc]
  rw [List.drop_append_of_le_length (by omega), List.append_assoc]

/-- MAIN (writer side): once a finalize has committed `ss1`, EVERY crash point of the later history
leaves a .shp through which `ss1` stays reachable -/
theorem durable_crash {ss1 : List Shape} (hne : ss1 ≠ []) {w : World} {ss : List Shape} (h : DInv ss1 w ss)
    (cs : List WCall) (hcs : NonNullCalls cs) (hb : 50 + totalWords (cs.foldl acceptStep ss) < 2147483648)
    (k cut : Nat) : Survives ss1 (w.shp.applyPrefix (histOps .shp w cs) k cut).data := by
  induction cs generalizing w ss k with
  | nil =>
    simp only [histOps, Dst.applyPrefix_nil]
    exact h.survives hb
  | cons c cs ih =>
    have hc : c ≠ .writeShape .null := hcs c List.mem_cons_self
    have hcs' : NonNullCalls cs := fun x hx => hcs x (List.mem_cons_of_mem _ hx)
    have hnext := h.call hne c hc
    simp only [List.foldl_cons] at hb
    obtain ⟨more, hmore⟩ := foldl_acceptStep_prefix (acceptStep ss c) cs
    have hbnext : 50 + totalWords (acceptStep ss c) < 2147483648 := by
      rw [hmore, totalWords_app] at hb; omega
    obtain ⟨more0, hmore0⟩ := foldl_acceptStep_prefix ss [c]
    simp only [List.foldl_cons, List.foldl_nil] at hmore0
    have hbss : 50 + totalWords ss < 2147483648 := by
      rw [hmore0, totalWords_app] at hbnext; omega
    have hcd := (call_dests w c).1
    cases hp : plan w.st c with
    | error e =>
      rw [hp] at hcd
      simp only [List.foldl_nil] at hcd
      simp only [histOps, hp, List.nil_append]
      rw [← hcd]
      exact ih hnext hcs' hb k
    | ok p =>
      rw [hp] at hcd
      simp only [] at hcd
      simp only [histOps, hp, Dst.applyPrefix_append]
      by_cases hk : k < (opsFor .shp p.ops).length
      · rw [if_pos hk]
        -- the crash is inside this call
        obtain ⟨a, b, hss, hdata⟩ := h.hdr
        have hssne : ss ≠ [] := by rw [hss]; simp [hne]
        have hft : fileTypeOf ss = fileTypeOf ss1 := by
          rw [hss, List.append_assoc]; exact fileTypeOf_app ss1 (a ++ b) hne
        obtain ⟨_, _, _, hpos⟩ := h.inv.shp
        have hta := totalWords_app (ss1 ++ a) b
        have hta1 := totalWords_app ss1 a
        cases c with
        | finalize =>
          have hpe : p = planFinalize w.st := by
            have : plan w.st .finalize = .ok (planFinalize w.st) := rfl
            rw [this] at hp; exact (Except.ok.inj hp).symm
          subst hpe
          cases hd : w.st.dirty
          · have : (planFinalize w.st).ops = [] := by unfold planFinalize; simp [hd]
            rw [this] at hk
            simp [opsFor] at hk
          · have hops : opsFor .shp (planFinalize w.st).ops =
                [IOOp.seekStart 0, .write (finalHeader ss).enc, .seekEnd, .flush] := by
              rw [← hdrOf_of_inv h.inv]
              unfold planFinalize hdrOf opsFor
              cases hx : w.st.hasShx <;> simp [hd]
            rw [hops] at hk ⊢
            have hnew : Survives ss1 ((finalHeader ss).enc ++ recordsFrom (fileTypeOf ss1) 1 (ss1 ++ a ++ b)) := by
              rw [hss] at hbss ⊢
              refine ⟨_, (recordsFrom (fileTypeOf ss1) 1 (ss1 ++ (a ++ b))).length, a ++ b,
                good_final ss1 (a ++ b) (by rw [← List.append_assoc]; exact hbss), ?_, ?_⟩
              · rw [List.take_length, List.append_assoc ss1 a b]
              · rw [recordsFrom_length, totalWords_app, totalWords_app]; omega
            have hwrite : (({ w.shp with pos := 0 } : Dst).apply (.write (finalHeader ss).enc)).data =
                (finalHeader ss).enc ++ recordsFrom (fileTypeOf ss1) 1 (ss1 ++ a ++ b) := by
              have := writeAt_torn (finalHeader (ss1 ++ a)).enc (finalHeader ss).enc
                (recordsFrom (fileTypeOf ss1) 1 (ss1 ++ a ++ b)) 100 (Header.enc_length _) (Header.enc_length _) (Nat.le_refl _)
              rw [List.take_of_length_le (Nat.le_of_eq (Header.enc_length _)),
                List.drop_of_length_le (Nat.le_of_eq (Header.enc_length _)), List.append_nil] at this
              simp only [Dst.apply, hdata, this]
            match k, hk with
            | 0, _ =>
              simp only [Dst.applyPrefix, List.take_zero, List.foldl_nil, List.getElem?_cons_zero]
              exact h.survives hbss
            | 1, _ =>
              simp only [Dst.applyPrefix, List.take_succ_cons, List.take_zero, List.foldl_cons, List.foldl_nil,
                List.getElem?_cons_succ, List.getElem?_cons_zero, Dst.apply, hdata]
              have hcut : (finalHeader ss).enc.take cut = (finalHeader ss).enc.take (min cut 100) := by
                rw [List.take_eq_take_min, Header.enc_length]
              rw [hcut, writeAt_torn _ _ _ (min cut 100) (Header.enc_length _) (Header.enc_length _) (Nat.min_le_right _ _)]
              rw [hss] at hbss ⊢
              refine ⟨_, (recordsFrom (fileTypeOf ss1) 1 (ss1 ++ (a ++ b))).length, a ++ b,
                good_torn ss1 a b hne hbss (min cut 100) (Nat.min_le_right _ _), ?_, ?_⟩
              · rw [List.take_length, List.append_assoc ss1 a b]
              · rw [recordsFrom_length, totalWords_app, totalWords_app]; omega
            | 2, _ =>
              simp only [Dst.applyPrefix, List.take_succ_cons, List.take_zero, List.foldl_cons, List.foldl_nil,
                List.getElem?_cons_succ, List.getElem?_cons_zero]
              have : (w.shp.apply (.seekStart 0)) = { w.shp with pos := 0 } := rfl
              rw [this, hwrite]
              exact hnew
            | 3, _ =>
              simp only [Dst.applyPrefix, List.take_succ_cons, List.take_zero, List.foldl_cons, List.foldl_nil,
                List.getElem?_cons_succ, List.getElem?_cons_zero]
              have : (w.shp.apply (.seekStart 0)) = { w.shp with pos := 0 } := rfl
              rw [this]
              have : ((({ w.shp with pos := 0 } : Dst).apply (.write (finalHeader ss).enc)).apply .seekEnd).data =
                  (({ w.shp with pos := 0 } : Dst).apply (.write (finalHeader ss).enc)).data := rfl
              rw [this, hwrite]
              exact hnew
            | k + 4, hk4 => simp only [List.length_cons, List.length_nil] at hk4; omega
        | writeShape s =>
          have hs : s.writeType ≠ .nullShape := s.writeType_ne_null (fun e => hc (by rw [e]))
          have hpp : planWriteShape w.st s = .ok p := hp
          by_cases ha : accepts ss s
          · have ht' : fileTypeOf ss = s.writeType := by
              rcases ha with ha | ha
              · exact absurd ha hssne
              · exact ha
            have hnn : w.st.header.shapeType ≠ .nullShape := by rw [h.inv.shapeType, ht']; exact hs
            have hty : w.st.header.shapeType = s.writeType := by rw [h.inv.shapeType, ht']
            rw [plan_write_next w.st s hnn hty] at hpp
            have hpe := (Except.ok.inj hpp).symm
            subst hpe
            have hops : opsFor .shp
                ([(DestId.shp, IOOp.write (encRecord w.st.recNum s.writeType s))] ++
                   (if w.st.hasShx then [(.shx, .write (IndexEntry.enc ⟨w.st.header.fileLength, recordSizeWords s⟩))] else [])) =
                [IOOp.write (encRecord w.st.recNum s.writeType s)] := by
              unfold opsFor
              cases hx : w.st.hasShx <;> simp
            simp only [hops] at hk ⊢
            obtain ⟨c', hc'⟩ := write_prefix_persisted w.shp (encRecord w.st.recNum s.writeType s) hpos k cut
            rw [hc', hdata]
            rw [hss] at hbss
            refine ⟨(finalHeader (ss1 ++ a)).enc, (recordsFrom (fileTypeOf ss1) 1 (ss1 ++ a ++ b)).length + c', a ++ b ++ [s],
              good_final ss1 a (by omega), ?_, ?_⟩
            · have e : ss1 ++ (a ++ b ++ [s]) = (ss1 ++ a ++ b) ++ [s] := by simp
              rw [e, recordsFrom_append, take_append_len, List.append_assoc, h.inv.recNum, ← ht', hft, hss]
              congr 4
              push_cast
              omega
            · rw [recordsFrom_length, List.append_assoc, totalWords_app]; omega
          · have hty : fileTypeOf ss ≠ s.writeType := fun e => ha (Or.inr e)
            have hnn : w.st.header.shapeType ≠ .nullShape := by
              rw [h.inv.shapeType]
              cases ss with
              | nil => exact absurd rfl hssne
              | cons x xs => exact h.inv.homog.1
            rw [plan_write_rejected w.st s hnn (by rw [h.inv.shapeType]; exact hty)] at hpp
            cases hpp
      · rw [if_neg hk, ← hcd]
        exact ih hnext hcs' hb _

/-- MAIN (C11, last sentence, end to end): ANY history, a finalize that completed, ANY later history,
and a crash at ANY point of the operations that later history issues to the .shp — any operation,
any byte of a write, including inside a later rewrite of the header.  A reader opened on what was
persisted opens successfully and yields, first and in order, every shape accepted before that
finalize, each equal to the original as read back. -/
theorem durable_global (o : Orient) (tg : Target) (hasShx : Bool) (cs1 cs2 : List WCall) (k cut : Nat)
    (hcs : NonNullCalls (cs1 ++ WCall.finalize :: cs2))
    (hok : FileOK tg (acceptedOf (cs1 ++ WCall.finalize :: cs2)))
    (hne : acceptedOf cs1 ≠ []) :
    ∃ st, RState.open
        ((((World.init hasShx).run (cs1 ++ [WCall.finalize])).shp.applyPrefix
          (histOps .shp ((World.init hasShx).run (cs1 ++ [WCall.finalize])) cs2) k cut).data) none = .ok st ∧
      ∀ fuel, (acceptedOf cs1).length ≤ fuel →
        ∃ rest, (st.iterAll o tg fuel).2 = (acceptedOf cs1).map (fun s => ROut.shape (s.readBack o)) ++ rest := by
  have hcs1 : NonNullCalls cs1 := fun x hx => hcs x (List.mem_append_left _ hx)
  have hcs2 : NonNullCalls cs2 := fun x hx => hcs x (List.mem_append_right _ (List.mem_cons_of_mem _ hx))
  have hw0 := (WInv.run (WInv.init hasShx) cs1 hcs1).1
  have hrun : (World.init hasShx).run (cs1 ++ [WCall.finalize]) = (((World.init hasShx).run cs1).call .finalize).1 := by
    simp [World.run, List.foldl_append]
  rw [hrun]
  have hd := DInv.ofFinalize hw0 hne
  have hall : acceptedOf (cs1 ++ WCall.finalize :: cs2) = cs2.foldl acceptStep (acceptedOf cs1) := by
    simp [acceptedOf, List.foldl_append, acceptStep]
  rw [hall] at hok
  obtain ⟨more, hmore⟩ := foldl_acceptStep_prefix (acceptedOf cs1) cs2
  have htot := hok.total
  obtain ⟨HB, n, ss2, ⟨hHB, hgood⟩, hdata, hn⟩ := durable_crash hne hd cs2 hcs2 htot k cut
  obtain ⟨h, hread, hlo, hhi⟩ := hgood ((recordsFrom (fileTypeOf (acceptedOf cs1)) 1 (acceptedOf cs1 ++ ss2)).take n)
  rw [← hdata] at hread
  unfold RState.open
  simp only [hread]
  refine ⟨_, rfl, fun fuel hfuel => ?_⟩
  have hmem : ∀ s ∈ acceptedOf cs1, s ∈ cs2.foldl acceptStep (acceptedOf cs1) := by
    intro s hs; rw [hmore]; exact List.mem_append_left _ hs
  have hsrc : ((((World.init hasShx).run cs1).call WCall.finalize).1.shp.applyPrefix
      (histOps DestId.shp (((World.init hasShx).run cs1).call WCall.finalize).1 cs2) k cut).data.length -
      ((recordsFrom (fileTypeOf (acceptedOf cs1)) 1 (acceptedOf cs1 ++ ss2)).take n).length = 100 := by
    rw [hdata, List.length_append, hHB]; omega
  have htypes : ∀ s ∈ acceptedOf cs1, s.writeType = fileTypeOf (acceptedOf cs1) := by
    intro s hs
    have := hok.types s (hmem s hs)
    rw [this, hmore, fileTypeOf_app _ _ hne]
  have hl := length_le_totalWords (cs2.foldl acceptStep (acceptedOf cs1))
  have hlen1 : (acceptedOf cs1).length ≤ (cs2.foldl acceptStep (acceptedOf cs1)).length := by
    rw [hmore, List.length_append]; omega
  apply durable_stream o tg (fileTypeOf (acceptedOf cs1)) (acceptedOf cs1) ss2 1 n fuel _
    (fun s hs => hok.sized s (hmem s hs)) (fun s hs => hok.nonnull s (hmem s hs)) htypes
    (fun s hs => hok.accepts s (hmem s hs)) (by omega) rfl
  · show some Const.headerSize = some (_ - _)
    rw [hsrc]; rfl
  · show List.drop (_ - _) _ = _
    rw [hsrc, hdata, List.drop_left' hHB]
  · exact hn
  · show (_ - _) + _ ≤ _
    rw [hsrc]
    have hwb : wordsToBytes h.fileLength = some (2 * h.fileLength) := by
      unfold wordsToBytes; rw [if_neg (by omega)]
    simp only [hwb, Option.getD_some]
    omega
  · exact hfuel

/-- non-vacuity: a history meeting the hypotheses of `durable_global` -/
example : acceptedOf [WCall.writeShape (Shape.point .xy Pt.default)] ≠ [] ∧
    NonNullCalls ([WCall.writeShape (Shape.point .xy Pt.default)] ++ WCall.finalize ::
      [WCall.writeShape (Shape.point .xy Pt.default), WCall.finalize]) := by
  refine ⟨by decide, ?_⟩
  intro c hc
  simp at hc
  rcases hc with rfl | rfl | rfl | rfl <;> simp

end Shp.C11

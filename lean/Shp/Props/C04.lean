/-
C04 — the .shx written alongside a .shp addresses exactly its records.
-/
import Shp.Lemmas.ReadAll
import Shp.Props.C15
import Shp.Props.C09
namespace Shp.C04
open Shp

theorem acceptedOf_writes (ss : List Shape) (h : Homog ss) :
    acceptedOf (ss.map .writeShape) = ss := by
  unfold acceptedOf
  -- generalised: starting from an accepted prefix
  have gen : ∀ (pre rest : List Shape), Homog (pre ++ rest) →
      (rest.map WCall.writeShape).foldl acceptStep pre = pre ++ rest := by
    intro pre rest
    induction rest generalizing pre with
    | nil => intro _; simp
    | cons s rest ih =>
      intro hh
      have hacc : accepts pre s := by
        cases pre with
        | nil => exact Or.inl rfl
        | cons a as =>
          right
          exact (hh.2 s (by simp)).symm
      simp only [List.map_cons, List.foldl_cons, acceptStep, hacc, if_true]
      have := ih (pre ++ [s]) (by simpa using hh)
      simpa using this
  simpa using gen [] ss (by simpa using h)

/-- the files the model writer leaves for `ss`: header ++ records, and header' ++ index entries -/
theorem written_files (ss : List Shape) (h : Homog ss) (hnn : ∀ s ∈ ss, s ≠ .null) :
    writeFiles true ss = (shpFile ss, shxFile ss) ∧ (writeFiles false ss).1 = shpFile ss := by
  have hc : NonNullCalls (ss.map .writeShape) := by
    intro c hcm
    simp only [List.mem_map] at hcm
    obtain ⟨s, hs, rfl⟩ := hcm
    intro e
    exact hnn s hs (by cases e; rfl)
  have h1 := C09.history_files true (ss.map .writeShape) hc
  have h2 := C09.history_files false (ss.map .writeShape) hc
  rw [acceptedOf_writes ss h] at h1 h2
  refine ⟨?_, h2.1⟩
  simp only [writeFiles]
  rw [h1.1, h1.2]; rfl

/-- the `.shx` header is the `.shp` header except for its length field, which is 50 + 4n words -/
theorem shx_header (ss : List Shape) :
    shxFile ss = (finalShxHeader ss).enc ++ entriesFrom 50 ss ∧
    finalShxHeader ss = { finalHeader ss with fileLength := 50 + 4 * ss.length } := ⟨rfl, rfl⟩

/-- entry `i` holds the word offset of record `i`'s header and that record's content length -/
theorem entry_value (off : Nat) (ss : List Shape) (i : Nat) (hi : i < ss.length) :
    (indexEntriesFrom off ss)[i]'(by simpa using hi) =
      ⟨off + totalWords (ss.take i), recordSizeWords ss[i]⟩ := by
  induction ss generalizing off i with
  | nil => simp at hi
  | cons s ss ih =>
    cases i with
    | zero => simp [indexEntriesFrom, totalWords]
    | succ i =>
      simp only [indexEntriesFrom, List.getElem_cons_succ, List.take_succ_cons, totalWords]
      rw [ih (off + recordSizeWords s + 4) i (by simpa using hi)]
      simp only [IndexEntry.mk.injEq, and_true]
      push_cast; omega

/-- at that offset the `.shp` holds record `i`'s header: number `i + 1` and that content length -/
theorem entry_points_at_record (t : ShapeType) (ss : List Shape) (pre : Bytes) (k i : Nat) (hi : i < ss.length) :
    ∃ tail, (pre ++ recordsFrom t k ss).drop (pre.length + 2 * totalWords (ss.take i)) =
      encI32BE ((k + i : Nat) : Int) ++ encI32BE (recordSizeWords ss[i]) ++ tail := by
  induction ss generalizing pre k i with
  | nil => simp at hi
  | cons s ss ih =>
    cases i with
    | zero =>
      refine ⟨encI32LE t.code ++ s.encodeContent ++ recordsFrom t (k + 1) ss, ?_⟩
      simp [totalWords, recordsFrom, encRecord]
    | succ i =>
      obtain ⟨tail, ht⟩ := ih (pre ++ encRecord k t s) (k + 1) i (by simpa using hi)
      refine ⟨tail, ?_⟩
      simp only [List.take_succ_cons, totalWords, recordsFrom, List.getElem_cons_succ]
      rw [List.length_append, C18.encRecord_length, List.append_assoc] at ht
      have e : pre.length + 2 * (recordSizeWords s + 4 + totalWords (ss.take i)) =
          pre.length + (8 + 2 * recordSizeWords s) + 2 * totalWords (ss.take i) := by omega
      rw [e, ht]
      congr 3
      omega

/-- a reader given both files iterates over exactly the written shapes -/
theorem read_with_index (o : Orient) (tg : Target) (ss : List Shape) (hok : FileOK tg ss) :
    readAll o tg (shpFile ss) (some (shxFile ss)) = .ok (ss.map (Shape.readBack o)) := by
  obtain ⟨st, hopen, hinv, hn, hhdr⟩ := open_written o tg ss hok
  unfold readAll
  rw [hopen]
  simp only
  have hfuel : (ss.map (Shape.readBack o)).length ≤ st.nextShape + st.fuel := by
    obtain ⟨idx', hidx, hl, _⟩ := hinv.idx
    unfold RState.fuel; rw [hidx]; simp only; omega
  rw [hinv.drain st.fuel hfuel, hn, List.drop_zero, collectShapes_shapes]

theorem open_data (shp : Bytes) (st : RState) (h : RState.open shp none = .ok st) : st.data = shp := by
  unfold RState.open at h
  simp only at h
  cases hr : readHeader shp with
  | ok hd r => rw [hr] at h; simp only [Except.ok.injEq] at h; rw [← h]
  | err e => rw [hr] at h; cases h
  | panic e => rw [hr] at h; cases h

/-- ... and identically without the index (bytes after the declared length are ignored) -/
theorem read_without_index (o : Orient) (tg : Target) (ss : List Shape) (hok : FileOK tg ss) (extra : Bytes) :
    readAll o tg (shpFile ss ++ extra) none = .ok (ss.map (Shape.readBack o)) := by
  obtain ⟨st2, hopen2, hinv2, _⟩ := open_written_noindex o tg ss hok extra
  unfold readAll
  rw [hopen2]
  simp only
  have hfuel : (ss.map (Shape.readBack o)).length ≤ st2.fuel := by
    unfold RState.fuel
    rw [open_data _ _ hopen2]
    have := length_le_totalWords ss
    simp only [shpFile, List.length_append, Header.enc_length, recordsFrom_length, List.length_map]
    omega
  rw [hinv2.drain st2.fuel hfuel, collectShapes_shapes]

/-- shape count, random access at every `i < n` = the shape iteration yields at `i`, nothing past
the end -/
theorem random_access (o : Orient) (tg : Target) (ss : List Shape) (hok : FileOK tg ss) :
    ∃ st, RState.open (shpFile ss) (some (shxFile ss)) = .ok st ∧
      st.shapeCount = .count ss.length ∧
      (∀ i (hi : i < ss.length), (st.readNth o tg i).2 = .shape (ss[i].readBack o)) ∧
      (∀ i, ss.length ≤ i → (st.readNth o tg i).2 = .none) := by
  obtain ⟨st, hopen, hinv, hn, hhdr⟩ := open_written o tg ss hok
  have hlen : (ss.map (Shape.readBack o)).length = ss.length := by simp
  refine ⟨st, hopen, ?_, ?_, ?_⟩
  · rw [hinv.shapeCount, hlen]
  · intro i hi
    obtain ⟨st', he, _, _⟩ := hinv.readNth i (by omega)
    rw [he]; simp
  · intro i hi
    rw [hinv.readNth_none i (by omega)]

/-- after pulling `j` items the iterator's size hint is the number of shapes still to come -/
theorem size_hint (o : Orient) (tg : Target) (ss : List Shape) (hok : FileOK tg ss) (j : Nat) :
    ∃ st, RState.open (shpFile ss) (some (shxFile ss)) = .ok st ∧
      ((st.iterAll o tg j).1).sizeHint = some (ss.length - min j ss.length) := by
  obtain ⟨st, hopen, hinv, hn, hhdr⟩ := open_written o tg ss hok
  have hlen : (ss.map (Shape.readBack o)).length = ss.length := by simp
  refine ⟨st, hopen, ?_⟩
  obtain ⟨st', he, hinv', hn'⟩ := hinv.iterAll j
  rw [he]
  obtain ⟨idx', hidx, hl, _⟩ := hinv'.idx
  have : st'.sizeHint = some (idx'.length - st'.nextShape) := by
    unfold RState.sizeHint; rw [hidx]
  have e : idx'.length - st'.nextShape = ss.length - min j ss.length := by
    rw [hl, hn', hn, hlen]; omega
  rw [this, e]

end Shp.C04

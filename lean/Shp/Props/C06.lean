/-
C06 — typed reads agree with generic reads; shape type identity is consistent.
Table facts are over the tables GENERATED from src/record/*.rs on this run.
-/
import Shp.Lemmas.Post
import Shp.Model.Reader
namespace Shp.C06
open Shp Dec

/-! ### type identity over the 14 kinds (complete enumeration: the domain is finite) -/

/-- the type reported by a generic value = the type attached to its concrete Rust type -/
theorem shapetype_eq_concreteType (v : Variant) :
    v.concreteType = some v.shapetype ∨ (v = .nullShape ∧ v.concreteType = none) := by
  cases v <;> decide

/-- the generic reader builds, for a record of type `t`, the variant whose type is `t`,
using the reader of the concrete type `t` -/
theorem dispatch_consistent (t : ShapeType) :
    (dispatch t).1.shapetype = t ∧ (dispatch t).2 = (dispatch t).1.concreteType := by
  cases t <;> decide

/-- `From<T> for Shape` followed by `TryFrom<Shape> for T` is the identity: each concrete type
name converts to exactly one variant, whose concrete type it is -/
theorem conversion_table_bijective (v : Variant) (hv : v ≠ .nullShape) :
    ∃ n, Variant.ofConcreteName n = some v ∧ (v.concreteType.map ShapeType.name) = some n := by
  cases v
  case nullShape => exact absurd rfl hv
  all_goals exact ⟨_, rfl, rfl⟩

/-- distinct variants report distinct types -/
theorem shapetype_injective (a b : Variant) (h : a.shapetype = b.shapetype) : a = b := by
  cases a <;> cases b <;> first | rfl | (exfalso; revert h; decide)

/-! ### behaviour -/

/-- `TryFrom<Shape> for S` -/
def tryInto (S : ShapeType) (s : Shape) : Except Err Shape :=
  if s.shapetype = S then .ok s else .error (.mismatch S s.shapetype)

/-- `convert_shapes_to_vec_of::<S>`: stops at the first mismatch -/
def convertAll (S : ShapeType) : List Shape → Except Err (List Shape)
  | [] => .ok []
  | s :: rest => match tryInto S s with
    | .error e => .error e
    | .ok s' => match convertAll S rest with
      | .error e => .error e
      | .ok l => .ok (s' :: l)

theorem tryInto_self (s : Shape) : tryInto s.shapetype s = .ok s := by simp [tryInto]

theorem tryInto_other (S : ShapeType) (s : Shape) (h : s.shapetype ≠ S) :
    tryInto S s = .error (.mismatch S s.shapetype) := by simp [tryInto, h]

/-- the reader of type `t` only ever returns shapes of type `t` -/
theorem readContentOf_shapetype (o : Orient) (t : ShapeType) (rs : Int) :
    Post (readContentOf o t rs) (fun s => s.shapetype = t) := by
  cases t <;> simp only [readContentOf]
  case nullShape => exact Post.pure rfl
  case point => unfold readPointContent; exact Post.ite (fun _ => Post.bind fun _ => Post.bind fun _ => Post.pure rfl) (fun _ => Post.fail)
  case pointM => unfold readPointContent; exact Post.ite (fun _ => Post.bind fun _ => Post.bind fun _ => Post.bind fun _ => Post.pure rfl) (fun _ => Post.fail)
  case pointZ =>
    unfold readPointContent
    exact Post.ite (fun _ => Post.bind fun _ => Post.bind fun _ => Post.bind fun _ => Post.pure rfl)
      (fun _ => Post.ite (fun _ => Post.bind fun _ => Post.bind fun _ => Post.bind fun _ => Post.bind fun _ => Post.pure rfl) (fun _ => Post.fail))
  case multipoint | multipointM | multipointZ =>
    unfold readMultipointContent
    exact Post.bind fun _ => Post.bind fun _ => Post.ite (fun _ => Post.fail)
      (fun _ => Post.bind fun _ => Post.bind fun _ => Post.pure rfl)
  case polyline | polylineM | polylineZ | polygon | polygonM | polygonZ =>
    exact Post.bind fun _ => Post.pure rfl
  case multipatch =>
    unfold readMultipatchContent
    exact Post.bind fun _ => Post.ite (fun _ => Post.fail)
      (fun _ => Post.bind fun _ => Post.bind fun _ => Post.bind fun _ => Post.pure rfl)

/-- a generic read returns a shape whose reported type is the record's type code -/
theorem readShape_shapetype (o : Orient) (rs : Int) (bs : Bytes) (s : Shape) (rest : Bytes)
    (h : readShape o rs bs = .ok s rest) :
    ∃ t r, readShapeType bs = .ok t r ∧ s.shapetype = t := by
  unfold readShape at h
  obtain ⟨t, r, ht, h2⟩ := bind_ok h
  obtain ⟨rs', r2, _, h3⟩ := bind_ok h2
  refine ⟨t, r, ht, ?_⟩
  have hd := dispatch_consistent t
  cases hdt : (dispatch t).2 with
  | none =>
    rw [hdt] at h3
    simp only [Dec.pure, Res.ok.injEq] at h3
    have : t = .nullShape := by
      revert hdt; cases t <;> decide
    rw [← h3.1, this]; rfl
  | some r' =>
    rw [hdt] at h3
    have hr : r' = t := by
      revert hdt; cases t <;> simp [dispatch] <;> intro h <;> exact h.symm
    subst hr
    exact readContentOf_shapetype o _ rs' r2 s rest h3

/-- MAIN: whenever the generic read of a record succeeds, the read as concrete type `S` returns
exactly the generic result converted to `S`: the same shape when the record's type is `S`, and
otherwise the mismatch error naming `S` as requested and the record's type as actual — never a
value of another type. -/
theorem typed_read_eq_generic_then_convert (o : Orient) (S : ShapeType) (hS : S ≠ .nullShape)
    (rs : Int) (bs : Bytes) (s : Shape) (rest : Bytes) (h : readShape o rs bs = .ok s rest) :
    readShapeAs o S rs bs =
      (match tryInto S s with
       | .ok s' => .ok s' rest
       | .error e => .err e) := by
  obtain ⟨t, r, ht, hst⟩ := readShape_shapetype o rs bs s rest h
  unfold readShape at h
  rw [bind_of_ok ht] at h
  obtain ⟨rs', r2, hsub, h3⟩ := bind_ok h
  unfold readShapeAs
  rw [bind_of_ok ht, bind_of_ok hsub]
  by_cases hts : t = S
  · subst hts
    rw [if_pos rfl]
    have : (dispatch t).2 = some t := by
      revert hS; cases t <;> simp [dispatch]
    rw [this] at h3
    simp only at h3
    rw [h3, ← hst, tryInto_self]
  · rw [if_neg hts, tryInto_other S s (by rw [hst]; exact hts), hst]
    rfl

/-- the typed read never yields a value of the wrong type -/
theorem typed_read_type (o : Orient) (S : ShapeType) (rs : Int) :
    Post (readShapeAs o S rs) (fun s => s.shapetype = S) := by
  unfold readShapeAs
  exact Post.bind fun t => Post.bind fun rs' => Post.ite (fun _ => readContentOf_shapetype o S rs') (fun _ => Post.fail)

/-- bulk conversion succeeds iff every shape has the requested type, and then is the identity -/
theorem convertAll_ok_iff (S : ShapeType) (ss : List Shape) :
    convertAll S ss = .ok ss ↔ ∀ s ∈ ss, s.shapetype = S := by
  induction ss with
  | nil => simp [convertAll]
  | cons s rest ih =>
    simp only [convertAll, List.mem_cons, forall_eq_or_imp]
    by_cases hs : s.shapetype = S
    · simp only [tryInto, hs, if_true]
      constructor
      · intro h
        cases hc : convertAll S rest with
        | error e => rw [hc] at h; cases h
        | ok l =>
          rw [hc] at h
          simp only [Except.ok.injEq, List.cons.injEq, true_and] at h
          exact ⟨trivial, ih.mp (by rw [hc, h])⟩
      · intro h
        rw [ih.mpr h.2]
    · simp only [tryInto, hs, if_false]
      constructor
      · intro h; cases h
      · intro h; exact h.1.elim

/-- bulk conversion fails with the mismatch of the FIRST shape of another type -/
theorem convertAll_first_mismatch (S : ShapeType) (pre : List Shape) (bad : Shape) (post : List Shape)
    (hpre : ∀ s ∈ pre, s.shapetype = S) (hbad : bad.shapetype ≠ S) :
    convertAll S (pre ++ bad :: post) = .error (.mismatch S bad.shapetype) := by
  induction pre with
  | nil => simp [convertAll, tryInto, hbad]
  | cons s rest ih =>
    have hs : s.shapetype = S := hpre s (List.mem_cons_self)
    have := ih (fun x hx => hpre x (List.mem_cons_of_mem _ hx))
    simp [convertAll, tryInto, hs, this]

/-- non-vacuity: a MultipointZ value reports MultipointZ (the arm that was wrong before the repair) -/
example : (Shape.multipoint .xyzm BBox.default []).shapetype = .multipointZ := rfl
example : tryInto .polyline (Shape.point .xy Pt.default) = .error (.mismatch .polyline .point) := by
  simp [tryInto, Shape.shapetype, Shape.variant, Variant.shapetype]

/-- a file without records (the header declares no more than itself) read under ANY target —
generically or as any of the 13 concrete types, whatever type the header names — is the empty
list: the header's type is not consulted -/
theorem empty_file_any_target (o : Orient) (tg : Target) (shp : Bytes) (h : Header) (rest : Bytes)
    (hh : readHeader shp = .ok h rest) (hl : h.fileLength ≤ 50) :
    readAll o tg shp none = .ok [] := by
  unfold readAll RState.open
  simp only [hh]
  unfold RState.fuel
  simp only [Nat.add_zero]
  have hf : ((wordsToBytes h.fileLength).getD 0).toNat ≤ Const.headerSize := by
    unfold wordsToBytes Const.headerSize
    split <;> simp <;> omega
  rw [show shp.length + 2 = (shp.length + 1) + 1 from rfl]
  simp only [RState.iterAll, RState.iterNext, if_pos hf, collectShapes]

end Shp.C06
